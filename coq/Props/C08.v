(* C08 - key search and sub-key filters.  Statements only; proofs in Proofs/C08P.v,
   specification vocabulary in Spec/SubKeys.v and Spec/KeySearch.v. *)
From Coq Require Import Permutation.
From Mxj Require Import Model.TreeOps Spec.PathSem Spec.SubKeys Spec.KeySearch
  Proofs.C07P Proofs.KVTotal Proofs.C08P.

Theorem C08_values_for_key_no_panic : forall pf sep m k sk, values_for_key pf sep m k sk <> Panic.
Proof. exact values_for_key_no_panic. Qed.
Print Assumptions C08_values_for_key_no_panic.

(* ---- 1. sub-keys only filter: ValuesForKey ---- *)
(* the walker, for every sub-key map *)
Theorem C08_has_key_walk_filter : forall m k sk,
  has_key_walk m k sk = filter (fun v => has_sub_keys v sk) (has_key_walk m k []).
Proof. exact has_key_walk_filter. Qed.
Print Assumptions C08_has_key_walk_filter.

(* the exported function, from the sub-key strings *)
Theorem C08_values_for_key_filter : forall pf sep m k sks sk,
  get_sub_key_map pf sep sks = Ok sk ->
  values_for_key pf sep m k sks =
  match values_for_key pf sep m k [] with
  | Ok vs => Ok (filter (fun v => has_sub_keys v sk) vs)
  | Err e => Err e
  | Panic => Panic
  end.
Proof. exact values_for_key_filter. Qed.
Print Assumptions C08_values_for_key_filter.

(* ---- 2. sub-keys only filter: ValuesForPath ---- *)
Theorem C08_vfkp_filter : forall ks sk m,
  vfkp ks sk m = filter (fun v => has_sub_keys v sk) (vfkp ks [] m).
Proof. exact vfkp_filter. Qed.
Print Assumptions C08_vfkp_filter.

(* every path string, with or without '[' *)
Theorem C08_values_for_path_filter : forall pf sep m path sks sk,
  get_sub_key_map pf sep sks = Ok sk ->
  values_for_path pf sep m path sks =
  match values_for_path pf sep m path [] with
  | Ok vs => Ok (filter (fun v => has_sub_keys v sk) vs)
  | Err e => Err e
  | Panic => Panic
  end.
Proof. exact values_for_path_filter. Qed.
Print Assumptions C08_values_for_path_filter.

(* malformed sub-key strings are reported as an error, whatever the Map, key or path *)
Theorem C08_values_for_key_bad_subkeys : forall pf sep m k sks e,
  get_sub_key_map pf sep sks = Err e -> values_for_key pf sep m k sks = Err e.
Proof. exact values_for_key_bad_subkeys. Qed.
Print Assumptions C08_values_for_key_bad_subkeys.

Theorem C08_values_for_path_bad_subkeys : forall pf sep m path sks e,
  get_sub_key_map pf sep sks = Err e -> values_for_path pf sep m path sks = Err e.
Proof. exact values_for_path_bad_subkeys. Qed.
Print Assumptions C08_values_for_path_bad_subkeys.

(* ---- 3. hasSubKeys is the declarative predicate sat_all ---- *)
Theorem C08_has_sub_keys_sat_all : forall v sk, has_sub_keys v sk = sat_all (conds_of sk) v.
Proof. exact has_sub_keys_sat_all. Qed.
Print Assumptions C08_has_sub_keys_sat_all.

(* ---- 4. PathsForKey returns exactly the existing key paths ending in the key, each once ---- *)
Theorem C08_paths_for_key_exact : forall m k p,
  In p (paths_for_key m k) <->
  exists ks, ks <> [] /\ p = trail ks /\ last ks [] = k /\ path_exists ks m.
Proof. exact paths_for_key_exact. Qed.
Print Assumptions C08_paths_for_key_exact.

Theorem C08_paths_for_key_nodup : forall m k, NoDup (paths_for_key m k).
Proof. exact paths_for_key_nodup. Qed.
Print Assumptions C08_paths_for_key_nodup.

(* [trail] is the "."-join unless the key list starts with an empty key *)
Theorem C08_trail_join : forall ks, hd [] ks <> [] -> trail ks = join sdot ks.
Proof. exact trail_join. Qed.
Print Assumptions C08_trail_join.

(* a Map whose top-level keys are not empty: paths are the joined key lists *)
Theorem C08_paths_for_key_exact_join : forall vv k p,
  Forall (fun kv => fst kv <> []) vv ->
  (In p (paths_for_key (VMap vv) k) <->
   exists ks, ks <> [] /\ p = join sdot ks /\ last ks [] = k /\ path_exists ks (VMap vv)).
Proof. exact paths_for_key_exact_join. Qed.
Print Assumptions C08_paths_for_key_exact_join.

(* the side condition is needed: with an empty top-level key the separator is lost,
   and the reported path does not lead back to the value *)
Theorem C08_paths_for_key_join_refuted :
  exists vv k p,
    In p (paths_for_key (VMap vv) k) /\
    ~ (exists ks, ks <> [] /\ p = join sdot ks /\ last ks [] = k /\ path_exists ks (VMap vv)) /\
    values_for_path (fun _ => None) (s ":") (VMap vv) p [] = Ok [].
Proof. exact paths_for_key_join_refuted. Qed.
Print Assumptions C08_paths_for_key_join_refuted.

(* the inductive [path_exists] and the computable [path_existsb] agree *)
Theorem C08_path_existsb_spec : forall ks v, path_existsb ks v = true <-> path_exists ks v.
Proof. exact path_existsb_spec. Qed.
Print Assumptions C08_path_existsb_spec.

(* ---- 5. PathForKeyShortest: a member of the paths with the fewest segments ---- *)
Theorem C08_shortest_minimal : forall ps,
  ps <> [] ->
  In (shortest ps) ps /\ forall p, In p ps -> path_len (shortest ps) <= path_len p.
Proof. exact shortest_minimal. Qed.
Print Assumptions C08_shortest_minimal.

Theorem C08_shortest_for_key : forall m k,
  paths_for_key m k <> [] ->
  In (shortest (paths_for_key m k)) (paths_for_key m k) /\
  forall p, In p (paths_for_key m k) -> path_len (shortest (paths_for_key m k)) <= path_len p.
Proof. intros m k. exact (shortest_minimal (paths_for_key m k)). Qed.
Print Assumptions C08_shortest_for_key.

Theorem C08_shortest_none : shortest [] = [].
Proof. exact shortest_nil. Qed.
Print Assumptions C08_shortest_none.

(* ---- 6. ValuesForKey returns exactly the values stored under the key ---- *)
Theorem C08_has_key_walk_stored : forall m k,
  (k = star -> key_free star m = true) ->
  has_key_walk m k [] = stored_under k m.
Proof. exact has_key_walk_stored. Qed.
Print Assumptions C08_has_key_walk_stored.

(* in general, under "*", the values stored under a literal "*" key come twice *)
Theorem C08_has_key_walk_star : forall m,
  Permutation (has_key_walk m star []) (stored_literal star m ++ stored_under star m).
Proof. exact has_key_walk_star. Qed.
Print Assumptions C08_has_key_walk_star.

Theorem C08_has_key_walk_star_literal_twice :
  exists m, has_key_walk m star [] <> stored_under star m /\
            has_key_walk m star [] = stored_under star m ++ stored_under star m.
Proof. exact has_key_walk_star_literal_twice. Qed.
Print Assumptions C08_has_key_walk_star_literal_twice.

(* ---- non-vacuity ---- *)
Local Open Scope string_scope.
Definition bk (a t : string) (seq : bool) : value :=
  VMap ([(s"author", VStr (s a)); (s"title", VStr (s t))] ++ if seq then [(s"-seq", VStr (s"1"))] else []).
Definition ex8 : value :=
  VMap [(s"doc", VMap [(s"books", VList [bk "A" "T1" true; bk "B" "T2" false; bk "A" "T3" false]);
                       (s"shelf", VMap [(s"books", bk "C" "T4" false); (s"n", VInt 1)])])].
Definition nopf : str -> option flt := fun _ => None.

(* 1: a sub-key keeps two of the four books found under "books" *)
Example C08_ex_key_filter :
  values_for_key nopf (s":") ex8 (s"books") [] =
    Ok [bk "A" "T1" true; bk "B" "T2" false; bk "A" "T3" false; bk "C" "T4" false] /\
  get_sub_key_map nopf (s":") [s"author:A"] = Ok [(s"author", VStr (s"A"))] /\
  values_for_key nopf (s":") ex8 (s"books") [s"author:A"] = Ok [bk "A" "T1" true; bk "A" "T3" false].
Proof. vm_compute. repeat split. Qed.

(* 2: plain, wildcard and indexed paths; negated and wildcard conditions *)
Example C08_ex_path_filter :
  values_for_path nopf (s":") ex8 (s"doc.books") [s"!author:A"] = Ok [bk "B" "T2" false] /\
  values_for_path nopf (s":") ex8 (s"doc.*.books") [s"-seq:*"] = Ok [] /\
  values_for_path nopf (s":") ex8 (s"doc.books") [s"-seq:*"] = Ok [bk "A" "T1" true] /\
  values_for_path nopf (s":") ex8 (s"doc.books") [s"!-seq:*"; s"author:A"] = Ok [bk "A" "T3" false] /\
  values_for_path nopf (s":") ex8 (s"doc.books[2]") [s"author:A"] = Ok [bk "A" "T3" false] /\
  values_for_path nopf (s":") ex8 (s"doc.books[1]") [s"author:A"] = Ok [] /\
  values_for_path nopf (s":") ex8 (s"doc.books") [s"author"] = Err EOther.
Proof. vm_compute. repeat split. Qed.

(* 3: the conditions read off a sub-key map, and their verdicts *)
Example C08_ex_conds :
  get_sub_key_map nopf (s":") [s"!author:B"; s"-seq:*"; s"ok:true:bool"] =
    Ok [(s"!author", VStr (s"B")); (s"-seq", VStr (s"*")); (s"ok", VBool true)] /\
  conds_of [(s"!author", VStr (s"B")); (s"-seq", VStr (s"*")); (s"ok", VBool true)] =
    [ {| c_neg := true; c_key := s"author"; c_val := VStr (s"B") |};
      {| c_neg := false; c_key := s"-seq"; c_val := VStr (s"*") |};
      {| c_neg := false; c_key := s"ok"; c_val := VBool true |} ] /\
  sat_all (conds_of [(s"!author", VStr (s"B")); (s"-seq", VStr (s"*"))]) (bk "A" "T1" true) = true /\
  sat_all (conds_of [(s"!author", VStr (s"B")); (s"-seq", VStr (s"*"))]) (bk "B" "T2" true) = false /\
  sat_all (conds_of [(s"!author", VStr (s"B")); (s"-seq", VStr (s"*"))]) (bk "A" "T1" false) = false /\
  sat_all (conds_of [(s"ok", VBool true)]) (VMap [(s"ok", VStr (s"true"))]) = false /\
  sat_all (conds_of [(s"ok", VBool true)]) (VMap [(s"ok", VBool true)]) = true /\
  sat_all (conds_of [(s"!zz", VStr (s"*"))]) (bk "A" "T1" false) = true /\
  sat_all (conds_of [(s"author", VStr (s"A"))]) (VStr (s"A")) = false.
Proof. vm_compute. repeat split. Qed.

(* 4: two distinct paths although "books" is reached through three list members *)
Example C08_ex_paths :
  paths_for_key ex8 (s"title") = [s"doc.books.title"; s"doc.shelf.books.title"] /\
  path_existsb [s"doc"; s"books"; s"title"] ex8 = true /\
  path_existsb [s"doc"; s"title"] ex8 = false /\
  Forall (fun kv => fst kv <> []) [(s"doc", VNil)].
Proof.
  split; [vm_compute; reflexivity|]. split; [vm_compute; reflexivity|].
  split; [vm_compute; reflexivity|]. repeat constructor; discriminate.
Qed.

(* 5 *)
Example C08_ex_shortest :
  paths_for_key ex8 (s"books") = [s"doc.books"; s"doc.shelf.books"] /\
  shortest (paths_for_key ex8 (s"books")) = s"doc.books" /\
  shortest [s"a.b.c"; s"x.y"; s"p.q"; s"a.b.c.d"] = s"x.y".
Proof. vm_compute. repeat split. Qed.

(* 6 *)
Example C08_ex_stored :
  key_free star ex8 = true /\
  stored_under (s"author") ex8 = [VStr (s"A"); VStr (s"B"); VStr (s"A"); VStr (s"C")] /\
  length (stored_under star ex8) = 16.
Proof. vm_compute. repeat split. Qed.

(* ================================================================== tie to the code (regenerated on every run)
   Gen/Pure_gen.v is go2v's statement-by-statement translation of getSubKeyMap, hasSubKeys and Map.PathForKeyShortest in
   /repo's CURRENT keyvalues.go.  They ARE the model functions the theorems above are about: for every package state
   with a non-empty field separator, every sub-key list, every value, and every result of PathsForKey (an external call
   of the translated PathForKeyShortest, instantiated here with any function). *)
From Mxj Require Import Gen.Setters_gen Gen.PureSupport Gen.Pure_gen GenProofs.PureG2.

Theorem C08_get_sub_key_map_code_is_model : forall pf st kv, g_fieldSep st <> [] ->
  fn_getSubKeyMap pf st kv =
    match get_sub_key_map pf (g_fieldSep st) kv with Ok m => Ret (Ok m) | Err e => Ret (Err e) | Panic => Crash end.
Proof. exact get_sub_key_map_code_is_model. Qed.
Print Assumptions C08_get_sub_key_map_code_is_model.

Theorem C08_has_sub_keys_code_is_model : forall st v subkeys,
  fn_hasSubKeys st v subkeys = Ret (has_sub_keys v subkeys).
Proof. exact has_sub_keys_code_is_model. Qed.
Print Assumptions C08_has_sub_keys_code_is_model.

Theorem C08_shortest_code_is_model : forall (ext : entries -> str -> list str) st mv key,
  fn_PathForKeyShortest ext st mv key = Ret (shortest (ext mv key)).
Proof. exact shortest_code_is_model. Qed.
Print Assumptions C08_shortest_code_is_model.

Theorem C08_sub_key_code_no_panic : forall pf st kv v sk, g_fieldSep st <> [] ->
  fn_getSubKeyMap pf st kv <> Crash /\ fn_hasSubKeys st v sk <> Crash.
Proof. intros pf st kv v sk H. split; [exact (get_sub_key_map_code_no_panic pf st kv H)|exact (has_sub_keys_code_no_panic st v sk)]. Qed.
Print Assumptions C08_sub_key_code_no_panic.

Example C08_code_nonvacuous :
  g_fieldSep gstate0 <> [] /\
  fn_getSubKeyMap (fun x => Some x) gstate0 [s "id:7:num"; s "!hidden:*"; s "ok:true:bool"] =
    Ret (Ok [(s "id", VFlt (s "7")); (s "!hidden", VStr (s "*")); (s "ok", VBool true)]) /\
  fn_hasSubKeys gstate0 (VMap [(s "id", VFlt (s "7")); (s "ok", VBool true)])
    [(s "id", VFlt (s "7")); (s "!hidden", VStr (s "*")); (s "ok", VBool true)] = Ret true /\
  fn_hasSubKeys gstate0 (VMap [(s "id", VFlt (s "7")); (s "hidden", VNil)]) [(s "!hidden", VStr (s "*"))] = Ret false /\
  fn_PathForKeyShortest (fun _ _ => [s "a.b.id"; s "configuration.id"; s "x.y.z.id"]) gstate0 [] (s "id") = Ret (s "configuration.id").
Proof. vm_compute. repeat split. discriminate. Qed.

(* the recursive walker behind ValuesForKey: go2v's translation of func hasKey IS the model's [has_key_walk], for every
   fuel above the depth of the value *)
From Mxj Require Import GenProofs.PureG3.

Theorem C08_has_key_code_is_model : forall iv fuel st key ret cnt sk,
  vd iv < fuel ->
  fn_hasKey has_sub_keys fuel st iv key ret cnt sk
  = Ret (ret ++ has_key_walk iv key sk, (cnt + Z.of_nat (length (has_key_walk iv key sk)))%Z).
Proof. exact has_key_code_is_model. Qed.
Print Assumptions C08_has_key_code_is_model.

Example C08_has_key_code_nonvacuous :
  let m := VMap [(s "a", VMap [(s "k", VStr (s "1")); (s "b", VList [VMap [(s "k", VMap [(s "id", VStr (s "7"))])]; VStr (s "x")])])] in
  vd m < 6 /\
  fn_hasKey has_sub_keys 6 gstate0 m (s "k") [] 0 [] = Ret ([VStr (s "1"); VMap [(s "id", VStr (s "7"))]], 2%Z) /\
  fn_hasKey has_sub_keys 6 gstate0 m (s "k") [] 0 [(s "id", VStr (s "7"))] = Ret ([VMap [(s "id", VStr (s "7"))]], 1%Z).
Proof. split; [vm_compute; repeat constructor|split; vm_compute; reflexivity]. Qed.

(* the recursive walker behind PathsForKey: go2v's translation of func hasKeyPath puts exactly the model's trails into the
   basket (a map[string]bool, threaded as state), in the model's order; its keys are distinct and are a permutation of the
   model's paths_for_key (PathsForKey then copies the keys out in hash order) *)
From Mxj Require Import GenProofs.PureG4.

Theorem C08_has_key_path_code_is_model : forall iv fuel st crumbs key basket,
  vd iv < fuel ->
  fn_hasKeyPath fuel st crumbs iv key basket = Ret (bins (has_key_path crumbs iv key) basket).
Proof. exact has_key_path_code_is_model. Qed.
Print Assumptions C08_has_key_path_code_is_model.

Theorem C08_paths_for_key_code_perm : forall m fuel st key,
  vd m < fuel ->
  exists basket, fn_hasKeyPath fuel st [] m key [] = Ret basket /\
                 Permutation (map fst basket) (paths_for_key m key).
Proof. exact paths_for_key_code_perm. Qed.
Print Assumptions C08_paths_for_key_code_perm.

Example C08_has_key_path_code_nonvacuous :
  fn_hasKeyPath 6 gstate0 [] (VMap [(s "a", VMap [(s "k", VStr (s "1")); (s "b", VList [VMap [(s "k", VNil)]; VMap [(s "k", VNil)]])])]) (s "k") []
  = Ret [(s "a.k", true); (s "a.b.k", true)].
Proof. vm_compute. reflexivity. Qed.

(* the EXPORTED entry point: go2v's translation of Map.ValuesForKey, calling the translated getSubKeyMap and the translated
   hasKey (run with enough fuel), IS the model's values_for_key *)
From Mxj Require Import GenProofs.PureG5.

Theorem C08_values_for_key_code_is_model : forall pf st m key subkeys,
  g_fieldSep st <> [] ->
  fn_ValuesForKey (run_getSubKeyMap pf st) (run_hasKey st) st m key subkeys
  = of_res (values_for_key pf (g_fieldSep st) (VMap m) key subkeys).
Proof. exact values_for_key_code_is_model. Qed.
Print Assumptions C08_values_for_key_code_is_model.

Example C08_values_for_key_code_nonvacuous :
  fn_ValuesForKey (run_getSubKeyMap (fun x => Some x) gstate0) (run_hasKey gstate0) gstate0
    [(s "a", VList [VMap [(s "k", VMap [(s "id", VStr (s "7"))])]; VMap [(s "k", VMap [(s "id", VStr (s "8"))])]])] (s "k") [s "id:7"]
  = Ret (Ok [VMap [(s "id", VStr (s "7"))]]) /\
  fn_ValuesForKey (run_getSubKeyMap (fun x => Some x) gstate0) (run_hasKey gstate0) gstate0 [] (s "k") [s "a:b:c:d"] = Ret (Err EOther).
Proof. split; vm_compute; reflexivity. Qed.

(* ---- Map.ValueForKey (keyvalues.go), translated from the current sources and instantiated with the translated
   ValuesForKey: the first value ValuesForKey returns, KeyNotExistError when there is none (GenProofs/PureG7.v) *)
From Mxj Require Import GenProofs.PureG7.

Theorem C08_value_for_key_code_is_model : forall pf st m key subkeys, g_fieldSep st <> [] ->
  fn_ValueForKey (run_ValuesForKey pf st) st m key subkeys
  = of_res (bind (values_for_key pf (g_fieldSep st) (VMap m) key subkeys)
                 (fun vs => match vs with [] => Err EOther | v :: _ => Ok v end)).
Proof. exact value_for_key_code_is_model. Qed.
Print Assumptions C08_value_for_key_code_is_model.

(* ---- Map.PathsForKey (keyvalues.go), translated from the current sources (the basket handed to hasKeyPath, nil for an
   empty basket, make + the range loop that copies the keys out) and instantiated with the translated hasKeyPath:
   a permutation of the model's paths_for_key - Go ranges over the basket in hash order (GenProofs/PureG10.v) *)
From Mxj Require Import GenProofs.PureG10.

Theorem C08_paths_for_key_entry_code_is_model : forall st m key,
  exists ps, fn_PathsForKey (run_hasKeyPath st) st m key = Ret ps /\ Permutation ps (paths_for_key (VMap m) key).
Proof. exact paths_for_key_entry_code_is_model. Qed.
Print Assumptions C08_paths_for_key_entry_code_is_model.
