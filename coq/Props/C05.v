(* C05 - Special characters survive encoding; invalid output is an error, never silent.
   Statements only; proofs are in Proofs/EscP.v (character level), Proofs/C05P.v (encoder,
   setters, validity check) and Proofs/C14Dec.v (the decoder's structure lemma).
   Model: escape_chars / xml_decode (Model/XmlDec.v), enc / esc (Model/XmlEnc.v), the setters and
   the post-encode check (Model/EscOpts.v); tied to /repo by the correspondence check
   (escapeChars through the verif hook on all single bytes and random strings, the setter state
   through VerifOptionState, Map.Xml bytes with and without the check, NewMapXml under
   decoder-side escaping).  Spec: Spec/EscSpec.v.
   The MapSeq encoders (xmlseq.go) are modelled by C04; here their validity check is the same wrapper
   checked_enc (since fix 122e022 also for MapSeq.Xml) - the rest of the MapSeq clauses is covered by
   the Go-side oracle. *)
From Mxj Require Import Spec.EscSpec Spec.CastSpec Proofs.EscP Proofs.C05P Proofs.C14Dec Run.RunXml.

(* ---------------- character level, all strings ---------------- *)
(* the five sequential bytes.Replace passes equal one pass over the string ('&' is replaced first) *)
Theorem C05_escape_single_pass : forall x, escape_chars x = flat_map esc1 x.
Proof. exact escape_single_pass_l. Qed.
Print Assumptions C05_escape_single_pass.

(* the tokenizer's reading of the five entities inverts escaping: exact value recovery, no double escaping *)
Theorem C05_unescape_escape : forall x, unescape (escape_chars x) = Some x.
Proof. exact unescape_escape_l. Qed.
Print Assumptions C05_unescape_escape.

(* the escaped text can be written as character data and inside a quoted attribute value *)
Theorem C05_escape_safe : forall x, safe_raw (escape_chars x) = true.
Proof. exact escape_safe_l. Qed.
Print Assumptions C05_escape_safe.

(* what safe means: no less-than, greater-than, double or single quote occurs, every ampersand opens
   one of the five entities, and the CDATA terminator does not occur *)
Theorem C05_safe_text : forall y, safe_raw y = true ->
  (forall c, forbidden c = true -> ~ In c y) /\
  (forall pre post, y = pre ++ c_amp :: post -> exists e, In e entities /\ prefixb (fst e) post = true) /\
  containsb (s "]]>") y = false.
Proof. exact safe_text_l. Qed.
Print Assumptions C05_safe_text.

(* ---------------- the Map encoder: each value is escaped exactly once iff XMLEscapeChars ---------------- *)
(* a string leaf in the three positions: element text, attribute value, text-key value *)
Theorem C05_no_double_escape : forall o x key,
  enc o (VStr x) key =
    Ok (match esc o x with [] => close_or_empty o key [] | e => [IOpen key []; IText e; IClose key] end) /\
  attr_text o (VStr x) = Some (esc o x) /\
  text_text o (VStr x) = esc o x /\
  esc o x = (if xmlEscapeChars o then escape_chars x else x).
Proof. exact no_double_escape_l. Qed.
Print Assumptions C05_no_double_escape.

(* the whole Map: with XMLEscapeChars on, every text Map.Xml writes is the once-escaped, safe text of
   a string leaf (read back by the tokenizer as exactly that string), or the %v text of a non-string scalar *)
Theorem C05_encoder_escapes_once : forall o v key its,
  xmlEscapeChars o = true -> text_scalar o v = true -> enc o v key = Ok its ->
  forall raw, In raw (raw_texts its) ->
    (exists x, In (VStr x) (scalar_leaves v) /\ raw = escape_chars x /\ safe_raw raw = true /\ unescape raw = Some x) \/
    (exists l, In l (scalar_leaves v) /\ (forall x, l <> VStr x) /\ raw = leaf_raw o l).
Proof. exact enc_esc_safe_l. Qed.
Print Assumptions C05_encoder_escapes_once.

(* whatever the escaping mode, every written text is the text of a scalar leaf passed through esc once *)
Theorem C05_encoder_texts_from_leaves : forall o v key its,
  text_scalar o v = true -> enc o v key = Ok its -> incl (raw_texts its) (map (leaf_raw o) (scalar_leaves v)).
Proof. exact enc_raw_from_leaves_l. Qed.
Print Assumptions C05_encoder_texts_from_leaves.

(* the two switches are never both on, after any history of calls to the two setters (with or
   without argument) from any state: double escaping by decoding with escaping and then encoding with escaping is unreachable *)
Theorem C05_setters_never_both : forall h o,
  xmlEscapeChars o && xmlEscapeCharsDecoder o = false ->
  xmlEscapeChars (apply_calls h o) && xmlEscapeCharsDecoder (apply_calls h o) = false.
Proof. exact apply_calls_inv. Qed.
Print Assumptions C05_setters_never_both.

(* ---------------- decoder-side escaping ---------------- *)
(* the Map decoded under XMLEscapeCharsDecoder is the plain decoded Map with every string leaf
   escaped (same structure, same keys, same error class) - for every token list *)
Theorem C05_dec_esc_reproduces : forall pf skip o0 o1, same_structure_opts o0 o1 ->
  xmlEscapeCharsDecoder o0 = false -> xmlEscapeCharsDecoder o1 = true -> forall ts tm,
  xml_decode pf skip o1 false ts tm =
  map_leaves_res (fun x => VStr (escape_chars x)) (xml_decode pf skip o0 false ts tm).
Proof. exact dec_esc_reproduces_l. Qed.
Print Assumptions C05_dec_esc_reproduces.

(* re-encoding such a leaf with encoder escaping off writes the escaped token text, which is safe
   and is read back as the token text *)
Theorem C05_dec_esc_leaf_roundtrip : forall o x, xmlEscapeChars o = false ->
  leaf_raw o (VStr (escape_chars x)) = escape_chars x /\
  unescape (leaf_raw o (VStr (escape_chars x))) = Some x /\
  safe_raw (leaf_raw o (VStr (escape_chars x))) = true.
Proof. exact dec_esc_leaf_roundtrip. Qed.
Print Assumptions C05_dec_esc_leaf_roundtrip.

(* ... and for the whole Map: decode under decoder-side escaping, then encode: only safe texts are written *)
Theorem C05_dec_esc_reencode_safe : forall pf skip o ts tm v key its,
  xmlEscapeCharsDecoder o = true -> xmlEscapeChars o = false ->
  xml_decode pf skip o false ts tm = Ok v -> text_scalar o v = true -> enc o v key = Ok its ->
  forall raw, In raw (raw_texts its) -> safe_raw raw = true \/ exists z, raw = ztoa z.
Proof. exact dec_esc_reencode_l. Qed.
Print Assumptions C05_dec_esc_reencode_safe.

(* ---------------- the validity check ---------------- *)
(* parametric in the acceptance function (the tokenizer): with the check on, a nil error implies
   that the tokenizer accepts the returned bytes - whatever the encoder produced *)
Theorem C05_checked_sound : forall o (accept : str -> bool) r its,
  xmlCheckIsValid o = true -> checked_enc o accept r = Ok its -> accept (emit its) = true.
Proof. exact checked_sound_l. Qed.
Print Assumptions C05_checked_sound.

(* checked_enc is the wrapper the correspondence check runs (Run/RunXml.v, checked) *)
Theorem C05_checked_is_run_wrapper : forall o accept r,
  checked_enc o accept r = match r with Ok its => checked o (accept (emit its)) r | _ => r end.
Proof. exact checked_enc_run. Qed.
Print Assumptions C05_checked_is_run_wrapper.

(* the check as every one of the four encoders applies it to its bytes (Map.Xml, Map.XmlIndent,
   MapSeq.XmlIndent, and - since fix 122e022, which made it read the output instead of an empty
   string - MapSeq.Xml): whatever bytes the encoder produced *)
Theorem C05_checked_sound_bytes : forall o (accept : str -> bool) r b,
  xmlCheckIsValid o = true -> checked_bytes o accept r = Ok b -> accept b = true.
Proof. exact checked_bytes_sound_l. Qed.
Print Assumptions C05_checked_sound_bytes.

(* the instances for the two modelled encoders *)
Theorem C05_map_xml_checked_sound : forall o accept m root its,
  xmlCheckIsValid o = true -> checked_enc o accept (map_xml_items o m root) = Ok its -> accept (emit its) = true.
Proof. exact map_xml_checked_sound_l. Qed.
Print Assumptions C05_map_xml_checked_sound.
Theorem C05_map_xml_indent_checked_sound : forall o accept m root its,
  xmlCheckIsValid o = true -> checked_enc o accept (map_xml_indent_items o m root) = Ok its -> accept (emit its) = true.
Proof. exact map_xml_indent_checked_sound_l. Qed.
Print Assumptions C05_map_xml_indent_checked_sound.

(* NOT PROVED (false of the code): "with the check on a nil error implies WELL-FORMED output".
   What holds is the conditional: the output has every property the acceptor guarantees ... *)
Theorem C05_checked_wellformed_partial : forall (wf : str -> Prop) o (accept : str -> bool) r its,
  (forall b, accept b = true -> wf b) ->
  xmlCheckIsValid o = true -> checked_enc o accept r = Ok its -> wf (emit its).
Proof. exact checked_wf_partial_l. Qed.
Print Assumptions C05_checked_wellformed_partial.

Local Open Scope string_scope.
Local Open Scope list_scope.
(* ... but the acceptor the four encoders use - encoding/xml's Token loop - accepts content after the
   root element.  Witness: Map{r: {-b: QUOTE/>}}.Xml() with escaping off and the check on writes
   <r b=QUOTE QUOTE/> QUOTE/> ; the tokenizer reads an empty attribute and then the character data QUOTE/>
   after the root, without error (the acceptance bit [true] below is re-observed on every run by the fixed
   correspondence cases of harness/c05.go), so the bytes come back with a nil error although an attribute
   value contains a raw double quote (oracle key content-after-root-accepted; recorded finding). *)
Definition ex_quote_map : entries := [(s "r", VMap [(s "-b", VStr (s """/>"))])].
Definition ex_off_chk_opts : opts := mko (s "-") false false false false false false true true false false false true false false (s "#").
Theorem C05_checked_wellformed_refuted :
  exists o m its, xmlCheckIsValid o = true /\ xmlEscapeChars o = false /\
    checked o true (map_xml_items o m None) = Ok its /\
    emit its = s "<r b=""""/>""/>" /\ attrs_quote_free its = false.
Proof. exists ex_off_chk_opts, ex_quote_map. eexists. vm_compute. repeat split. Qed.
Print Assumptions C05_checked_wellformed_refuted.

Definition ex_accept (b : str) : bool := negb (containsb (s "x<y") b).
Definition ex_chk_opts : opts := mko (s "-") false false false false false false true true false false false true false false (s "#").

(* ---------------- non-vacuity ---------------- *)
Definition ex_esc_opts : opts := mko (s "-") false false false false false false true true false false false true true false (s "#").
Definition ex_val : value :=
  VMap [(s "-id", VStr (s "a""b'c")); (s "#text", VStr (s "x<y & ]]> &amp;")); (s "k", VStr (s "<![CDATA[ &#x41;"))].
Example C05_nonvacuous :
  escape_chars (s "x<y & ]]> &amp; ""'") = s "x&lt;y &amp; ]]&gt; &amp;amp; &quot;&apos;" /\
  unescape (s "x&lt;y &amp; ]]&gt; &amp;amp; &quot;&apos;") = Some (s "x<y & ]]> &amp; ""'") /\
  unescape (s "a & b") = None /\
  safe_raw (s "x<y") = false /\ safe_raw (s "a &amp b") = false /\ safe_raw (s "]]>") = false /\
  xmlEscapeChars ex_esc_opts = true /\ text_scalar ex_esc_opts ex_val = true /\
  (exists its, enc ex_esc_opts ex_val (s "r") = Ok its /\
     emit its = s "<r id=""a&quot;b&apos;c"">x&lt;y &amp; ]]&gt; &amp;amp;<k>&lt;![CDATA[ &amp;#x41;</k></r>") /\
  (* the setters: Esc(true); EscDec(true) switches encoder escaping off; Esc(true) is then ignored; toggles *)
  (let o := apply_calls [CallEsc (Some true); CallEscDec (Some true); CallEsc (Some true)] opts0 in
   (xmlEscapeChars o, xmlEscapeCharsDecoder o) = (false, true)) /\
  (let o := apply_calls [CallEscDec None; CallEscDec None; CallEsc None] opts0 in
   (xmlEscapeChars o, xmlEscapeCharsDecoder o) = (true, false)) /\
  (* the check: an ill-formed output is an error under the check, returned silently without it *)
  checked_enc ex_chk_opts ex_accept (Ok [IOpen (s "a") []; IText (s "x<y"); IClose (s "a")]) = Err EOther /\
  checked_enc ex_chk_opts ex_accept (Ok [IOpen (s "a") []; IText (s "x&lt;y"); IClose (s "a")]) =
    Ok [IOpen (s "a") []; IText (s "x&lt;y"); IClose (s "a")].
Proof. vm_compute. repeat split. eexists. split; reflexivity. Qed.

(* decoder-side escaping on a concrete document: <a id="<1>">x &amp; y</a> *)
Definition ex_dec_opts : opts := mko (s "-") false false false false false false true true false false false false false true (s "#").
Definition ex_plain_opts : opts := mko (s "-") false false false false false false true true false false false false false false (s "#").
Definition ex_toks : list tok :=
  [st [] (s "a") [([], s "id", s "<1>")]; TChar (s " x & y "); en [] (s "a")].
Example C05_dec_esc_nonvacuous :
  same_structure_opts ex_plain_opts ex_dec_opts /\
  xml_decode (fun _ => None) (fun _ => false) ex_plain_opts false ex_toks TermEOF =
    Ok (VMap [(s "a", VMap [(s "-id", VStr (s "<1>")); (s "#text", VStr (s "x & y"))])]) /\
  xml_decode (fun _ => None) (fun _ => false) ex_dec_opts false ex_toks TermEOF =
    Ok (VMap [(s "a", VMap [(s "-id", VStr (s "&lt;1&gt;")); (s "#text", VStr (s "x &amp; y"))])]) /\
  (exists its, enc ex_dec_opts (VMap [(s "-id", VStr (s "&lt;1&gt;")); (s "#text", VStr (s "x &amp; y"))]) (s "a") = Ok its /\
               emit its = s "<a id=""&lt;1&gt;"">x &amp; y</a>").
Proof. vm_compute. repeat split. eexists. split; reflexivity. Qed.

(* ================================================================== tie to the code (regenerated on every run)
   Gen/Pure_gen.v is go2v's statement-by-statement translation of func escapeChars and of the table escapechars
   in /repo's CURRENT escapechars.go (bytes.Count / bytes.Replace as Gen/PureSupport.v defines them).  It IS
   [escape_chars], the function the character-level theorems above are about, for every string. *)
From Mxj Require Import Gen.Setters_gen Gen.PureSupport Gen.Pure_gen GenProofs.PureG.

Theorem C05_escape_code_is_model : forall st x, fn_escapeChars st x = Ret (escape_chars x).
Proof. exact escape_code_is_model. Qed.
Print Assumptions C05_escape_code_is_model.

Theorem C05_escape_table_is_code :
  tbl_escapechars = map (fun pr : ascii * str => [[fst pr]; snd pr]) escape_table.
Proof. exact escape_table_is_code. Qed.
Print Assumptions C05_escape_table_is_code.

Example C05_escape_code_nonvacuous :
  fn_escapeChars gstate0 (s "a<b & ""c"" 'd' &amp; >") = Ret (s "a&lt;b &amp; &quot;c&quot; &apos;d&apos; &amp;amp; &gt;").
Proof. vm_compute. reflexivity. Qed.

(* ---- the Map encoder itself: marshalMapToXmlIndent (xml.go), translated from the CURRENT sources by go2v (join mode: the
   code after an if / switch once; the case bodies outside the value universe stand as Crash) and proved equal, in compact mode,
   to the model encoder [enc] rendered by [emit] that the theorems above are stated with (GenProofs/PureG18.v); escapeChars is
   the translated one, sort.Sort the model's sort_by_key on the rows *)
From Mxj Require Import Spec.JsonRT GenProofs.PureG15 GenProofs.PureG18.

Theorem C05_marshal_map_code_is_enc : forall o st, enc_view st o ->
  forall ind outd xm xmi v f key b i c p m t, vdepth v <= f -> text_dom o v = true ->
  (forall its, enc o v key = Ok its ->
     fn_marshalMapToXmlIndent (PureG15.run_escapeChars st) ind outd sort_rows sort_vrows xm xmi f st false b key v i c p m t =
     Ret (None, (b ++ emit its, i, c, p, m, t))) /\
  (forall e, enc o v key = Err e ->
     exists e' b', fn_marshalMapToXmlIndent (PureG15.run_escapeChars st) ind outd sort_rows sort_vrows xm xmi f st false b key v i c p m t =
                   Ret (Some e', (b', i, c, p, m, t))) /\
  enc o v key <> Panic.
Proof. exact marshal_map_code_is_enc_translated. Qed.
Print Assumptions C05_marshal_map_code_is_enc.

(* ---- the validity check of the four encoder ENTRY POINTS (Map.Xml, Map.XmlIndent, MapSeq.Xml, MapSeq.XmlIndent), translated from
   the current sources by go2v: for EVERY behaviour of the encoder they call (ext) and of encoding/xml's tokenizer (dec), with
   xmlCheckIsValid on, bytes returned with a nil error are bytes whose token stream ends with io.EOF and no error; bytes the
   tokenizer rejects give (nil, error); with the check off the encoder's bytes and error are returned as they are
   (GenProofs/PureG25.v).  [accepts dec b]: snd (dec b) = TermEOF. *)
From Mxj Require Import GenProofs.PureG25.

Theorem C05_map_xml_valid : forall (ext : enc_fn) dec st m rt b, g_xmlCheckIsValid st = true ->
  fn_Map_Xml ext dec st m rt = Ret (b, None) -> accepts dec b.
Proof. exact map_xml_valid. Qed.
Print Assumptions C05_map_xml_valid.

Theorem C05_map_xmlindent_valid : forall (ext : enc_fn) dec st m prefix indent rt b, g_xmlCheckIsValid st = true ->
  fn_Map_XmlIndent ext dec st m prefix indent rt = Ret (b, None) -> accepts dec b.
Proof. exact map_xmlindent_valid. Qed.
Print Assumptions C05_map_xmlindent_valid.

Theorem C05_mapseq_xml_valid : forall (ext : enc_fn) dec st m rt b, g_xmlCheckIsValid st = true ->
  fn_MapSeq_Xml ext dec st m rt = Ret (b, None) -> accepts dec b.
Proof. exact mapseq_xml_valid. Qed.
Print Assumptions C05_mapseq_xml_valid.

Theorem C05_mapseq_xmlindent_valid : forall nmx (ext : enc_fn) dec st m prefix indent rt b, g_xmlCheckIsValid st = true ->
  fn_MapSeq_XmlIndent nmx ext dec st m prefix indent rt = Ret (b, None) -> accepts dec b /\ exists mv, nmx b [] = Ok mv.
Proof. exact mapseq_xmlindent_valid. Qed.
Print Assumptions C05_mapseq_xmlindent_valid.

(* the whole verdict with the check on: the tokenizer's, whatever error the encoder itself returned (an encoder error is replaced
   by the verdict on the bytes written before it: check_swallows_encoder_error in PureG25.v; encoding/xml rejects those bytes, which
   end inside a start tag or leave an element open - an assumption about the environment, observed by the correspondence run) *)
Theorem C05_entry_check_on : forall (ext : enc_fn) dec st m rt e b i c p mm t, g_xmlCheckIsValid st = true ->
  xml_call ext m rt = Some (e, (b, i, c, p, mm, t)) ->
  fn_Map_Xml ext dec st m rt = (if acceptb dec b then Ret (b, None) else Ret ([], Some EOther)) /\
  fn_MapSeq_Xml ext dec st m rt = (if acceptb dec b then Ret (b, None) else Ret ([], Some EOther)).
Proof. exact entry_check_on. Qed.
Print Assumptions C05_entry_check_on.

Theorem C05_entry_check_off : forall (ext : enc_fn) dec st m rt e b i c p mm t, g_xmlCheckIsValid st = false ->
  xml_call ext m rt = Some (e, (b, i, c, p, mm, t)) ->
  fn_Map_Xml ext dec st m rt = Ret (b, e) /\ fn_MapSeq_Xml ext dec st m rt = Ret (b, e).
Proof. exact entry_check_off. Qed.
Print Assumptions C05_entry_check_off.
