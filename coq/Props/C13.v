(* C13 - Stream decoding is independent of how the io.Reader delivers bytes.
   Statements only; proofs are in Proofs/C13P.v (schedules, adaptors, drive, document loop), Proofs/C13Json.v (the getJson
   scanner), Proofs/C13H.v (handlers, file readers), Proofs/C13Top.v (assembly, witnesses).
   Model: Model/Reader.v (tied to /repo by the correspondence check under scripted io.Readers), Model/Json.v.
   Spec: Spec/StreamSpec.v.

   The model follows /repo after the repairs a2b77a7 (adaptors / getJson use the count returned by Read), 419ac2a
   (escape state in getJson), fd230a2 (m != nil in the loops), 9f7e6ef (no nil pointer from getJson).  What the earlier
   rounds proved as `_refuted` ((n>0, io.EOF) loses a byte; (0, nil) re-delivers a stale byte; {"a":"x\\"} never closes;
   {} documents skipped; lone } panics) now holds and is stated positively, for ALL legal schedules.  What remains:
     - the adaptors under xml.Decoder give up with io.ErrNoProgress after 100 consecutive (0, nil) reads (as bufio does),
       so the XML theorems carry `zero_bounded sc = true`; `C13_adaptor_no_progress` is the witness that this side
       condition is exact.  getJson retries without bound: the JSON theorems hold for every legal schedule.
     - the Raw value of the JSON readers is the document without the blanks around / inside it, not the bytes consumed
       (`C13_json_raw_prefix_refuted`, KNOWN_FINDINGS key json-raw-whitespace). *)
From Mxj Require Import Spec.StreamSpec Proofs.C13P Proofs.JsonP Proofs.C13Json Proofs.C13H Proofs.C13Top.
Import ListNotations.

(* ================================================================== the adaptors *)

(* byteReader over any legal schedule (every split, final data with io.EOF or before it, interspersed (0, nil)):
   the bytes of the stream in order, then io.EOF forever *)
Theorem C13_adaptor_transparent_byte : forall n X sc, legal X sc -> zero_bounded sc = true ->
  br_results n sc = transparent X n.
Proof. exact adaptor_transparent_br. Qed.
Print Assumptions C13_adaptor_transparent_byte.

(* teeReader likewise, and the tee buffer holds exactly the bytes handed to the decoder *)
Theorem C13_adaptor_transparent_tee : forall n X sc w, legal X sc -> zero_bounded sc = true ->
  let '(rs, t) := tr_results n {| tr_w := w; tr_r := sc |} in
  rs = transparent X n /\ tr_w t = w ++ firstn n X.
Proof. exact adaptor_transparent_tr. Qed.
Print Assumptions C13_adaptor_transparent_tee.

(* the side condition is exact: a legal schedule with 100 (0, nil) reads in a row ends in io.ErrNoProgress *)
Theorem C13_adaptor_no_progress :
  exists X sc n, legal X sc /\ br_results n sc <> transparent X n.
Proof. exact adaptor_no_progress. Qed.
Print Assumptions C13_adaptor_no_progress.

(* ================================================================== the XML / sequence-XML readers, any decoder *)

(* one call through the adaptor = the decoder over the bytes themselves; the reader is left exactly where the decoder stopped *)
Theorem C13_reader_is_direct : forall (M : xmachine) X sc, legal X sc -> zero_bounded sc = true ->
  exists sc', new_map_xml_reader M sc = Some (fst (direct M (m_init M) X), sc') /\
              legal (skipn (snd (direct M (m_init M) X)) X) sc' /\ zero_bounded sc' = true.
Proof. exact reader_is_direct. Qed.
Print Assumptions C13_reader_is_direct.

(* raw_prefix, single call: the Raw variant returns precisely the bytes consumed *)
Theorem C13_raw_is_consumed : forall (M : xmachine) X sc, legal X sc -> zero_bounded sc = true ->
  exists sc', new_map_xml_reader_raw M sc =
                Some (fst (direct M (m_init M) X), firstn (snd (direct M (m_init M) X)) X, sc') /\
              legal (skipn (snd (direct M (m_init M) X)) X) sc' /\ zero_bounded sc' = true.
Proof. exact raw_is_consumed. Qed.
Print Assumptions C13_raw_is_consumed.

(* schedule independence: any two legal schedules of the same bytes give the same sequence of results (and raw values) *)
Theorem C13_read_docs_indep : forall (M : xmachine) X s1 s2, eof_is_error M ->
  legal X s1 -> zero_bounded s1 = true -> legal X s2 -> zero_bounded s2 = true ->
  read_docs (noraw (new_map_xml_reader M)) (S (length s1)) s1 =
  read_docs (noraw (new_map_xml_reader M)) (S (length s2)) s2.
Proof. exact read_docs_indep. Qed.
Print Assumptions C13_read_docs_indep.
Theorem C13_read_docs_raw_indep : forall (M : xmachine) X s1 s2, eof_is_error M ->
  legal X s1 -> zero_bounded s1 = true -> legal X s2 -> zero_bounded s2 = true ->
  read_docs (new_map_xml_reader_raw M) (S (length s1)) s1 =
  read_docs (new_map_xml_reader_raw M) (S (length s2)) s2.
Proof. exact read_docs_raw_indep. Qed.
Print Assumptions C13_read_docs_raw_indep.

(* a stream of documents with arbitrary blanks: the documents decoded directly, in order, then io.EOF *)
Theorem C13_read_docs_stream : forall (M : xmachine) ds tail sc,
  docs_ok M ds -> eof_on_blanks M -> blank tail = true ->
  legal (stream ds tail) sc -> zero_bounded sc = true ->
  read_docs (noraw (new_map_xml_reader M)) (S (length sc)) sc = expected M ds.
Proof. exact read_docs_stream. Qed.
Print Assumptions C13_read_docs_stream.

(* ... the Raw variant: each raw value is the blanks + document consumed by that call (no over-reading) ... *)
Theorem C13_read_docs_raw_stream : forall (M : xmachine) ds tail sc,
  docs_ok M ds -> eof_on_blanks M -> blank tail = true ->
  legal (stream ds tail) sc -> zero_bounded sc = true ->
  read_docs (new_map_xml_reader_raw M) (S (length sc)) sc = expected_raw M ds tail.
Proof. exact read_docs_raw_stream. Qed.
Print Assumptions C13_read_docs_raw_stream.
(* ... so the concatenation of the raw values is the stream *)
Theorem C13_raw_prefix : forall (M : xmachine) ds tail,
  concat (map snd (expected_raw M ds tail)) = stream ds tail.
Proof. exact expected_raw_concat. Qed.
Print Assumptions C13_raw_prefix.

(* without the bound on (0, nil) runs the statement fails (a concrete decoder, two documents, 100 empty reads between them) *)
Theorem C13_read_docs_no_progress :
  exists (M : xmachine) ds tail sc, docs_ok M ds /\ eof_on_blanks M /\ eof_is_error M /\ blank tail = true /\
    legal (stream ds tail) sc /\
    read_docs (noraw (new_map_xml_reader M)) (S (length sc)) sc <> expected M ds.
Proof. exact read_docs_no_progress. Qed.
Print Assumptions C13_read_docs_no_progress.

(* the reader functions always return (whatever the schedule), and the JSON readers never panic *)
Theorem C13_readers_total : forall (M : xmachine) nmj sc,
  new_map_xml_reader M sc <> None /\ new_map_xml_reader_raw M sc <> None /\
  get_json sc <> None /\ new_map_json_reader nmj sc <> None /\ new_map_json_reader_raw nmj sc <> None.
Proof. exact readers_total. Qed.
Print Assumptions C13_readers_total.
Theorem C13_json_reader_no_panic : forall nmj sc r sc', (forall b, nmj b <> Panic) ->
  new_map_json_reader nmj sc = Some (r, sc') -> r <> Panic.
Proof. exact json_reader_no_panic. Qed.
Print Assumptions C13_json_reader_no_panic.
Theorem C13_json_reader_raw_no_panic : forall nmj sc r raw sc', (forall b, nmj b <> Panic) ->
  new_map_json_reader_raw nmj sc = Some (r, raw, sc') -> r <> Panic.
Proof. exact json_reader_raw_no_panic. Qed.
Print Assumptions C13_json_reader_raw_no_panic.
(* a lone closing brace is an error for the caller / errHandler (it was a nil-pointer panic before /repo 9f7e6ef) *)
Theorem C13_json_reader_raw_lone_brace :
  forall nmj, new_map_json_reader_raw nmj (file_schedule (s "}")) = Some (Err EOther, [], []).
Proof. exact json_reader_raw_lone_brace. Qed.
Print Assumptions C13_json_reader_raw_lone_brace.

(* ================================================================== the JSON scanner *)

(* json_scan_split: blanks, then the text encoding/json writes for ANY object of JSON types (either encoding; strings with
   braces, quotes, backslashes, also a trailing escaped backslash), then anything - over EVERY legal schedule:
   getJson returns exactly the object's bytes and leaves the rest *)
Theorem C13_json_scan_split : forall eh m w rest sc,
  scan_safe (VMap m) = true -> blank w = true ->
  legal (w ++ marshal eh (VMap m) ++ rest) sc ->
  exists sc', get_json sc = Some (JOk (marshal eh (VMap m)), sc') /\ legal rest sc'.
Proof. exact json_scan_split. Qed.
Print Assumptions C13_json_scan_split.

(* the scanner itself, for any text given as segments (blanks allowed outside literals, literal bodies obeying JSON's
   escape rule): the kept bytes are the text without those blanks *)
Theorem C13_json_scan_object : forall w inner rest,
  blank w = true -> forallb seg_ok inner = true -> walk 1 inner = Some 1%Z ->
  direct jmachine jinit (w ++ obj_text inner ++ rest) =
  (JOk (lbrace :: squeeze_segs inner ++ [rbrace]), length w + length (obj_text inner)).
Proof. exact scan_object. Qed.
Print Assumptions C13_json_scan_object.

(* a stream of JSON objects: what NewMapJson makes of each object's bytes, in order, then io.EOF; the raw values are the
   objects' texts *)
Theorem C13_json_read_docs_raw : forall eh nmj ds tail sc, jdocs_ok eh nmj ds -> blank tail = true ->
  legal (jstream eh ds tail) sc ->
  read_docs (new_map_json_reader_raw nmj) (S (length sc)) sc =
  map (fun wm => (Ok (jdoc_val eh nmj (snd wm)), marshal eh (VMap (snd wm)))) ds ++ [(Err EEOF, [])].
Proof. exact json_read_docs_raw. Qed.
Print Assumptions C13_json_read_docs_raw.
Theorem C13_json_read_docs : forall eh nmj ds tail sc, jdocs_ok eh nmj ds -> blank tail = true ->
  legal (jstream eh ds tail) sc ->
  read_docs (with_unit_raw (new_map_json_reader nmj)) (S (length sc)) sc =
  map (fun wm => (Ok (jdoc_val eh nmj (snd wm)), [])) ds ++ [(Err EEOF, [])].
Proof. exact json_read_docs. Qed.
Print Assumptions C13_json_read_docs.

(* raw_prefix for JSON holds only without blanks between the documents ... *)
Theorem C13_json_raw_prefix_partial : forall eh ds tail, Forall (fun wm => fst wm = []) ds ->
  concat (map (fun wm : str * entries => marshal eh (VMap (snd wm))) ds) ++ tail = jstream eh ds tail.
Proof. exact json_raw_concat_tight. Qed.
Print Assumptions C13_json_raw_prefix_partial.
(* ... NOT in general (recorded finding json-raw-whitespace): the raw value of ' {"a":1}' is not a prefix of the stream *)
Theorem C13_json_raw_prefix_refuted :
  exists nmj ds tail sc, jdocs_ok true nmj ds /\ blank tail = true /\ legal (jstream true ds tail) sc /\
    prefixb (concat (map snd (read_docs (new_map_json_reader_raw nmj) (S (length sc)) sc))) (jstream true ds tail) = false.
Proof. exact json_raw_prefix_refuted. Qed.
Print Assumptions C13_json_raw_prefix_refuted.

(* ================================================================== bulk handlers and file readers *)

(* mapHandler is invoked once per document (also for documents that decode to an empty Map), in order, up to and
   including the first call that returns false; errHandler is never invoked; nil is returned *)
Theorem C13_handle_xml_reader_raw : forall (M : xmachine) ds tail mh eh sc,
  docs_ok M ds -> eof_on_blanks M -> blank tail = true ->
  legal (stream ds tail) sc -> zero_bounded sc = true ->
  exists rest, handle_xml_reader_raw M mh eh sc =
    Some {| h_calls := handler_calls mh 0 (xml_docs M ds); h_errs := 0; h_ret := Ok tt; h_rest := rest |}.
Proof. exact handle_xml_raw_stream. Qed.
Print Assumptions C13_handle_xml_reader_raw.
Theorem C13_handle_xml_reader : forall (M : xmachine) ds tail mh eh sc,
  docs_ok M ds -> eof_on_blanks M -> blank tail = true ->
  legal (stream ds tail) sc -> zero_bounded sc = true ->
  exists rest, handle_xml_reader M mh eh sc =
    Some {| h_calls := handler_calls mh 0 (xml_docs_noraw M ds); h_errs := 0; h_ret := Ok tt; h_rest := rest |}.
Proof. exact handle_xml_stream. Qed.
Print Assumptions C13_handle_xml_reader.
Theorem C13_handle_json_reader_raw : forall e nmj ds tail mh eh sc,
  jdocs_ok e nmj ds -> blank tail = true -> legal (jstream e ds tail) sc ->
  exists rest, handle_json_reader_raw nmj mh eh sc =
    Some {| h_calls := handler_calls mh 0 (json_docs e nmj ds); h_errs := 0; h_ret := Ok tt; h_rest := rest |}.
Proof. exact handle_json_raw_stream. Qed.
Print Assumptions C13_handle_json_reader_raw.
Theorem C13_handle_json_reader : forall e nmj ds tail mh eh sc,
  jdocs_ok e nmj ds -> blank tail = true -> legal (jstream e ds tail) sc ->
  exists rest, handle_json_reader nmj mh eh sc =
    Some {| h_calls := handler_calls mh 0 (json_docs_noraw e nmj ds); h_errs := 0; h_ret := Ok tt; h_rest := rest |}.
Proof. exact handle_json_stream. Qed.
Print Assumptions C13_handle_json_reader.

(* the file readers return the Maps (and raw values) of all documents *)
Theorem C13_maps_from_xml_file_raw : forall (M : xmachine) ds tail,
  docs_ok M ds -> eof_on_blanks M -> blank tail = true ->
  new_maps_from_xml_file_raw M (stream ds tail) = Some (xml_docs M ds, Ok tt).
Proof. exact maps_from_xml_file_raw_stream. Qed.
Print Assumptions C13_maps_from_xml_file_raw.
Theorem C13_maps_from_json_file_raw : forall e nmj ds tail,
  jdocs_ok e nmj ds -> blank tail = true ->
  new_maps_from_json_file_raw nmj (jstream e ds tail) = Some (json_docs e nmj ds, Ok tt).
Proof. exact maps_from_json_file_raw_stream. Qed.
Print Assumptions C13_maps_from_json_file_raw.

(* NOT PROVED: nothing of the property text is left unstated; what is assumed rather than proved is the environment
   (hypotheses eof_is_error / stops_at inside docs_ok / eof_on_blanks on the XML decoder, the oracle nmj for NewMapJson,
   file_schedule for *os.File), each exercised by the correspondence run. *)

(* ================================================================== non-vacuity, and the former defects as examples *)

(* the hypotheses on the decoder are satisfiable: the concrete decoder `toy` (documents <name>) meets all of them *)
Example C13_decoder_hypotheses_met :
  eof_is_error toy /\ eof_on_blanks toy /\ (forall name, no_gt name = true -> stops_at toy (toy_doc name)).
Proof. split; [exact toy_eof_is_error|]. split; [exact toy_eof_on_blanks|exact toy_stops_at]. Qed.

(* three documents with blanks, delivered with (0, nil) reads in between and the last byte together with io.EOF -
   the two shapes that used to lose / duplicate bytes *)
Definition ex_ds : list (str * str) := [(s " ", toy_doc (s "a")); (hx "0a09", toy_doc (s "bc")); ([], toy_doc (s "d"))].
Definition ex_sc : list rev :=
  map Data (s " <a") ++ [Zero; Zero] ++ map Data (hx "3e0a093c6263") ++ [Zero] ++ map Data (s "><d") ++ [DataEOF gt_c; Eof].
Example C13_stream_nonvacuous :
  docs_ok toy ex_ds /\ legal (stream ex_ds []) ex_sc /\ zero_bounded ex_sc = true /\
  read_docs (new_map_xml_reader_raw toy) (S (length ex_sc)) ex_sc =
    [(Ok (VMap [(s "a", VStr [])]), s " <a>"); (Ok (VMap [(s "bc", VStr [])]), hx "0a093c62633e");
     (Ok (VMap [(s "d", VStr [])]), s "<d>"); (Err EEOF, [])].
Proof.
  split; [apply (toy_docs_ok [(s " ", s "a"); (hx "0a09", s "bc"); ([], s "d")]); repeat constructor|].
  split; [split; reflexivity|]. split; reflexivity.
Qed.

(* a JSON object whose strings contain braces, quotes, backslashes and END in a backslash (the former defect) meets
   scan_safe, and is split off a stream that continues with another object, over a schedule with (0, nil) reads *)
Definition ex_m : entries :=
  [(s "k{", VStr (s "a}" ++ [dq] ++ s "b" ++ [bsl] ++ s "c" ++ [bsl; dq] ++ [bsl]));
   (s "l", VList [VFlt (s "1"); VNil; VMap [(s "}" ++ [bsl], VBool true)]])].
Example C13_json_nonvacuous :
  scan_safe (VMap ex_m) = true /\
  get_json (Zero :: file_schedule (s " " ++ marshal false (VMap ex_m)) ++ [Zero; Data lbrace; DataEOF rbrace]) =
    Some (JOk (marshal false (VMap ex_m)), [Zero; Data lbrace; DataEOF rbrace]).
Proof. split; vm_compute; reflexivity. Qed.

(* {} documents reach mapHandler (they were skipped before /repo fd230a2) *)
Definition nmj_e (b : str) : res value :=
  if str_eqb b (s "{}") then Ok (VMap []) else Ok (VMap [(s "a", VFlt (s "1"))]).
Definition ds_empty : list (str * entries) := [([], [(s "a", VFlt (s "1"))]); ([], []); ([], [(s "a", VFlt (s "1"))])].
Example C13_empty_object_handled :
  jdocs_ok true nmj_e ds_empty /\
  option_map (fun h => length (h_calls h))
    (handle_json_reader nmj_e (fun _ _ => true) (fun _ => true) (file_schedule (jstream true ds_empty []))) = Some 3.
Proof. split; [repeat constructor|reflexivity]. Qed.

(* ---- tie to the CURRENT source of getJson (json.go): go2v translates the function statement by statement on every
   run (Gen/Pure_gen.v: fn_getJson - the `for { }` loop around rdr.Read(bval), the (0, nil) retry, the end-of-input
   returns, the byte switch with break / continue, the statements after it); GenProofs/PureG6.v proves the translated
   loop equal to the model scanner [get_json] the theorems above are about, on EVERY reader schedule. *)
From Mxj Require Import Gen.Setters_gen Gen.PureSupport Gen.Pure_gen GenProofs.PureG6.

Theorem C13_get_json_code_is_model : forall st sc, fn_getJson st sc = gj_result (get_json sc).
Proof. exact get_json_code_is_model. Qed.
Print Assumptions C13_get_json_code_is_model.

(* the translated loop always returns: it neither panics nor exhausts the fuel the translator gave it
   (one more than the length of the schedule), whatever the reader does *)
Theorem C13_get_json_code_returns : forall st sc, exists r sc', fn_getJson st sc = Ret (r, sc').
Proof.
  intros st sc. rewrite get_json_code_is_model.
  destruct (readers_total (Build_machine _ unit tt (fun _ _ => inr (Ok VNil)) (fun _ => Ok VNil) (fun _ => Ok VNil)) (fun _ => Ok VNil) sc)
    as (_ & _ & H & _).
  destruct (get_json sc) as [[[b|b e] sc']|]; [eexists; eexists; reflexivity..|congruence].
Qed.
Print Assumptions C13_get_json_code_returns.

(* getJson reads no package-level variable: the option state is not an input of the translated function *)
Theorem C13_get_json_code_reads_no_option : forall st st' sc, fn_getJson st sc = fn_getJson st' sc.
Proof. intros st st' sc. rewrite !get_json_code_is_model. reflexivity. Qed.
Print Assumptions C13_get_json_code_reads_no_option.

Example C13_get_json_code_nonvacuous :
  fn_getJson gstate0 (Zero :: file_schedule (s " " ++ marshal false (VMap ex_m)) ++ [Zero; Data lbrace; DataEOF rbrace]) =
    Ret ((marshal false (VMap ex_m), None), [Zero; Data lbrace; DataEOF rbrace]) /\
  fn_getJson gstate0 [Data lbrace; Zero; DataEOF dq] = Ret ((s "{" ++ [dq], Some EOther), []) /\
  fn_getJson gstate0 [Data rbrace; Data lbrace] = Ret (([], Some EOther), [Data lbrace]).
Proof. repeat split; vm_compute; reflexivity. Qed.

(* ---- NewMapJsonReader / NewMapJsonReaderRaw (json.go), translated from the current sources and instantiated with the
   translated getJson; NewMapJson is an arbitrary function, as in the model (GenProofs/PureG7.v).  [entries_of]: the
   translation carries a Go Map as its entry list, so a nil Map and an empty Map are both [] there (the correspondence
   run tells them apart). *)
From Mxj Require Import GenProofs.PureG7.

Theorem C13_new_map_json_reader_code_is_model : forall nmj st sc,
  fn_NewMapJsonReader nmj (run_getJson st) st sc
  = match new_map_json_reader (nmj_of nmj) sc with
    | Some (Ok v, sc') => Ret (Ok (entries_of v), sc')
    | Some (Err e, sc') => Ret (Err e, sc')
    | Some (Panic, _) | None => Crash
    end.
Proof. exact new_map_json_reader_code_is_model. Qed.
Print Assumptions C13_new_map_json_reader_code_is_model.

Theorem C13_new_map_json_reader_raw_code_is_model : forall nmj st sc,
  fn_NewMapJsonReaderRaw nmj (run_getJson st) st sc
  = match new_map_json_reader_raw (nmj_of nmj) sc with
    | Some (Ok v, b, sc') => Ret ((entries_of v, b, None), sc')
    | Some (Err e, b, sc') => Ret (([], b, Some e), sc')
    | Some (Panic, _, _) | None => Crash
    end.
Proof. exact new_map_json_reader_raw_code_is_model. Qed.
Print Assumptions C13_new_map_json_reader_raw_code_is_model.

Example C13_reader_code_nonvacuous :
  fn_NewMapJsonReaderRaw (fun b => Ok [(s "n", VFlt (itoa (length b)))]) (run_getJson gstate0) gstate0
    [Zero; Data lbrace; Data rbrace; Zero; DataEOF lbrace] =
    Ret (([(s "n", VFlt (s "2"))], s "{}", None), [Zero; DataEOF lbrace]).
Proof. vm_compute. reflexivity. Qed.

(* ---- tie to the CURRENT sources of the two single-byte adaptors (xml.go: byteReader.ReadByte, teeReader.ReadByte):
   go2v re-translates the methods on every run (the receiver's fields as threaded state, the loop of at most 100 Reads,
   the Write of the byte to the raw buffer) and GenProofs/PureG11.v proves the translations equal to the models
   [br_read_byte] / [tr_read_byte] the XML reader theorems above are stated with, on EVERY reader schedule.
   [loop_buf]: the content of the adaptor's one-byte buffer afterwards (the last byte delivered). *)
From Mxj Require Import GenProofs.PureG11.

Theorem C13_byte_reader_code_is_model : forall st sc c rest,
  fn_byteReader_ReadByte st sc (c :: rest)
  = Ret (rb_res (fst (br_read_byte sc)), (snd (br_read_byte sc), loop_buf 100 sc c :: rest)).
Proof. exact byte_reader_code_is_model. Qed.
Print Assumptions C13_byte_reader_code_is_model.

Theorem C13_tee_reader_code_is_model : forall st t c,
  fn_teeReader_ReadByte st (tr_r t) (tr_w t) [c]
  = let r := tr_read_byte t in
    Ret (rb_pair (fst r), (tr_r (snd r), tr_w (snd r), [loop_buf 100 (tr_r t) c])).
Proof. exact tee_reader_code_is_model. Qed.
Print Assumptions C13_tee_reader_code_is_model.

Example C13_adaptor_code_nonvacuous :
  fn_teeReader_ReadByte gstate0 [Zero; Zero; DataEOF "x"%char; Eof] (s "ab") [zero_byte]
    = Ret (("x"%char, None), ([Eof], s "abx", ["x"%char])) /\
  fn_byteReader_ReadByte gstate0 (repeat Zero 100 ++ [Data "x"%char]) [zero_byte]
    = Ret (Err EOther, ([Data "x"%char], [zero_byte])).
Proof. split; vm_compute; reflexivity. Qed.

(* ---- the four bulk handlers themselves (HandleXmlReader[Raw], HandleJsonReader[Raw]), translated from the current sources in
   handler mode (translator/handlers.go: the handler functions thread an abstract common state; the reader callee is nil-aware):
   for ANY handler state, handlers and reader callee the translated loop is [feed] over the callee's successive results; with the
   call history as handler state it IS the model [handle_reader]; it returns for every callee that never panics and consumes an
   event per non-EOF result (GenProofs/PureG34.v).  maps_only: the model reader returns Maps or nil (a typing condition). *)
From Mxj Require GenProofs.PureG34.

Theorem C13_handle_json_reader_raw_code_is_model : forall next mh eh st S, PureG34.maps_only next ->
  fn_HandleJsonReaderRaw PureG34.hst (PureG34.conv_raw next) st S (PureG34.map_handler mh) (PureG34.err_handler eh) PureG34.hst0
  = PureG34.hout_ctl (handle_reader next mh eh S).
Proof. exact PureG34.handle_json_reader_raw_code_is_model. Qed.
Print Assumptions C13_handle_json_reader_raw_code_is_model.

Theorem C13_handle_xml_reader_raw_code_is_model : forall next mh eh st S, PureG34.maps_only next ->
  fn_HandleXmlReaderRaw PureG34.hst (fun S (_ : list bool) => PureG34.conv_raw next S) st S (PureG34.map_handler mh) (PureG34.err_handler eh) PureG34.hst0
  = PureG34.hout_ctl (handle_reader next mh eh S).
Proof. exact PureG34.handle_xml_reader_raw_code_is_model. Qed.
Print Assumptions C13_handle_xml_reader_raw_code_is_model.

Theorem C13_handle_json_reader_code_is_model : forall next mh eh st S, PureG34.maps_only (with_unit_raw next) ->
  fn_HandleJsonReader PureG34.hst (PureG34.conv next) st S (PureG34.map_handler0 mh) (PureG34.err_handler0 eh) PureG34.hst0
  = PureG34.hout_ctl (handle_reader (with_unit_raw next) mh eh S).
Proof. exact PureG34.handle_json_reader_code_is_model. Qed.
Print Assumptions C13_handle_json_reader_code_is_model.

Theorem C13_handle_xml_reader_code_is_model : forall next mh eh st S, PureG34.maps_only (with_unit_raw next) ->
  fn_HandleXmlReader PureG34.hst (fun S (_ : list bool) => PureG34.conv next S) st S (PureG34.map_handler0 mh) (PureG34.err_handler0 eh) PureG34.hst0
  = PureG34.hout_ctl (handle_reader (with_unit_raw next) mh eh S).
Proof. exact PureG34.handle_xml_reader_code_is_model. Qed.
Print Assumptions C13_handle_xml_reader_code_is_model.

Theorem C13_handlers_code_returns : forall H mapH errH rd st S h, PureG34.rd_total rd -> PureG34.rd_consumes rd ->
  exists r, fn_HandleJsonReaderRaw H rd st S mapH errH h = Ret r.
Proof. exact PureG34.handlers_code_returns. Qed.
Print Assumptions C13_handlers_code_returns.
