(* C13 - Stream decoding is independent of how the io.Reader delivers bytes.
   Statements only; proofs are in Proofs/C13P.v (adaptors, drive, document loop), Proofs/C13Json.v (the getJson
   scanner), Proofs/C13H.v (handlers, file readers), Proofs/C13Top.v (assembly, witnesses).
   Model: Model/Reader.v (tied to /repo by the correspondence check under scripted io.Readers), Model/Json.v.
   Spec: Spec/StreamSpec.v.

   The faithful model VIOLATES the property for three kinds of legal input; each is a `_refuted` theorem below and a
   line of KNOWN_FINDINGS.txt, and the positive theorems carry exactly the side condition that excludes it:
     - `clean sc = true`  : the schedule has no (n>0, io.EOF) and no (0, nil) event
     - `scan_safe v = true` : no key / string value ends with a backslash (and number texts are plain)
     - `all_nonempty docs`  : no document decodes to an empty Map ({})
   and the Raw value of the JSON readers is the marshalled text, not the bytes consumed (blanks are dropped). *)
From Mxj Require Import Spec.StreamSpec Proofs.C13P Proofs.JsonP Proofs.C13Json Proofs.C13H Proofs.C13Top.
Import ListNotations.

(* ================================================================== the adaptors *)

(* byteReader over any schedule without (n>0, EOF) / (0, nil) events: the bytes of the stream in order, then io.EOF forever *)
Theorem C13_adaptor_transparent_byte : forall X sc n, legal X sc -> clean sc = true ->
  map view_of (br_results n (my_byte_reader sc)) = transparent X n.
Proof. exact adaptor_transparent_br. Qed.
Print Assumptions C13_adaptor_transparent_byte.

(* teeReader likewise, and the tee buffer holds exactly the bytes handed to the decoder *)
Theorem C13_adaptor_transparent_tee : forall X sc n, legal X sc -> clean sc = true ->
  let '(rs, t) := tr_results n (my_tee_reader sc) in
  map view_of rs = transparent X n /\ tr_w t = firstn n X.
Proof. exact adaptor_transparent_tr. Qed.
Print Assumptions C13_adaptor_transparent_tee.

(* NOT TRUE for all legal schedules: *)
Theorem C13_adaptor_transparent_refuted_data_eof :
  exists X sc n, legal X sc /\ map view_of (br_results n (my_byte_reader sc)) <> transparent X n.
Proof. exact adaptor_transparent_refuted_data_eof. Qed.
Print Assumptions C13_adaptor_transparent_refuted_data_eof.
Theorem C13_adaptor_transparent_refuted_zero :
  exists X sc n, legal X sc /\ map view_of (br_results n (my_byte_reader sc)) <> transparent X n.
Proof. exact adaptor_transparent_refuted_zero. Qed.
Print Assumptions C13_adaptor_transparent_refuted_zero.
Theorem C13_tee_transparent_refuted_data_eof :
  exists X sc n, legal X sc /\ map view_of (fst (tr_results n (my_tee_reader sc))) <> transparent X n.
Proof. exact tee_transparent_refuted_data_eof. Qed.
Print Assumptions C13_tee_transparent_refuted_data_eof.
Theorem C13_tee_transparent_refuted_zero :
  exists X sc n, legal X sc /\
    (map view_of (fst (tr_results n (my_tee_reader sc))) <> transparent X n /\
     map view_of (fst (tr_results n (my_tee_reader sc))) <> map VByte (tr_w (snd (tr_results n (my_tee_reader sc))))).
Proof. exact tee_transparent_refuted_zero. Qed.
Print Assumptions C13_tee_transparent_refuted_zero.

(* ================================================================== the XML / sequence-XML readers, any decoder *)

(* one call through the adaptor = the decoder over the bytes themselves; the reader is left exactly where the decoder stopped *)
Theorem C13_reader_is_direct : forall (M : xmachine) X sc, legal X sc -> clean sc = true ->
  exists sc', new_map_xml_reader M sc = Some (fst (direct M (m_init M) X), sc') /\
              legal (skipn (snd (direct M (m_init M) X)) X) sc' /\ clean sc' = true.
Proof. exact reader_is_direct. Qed.
Print Assumptions C13_reader_is_direct.

(* raw_prefix, single call: the Raw variant returns precisely the bytes consumed *)
Theorem C13_raw_is_consumed : forall (M : xmachine) X sc, legal X sc -> clean sc = true ->
  exists sc', new_map_xml_reader_raw M sc =
                Some (fst (direct M (m_init M) X), firstn (snd (direct M (m_init M) X)) X, sc') /\
              legal (skipn (snd (direct M (m_init M) X)) X) sc' /\ clean sc' = true.
Proof. exact raw_is_consumed. Qed.
Print Assumptions C13_raw_is_consumed.

(* schedule independence: any two such schedules of the same bytes give the same sequence of results (and raw values) *)
Theorem C13_read_docs_indep : forall (M : xmachine) X s1 s2, eof_is_error M ->
  legal X s1 -> clean s1 = true -> legal X s2 -> clean s2 = true ->
  read_docs (noraw (new_map_xml_reader M)) (S (length s1)) s1 =
  read_docs (noraw (new_map_xml_reader M)) (S (length s2)) s2.
Proof. exact read_docs_indep. Qed.
Print Assumptions C13_read_docs_indep.
Theorem C13_read_docs_raw_indep : forall (M : xmachine) X s1 s2, eof_is_error M ->
  legal X s1 -> clean s1 = true -> legal X s2 -> clean s2 = true ->
  read_docs (new_map_xml_reader_raw M) (S (length s1)) s1 =
  read_docs (new_map_xml_reader_raw M) (S (length s2)) s2.
Proof. exact read_docs_raw_indep. Qed.
Print Assumptions C13_read_docs_raw_indep.

(* a stream of documents with arbitrary blanks: the documents decoded directly, in order, then io.EOF *)
Theorem C13_read_docs_stream : forall (M : xmachine) ds tail sc,
  docs_ok M ds -> eof_on_blanks M -> blank tail = true ->
  legal (stream ds tail) sc -> clean sc = true ->
  read_docs (noraw (new_map_xml_reader M)) (S (length sc)) sc = expected M ds.
Proof. exact read_docs_stream. Qed.
Print Assumptions C13_read_docs_stream.

(* ... the Raw variant: each raw value is the blanks + document consumed by that call (no over-reading) ... *)
Theorem C13_read_docs_raw_stream : forall (M : xmachine) ds tail sc,
  docs_ok M ds -> eof_on_blanks M -> blank tail = true ->
  legal (stream ds tail) sc -> clean sc = true ->
  read_docs (new_map_xml_reader_raw M) (S (length sc)) sc = expected_raw M ds tail.
Proof. exact read_docs_raw_stream. Qed.
Print Assumptions C13_read_docs_raw_stream.
(* ... so the concatenation of the raw values is the stream *)
Theorem C13_raw_prefix : forall (M : xmachine) ds tail,
  concat (map snd (expected_raw M ds tail)) = stream ds tail.
Proof. exact expected_raw_concat. Qed.
Print Assumptions C13_raw_prefix.

(* NOT TRUE for all legal schedules (a concrete decoder, two documents): *)
Theorem C13_read_docs_refuted_data_eof :
  exists (M : xmachine) ds tail sc, docs_ok M ds /\ eof_on_blanks M /\ eof_is_error M /\ blank tail = true /\
    legal (stream ds tail) sc /\
    read_docs (noraw (new_map_xml_reader M)) (S (length sc)) sc <> expected M ds.
Proof. exact read_docs_refuted_data_eof. Qed.
Print Assumptions C13_read_docs_refuted_data_eof.
Theorem C13_read_docs_refuted_zero :
  exists (M : xmachine) ds tail sc, docs_ok M ds /\ eof_on_blanks M /\ eof_is_error M /\ blank tail = true /\
    legal (stream ds tail) sc /\
    read_docs (noraw (new_map_xml_reader M)) (S (length sc)) sc <> expected M ds.
Proof. exact read_docs_refuted_zero. Qed.
Print Assumptions C13_read_docs_refuted_zero.

(* the reader functions always return (whatever the schedule), and NewMapJsonReader never panics *)
Theorem C13_readers_total : forall (M : xmachine) nmj sc,
  new_map_xml_reader M sc <> None /\ new_map_xml_reader_raw M sc <> None /\
  get_json sc <> None /\ new_map_json_reader nmj sc <> None /\ new_map_json_reader_raw nmj sc <> None.
Proof. exact readers_total. Qed.
Print Assumptions C13_readers_total.
Theorem C13_json_reader_no_panic : forall nmj sc r sc', (forall b, nmj b <> Panic) ->
  new_map_json_reader nmj sc = Some (r, sc') -> r <> Panic.
Proof. exact json_reader_no_panic. Qed.
Print Assumptions C13_json_reader_no_panic.
(* ... but NewMapJsonReaderRaw does, on a lone closing brace *)
Theorem C13_json_reader_raw_total_refuted :
  exists sc, legal (s "}") sc /\ clean sc = true /\
    forall nmj, new_map_json_reader_raw nmj sc = Some (Panic, [], []).
Proof. exact json_reader_raw_panics. Qed.
Print Assumptions C13_json_reader_raw_total_refuted.

(* ================================================================== the JSON scanner *)

(* json_scan_split: blanks, then the text json.Marshal writes for any object (strings with braces, quotes, backslashes
   inside), then anything: getJson returns exactly the object's bytes and leaves the rest *)
Theorem C13_json_scan_split : forall m w rest sc,
  scan_safe (VMap m) = true -> blank w = true ->
  legal (w ++ marshal (VMap m) ++ rest) sc -> clean sc = true ->
  exists sc', get_json sc = Some (JOk (marshal (VMap m)), sc') /\ legal rest sc' /\ clean sc' = true.
Proof. exact json_scan_split. Qed.
Print Assumptions C13_json_scan_split.

(* the scanner itself, for any text given as segments (blanks allowed outside literals): the kept bytes are the text
   without those blanks *)
Theorem C13_json_scan_object : forall w inner rest,
  blank w = true -> forallb seg_ok inner = true -> walk 1 inner = Some 1%Z ->
  direct jmachine jinit (w ++ obj_text inner ++ rest) =
  (JOk (lbrace :: squeeze_segs inner ++ [rbrace]), length w + length (obj_text inner)).
Proof. exact scan_object. Qed.
Print Assumptions C13_json_scan_object.

(* NOT TRUE when a string ends with a backslash ({"a":"x\\"}): *)
Theorem C13_json_scan_split_refuted :
  exists m sc, legal (marshal (VMap m)) sc /\ clean sc = true /\
    forall sc', get_json sc <> Some (JOk (marshal (VMap m)), sc').
Proof. exact json_scan_split_refuted. Qed.
Print Assumptions C13_json_scan_split_refuted.

(* a stream of JSON objects: what NewMapJson makes of each object's bytes, in order, then io.EOF; the raw values are the
   objects' texts *)
Theorem C13_json_read_docs_raw : forall nmj ds tail sc, jdocs_ok nmj ds -> blank tail = true ->
  legal (jstream ds tail) sc -> clean sc = true ->
  read_docs (new_map_json_reader_raw nmj) (S (length sc)) sc =
  map (fun wm => (Ok (jdoc_val nmj (snd wm)), marshal (VMap (snd wm)))) ds ++ [(Err EEOF, [])].
Proof. exact json_read_docs_raw. Qed.
Print Assumptions C13_json_read_docs_raw.
Theorem C13_json_read_docs : forall nmj ds tail sc, jdocs_ok nmj ds -> blank tail = true ->
  legal (jstream ds tail) sc -> clean sc = true ->
  read_docs (with_unit_raw (new_map_json_reader nmj)) (S (length sc)) sc =
  map (fun wm => (Ok (jdoc_val nmj (snd wm)), [])) ds ++ [(Err EEOF, [])].
Proof. exact json_read_docs. Qed.
Print Assumptions C13_json_read_docs.

(* raw_prefix for JSON holds only without blanks between the documents ... *)
Theorem C13_json_raw_prefix_partial : forall ds tail, Forall (fun wm => fst wm = []) ds ->
  concat (map (fun wm : str * entries => marshal (VMap (snd wm))) ds) ++ tail = jstream ds tail.
Proof. exact json_raw_concat_tight. Qed.
Print Assumptions C13_json_raw_prefix_partial.
(* ... NOT in general: the raw value of ' {"a":1}' is not a prefix of the stream *)
Theorem C13_json_raw_prefix_refuted :
  exists nmj ds tail sc, jdocs_ok nmj ds /\ blank tail = true /\ legal (jstream ds tail) sc /\ clean sc = true /\
    prefixb (concat (map snd (read_docs (new_map_json_reader_raw nmj) (S (length sc)) sc))) (jstream ds tail) = false.
Proof. exact json_raw_prefix_refuted. Qed.
Print Assumptions C13_json_raw_prefix_refuted.

(* ================================================================== bulk handlers and file readers *)

(* mapHandler is invoked once per document, in order, up to and including the first call that returns false;
   errHandler is never invoked; nil is returned *)
Theorem C13_handle_xml_reader_raw : forall (M : xmachine) ds tail mh eh sc,
  docs_ok M ds -> eof_on_blanks M -> blank tail = true -> all_nonempty (xml_docs M ds) ->
  legal (stream ds tail) sc -> clean sc = true ->
  exists rest, handle_xml_reader_raw M mh eh sc =
    Some {| h_calls := handler_calls mh 0 (xml_docs M ds); h_errs := 0; h_ret := Ok tt; h_rest := rest |}.
Proof. exact handle_xml_raw_stream. Qed.
Print Assumptions C13_handle_xml_reader_raw.
Theorem C13_handle_xml_reader : forall (M : xmachine) ds tail mh eh sc,
  docs_ok M ds -> eof_on_blanks M -> blank tail = true -> all_nonempty (xml_docs_noraw M ds) ->
  legal (stream ds tail) sc -> clean sc = true ->
  exists rest, handle_xml_reader M mh eh sc =
    Some {| h_calls := handler_calls mh 0 (xml_docs_noraw M ds); h_errs := 0; h_ret := Ok tt; h_rest := rest |}.
Proof. exact handle_xml_stream. Qed.
Print Assumptions C13_handle_xml_reader.
Theorem C13_handle_json_reader_raw : forall nmj ds tail mh eh sc,
  jdocs_ok nmj ds -> blank tail = true -> all_nonempty (json_docs nmj ds) ->
  legal (jstream ds tail) sc -> clean sc = true ->
  exists rest, handle_json_reader_raw nmj mh eh sc =
    Some {| h_calls := handler_calls mh 0 (json_docs nmj ds); h_errs := 0; h_ret := Ok tt; h_rest := rest |}.
Proof. exact handle_json_raw_stream. Qed.
Print Assumptions C13_handle_json_reader_raw.
Theorem C13_handle_json_reader : forall nmj ds tail mh eh sc,
  jdocs_ok nmj ds -> blank tail = true -> all_nonempty (json_docs_noraw nmj ds) ->
  legal (jstream ds tail) sc -> clean sc = true ->
  exists rest, handle_json_reader nmj mh eh sc =
    Some {| h_calls := handler_calls mh 0 (json_docs_noraw nmj ds); h_errs := 0; h_ret := Ok tt; h_rest := rest |}.
Proof. exact handle_json_stream. Qed.
Print Assumptions C13_handle_json_reader.

(* the file readers return the Maps (and raw values) of all documents *)
Theorem C13_maps_from_xml_file_raw : forall (M : xmachine) ds tail,
  docs_ok M ds -> eof_on_blanks M -> blank tail = true -> all_nonempty (xml_docs M ds) ->
  new_maps_from_xml_file_raw M (stream ds tail) = Some (xml_docs M ds, Ok tt).
Proof. exact maps_from_xml_file_raw_stream. Qed.
Print Assumptions C13_maps_from_xml_file_raw.
Theorem C13_maps_from_json_file_raw : forall nmj ds tail,
  jdocs_ok nmj ds -> blank tail = true -> all_nonempty (json_docs nmj ds) ->
  new_maps_from_json_file_raw nmj (jstream ds tail) = Some (json_docs nmj ds, Ok tt).
Proof. exact maps_from_json_file_raw_stream. Qed.
Print Assumptions C13_maps_from_json_file_raw.

(* NOT TRUE when a document decodes to an empty Map: {"a":1}{}{"a":1} gives two handler calls / two Maps *)
Theorem C13_handler_refuted_empty_object :
  exists nmj ds tail sc mh eh, jdocs_ok nmj ds /\ blank tail = true /\ legal (jstream ds tail) sc /\ clean sc = true /\
    forall rest, handle_json_reader nmj mh eh sc <>
      Some {| h_calls := handler_calls mh 0 (json_docs_noraw nmj ds); h_errs := 0; h_ret := Ok tt; h_rest := rest |}.
Proof. exact handler_refuted_empty_object. Qed.
Print Assumptions C13_handler_refuted_empty_object.
Theorem C13_file_refuted_empty_object :
  exists nmj ds tail, jdocs_ok nmj ds /\ blank tail = true /\
    new_maps_from_json_file_raw nmj (jstream ds tail) <> Some (json_docs nmj ds, Ok tt).
Proof. exact file_refuted_empty_object. Qed.
Print Assumptions C13_file_refuted_empty_object.

(* NOT PROVED: nothing of the property text is left unstated; what is assumed rather than proved is the environment
   (hypotheses eof_is_error / stops_at inside docs_ok / eof_on_blanks on the XML decoder, the oracle nmj for NewMapJson,
   file_schedule for *os.File), each exercised by the correspondence run. *)

(* ================================================================== non-vacuity *)

(* the hypotheses on the decoder are satisfiable: the concrete decoder `toy` (documents <name>) meets all of them,
   for every document name, and a three-document stream with blanks is read as specified from a schedule with
   several trailing io.EOF events *)
Example C13_decoder_hypotheses_met :
  eof_is_error toy /\ eof_on_blanks toy /\ (forall name, no_gt name = true -> stops_at toy (toy_doc name)).
Proof. split; [exact toy_eof_is_error|]. split; [exact toy_eof_on_blanks|exact toy_stops_at]. Qed.

Definition ex_ds : list (str * str) := [(s " ", toy_doc (s "a")); (hx "0a09", toy_doc (s "bc")); ([], toy_doc (s "d"))].
Definition ex_sc : list rev := map Data (stream ex_ds (s " ")) ++ [Eof; Eof].
Example C13_stream_nonvacuous :
  docs_ok toy ex_ds /\ legal (stream ex_ds (s " ")) ex_sc /\ clean ex_sc = true /\
  read_docs (new_map_xml_reader_raw toy) (S (length ex_sc)) ex_sc =
    [(Ok (VMap [(s "a", VStr [])]), s " <a>"); (Ok (VMap [(s "bc", VStr [])]), hx "0a093c62633e");
     (Ok (VMap [(s "d", VStr [])]), s "<d>"); (Err EEOF, s " ")].
Proof.
  split; [apply (toy_docs_ok [(s " ", s "a"); (hx "0a09", s "bc"); ([], s "d")]); repeat constructor|].
  split; [split; reflexivity|]. split; reflexivity.
Qed.

(* a JSON object whose strings contain braces, quotes, backslashes (not at the end) meets scan_safe, and is split off a
   stream that continues with another object *)
Definition ex_m : entries :=
  [(s "k{", VStr (s "a}" ++ [dq] ++ s "b" ++ [bsl] ++ s "c" ++ [bsl; dq]));
   (s "l", VList [VFlt (s "1"); VNil; VMap [(s "}", VBool true)]])].
Example C13_json_nonvacuous :
  scan_safe (VMap ex_m) = true /\
  get_json (file_schedule (s " " ++ marshal (VMap ex_m) ++ s "{}")) =
    Some (JOk (marshal (VMap ex_m)), map Data (s "{}")).
Proof. split; vm_compute; reflexivity. Qed.
