(* placeholder while the proofs are being written *)
From Mxj Require Import Model.Reader.
Theorem C13_placeholder : True.
Proof. exact I. Qed.
Print Assumptions C13_placeholder.
