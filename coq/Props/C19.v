(* C19 - Maps written to files, gob or Copy are read back equal.
   Only statements here; proofs are in Proofs/C19P.v.

   What is proved, and about what.  files.go, gob.go and Map.Copy are thin loops
   around (a) the per-Map encoders Xml/XmlIndent/Json/JsonIndent, (b) the
   one-document readers NewMapXmlReaderRaw/NewMapJsonReaderRaw, (c) encoding/json
   and (d) encoding/gob.  The model (Model/Files.v) transcribes mxj's own statements
   - the four read loops with their os.Stat/IsRegular/os.Open preamble, the four
   write loops with the "\n" separator of JsonStringIndent, NewMapGob's and
   NewMapJson's special cases, Json()'s trimming of the encoder output, Copy,
   and the getJson brace scanner - and takes (a)-(d) as PARAMETERS.  Every
   hypothesis below about a parameter (Reads, AtEOF, the behaviour on a truncated
   document, json_dec/gob_dec inverting the encoders) is a quantified premise of the
   theorem - never an Axiom - and is evaluated on the real functions for every
   generated file by the correspondence run (harness/c19.go: "hyp-*" clauses). *)
From Mxj Require Import Model.Files Spec.FilesSpec Proofs.C19P.

(* ---------------------------------------------------------------- files: round trip *)

(* Reading a file that consists of documents the reader takes one by one returns
   their values, in order, without an error - as many as pass  if len(m) > 0. *)
Theorem C19_file_roundtrip : forall (D : Type) (take : bytes -> taken bytes D) (keep : D -> bool) bs ds,
  AtEOF take keep -> Forall2 (Reads take) bs ds ->
  read_all take keep (concat bs) = FR false (kept keep ds) false.
Proof. exact file_roundtrip. Qed.
Print Assumptions C19_file_roundtrip.

(* XmlFile / XmlFileIndent / JsonFile (ij = false) and JsonFileIndent (ij = true) followed
   by the matching reader: the file is created and holds the concatenation of the
   per-Map texts (a newline before every document but the first for JsonFileIndent);
   reading it back returns, in order, the value each Map's own text decodes to. *)
Theorem C19_write_read_roundtrip : forall (M D : Type) (enc : M -> bytes) (dec : M -> D)
    (take : bytes -> taken bytes D) (keep : D -> bool) (ij : bool),
  AtEOF take keep ->
  (forall m, Reads take (enc m) (dec m)) ->
  (forall m, Reads take ((if ij then nl else []) ++ enc m) (dec m)) ->
  forall ms, exists file,
    maps_file (fun m => Some (enc m)) ij ms true = (Some file, false) /\
    read_all take keep file = FR false (kept keep (map dec ms)) false.
Proof. exact write_read_roundtrip. Qed.
Print Assumptions C19_write_read_roundtrip.

(* same number of Maps, in order, each the decoding of its own text - when no decoded Map is empty *)
Theorem C19_write_read_same_maps : forall (M D : Type) (enc : M -> bytes) (dec : M -> D)
    (take : bytes -> taken bytes D) (keep : D -> bool) (ij : bool),
  AtEOF take keep ->
  (forall m, Reads take (enc m) (dec m)) ->
  (forall m, Reads take ((if ij then nl else []) ++ enc m) (dec m)) ->
  forall ms, Forall (fun m => keep (dec m) = true) ms ->
  exists file,
    maps_file (fun m => Some (enc m)) ij ms true = (Some file, false) /\
    read_all take keep file = FR false (map dec ms) false.
Proof. exact write_read_same_maps. Qed.
Print Assumptions C19_write_read_same_maps.

(* "the same number of Maps": the read loops keep every document whose Map is not nil
   (fix fd230a2; on the pinned tree they tested len(m) > 0 and the document {} was dropped),
   and a reader never returns a nil Map with a nil error *)
Theorem C19_same_number : forall (M : Type) (enc : M -> bytes) (dec : M -> mapraw)
    (take : bytes -> taken bytes mapraw) (ij : bool),
  AtEOF take keep_raw ->
  (forall m, Reads take (enc m) (dec m)) ->
  (forall m, Reads take ((if ij then nl else []) ++ enc m) (dec m)) ->
  (forall m, map_not_nil (fst (dec m)) = true) ->
  forall ms, exists file,
    maps_file (fun m => Some (enc m)) ij ms true = (Some file, false) /\
    read_all take keep_raw file = FR false (map dec ms) false.
Proof. exact same_number. Qed.
Print Assumptions C19_same_number.

(* ... in particular the document {} on the transcribed JSON reader, Raw and non-Raw *)
Theorem C19_empty_object_read : forall json_dec,
  json_dec (s "{}") = Ok (VMap []) ->
  new_maps_from_file_raw (json_reader_raw json_dec) (file_fuel (s "{}")) (Opened (s "{}")) = FR false [(VMap [], s "{}")] false
  /\ new_maps_from_file (json_reader_raw json_dec) (file_fuel (s "{}")) (Opened (s "{}")) = FR false [VMap []] false.
Proof. exact empty_object_read. Qed.
Print Assumptions C19_empty_object_read.

(* an encoding error anywhere in the list: the writer returns the error and does not touch the file *)
Theorem C19_write_error_no_file : forall (M : Type) (enc : M -> option bytes) ij ms creatable,
  Exists (fun m => enc m = None) ms -> maps_file enc ij ms creatable = (None, true).
Proof. exact @maps_file_error. Qed.
Print Assumptions C19_write_error_no_file.

(* the Raw and the non-Raw function return the same Maps and the same error, for every reader and file state *)
Theorem C19_raw_nonraw_agree : forall (St : Type) (rd : St -> taken St mapraw) fuel f,
  new_maps_from_file rd fuel f = file_res_map fst (new_maps_from_file_raw rd fuel f).
Proof. exact raw_nonraw_agree. Qed.
Print Assumptions C19_raw_nonraw_agree.

(* ---------------------------------------------------------------- files: malformed, truncated, unreadable *)

(* whole documents followed by anything the reader rejects: the error, together with the Maps read so far *)
Theorem C19_malformed_tail_error : forall (D : Type) (take : bytes -> taken bytes D) (keep : D -> bool) bs ds tail,
  AtEOF take keep -> Forall2 (Reads take) bs ds ->
  t_err (take tail) = ROther ->
  read_all take keep (concat bs ++ tail) = FR false (kept keep ds) true.
Proof. exact malformed_tail_error. Qed.
Print Assumptions C19_malformed_tail_error.

(* a file cut after n bytes, any n: the Maps of the documents that lie wholly before the cut,
   and an error exactly when a document has begun in the fragment that follows them *)
Theorem C19_file_truncation : forall (D : Type) (take : bytes -> taken bytes D) (keep : D -> bool)
    (started : bytes -> bool) bs ds,
  AtEOF take keep -> Forall2 (Reads take) bs ds ->
  started [] = false ->
  (forall b k, In b bs -> k < length b -> started (firstn k b) = false ->
     t_err (take (firstn k b)) = REOF /\ keep (t_doc (take (firstn k b))) = false) ->
  (forall b k, In b bs -> k < length b -> started (firstn k b) = true ->
     t_err (take (firstn k b)) = ROther) ->
  forall n,
    read_all take keep (firstn n (concat bs)) =
    FR false (kept keep (firstn (fst (locate bs n)) ds))
       (started (firstn (snd (locate bs n)) (nth (fst (locate bs n)) bs []))).
Proof. exact file_truncation. Qed.
Print Assumptions C19_file_truncation.

Theorem C19_truncation_prefix : forall (D : Type) (take : bytes -> taken bytes D) (keep : D -> bool)
    (started : bytes -> bool) bs ds,
  AtEOF take keep -> Forall2 (Reads take) bs ds ->
  started [] = false ->
  (forall b k, In b bs -> k < length b -> started (firstn k b) = false ->
     t_err (take (firstn k b)) = REOF /\ keep (t_doc (take (firstn k b))) = false) ->
  (forall b k, In b bs -> k < length b -> started (firstn k b) = true ->
     t_err (take (firstn k b)) = ROther) ->
  forall n, exists i e,
    read_all take keep (firstn n (concat bs)) = FR false (kept keep (firstn i ds)) e /\
    exists more, kept keep ds = kept keep (firstn i ds) ++ more.
Proof. exact truncation_prefix. Qed.
Print Assumptions C19_truncation_prefix.

(* a cut at a document boundary is never an error *)
Theorem C19_truncation_at_boundary : forall (D : Type) (take : bytes -> taken bytes D) (keep : D -> bool) bs ds,
  AtEOF take keep -> Forall2 (Reads take) bs ds ->
  forall i, read_all take keep (concat (firstn i bs)) = FR false (kept keep (firstn i ds)) false.
Proof. exact truncation_at_boundary. Qed.
Print Assumptions C19_truncation_at_boundary.

(* os.Stat fails, not a regular file, os.Open fails: a nil slice and an error *)
Theorem C19_unreadable_error : forall (St D : Type) (take : St -> taken St D) keep fuel f,
  match f with Opened _ => False | _ => True end ->
  maps_from_file take keep fuel f = FR true [] true.
Proof. exact @unreadable_error. Qed.
Print Assumptions C19_unreadable_error.

(* JSON documents followed by a closing brace that opens nothing: an error together with the
   Maps read so far (fix 9f7e6ef; on the pinned tree getJson returned a nil pointer that
   NewMapJsonReaderRaw dereferenced, and NewMapsFromJsonFile[Raw] panicked) *)
Theorem C19_stray_brace_error : forall json_dec bs ds rest,
  Forall2 (Reads (json_reader_raw json_dec)) bs ds ->
  read_all (json_reader_raw json_dec) keep_raw (concat bs ++ "}"%char :: rest) = FR false (kept keep_raw ds) true.
Proof. exact stray_brace_file_error. Qed.
Print Assumptions C19_stray_brace_error.

(* The hypothesis Reads PROVED of the transcribed getJson scanner for every one-field document
   {"<key>":"<value>"}: whatever the two string literals contain - braces, escaped quotes,
   any number of trailing escaped backslashes - the scanner returns exactly the document
   and leaves the rest unread (fix 419ac2a: escape state; on the pinned tree a value ending
   in a backslash never closed and the file read back as an error and no Map). *)
Theorem C19_scan_field_doc : forall k v rest,
  forallb unit_ok k = true -> forallb unit_ok v = true ->
  scan_json (field_doc k v ++ rest) = SDoc (field_doc k v) rest.
Proof. exact scan_field_doc. Qed.
Print Assumptions C19_scan_field_doc.

Theorem C19_reader_reads_field_doc : forall json_dec k v m,
  forallb unit_ok k = true -> forallb unit_ok v = true ->
  json_dec (field_doc k v) = Ok (VMap m) ->
  Reads (json_reader_raw json_dec) (field_doc k v) (VMap m, field_doc k v).
Proof. exact reader_reads_field_doc. Qed.
Print Assumptions C19_reader_reads_field_doc.

(* a file of such documents reads back whole, in order, with each document's text as raw value *)
Theorem C19_field_docs_file_roundtrip : forall json_dec (kvs : list (list junit * list junit)) (mk : list junit * list junit -> entries),
  Forall (fun kv => forallb unit_ok (fst kv) = true /\ forallb unit_ok (snd kv) = true /\
                    json_dec (field_doc (fst kv) (snd kv)) = Ok (VMap (mk kv))) kvs ->
  read_all (json_reader_raw json_dec) keep_raw (concat (map (fun kv => field_doc (fst kv) (snd kv)) kvs)) =
  FR false (map (fun kv => (VMap (mk kv), field_doc (fst kv) (snd kv))) kvs) false.
Proof. exact field_docs_file_roundtrip. Qed.
Print Assumptions C19_field_docs_file_roundtrip.

(* NOT PROVED: that the real one-document readers satisfy Reads on every text the
   real encoders write, i.e.
     forall m rest, json_reader_raw json_dec (Json(m) ++ rest) = mkTaken (m, Json(m)) RNil rest
   for Maps of any shape (proved above for one-field Maps with string values), the indented
   texts, and the XML analogue.  It needs the
   grammar of the emitted JSON / XML texts (properties C06, C13, C02); here it is a
   hypothesis, evaluated on the implementation for every generated file ("hyp-reads"). *)

(* ---------------------------------------------------------------- gob *)

(* Hypotheses about encoding/gob: gob_dec inverts gob_enc on this Map and never
   produces an empty encoding.  mxj's own code adds only the special case
   NewMapGob([]) = empty Map and the error plumbing. *)
Theorem C19_gob_roundtrip : forall (gob_enc : value -> option bytes) (gob_dec : bytes -> res value) mv b,
  gob_enc mv = Some b -> b <> [] -> gob_dec b = Ok mv ->
  bind (map_gob gob_enc mv) (new_map_gob gob_dec) = Ok mv.
Proof. exact gob_roundtrip. Qed.
Print Assumptions C19_gob_roundtrip.

(* ... for every Map of JSON types: gob_env = an arbitrary encoder restricted to what
   encoding/gob transmits inside interface values - the basic types and the two types
   gob.go registers in init() (fix 6a56aba; on the pinned tree nothing was registered and
   the statement was refuted by Map{"a":{"b":"1"}}).  gob_encodable holds of every Map built
   from strings, numbers, booleans, nil, maps and lists at any depth. *)
Theorem C19_gob_env_roundtrip : forall enc dec mv,
  gob_encodable mv = true -> enc mv <> [] -> dec (enc mv) = Ok mv ->
  bind (map_gob (gob_env enc) mv) (new_map_gob dec) = Ok mv.
Proof. exact gob_env_roundtrip. Qed.
Print Assumptions C19_gob_env_roundtrip.

Theorem C19_gob_encode_error : forall (gob_enc : value -> option bytes) (gob_dec : bytes -> res value) mv,
  gob_enc mv = None -> bind (map_gob gob_enc mv) (new_map_gob gob_dec) = Err EOther.
Proof. exact gob_encode_error. Qed.
Print Assumptions C19_gob_encode_error.

(* ---------------------------------------------------------------- Copy *)

(* Hypotheses about encoding/json: the Encoder (SetEscapeHTML(false)) writes some bytes b for
   the Map, and the Decoder maps the bytes Json() hands it - b without the trailing newline -
   back to the Map.  mxj's own code adds the newline trimming, NewMapJson's empty-input case
   and its dispatch on the kind of the first value.  No condition on the Map's strings any
   more: Json() no longer rewrites the marshalled bytes (fix b2598e9; on the pinned tree a
   value containing backslash-u003c made Json() emit an invalid escape and Copy fail). *)
Theorem C19_copy_eq : forall (encode : bool -> value -> option bytes) (json_dec : bytes -> res value) m b,
  encode false (VMap m) = Some b -> trim_nl b <> [] ->
  json_dec (trim_nl b) = Ok (VMap m) ->
  map_copy encode json_dec (VMap m) = Ok (VMap m).
Proof. exact copy_eq. Qed.
Print Assumptions C19_copy_eq.

(* the same, stated about encoding/json alone: Encode writes the text j and a newline, Decode reads j back *)
Theorem C19_copy_eq_stdlib : forall (encode : bool -> value -> option bytes) (json_dec : bytes -> res value) m j,
  encode false (VMap m) = Some (j ++ [nl_byte]) -> j <> [] ->
  json_dec j = Ok (VMap m) ->
  map_copy encode json_dec (VMap m) = Ok (VMap m).
Proof. exact copy_eq_stdlib. Qed.
Print Assumptions C19_copy_eq_stdlib.

Theorem C19_copy_encode_error : forall (encode : bool -> value -> option bytes) (json_dec : bytes -> res value) mv,
  encode false mv = None -> map_copy encode json_dec mv = Err EOther.
Proof. exact copy_encode_error. Qed.
Print Assumptions C19_copy_encode_error.

(* ---------------------------------------------------------------- non-vacuity *)

(* the hypotheses of the round-trip and truncation theorems hold of the transcribed JSON
   reader (with a decoder that wraps the text) on two concrete documents that contain
   braces, an escaped quote and a backslash inside string values *)
Example C19_hypotheses_satisfiable :
  AtEOF (json_reader_raw toy_dec) keep_raw /\
  Forall2 (Reads (json_reader_raw toy_dec)) ex_docs ex_vals /\
  read_all (json_reader_raw toy_dec) keep_raw (concat ex_docs) = FR false ex_vals false.
Proof. exact ex_roundtrip. Qed.

Example C19_truncation_hypotheses_satisfiable :
  (forall b k, In b ex_docs -> k < length b -> ex_started (firstn k b) = false ->
     t_err (json_reader_raw toy_dec (firstn k b)) = REOF /\
     keep_raw (t_doc (json_reader_raw toy_dec (firstn k b))) = false) /\
  (forall b k, In b ex_docs -> k < length b -> ex_started (firstn k b) = true ->
     t_err (json_reader_raw toy_dec (firstn k b)) = ROther) /\
  read_all (json_reader_raw toy_dec) keep_raw (firstn 25 (concat ex_docs)) = FR false (firstn 1 ex_vals) true.
Proof. exact ex_truncation. Qed.

Example C19_gob_copy_instances :
  gob_encodable (VMap [(s "a", VMap [(s "b", VStr (s "1"))]); (s "l", VList [VStr (s "1"); VMap []; VList []])]) = true /\
  gob_encodable (VMap [(s "a", VStr (s "x")); (s "b", VFlt (s "1.5")); (s "c", VBool true)]) = true /\
  trim_nl (s "{""a"":""<>&""}" ++ [nl_byte]) = s "{""a"":""<>&""}".
Proof. repeat split; vm_compute; reflexivity. Qed.

(* the file the pinned tree could not read back: a value ending in a backslash, then a second document *)
Example C19_trailing_backslash_file :
  doc_trailing_bsl = s "{""a"":""x" ++ [bsl; bsl] ++ s """}" /\
  new_maps_from_file_raw (json_reader_raw toy_dec) (file_fuel (doc_trailing_bsl ++ doc_plain))
    (Opened (doc_trailing_bsl ++ doc_plain)) =
  FR false [(VMap [(s "json", VStr doc_trailing_bsl)], doc_trailing_bsl);
            (VMap [(s "json", VStr doc_plain)], doc_plain)] false.
Proof. exact trailing_backslash_file. Qed.
