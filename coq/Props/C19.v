(* C19 - Maps written to files, gob or Copy are read back equal.
   Only statements here; proofs are in Proofs/C19P.v and, for the last section (JSON files of
   arbitrary Maps: the hypothesis Reads discharged against Model/Json.v's marshal / marshal_indent, and
   the agreement of the two getJson models), in Proofs/C19Reads*.v.

   What is proved, and about what.  files.go, gob.go and Map.Copy are thin loops
   around (a) the per-Map encoders Xml/XmlIndent/Json/JsonIndent, (b) the
   one-document readers NewMapXmlReaderRaw/NewMapJsonReaderRaw, (c) encoding/json
   and (d) encoding/gob.  The model (Model/Files.v) transcribes mxj's own statements
   - the four read loops with their os.Stat/IsRegular/os.Open preamble, the four
   write loops with the "\n" separator of JsonStringIndent, NewMapGob's and
   NewMapJson's special cases, Json()'s trimming of the encoder output, Copy,
   and the getJson brace scanner - and takes (a)-(d) as PARAMETERS.  Every
   hypothesis below about a parameter (Reads, AtEOF, the behaviour on a truncated
   document, json_dec/gob_dec inverting the encoders) is a quantified premise of the
   theorem - never an Axiom - and is evaluated on the real functions for every
   generated file by the correspondence run (harness/c19.go: "hyp-*" clauses). *)
From Mxj Require Import Model.Files Spec.FilesSpec Proofs.C19P.

(* ---------------------------------------------------------------- files: round trip *)

(* Reading a file that consists of documents the reader takes one by one returns
   their values, in order, without an error - as many as pass  if len(m) > 0. *)
Theorem C19_file_roundtrip : forall (D : Type) (take : bytes -> taken bytes D) (keep : D -> bool) bs ds,
  AtEOF take keep -> Forall2 (Reads take) bs ds ->
  read_all take keep (concat bs) = FR false (kept keep ds) false.
Proof. exact file_roundtrip. Qed.
Print Assumptions C19_file_roundtrip.

(* XmlFile / XmlFileIndent / JsonFile (ij = false) and JsonFileIndent (ij = true) followed
   by the matching reader: the file is created and holds the concatenation of the
   per-Map texts (a newline before every document but the first for JsonFileIndent);
   reading it back returns, in order, the value each Map's own text decodes to. *)
Theorem C19_write_read_roundtrip : forall (M D : Type) (enc : M -> bytes) (dec : M -> D)
    (take : bytes -> taken bytes D) (keep : D -> bool) (ij : bool),
  AtEOF take keep ->
  (forall m, Reads take (enc m) (dec m)) ->
  (forall m, Reads take ((if ij then nl else []) ++ enc m) (dec m)) ->
  forall ms, exists file,
    maps_file (fun m => Some (enc m)) ij ms true = (Some file, false) /\
    read_all take keep file = FR false (kept keep (map dec ms)) false.
Proof. exact write_read_roundtrip. Qed.
Print Assumptions C19_write_read_roundtrip.

(* same number of Maps, in order, each the decoding of its own text - when no decoded Map is empty *)
Theorem C19_write_read_same_maps : forall (M D : Type) (enc : M -> bytes) (dec : M -> D)
    (take : bytes -> taken bytes D) (keep : D -> bool) (ij : bool),
  AtEOF take keep ->
  (forall m, Reads take (enc m) (dec m)) ->
  (forall m, Reads take ((if ij then nl else []) ++ enc m) (dec m)) ->
  forall ms, Forall (fun m => keep (dec m) = true) ms ->
  exists file,
    maps_file (fun m => Some (enc m)) ij ms true = (Some file, false) /\
    read_all take keep file = FR false (map dec ms) false.
Proof. exact write_read_same_maps. Qed.
Print Assumptions C19_write_read_same_maps.

(* "the same number of Maps": the read loops keep every document whose Map is not nil
   (fix fd230a2; on the pinned tree they tested len(m) > 0 and the document {} was dropped),
   and a reader never returns a nil Map with a nil error *)
Theorem C19_same_number : forall (M : Type) (enc : M -> bytes) (dec : M -> mapraw)
    (take : bytes -> taken bytes mapraw) (ij : bool),
  AtEOF take keep_raw ->
  (forall m, Reads take (enc m) (dec m)) ->
  (forall m, Reads take ((if ij then nl else []) ++ enc m) (dec m)) ->
  (forall m, map_not_nil (fst (dec m)) = true) ->
  forall ms, exists file,
    maps_file (fun m => Some (enc m)) ij ms true = (Some file, false) /\
    read_all take keep_raw file = FR false (map dec ms) false.
Proof. exact same_number. Qed.
Print Assumptions C19_same_number.

(* ... in particular the document {} on the transcribed JSON reader, Raw and non-Raw *)
Theorem C19_empty_object_read : forall json_dec,
  json_dec (s "{}") = Ok (VMap []) ->
  new_maps_from_file_raw (json_reader_raw json_dec) (file_fuel (s "{}")) (Opened (s "{}")) = FR false [(VMap [], s "{}")] false
  /\ new_maps_from_file (json_reader_raw json_dec) (file_fuel (s "{}")) (Opened (s "{}")) = FR false [VMap []] false.
Proof. exact empty_object_read. Qed.
Print Assumptions C19_empty_object_read.

(* an encoding error anywhere in the list: the writer returns the error and does not touch the file *)
Theorem C19_write_error_no_file : forall (M : Type) (enc : M -> option bytes) ij ms creatable,
  Exists (fun m => enc m = None) ms -> maps_file enc ij ms creatable = (None, true).
Proof. exact @maps_file_error. Qed.
Print Assumptions C19_write_error_no_file.

(* the Raw and the non-Raw function return the same Maps and the same error, for every reader and file state *)
Theorem C19_raw_nonraw_agree : forall (St : Type) (rd : St -> taken St mapraw) fuel f,
  new_maps_from_file rd fuel f = file_res_map fst (new_maps_from_file_raw rd fuel f).
Proof. exact raw_nonraw_agree. Qed.
Print Assumptions C19_raw_nonraw_agree.

(* ---------------------------------------------------------------- files: malformed, truncated, unreadable *)

(* whole documents followed by anything the reader rejects: the error, together with the Maps read so far *)
Theorem C19_malformed_tail_error : forall (D : Type) (take : bytes -> taken bytes D) (keep : D -> bool) bs ds tail,
  AtEOF take keep -> Forall2 (Reads take) bs ds ->
  t_err (take tail) = ROther ->
  read_all take keep (concat bs ++ tail) = FR false (kept keep ds) true.
Proof. exact malformed_tail_error. Qed.
Print Assumptions C19_malformed_tail_error.

(* a file cut after n bytes, any n: the Maps of the documents that lie wholly before the cut,
   and an error exactly when a document has begun in the fragment that follows them *)
Theorem C19_file_truncation : forall (D : Type) (take : bytes -> taken bytes D) (keep : D -> bool)
    (started : bytes -> bool) bs ds,
  AtEOF take keep -> Forall2 (Reads take) bs ds ->
  started [] = false ->
  (forall b k, In b bs -> k < length b -> started (firstn k b) = false ->
     t_err (take (firstn k b)) = REOF /\ keep (t_doc (take (firstn k b))) = false) ->
  (forall b k, In b bs -> k < length b -> started (firstn k b) = true ->
     t_err (take (firstn k b)) = ROther) ->
  forall n,
    read_all take keep (firstn n (concat bs)) =
    FR false (kept keep (firstn (fst (locate bs n)) ds))
       (started (firstn (snd (locate bs n)) (nth (fst (locate bs n)) bs []))).
Proof. exact file_truncation. Qed.
Print Assumptions C19_file_truncation.

Theorem C19_truncation_prefix : forall (D : Type) (take : bytes -> taken bytes D) (keep : D -> bool)
    (started : bytes -> bool) bs ds,
  AtEOF take keep -> Forall2 (Reads take) bs ds ->
  started [] = false ->
  (forall b k, In b bs -> k < length b -> started (firstn k b) = false ->
     t_err (take (firstn k b)) = REOF /\ keep (t_doc (take (firstn k b))) = false) ->
  (forall b k, In b bs -> k < length b -> started (firstn k b) = true ->
     t_err (take (firstn k b)) = ROther) ->
  forall n, exists i e,
    read_all take keep (firstn n (concat bs)) = FR false (kept keep (firstn i ds)) e /\
    exists more, kept keep ds = kept keep (firstn i ds) ++ more.
Proof. exact truncation_prefix. Qed.
Print Assumptions C19_truncation_prefix.

(* a cut at a document boundary is never an error *)
Theorem C19_truncation_at_boundary : forall (D : Type) (take : bytes -> taken bytes D) (keep : D -> bool) bs ds,
  AtEOF take keep -> Forall2 (Reads take) bs ds ->
  forall i, read_all take keep (concat (firstn i bs)) = FR false (kept keep (firstn i ds)) false.
Proof. exact truncation_at_boundary. Qed.
Print Assumptions C19_truncation_at_boundary.

(* os.Stat fails, not a regular file, os.Open fails: a nil slice and an error *)
Theorem C19_unreadable_error : forall (St D : Type) (take : St -> taken St D) keep fuel f,
  match f with Opened _ => False | _ => True end ->
  maps_from_file take keep fuel f = FR true [] true.
Proof. exact @unreadable_error. Qed.
Print Assumptions C19_unreadable_error.

(* JSON documents followed by a closing brace that opens nothing: an error together with the
   Maps read so far (fix 9f7e6ef; on the pinned tree getJson returned a nil pointer that
   NewMapJsonReaderRaw dereferenced, and NewMapsFromJsonFile[Raw] panicked) *)
Theorem C19_stray_brace_error : forall json_dec bs ds rest,
  Forall2 (Reads (json_reader_raw json_dec)) bs ds ->
  read_all (json_reader_raw json_dec) keep_raw (concat bs ++ "}"%char :: rest) = FR false (kept keep_raw ds) true.
Proof. exact stray_brace_file_error. Qed.
Print Assumptions C19_stray_brace_error.

(* The hypothesis Reads PROVED of the transcribed getJson scanner for every one-field document
   {"<key>":"<value>"}: whatever the two string literals contain - braces, escaped quotes,
   any number of trailing escaped backslashes - the scanner returns exactly the document
   and leaves the rest unread (fix 419ac2a: escape state; on the pinned tree a value ending
   in a backslash never closed and the file read back as an error and no Map). *)
Theorem C19_scan_field_doc : forall k v rest,
  forallb unit_ok k = true -> forallb unit_ok v = true ->
  scan_json (field_doc k v ++ rest) = SDoc (field_doc k v) rest.
Proof. exact scan_field_doc. Qed.
Print Assumptions C19_scan_field_doc.

Theorem C19_reader_reads_field_doc : forall json_dec k v m,
  forallb unit_ok k = true -> forallb unit_ok v = true ->
  json_dec (field_doc k v) = Ok (VMap m) ->
  Reads (json_reader_raw json_dec) (field_doc k v) (VMap m, field_doc k v).
Proof. exact reader_reads_field_doc. Qed.
Print Assumptions C19_reader_reads_field_doc.

(* a file of such documents reads back whole, in order, with each document's text as raw value *)
Theorem C19_field_docs_file_roundtrip : forall json_dec (kvs : list (list junit * list junit)) (mk : list junit * list junit -> entries),
  Forall (fun kv => forallb unit_ok (fst kv) = true /\ forallb unit_ok (snd kv) = true /\
                    json_dec (field_doc (fst kv) (snd kv)) = Ok (VMap (mk kv))) kvs ->
  read_all (json_reader_raw json_dec) keep_raw (concat (map (fun kv => field_doc (fst kv) (snd kv)) kvs)) =
  FR false (map (fun kv => (VMap (mk kv), field_doc (fst kv) (snd kv))) kvs) false.
Proof. exact field_docs_file_roundtrip. Qed.
Print Assumptions C19_field_docs_file_roundtrip.

(* Reads is PROVED below (section "JSON files of ARBITRARY Maps", end of this file) for the transcribed
   NewMapJsonReaderRaw on the text Json() writes (compact) and on the text JsonIndent writes (indented, blank
   prefix and indent) for ANY Map of JSON types, with blanks before it: C19_reader_reads_json_doc[_blanks],
   C19_reader_reads_json_indent_doc; and the file theorems are instantiated with it (C19_json_file_roundtrip,
   C19_json_write_read_roundtrip, C19_json_indent_write_read_roundtrip, C19_json_stream_file_roundtrip,
   C19_json_file_truncation).  The one hypothesis left there is about encoding/json alone: the decoder
   returns an object for the COMPACT text of the Map (json_dec (marshal eh (VMap m)) = Ok (VMap d)) - the text
   getJson hands NewMapJson also when the file holds the indented text.

   NOT PROVED:
   - Reads for the XML readers on the texts Xml / XmlIndent write (it needs the grammar of the emitted XML and
     the behaviour of encoding/xml's Decoder on it: properties C02, C13); there Reads stays a hypothesis,
     evaluated on the implementation for every generated file ("hyp-reads");
   - the truncation theorem for files of INDENTED JSON texts (a cut between a document's closing brace and the
     opening brace of the next one - inside the separating newline - is not an error, and a cut inside an indented
     text is; the instance needs a `started` finer than `begun` and the analogue of C19_scan_json_cut);
   - that a byte-level encoding/json decoder maps marshal eh (VMap m) back to the Map (Model/Json.v decodes at the
     segment level: C06); json_dec stays a parameter. *)

(* ---------------------------------------------------------------- gob *)

(* Hypotheses about encoding/gob: gob_dec inverts gob_enc on this Map and never
   produces an empty encoding.  mxj's own code adds only the special case
   NewMapGob([]) = empty Map and the error plumbing. *)
Theorem C19_gob_roundtrip : forall (gob_enc : value -> option bytes) (gob_dec : bytes -> res value) mv b,
  gob_enc mv = Some b -> b <> [] -> gob_dec b = Ok mv ->
  bind (map_gob gob_enc mv) (new_map_gob gob_dec) = Ok mv.
Proof. exact gob_roundtrip. Qed.
Print Assumptions C19_gob_roundtrip.

(* ... for every Map of JSON types: gob_env = an arbitrary encoder restricted to what
   encoding/gob transmits inside interface values - the basic types and the two types
   gob.go registers in init() (fix 6a56aba; on the pinned tree nothing was registered and
   the statement was refuted by Map{"a":{"b":"1"}}).  gob_encodable holds of every Map built
   from strings, numbers, booleans, nil, maps and lists at any depth. *)
Theorem C19_gob_env_roundtrip : forall enc dec mv,
  gob_encodable mv = true -> enc mv <> [] -> dec (enc mv) = Ok mv ->
  bind (map_gob (gob_env enc) mv) (new_map_gob dec) = Ok mv.
Proof. exact gob_env_roundtrip. Qed.
Print Assumptions C19_gob_env_roundtrip.

Theorem C19_gob_encode_error : forall (gob_enc : value -> option bytes) (gob_dec : bytes -> res value) mv,
  gob_enc mv = None -> bind (map_gob gob_enc mv) (new_map_gob gob_dec) = Err EOther.
Proof. exact gob_encode_error. Qed.
Print Assumptions C19_gob_encode_error.

(* ---------------------------------------------------------------- Copy *)

(* Hypotheses about encoding/json: the Encoder (SetEscapeHTML(false)) writes some bytes b for
   the Map, and the Decoder maps the bytes Json() hands it - b without the trailing newline -
   back to the Map.  mxj's own code adds the newline trimming, NewMapJson's empty-input case
   and its dispatch on the kind of the first value.  No condition on the Map's strings any
   more: Json() no longer rewrites the marshalled bytes (fix b2598e9; on the pinned tree a
   value containing backslash-u003c made Json() emit an invalid escape and Copy fail). *)
Theorem C19_copy_eq : forall (encode : bool -> value -> option bytes) (json_dec : bytes -> res value) m b,
  encode false (VMap m) = Some b -> trim_nl b <> [] ->
  json_dec (trim_nl b) = Ok (VMap m) ->
  map_copy encode json_dec (VMap m) = Ok (VMap m).
Proof. exact copy_eq. Qed.
Print Assumptions C19_copy_eq.

(* the same, stated about encoding/json alone: Encode writes the text j and a newline, Decode reads j back *)
Theorem C19_copy_eq_stdlib : forall (encode : bool -> value -> option bytes) (json_dec : bytes -> res value) m j,
  encode false (VMap m) = Some (j ++ [nl_byte]) -> j <> [] ->
  json_dec j = Ok (VMap m) ->
  map_copy encode json_dec (VMap m) = Ok (VMap m).
Proof. exact copy_eq_stdlib. Qed.
Print Assumptions C19_copy_eq_stdlib.

Theorem C19_copy_encode_error : forall (encode : bool -> value -> option bytes) (json_dec : bytes -> res value) mv,
  encode false mv = None -> map_copy encode json_dec mv = Err EOther.
Proof. exact copy_encode_error. Qed.
Print Assumptions C19_copy_encode_error.

(* ---------------------------------------------------------------- non-vacuity *)

(* the hypotheses of the round-trip and truncation theorems hold of the transcribed JSON
   reader (with a decoder that wraps the text) on two concrete documents that contain
   braces, an escaped quote and a backslash inside string values *)
Example C19_hypotheses_satisfiable :
  AtEOF (json_reader_raw toy_dec) keep_raw /\
  Forall2 (Reads (json_reader_raw toy_dec)) ex_docs ex_vals /\
  read_all (json_reader_raw toy_dec) keep_raw (concat ex_docs) = FR false ex_vals false.
Proof. exact ex_roundtrip. Qed.

Example C19_truncation_hypotheses_satisfiable :
  (forall b k, In b ex_docs -> k < length b -> ex_started (firstn k b) = false ->
     t_err (json_reader_raw toy_dec (firstn k b)) = REOF /\
     keep_raw (t_doc (json_reader_raw toy_dec (firstn k b))) = false) /\
  (forall b k, In b ex_docs -> k < length b -> ex_started (firstn k b) = true ->
     t_err (json_reader_raw toy_dec (firstn k b)) = ROther) /\
  read_all (json_reader_raw toy_dec) keep_raw (firstn 25 (concat ex_docs)) = FR false (firstn 1 ex_vals) true.
Proof. exact ex_truncation. Qed.

Example C19_gob_copy_instances :
  gob_encodable (VMap [(s "a", VMap [(s "b", VStr (s "1"))]); (s "l", VList [VStr (s "1"); VMap []; VList []])]) = true /\
  gob_encodable (VMap [(s "a", VStr (s "x")); (s "b", VFlt (s "1.5")); (s "c", VBool true)]) = true /\
  trim_nl (s "{""a"":""<>&""}" ++ [nl_byte]) = s "{""a"":""<>&""}".
Proof. repeat split; vm_compute; reflexivity. Qed.

(* the file the pinned tree could not read back: a value ending in a backslash, then a second document *)
Example C19_trailing_backslash_file :
  doc_trailing_bsl = s "{""a"":""x" ++ [bsl; bsl] ++ s """}" /\
  new_maps_from_file_raw (json_reader_raw toy_dec) (file_fuel (doc_trailing_bsl ++ doc_plain))
    (Opened (doc_trailing_bsl ++ doc_plain)) =
  FR false [(VMap [(s "json", VStr doc_trailing_bsl)], doc_trailing_bsl);
            (VMap [(s "json", VStr doc_plain)], doc_plain)] false.
Proof. exact trailing_backslash_file. Qed.

(* ================================================================ JSON files of ARBITRARY Maps: Reads discharged *)

From Mxj Require Import Spec.JsonFilesSpec Proofs.C13Json Proofs.C19Reads Proofs.C19ReadsDoc Proofs.C19ReadsTrunc Proofs.C19ReadsIndent
  Proofs.C19ReadsAgree Proofs.C19ReadsEx.

(* ---------------------------------------------------------------- the two models of getJson agree *)

(* Model/Files.v scan_json (over the unread bytes; the reader above) and Model/Reader.v get_json (the
   machine jmachine driven over a reader schedule; property C13) transcribe the same Go loop.  On EVERY
   byte string b, getJson of Reader.v run on the *os.File schedule of b (every byte with a nil error, then
   (0, io.EOF)) returns the image jres of what scan_json returns, and leaves the schedule of exactly the
   bytes scan_json leaves (Spec/JsonFilesSpec.v: jres maps SDoc/SEof to JOk/JErr EEOF and both SNoClose and
   SStray to JErr EOther - Reader.v keeps the class of an error only; unread is the rest of SDoc/SStray and
   nothing at end of input). *)
Theorem C19_scan_models_agree : forall b,
  Reader.get_json (file_schedule b) = Some (jres (scan_json b), file_schedule (unread (scan_json b))).
Proof. exact scan_models_agree. Qed.
Print Assumptions C19_scan_models_agree.

(* ... and so on every legal schedule of b (short reads, (0, nil) reads, data together with io.EOF) *)
Theorem C19_scan_models_agree_any_schedule : forall b sc, legal b sc ->
  exists sc', Reader.get_json sc = Some (jres (scan_json b), sc') /\ legal (unread (scan_json b)) sc'.
Proof. exact scan_models_agree_any_schedule. Qed.
Print Assumptions C19_scan_models_agree_any_schedule.

(* the same about the machine run directly over the bytes: same result, and what scan_json leaves unread
   is the input minus the bytes the machine consumed *)
Theorem C19_scan_json_direct : forall b, exists pre,
  b = pre ++ unread (scan_json b) /\ direct jmachine jinit b = (jres (scan_json b), length pre).
Proof. exact scan_json_suffix. Qed.
Print Assumptions C19_scan_json_direct.

(* ---------------------------------------------------------------- the scanner and the reader on the text of any Map *)

(* blanks, the compact text encoding/json writes for ANY object of JSON types (Model/Json.v marshal, either
   escapeHTML setting; scan_safe: values are strings, booleans, nil, float64 / json.Number texts, Maps and
   lists of these, at any depth), then anything: scan_json returns the object's text and leaves exactly what
   follows it *)
Theorem C19_scan_json_marshal : forall eh m w rest, scan_safe (VMap m) = true -> blank w = true ->
  scan_json (w ++ marshal eh (VMap m) ++ rest) = SDoc (marshal eh (VMap m)) rest.
Proof. exact scan_json_marshal. Qed.
Print Assumptions C19_scan_json_marshal.

(* Reads, PROVED for the transcribed NewMapJsonReaderRaw on the text of any Map of JSON types, for every
   decoder that decodes that text to an object (the one hypothesis left about encoding/json) *)
Theorem C19_reader_reads_json_doc : forall json_dec eh m d,
  scan_safe (VMap m) = true -> json_dec (marshal eh (VMap m)) = Ok (VMap d) ->
  Reads (json_reader_raw json_dec) (marshal eh (VMap m)) (VMap d, marshal eh (VMap m)).
Proof. exact reader_reads_json_doc. Qed.
Print Assumptions C19_reader_reads_json_doc.

(* ... with blanks in front of the document (a newline between documents); the raw value is the text alone *)
Theorem C19_reader_reads_json_doc_blanks : forall json_dec eh m d w,
  scan_safe (VMap m) = true -> blank w = true -> json_dec (marshal eh (VMap m)) = Ok (VMap d) ->
  Reads (json_reader_raw json_dec) (w ++ marshal eh (VMap m)) (VMap d, marshal eh (VMap m)).
Proof. exact reader_reads_json_doc_blanks. Qed.
Print Assumptions C19_reader_reads_json_doc_blanks.

(* ... and in terms of NewMapJson's own result v (an array is wrapped under the key "object") *)
Theorem C19_reader_reads_json_text : forall json_dec eh m w v,
  scan_safe (VMap m) = true -> blank w = true ->
  Files.new_map_json json_dec (marshal eh (VMap m)) = Ok v ->
  Reads (json_reader_raw json_dec) (w ++ marshal eh (VMap m)) (v, marshal eh (VMap m)).
Proof. exact reader_reads_json_text. Qed.
Print Assumptions C19_reader_reads_json_text.

(* the statement with an arbitrary decoded value v in place of an object is false: a decoder that answers
   null makes NewMapJson, hence the reader, report an error *)
Theorem C19_reader_reads_any_value_refuted : exists json_dec eh m v,
  scan_safe (VMap m) = true /\ json_dec (marshal eh (VMap m)) = Ok v /\
  ~ Reads (json_reader_raw json_dec) (marshal eh (VMap m)) (v, marshal eh (VMap m)).
Proof. exact reads_any_value_refuted. Qed.
Print Assumptions C19_reader_reads_any_value_refuted.

(* ---------------------------------------------------------------- files of arbitrary Maps *)

(* a file that is the concatenation of the texts of ANY list of Maps of JSON types reads back - Raw reader
   and plain reader - as the list of their decodings, in order, without an error; the raw values are the texts *)
Theorem C19_json_file_roundtrip : forall json_dec eh (dec : entries -> entries) ms,
  Forall (fun m => scan_safe (VMap m) = true /\ json_dec (marshal eh (VMap m)) = Ok (VMap (dec m))) ms ->
  read_all (json_reader_raw json_dec) keep_raw (concat (map (fun m => marshal eh (VMap m)) ms)) =
    FR false (map (fun m => (VMap (dec m), marshal eh (VMap m))) ms) false /\
  read_all (rd_map (json_reader_raw json_dec)) map_not_nil (concat (map (fun m => marshal eh (VMap m)) ms)) =
    FR false (map (fun m => VMap (dec m)) ms) false.
Proof. exact json_file_roundtrip. Qed.
Print Assumptions C19_json_file_roundtrip.

(* JsonFile (the writer loop of files.go over Json()'s texts), then the two readers on the file it wrote *)
Theorem C19_json_write_read_roundtrip : forall json_dec eh (dec : entries -> entries) ms,
  Forall (fun m => scan_safe (VMap m) = true /\ json_dec (marshal eh (VMap m)) = Ok (VMap (dec m))) ms ->
  exists file,
    maps_file (fun m => Some (marshal eh (VMap m))) false ms true = (Some file, false) /\
    read_all (json_reader_raw json_dec) keep_raw file = FR false (map (fun m => (VMap (dec m), marshal eh (VMap m))) ms) false /\
    read_all (rd_map (json_reader_raw json_dec)) map_not_nil file = FR false (map (fun m => VMap (dec m)) ms) false.
Proof. exact json_write_read_roundtrip. Qed.
Print Assumptions C19_json_write_read_roundtrip.

(* documents (blanks w, Map m written, Map d decoded) with arbitrary blanks before each and after the last -
   one document per line, say *)
Theorem C19_json_stream_file_roundtrip : forall json_dec eh (ds : list (str * entries * entries)) tail,
  Forall (fun x => blank (fst (fst x)) = true /\ scan_safe (VMap (snd (fst x))) = true /\
                   json_dec (marshal eh (VMap (snd (fst x)))) = Ok (VMap (snd x))) ds ->
  blank tail = true ->
  read_all (json_reader_raw json_dec) keep_raw
    (concat (map (fun x => fst (fst x) ++ marshal eh (VMap (snd (fst x)))) ds) ++ tail) =
  FR false (map (fun x => (VMap (snd x), marshal eh (VMap (snd (fst x))))) ds) false.
Proof. exact json_stream_file_roundtrip. Qed.
Print Assumptions C19_json_stream_file_roundtrip.

(* ---------------------------------------------------------------- truncation, hypotheses discharged *)

(* a strict non-empty prefix of a Map's text: getJson reaches the end of the input inside the object *)
Theorem C19_scan_json_cut : forall eh m k, scan_safe (VMap m) = true ->
  0 < k -> k < length (marshal eh (VMap m)) ->
  exists b, scan_json (firstn k (marshal eh (VMap m))) = SNoClose b.
Proof. exact scan_json_cut. Qed.
Print Assumptions C19_scan_json_cut.

(* the file JsonFile writes for ANY Maps of JSON types, cut after n bytes, any n: the Maps of the documents
   that lie wholly before the cut, and an error exactly when the cut falls inside a document (begun: the
   fragment after the last whole document is not empty) *)
Theorem C19_json_file_truncation : forall json_dec eh (dec : entries -> entries) ms n,
  Forall (fun m => scan_safe (VMap m) = true /\ json_dec (marshal eh (VMap m)) = Ok (VMap (dec m))) ms ->
  read_all (json_reader_raw json_dec) keep_raw (firstn n (concat (map (fun m => marshal eh (VMap m)) ms))) =
  FR false (firstn (fst (locate (map (fun m => marshal eh (VMap m)) ms) n)) (map (fun m => (VMap (dec m), marshal eh (VMap m))) ms))
     (begun (firstn (snd (locate (map (fun m => marshal eh (VMap m)) ms) n))
               (nth (fst (locate (map (fun m => marshal eh (VMap m)) ms) n)) (map (fun m => marshal eh (VMap m)) ms) []))).
Proof. exact json_file_truncation. Qed.
Print Assumptions C19_json_file_truncation.

(* ---------------------------------------------------------------- indented texts (JsonIndent / JsonFileIndent) *)

(* blanks, the text JsonIndent(prefix, indent) writes for ANY object of JSON types (Model/Json.v marshal_indent:
   json.Indent of the compact text; prefix and indent blank), then anything: getJson drops the blanks outside
   string literals, so scan_json returns the COMPACT text of the object - not the bytes in the file - and
   leaves exactly what follows the object *)
Theorem C19_scan_json_marshal_indent : forall eh p i m w rest,
  blank p = true -> blank i = true -> scan_safe (VMap m) = true -> blank w = true ->
  scan_json (w ++ marshal_indent eh p i (VMap m) ++ rest) = SDoc (marshal eh (VMap m)) rest.
Proof. exact scan_json_marshal_indent. Qed.
Print Assumptions C19_scan_json_marshal_indent.

(* Reads for the indented text: the Map is what the compact text decodes to, the raw value is the compact text *)
Theorem C19_reader_reads_json_indent_doc : forall json_dec eh p i m d w,
  blank p = true -> blank i = true -> scan_safe (VMap m) = true -> blank w = true ->
  json_dec (marshal eh (VMap m)) = Ok (VMap d) ->
  Reads (json_reader_raw json_dec) (w ++ marshal_indent eh p i (VMap m)) (VMap d, marshal eh (VMap m)).
Proof. exact reader_reads_json_indent_doc. Qed.
Print Assumptions C19_reader_reads_json_indent_doc.

(* JsonFileIndent (the indented texts, a newline before every document but the first), then the two readers on
   the file it wrote: the same Maps as from the compact file, in order, no error *)
Theorem C19_json_indent_write_read_roundtrip : forall json_dec eh p i (dec : entries -> entries) ms,
  blank p = true -> blank i = true ->
  Forall (fun m => scan_safe (VMap m) = true /\ json_dec (marshal eh (VMap m)) = Ok (VMap (dec m))) ms ->
  exists file,
    maps_file (fun m => Some (marshal_indent eh p i (VMap m))) true ms true = (Some file, false) /\
    read_all (json_reader_raw json_dec) keep_raw file = FR false (map (fun m => (VMap (dec m), marshal eh (VMap m))) ms) false /\
    read_all (rd_map (json_reader_raw json_dec)) map_not_nil file = FR false (map (fun m => VMap (dec m)) ms) false.
Proof. exact json_indent_write_read_roundtrip. Qed.
Print Assumptions C19_json_indent_write_read_roundtrip.

(* ---------------------------------------------------------------- the two models of NewMapJsonReaderRaw agree *)

(* getJson never returns an empty document with a nil error (the len( *jb ) == 0 test of the readers never fires
   on a nil error) *)
Theorem C19_scan_doc_nonempty : forall b jb r, scan_json b = SDoc jb r -> jb <> [].
Proof. exact scan_doc_nonempty. Qed.
Print Assumptions C19_scan_doc_nonempty.

(* On the file holding b the reader of Model/Reader.v returns a result r, raw bytes and the rest of the file; the
   reader of Model/Files.v returns the same raw bytes and rest, the Map of r and the class of r's error (err_class,
   map_of: Spec/JsonFilesSpec.v) - provided the decoder never answers io.EOF for a text (encoding/json answers
   io.EOF only when there is no value at all; getJson hands NewMapJson a text that starts with a brace) *)
Theorem C19_reader_models_agree : forall json_dec b, (forall j, json_dec j <> Err EEOF) ->
  exists r, Reader.new_map_json_reader_raw (Files.new_map_json json_dec) (file_schedule b) =
              Some (r, snd (t_doc (json_reader_raw json_dec b)), file_schedule (t_rest (json_reader_raw json_dec b))) /\
            t_err (json_reader_raw json_dec b) = err_class r /\
            fst (t_doc (json_reader_raw json_dec b)) = map_of r.
Proof. exact readers_agree. Qed.
Print Assumptions C19_reader_models_agree.

(* without the proviso the models differ: Files.v records an io.EOF from NewMapJson as "other error", Reader.v passes
   it through (and its file loop would take it for the end of the file) *)
Theorem C19_reader_models_agree_unconditional_refuted : exists json_dec b,
  Reader.new_map_json_reader_raw (Files.new_map_json json_dec) (file_schedule b) = Some (Err EEOF, b, []) /\
  t_err (json_reader_raw json_dec b) = ROther.
Proof. exact readers_agree_needs_proviso. Qed.
Print Assumptions C19_reader_models_agree_unconditional_refuted.

(* ---------------------------------------------------------------- non-vacuity *)

(* two nested Maps whose keys and values hold braces, quotes, blanks and backslashes (a value ending in a
   backslash, a value of two backslashes, a lone opening brace inside a list, an empty Map, a json.Number):
   their texts, the hypotheses of the theorems above, and the read-back computed through the model -
   whole file, cut inside the second document, cut at the boundary *)
Example C19_json_example_texts :
  marshal false (VMap ex_m1) = s "{""a}{"":{""b\"""":""}{ \"" x\\"",""l"":[""{"",null,true,1.5,{}]},""z"":""\\\\""}" /\
  marshal false (VMap ex_m2) = s "{""e"":{},""n"":-12e3,""q"":{""r"":{""s"":""tail\\""}}}".
Proof. exact ex_texts. Qed.

Example C19_json_hypotheses_satisfiable :
  Forall (fun m => scan_safe (VMap m) = true /\ toy_dec (marshal false (VMap m)) = Ok (VMap (toy_of m))) [ex_m1; ex_m2].
Proof. exact ex_json_ok. Qed.

Example C19_json_read_back :
  read_all (json_reader_raw toy_dec) keep_raw (ex_t1 ++ ex_t2) =
    FR false [(VMap (toy_of ex_m1), ex_t1); (VMap (toy_of ex_m2), ex_t2)] false /\
  read_all (rd_map (json_reader_raw toy_dec)) map_not_nil (ex_t1 ++ ex_t2) =
    FR false [VMap (toy_of ex_m1); VMap (toy_of ex_m2)] false /\
  read_all (json_reader_raw toy_dec) keep_raw (firstn (length ex_t1 + 7) (ex_t1 ++ ex_t2)) =
    FR false [(VMap (toy_of ex_m1), ex_t1)] true /\
  read_all (json_reader_raw toy_dec) keep_raw (firstn (length ex_t1) (ex_t1 ++ ex_t2)) =
    FR false [(VMap (toy_of ex_m1), ex_t1)] false.
Proof. exact ex_json_read_back. Qed.

(* the two scanner models side by side on inputs that end in each of the four ways: a document then more,
   blanks only, a cut inside a document, a closing brace that opens nothing *)
Example C19_scan_models_side_by_side :
  map scan_json ex_inputs = [SDoc ex_t1 (s " }"); SEof []; SNoClose (firstn 20 ex_t1); SStray [] (s " {""k"":1}")] /\
  map (fun b => Reader.get_json (file_schedule b)) ex_inputs =
    [Some (JOk ex_t1, file_schedule (s " }")); Some (JErr [] EEOF, []); Some (JErr (firstn 20 ex_t1) EOther, []);
     Some (JErr [] EOther, file_schedule (s " {""k"":1}"))].
Proof. exact ex_scanners. Qed.

(* the file JsonFileIndent(prefix one blank, indent two blanks) writes for the two Maps, and its read-back: the
   same Maps as from the compact file; the raw values are the compact texts ex_t1, ex_t2 *)
Example C19_json_indent_read_back :
  ex_i2 = s "{" ++ nl ++ s "   ""e"": {}," ++ nl ++ s "   ""n"": -12e3," ++ nl ++ s "   ""q"": {" ++ nl ++
          s "     ""r"": {" ++ nl ++ s "       ""s"": ""tail\\""" ++ nl ++ s "     }" ++ nl ++ s "   }" ++ nl ++ s " }" /\
  maps_file (fun m => Some (marshal_indent false (s " ") (s "  ") (VMap m))) true [ex_m1; ex_m2] true =
    (Some (ex_i1 ++ nl ++ ex_i2), false) /\
  read_all (json_reader_raw toy_dec) keep_raw (ex_i1 ++ nl ++ ex_i2) =
    FR false [(VMap (toy_of ex_m1), ex_t1); (VMap (toy_of ex_m2), ex_t2)] false.
Proof. exact ex_indent_read_back. Qed.

(* ---- tie to the CURRENT source of getJson (json.go), the scanner every JSON file reader runs: go2v translates the
   function statement by statement on every run (Gen/Pure_gen.v: fn_getJson); GenProofs/PureG6.v proves it equal to
   the schedule-driven scanner of Model/Reader.v, which Proofs/C19Reads.v proves equal, over an *os.File, to the
   byte-string scanner [scan_json] the file theorems above are stated with.  So what the translated getJson returns
   on the unread bytes b of a file, and what it leaves unread, is what [scan_json b] says. *)
From Mxj Require Import Gen.Setters_gen Gen.PureSupport Gen.Pure_gen GenProofs.PureG6.

Theorem C19_get_json_code_is_file_scanner : forall st b,
  fn_getJson st (file_schedule b) =
    gj_result (Some (jres (scan_json b), file_schedule (unread (scan_json b)))).
Proof. intros st b. rewrite get_json_code_is_model, scan_models_agree. reflexivity. Qed.
Print Assumptions C19_get_json_code_is_file_scanner.

Example C19_get_json_code_nonvacuous :
  fn_getJson gstate0 (file_schedule (s "{""a"":""x\\""}{""b"":""y""}")) =
    Ret ((s "{""a"":""x\\""}", None), file_schedule (s "{""b"":""y""}")).
Proof. vm_compute. reflexivity. Qed.

(* ---- tie to the CURRENT source of Map.Copy (mxj.go): Json() followed by NewMapJson (GenProofs/PureG13.v) - the
   composition the Copy theorems above are stated with *)
From Mxj Require Import GenProofs.PureG5 GenProofs.PureG13.

Theorem C19_copy_code : forall (Json : entries -> list bool -> res str) (NewMapJson : str -> res entries) st mv,
  fn_Copy Json NewMapJson st mv = of_res (bind (Json mv []) NewMapJson).
Proof. exact copy_code. Qed.
Print Assumptions C19_copy_code.

(* ---- tie to the CURRENT source of NewMapJson (json.go): go2v re-translates it on every run (Gen/Pure_gen.v); GenProofs/
   PureG20.v proves the translation equal to the model [new_map_json] the theorems above are stated with, for ANY decoding
   function (encoding/json's Decoder with / without UseNumber is the environment). *)
From Mxj Require Import Gen.Setters_gen Gen.PureSupport Gen.Pure_gen GenProofs.PureG20.

Theorem C19_new_map_json_code_is_model : forall (Decode : str -> bool -> res value) st b,
  fn_NewMapJson Decode st b
  = match new_map_json (fun x => Decode x (g_JsonUseNumber st)) b with
    | Ok (VMap m) => Ret (Ok m)
    | Ok _ => Crash
    | Err e => Ret (Err e)
    | Panic => Crash
    end.
Proof. exact new_map_json_code_is_model. Qed.
Print Assumptions C19_new_map_json_code_is_model.

(* ---- gob.go itself, translated from the current sources: Map.Gob and NewMapGob are the models map_gob / new_map_gob for ANY
   behaviour of encoding/gob, and the round trip holds on the translated code for a codec that inverts itself
   (GenProofs/PureG33.v) *)
From Mxj Require Import Gen.Setters_gen Gen.PureSupport Gen.Pure_gen GenProofs.PureG5 GenProofs.PureG33.

Theorem C19_new_map_gob_code_is_model : forall (decode : str -> entries -> res entries) st gobj,
  fn_NewMapGob decode st gobj
  = of_res (res_map (fun v => match v with VMap m => m | _ => [] end) (new_map_gob (gob_dec_of decode) gobj)).
Proof. exact new_map_gob_code_is_model. Qed.
Print Assumptions C19_new_map_gob_code_is_model.

Theorem C19_gob_code_is_model : forall (encode : value -> res str) st mv, encode (VMap mv) <> Panic ->
  exists r, fn_Gob encode st mv = Ret r /\
    match r, map_gob (gob_enc_of encode) (VMap mv) with
    | Ok b, Ok b' => b = b'
    | Err _, Err _ => True
    | _, _ => False
    end.
Proof. exact gob_code_is_model. Qed.
Print Assumptions C19_gob_code_is_model.

Theorem C19_gob_code_roundtrip : forall encode decode st mv b,
  encode (VMap mv) = Ok b -> b <> [] -> decode b [] = Ok mv ->
  fn_Gob encode st mv = Ret (Ok b) /\ fn_NewMapGob decode st b = Ret (Ok mv).
Proof. exact gob_code_roundtrip. Qed.
Print Assumptions C19_gob_code_roundtrip.

(* ---- the file readers NewMapsFromJsonFile / NewMapsFromXmlFile themselves (files.go), translated from the current sources
   (os.Stat / os.Open as environment functions, the opened file as the reader of the loop): the case table [files_model] for every
   reader function and every behaviour of Stat / Open; on a regular file with content X the model's new_maps_from_json_file /
   new_maps_from_xml_file; and the JSON file round trip on the translated code (GenProofs/PureG35.v) *)
From Mxj Require GenProofs.PureG35.

Theorem C19_new_maps_from_json_file_code_is_model : forall next callee open stat st name,
  (forall sc, callee sc = PureG35.conv_next next sc) ->
  fn_NewMapsFromJsonFile callee open stat st name = PureG35.files_model next open stat name.
Proof. exact PureG35.new_maps_from_json_file_code_is_model. Qed.
Print Assumptions C19_new_maps_from_json_file_code_is_model.

Theorem C19_new_maps_from_xml_file_code_is_model : forall next callee open stat st name,
  (forall sc, callee sc [] = PureG35.conv_next next sc) ->
  fn_NewMapsFromXmlFile callee open stat st name = PureG35.files_model next open stat name.
Proof. exact PureG35.new_maps_from_xml_file_code_is_model. Qed.
Print Assumptions C19_new_maps_from_xml_file_code_is_model.

Theorem C19_json_file_code_roundtrip : forall json_dec eh (dec : entries -> entries) ms callee open stat st name,
  (forall j, json_dec j <> Err EEOF) ->
  (forall sc, callee sc = PureG35.conv_next (Reader.new_map_json_reader_raw (Files.new_map_json json_dec)) sc) ->
  Forall (fun m => scan_safe (VMap m) = true /\ json_dec (marshal eh (VMap m)) = Ok (VMap (dec m))) ms ->
  stat name = Ok true -> open name = Ok (Reader.file_schedule (concat (map (fun m => marshal eh (VMap m)) ms))) ->
  fn_NewMapsFromJsonFile callee open stat st name = Ret (map dec ms, None).
Proof. exact PureG35.json_file_code_roundtrip. Qed.
Print Assumptions C19_json_file_code_roundtrip.

(* ---- the Raw file readers NewMapsFromJsonFileRaw / NewMapsFromXmlFileRaw (files.go), translated from the current sources: the
   case table with the raw pairs for every reader function, the non-raw readers are their Maps, the JSON file round trip with
   the raw text of every document (GenProofs/PureG36.v) *)
From Mxj Require GenProofs.PureG36.

Theorem C19_new_maps_from_json_file_raw_code_is_model : forall next callee open stat st name,
  (forall sc, callee sc = PureG35.conv_next next sc) ->
  fn_NewMapsFromJsonFileRaw callee open stat st name = PureG36.files_model_raw next open stat name.
Proof. exact PureG36.new_maps_from_json_file_raw_code_is_model. Qed.
Print Assumptions C19_new_maps_from_json_file_raw_code_is_model.

Theorem C19_new_maps_from_xml_file_raw_code_is_model : forall next callee open stat st name,
  (forall sc, callee sc [] = PureG35.conv_next next sc) ->
  fn_NewMapsFromXmlFileRaw callee open stat st name = PureG36.files_model_raw next open stat name.
Proof. exact PureG36.new_maps_from_xml_file_raw_code_is_model. Qed.
Print Assumptions C19_new_maps_from_xml_file_raw_code_is_model.

Theorem C19_json_file_code_is_strip_raw_code : forall callee open stat st name,
  fn_NewMapsFromJsonFile callee open stat st name = PureG36.strip_raw (fn_NewMapsFromJsonFileRaw callee open stat st name).
Proof. exact PureG36.json_file_code_is_strip_raw_code. Qed.
Print Assumptions C19_json_file_code_is_strip_raw_code.

(* ---- the file writers Maps.JsonFile[Indent] / Maps.XmlFile[Indent] (files.go), translated from the current sources (the files the
   function creates are a hidden state; os.Create is an environment function): for ANY string form and ANY behaviour of os.Create -
   an error of the string form or of Create is returned and no file is touched, otherwise the file is created with exactly the
   string as its content: the model maps_file (GenProofs/PureG37.v) *)
From Mxj Require GenProofs.PureG13 GenProofs.PureG37.

Theorem C19_xml_file_code : forall (xs : list entries -> res str) create st mvs file fs,
  fn_XmlFile xs create st mvs file fs = PureG37.file_writer_spec (xs mvs) create file fs.
Proof. exact PureG37.xml_file_code. Qed.
Print Assumptions C19_xml_file_code.

Theorem C19_json_file_code : forall (js : list entries -> list bool -> res str) create st mvs file safe fs,
  fn_JsonFile js create st mvs file safe fs = PureG37.file_writer_spec (js mvs [PureG13.opt_flag safe]) create file fs.
Proof. exact PureG37.json_file_code. Qed.
Print Assumptions C19_json_file_code.

Theorem C19_file_writer_spec_is_maps_file : forall {M : Type} (enc : M -> option bytes) (indent_json : bool) (ms : list M) (sres : res str) (create : str -> res unit) (file : str) (fs : fslog) (creatable : bool),
  sres = (let (x, err) := maps_string enc indent_json ms in if err then Err EOther else Ok x) ->
  create file = (if creatable then Ok tt else Err EOther) ->
  PureG37.writer_outcome (PureG37.file_writer_spec sres create file fs) file fs = Some (maps_file enc indent_json ms creatable).
Proof. exact @PureG37.file_writer_spec_is_maps_file. Qed.
Print Assumptions C19_file_writer_spec_is_maps_file.
