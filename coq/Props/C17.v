(* C17 - queries and encoders never modify their receiver and may run concurrently.
   Statements only.  The static theorems are about the effect summaries go2v REGENERATES from
   /repo's current sources on every run (Gen/Effects_gen.v; proofs in GenProofs/C17G.v by
   kernel evaluation over the finite tables + GenProofs/EffectsTheory.v); the concurrency
   theorems are generic (Proofs/C17Conc.v). *)
From Mxj Require Import Gen.GenSupport Gen.Effects_gen GenProofs.EffectsTheory GenProofs.C17G GenProofs.WrappersG Proofs.C17Conc.
Local Open Scope string_scope.

(* ---- 1. no read-only operation stores into its receiver or into package-level storage,
        by a statement of its own or through any chain of calls ---- *)
Theorem C17_readonly_no_shared_write : forall f r,
  In f readonly_api -> writes_root effects f r -> r <> Pt 0 /\ r <> Pd 0 /\ r <> G.
Proof. exact readonly_no_shared_write. Qed.
Print Assumptions C17_readonly_no_shared_write.

(* ... nor assigns a package-level variable *)
Theorem C17_readonly_no_global_assign : forall f v,
  In f readonly_api -> ~ touches_var effects f_gwrites f v.
Proof. exact readonly_no_global_assign. Qed.
Print Assumptions C17_readonly_no_global_assign.

(* ... nor starts a goroutine *)
Theorem C17_readonly_no_goroutine : forall f, In f readonly_api -> ~ reaches effects f_spawns f.
Proof. exact readonly_no_goroutine. Qed.
Print Assumptions C17_readonly_no_goroutine.

(* decoders (and AnyXml, BeautifyXml) write no package-level storage either: independent data may be decoded concurrently *)
Theorem C17_decoders_no_global_write : forall f,
  In f decoder_api -> (forall r, writes_root effects f r -> r <> G) /\ (forall v, ~ touches_var effects f_gwrites f v).
Proof. exact decoders_no_global_write. Qed.
Print Assumptions C17_decoders_no_global_write.

(* the tables the theorems rest on are closed under propagation along every call edge *)
Theorem C17_tables_closed :
  wclosed effects W = true /\ vclosed effects f_gwrites GW = true /\ rclosed effects f_spawns SP = true.
Proof. exact (conj W_closed (conj GW_closed SP_closed)). Qed.
Print Assumptions C17_tables_closed.

(* ---- 2. the classification is complete and not vacuous ---- *)
(* every exported method of Map, MapSeq and Maps in the current source is classified *)
Theorem C17_methods_classified :
  forallb (fun fi => implb (is_data_method fi) (mem_str (f_name fi) (readonly_api ++ readonly_by_c12 ++ mutating_api))) effects = true.
Proof. exact methods_classified. Qed.
Print Assumptions C17_methods_classified.

Theorem C17_api_names_exist : forallb known (readonly_api ++ readonly_by_c12 ++ mutating_api ++ decoder_api) = true.
Proof. exact api_names_exist. Qed.
Print Assumptions C17_api_names_exist.

(* the four documented mutators ARE found to write their receiver *)
Theorem C17_mutating_detected : forallb (fun f => existsb shared_root (lookup_s [] f W)) mutating_api = true.
Proof. exact mutating_detected. Qed.
Print Assumptions C17_mutating_detected.

(* only the option setters assign package-level variables *)
Theorem C17_only_setters_assign_globals :
  forallb (fun fi => match f_gwrites fi with
                     | [] => true
                     | ws => if String.eqb (f_pkg fi) "mxj"
                             then incl_strs ws (lookup_s [] (f_name fi) Setters_gen.setter_writes)
                             else forallb (fun w => negb (mem_str w Setters_gen.option_vars)) ws
                     end) effects = true.
Proof. exact only_setters_assign_globals. Qed.
Print Assumptions C17_only_setters_assign_globals.

(* ---- 3. threads that write only what they own: no data race, results as in sequential execution ---- *)
Theorem C17_no_data_race : forall sh ow ps s m0, own_ok sh ow -> all_disc sh ow ps ->
  forall i1 e1 i2 e2, In (i1, e1) (snd (run s (ps, m0))) -> In (i2, e2) (snd (run s (ps, m0))) ->
  i1 <> i2 -> ~ conflict e1 e2.
Proof. exact no_data_race. Qed.
Print Assumptions C17_no_data_race.

Theorem C17_interleaving_sequential : forall sh ow ps s m0 i r, own_ok sh ow -> all_disc sh ow ps ->
  nth_error (fst (fst (run s (ps, m0)))) i = Some (Ret r) ->
  exists m', terminates (nth i ps (Ret 0)) m0 r m' /\
    (forall l, ow i l = true -> snd (fst (run s (ps, m0))) l = m' l) /\
    (forall l, sh l = true -> snd (fst (run s (ps, m0))) l = m' l).
Proof. exact interleaving_sequential. Qed.
Print Assumptions C17_interleaving_sequential.

(* the use case: any number of read-only threads over shared storage, any schedule *)
Theorem C17_readonly_concurrent : forall ps s m0, (forall p, In p ps -> readonly p) ->
  (forall i1 e1 i2 e2, In (i1, e1) (snd (run s (ps, m0))) -> In (i2, e2) (snd (run s (ps, m0))) -> i1 <> i2 -> ~ conflict e1 e2) /\
  (forall l, snd (fst (run s (ps, m0))) l = m0 l) /\
  (forall i r, nth_error (fst (fst (run s (ps, m0)))) i = Some (Ret r) -> terminates (nth i ps (Ret 0)) m0 r m0).
Proof. exact readonly_concurrent. Qed.
Print Assumptions C17_readonly_concurrent.

(* ---- 4. Copy: the body regenerated from the current source is Json followed by NewMapJson, whatever
        those two functions do - the only data path from the receiver to the result is the []byte
        Json returns, so the copy can share no container with the original ---- *)
Theorem C17_copy_through_bytes : forall (V : Type) (vnil : V) is_err vlit vbool vglobal vspread vaddr vconv fn mv,
  run_wrapper V vnil is_err vlit vbool vglobal vspread vaddr vconv fn "Map.Copy" [mv] =
  Some (let r := fn "Map.Json" [mv] in
        if is_err (first V vnil (tl r)) then [vnil; first V vnil (tl r)] else fn "NewMapJson" [first V vnil r]).
Proof. exact copy_through_bytes. Qed.
Print Assumptions C17_copy_through_bytes.
