(* C11 - SetValueForPath, Remove, RenameKey.  Statements only. *)
From Mxj Require Import Model.TreeOps Proofs.KVTotal.

Theorem C11_set_no_panic : forall m v path, set_value_for_path m v path <> Panic.
Proof. exact set_no_panic. Qed.
Print Assumptions C11_set_no_panic.

Theorem C11_remove_no_panic : forall m path, remove_path m path <> Panic.
Proof. exact remove_no_panic. Qed.
Print Assumptions C11_remove_no_panic.

Theorem C11_rename_no_panic : forall pf sep m path nn, rename_key pf sep m path nn <> Panic.
Proof. exact rename_no_panic. Qed.
Print Assumptions C11_rename_no_panic.

(* RenameKey refuses to overwrite an existing sibling at any depth, the top level included *)
Theorem C11_rename_refuses_existing : forall pf sep m path nn,
  exists_path pf sep m (sibling_path path nn) [] = Ok true ->
  forall m', rename_key pf sep m path nn <> Ok m'.
Proof. exact rename_refuses_existing. Qed.
Print Assumptions C11_rename_refuses_existing.
