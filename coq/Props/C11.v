(* C11 - SetValueForPath, Remove, RenameKey touch exactly one entry or fail cleanly.
   Statements only; proofs in Proofs/C11P.v (key lists) and Proofs/C11Q.v (path strings),
   vocabulary in Spec/MapPaths.v.

   All theorems are about the model functions the correspondence check runs against /repo
   on every case:   set_value_for_path m v path   remove_path m path   rename_key pf sep m path nn
   with [path] an ARBITRARY string.  The only link between the string and its keys is the
   decidable equation  split1 dot path = pre ++ [k]  (strings.Split(path,".") = parent keys ++
   last key); every string has exactly one such decomposition (C11_path_decomp).

   Vocabulary: [get_keys ks m] follows keys through nested maps only; [put_keys ks x m] is m with
   the value at ks replaced by x and nothing else touched (every map on the way keeps its other
   entries and their order); [diverge ks qs]: neither key list is a prefix of the other;
   [plain_keys]: non-empty keys without '.', '[' and not "*" (the "dot-paths through nested
   maps" of the property); [no_list_on ks m]: the walk along ks meets no list; [reportable v]:
   v is not an empty list (always true on the property's domain, Maps without empty lists).

   Fail-clean.  The model is functional: an operation returns EITHER [Ok m'] (the receiver
   after the call) OR [Err e]; with an error no Map is produced, i.e. the receiver after the
   call is the receiver before it.  Run/RunKV.v [check_case] checks exactly this against the
   implementation on every case ("Err _, Fail _ _ => unchanged"), and the harness oracle
   re-checks deep equality of the receiver whenever the implementation returns an error. *)
From Mxj Require Import Model.TreeOps Spec.PathSem Spec.MapPaths Proofs.KVTotal Proofs.C11P Proofs.C11Q.

(* ------------------------------------------------------------------ *)
(* 0. path strings and key lists                                      *)
(* ------------------------------------------------------------------ *)
(* every path string splits into parent keys and a last key, in one way only *)
Theorem C11_path_decomp : forall path, exists pre k, split1 dot path = pre ++ [k].
Proof. exact path_decomp. Qed.
Print Assumptions C11_path_decomp.

Theorem C11_path_decomp_unique : forall path pre k pre' k',
  split1 dot path = pre ++ [k] -> split1 dot path = pre' ++ [k'] -> pre = pre' /\ k = k'.
Proof. exact path_decomp_unique. Qed.
Print Assumptions C11_path_decomp_unique.

(* the string is the "."-join of its keys, and no key contains a '.' *)
Theorem C11_path_is_join : forall path pre k,
  split1 dot path = pre ++ [k] ->
  path = join sdot (pre ++ [k]) /\ dotfree (pre ++ [k]) /\ mem_ascii dot k = false.
Proof. exact path_keys_bridge. Qed.
Print Assumptions C11_path_is_join.

(* conversely, keys without '.' joined by "." split back into themselves *)
Theorem C11_join_splits_back : forall pre k,
  dotfree (pre ++ [k]) -> split1 dot (join sdot (pre ++ [k])) = pre ++ [k].
Proof. exact split_of_join. Qed.
Print Assumptions C11_join_splits_back.

(* ------------------------------------------------------------------ *)
(* 1. no panic: every Map, every path string, every value / new name  *)
(* ------------------------------------------------------------------ *)
Theorem C11_set_no_panic : forall m v path, set_value_for_path m v path <> Panic.
Proof. exact set_no_panic. Qed.
Print Assumptions C11_set_no_panic.

Theorem C11_remove_no_panic : forall m path, remove_path m path <> Panic.
Proof. exact remove_no_panic. Qed.
Print Assumptions C11_remove_no_panic.

Theorem C11_rename_no_panic : forall pf sep m path nn, rename_key pf sep m path nn <> Panic.
Proof. exact rename_no_panic. Qed.
Print Assumptions C11_rename_no_panic.

(* fail-clean, all inputs: the outcome is the Map after the call or an error, nothing else *)
Theorem C11_set_ok_or_error : forall m v path,
  (exists m', set_value_for_path m v path = Ok m') \/ (exists e, set_value_for_path m v path = Err e).
Proof. exact set_result. Qed.
Print Assumptions C11_set_ok_or_error.

Theorem C11_remove_ok_or_error : forall m path,
  (exists m', remove_path m path = Ok m') \/ remove_path m path = Err EOther.
Proof. exact remove_result. Qed.
Print Assumptions C11_remove_ok_or_error.

Theorem C11_rename_ok_or_error : forall pf sep m path nn,
  (exists m', rename_key pf sep m path nn = Ok m') \/ (exists e, rename_key pf sep m path nn = Err e).
Proof. exact rename_result. Qed.
Print Assumptions C11_rename_ok_or_error.

(* ------------------------------------------------------------------ *)
(* 2. SetValueForPath                                                 *)
(* ------------------------------------------------------------------ *)
(* the whole operation as one equation (all four clauses at once), on walks that meet no list:
   map parent -> exactly one entry written; nil parent -> documented no-op; otherwise error *)
Theorem C11_set_spec : forall m v path pre k,
  split1 dot path = pre ++ [k] -> plain_keys pre -> no_list_on (pre ++ [k]) m = true ->
  set_value_for_path m v path =
  match get_keys pre m with
  | Some (VMap c) => Ok (put_keys pre (VMap (set k v c)) m)
  | Some VNil => Ok m
  | _ => Err EOther
  end.
Proof. exact set_spec_path. Qed.
Print Assumptions C11_set_spec.

(* success + frame as an equation: whenever the parent is reached through maps and is a map,
   whatever else the Map contains (lists elsewhere included) *)
Theorem C11_set_ok : forall m v path pre k c,
  split1 dot path = pre ++ [k] -> plain_keys pre -> get_keys pre m = Some (VMap c) ->
  set_value_for_path m v path = Ok (put_keys pre (VMap (set k v c)) m).
Proof. exact set_ok_path. Qed.
Print Assumptions C11_set_ok.

(* post-condition and frame, observably: the path now holds v (and below it what v holds);
   the parent is the old parent with the one entry set; every key list that parts ways with the
   path leads to the same value as before; the ancestors keep their key lists; distinct keys stay distinct *)
Theorem C11_set_post_frame : forall m v path pre k c,
  split1 dot path = pre ++ [k] -> plain_keys pre -> get_keys pre m = Some (VMap c) ->
  exists m', set_value_for_path m v path = Ok m' /\
    get_keys (pre ++ [k]) m' = Some v /\
    (forall r, get_keys (pre ++ k :: r) m' = get_keys r v) /\
    get_keys pre m' = Some (VMap (set k v c)) /\
    (forall qs, diverge (pre ++ [k]) qs = true -> get_keys qs m' = get_keys qs m) /\
    (forall qs r a, pre = qs ++ r -> r <> [] -> get_keys qs m = Some (VMap a) ->
       exists a', get_keys qs m' = Some (VMap a') /\ map fst a' = map fst a) /\
    (wfb m = true -> wfb v = true -> wfb m' = true).
Proof. exact set_post_path. Qed.
Print Assumptions C11_set_post_frame.

(* frame "every other entry unchanged", for a successful call given as a hypothesis *)
Theorem C11_set_frame : forall m v path pre k c m',
  split1 dot path = pre ++ [k] -> plain_keys pre -> get_keys pre m = Some (VMap c) ->
  set_value_for_path m v path = Ok m' ->
  forall qs, diverge (pre ++ [k]) qs = true -> get_keys qs m' = get_keys qs m.
Proof. exact set_frame_path. Qed.
Print Assumptions C11_set_frame.

(* post-condition through the library's own observers: ValuesForPath / ValueForPath / Exists on
   the same path string after the call (a list value is reported as its members, as everywhere) *)
Theorem C11_set_then_value : forall pf sep m v path pre k c m',
  split1 dot path = pre ++ [k] -> plain_keys (pre ++ [k]) -> get_keys pre m = Some (VMap c) ->
  set_value_for_path m v path = Ok m' ->
  values_for_path pf sep m' path [] = Ok (final v) /\
  value_for_path pf sep m' path = match final v with x :: _ => Ok x | [] => Err EOther end /\
  exists_path pf sep m' path [] = Ok (reportable v).
Proof. exact set_then_value_path. Qed.
Print Assumptions C11_set_then_value.

(* ... "ValueForPath(path) returns the new value" literally, for every new value that is not a list *)
Corollary C11_set_then_value_nonlist : forall pf sep m v path pre k c m',
  split1 dot path = pre ++ [k] -> plain_keys (pre ++ [k]) -> get_keys pre m = Some (VMap c) ->
  is_list v = false ->
  set_value_for_path m v path = Ok m' ->
  value_for_path pf sep m' path = Ok v /\ exists_path pf sep m' path [] = Ok true.
Proof. exact set_then_value_nonlist. Qed.
Print Assumptions C11_set_then_value_nonlist.

(* the literal reading fails for list values (first member / error for the empty list): kept as a counterexample *)
Theorem C11_set_then_value_list_refuted :
  exists m v path m',
    is_list v = true /\ set_value_for_path m v path = Ok m' /\
    value_for_path (fun _ => None) [":"%char] m' path = Ok (VInt 1) /\
    value_for_path (fun _ => None) [":"%char] m' path <> Ok v /\
    exists m2, set_value_for_path m (VList []) path = Ok m2 /\
               value_for_path (fun _ => None) [":"%char] m2 path = Err EOther.
Proof. exact set_then_value_list_refuted. Qed.
Print Assumptions C11_set_then_value_list_refuted.

(* documented no-op: a nil parent ("we just ignore the request"), the Map is returned as it was *)
Theorem C11_set_nil_parent_noop : forall m v path pre k,
  split1 dot path = pre ++ [k] -> plain_keys pre -> get_keys pre m = Some VNil ->
  set_value_for_path m v path = Ok m.
Proof. exact set_nil_noop_path. Qed.
Print Assumptions C11_set_nil_parent_noop.

(* success exactly when the parent is a map (or nil: no-op) *)
Theorem C11_set_ok_iff : forall m v path pre k,
  split1 dot path = pre ++ [k] -> plain_keys pre -> no_list_on (pre ++ [k]) m = true ->
  (exists m', set_value_for_path m v path = Ok m') <->
  ((exists c, get_keys pre m = Some (VMap c)) \/ get_keys pre m = Some VNil).
Proof. exact set_ok_iff_path. Qed.
Print Assumptions C11_set_ok_iff.

(* fail-clean: missing parent, or a parent that is not a map (the pinned tree panicked here) -> error *)
Theorem C11_set_fails : forall m v path pre k,
  split1 dot path = pre ++ [k] -> plain_keys pre -> no_list_on (pre ++ [k]) m = true ->
  match get_keys pre m with Some (VMap _) | Some VNil => False | _ => True end ->
  set_value_for_path m v path = Err EOther.
Proof. exact set_fails_path. Qed.
Print Assumptions C11_set_fails.

(* one-segment path (parent path ""): always succeeds on the top-level map *)
Theorem C11_set_top : forall c v k,
  mem_ascii dot k = false -> set_value_for_path (VMap c) v k = Ok (VMap (set k v c)).
Proof. exact set_top. Qed.
Print Assumptions C11_set_top.

(* ------------------------------------------------------------------ *)
(* 3. Remove: every Map, every path string - no side condition        *)
(* ------------------------------------------------------------------ *)
(* the whole operation as one equation: the parent reached through maps loses the one entry;
   a missing key, a missing parent or a non-map parent give an error *)
Theorem C11_remove_spec : forall m path pre k,
  split1 dot path = pre ++ [k] ->
  remove_path m path =
  match get_keys pre m with
  | Some (VMap c) => if has_key k c then Ok (put_keys pre (VMap (del k c)) m) else Err EOther
  | _ => Err EOther
  end.
Proof. exact remove_spec_path. Qed.
Print Assumptions C11_remove_spec.

(* success exactly when the whole key list is found walking through maps ... *)
Theorem C11_remove_ok_iff : forall m path,
  (exists m', remove_path m path = Ok m') <-> get_keys (split1 dot path) m <> None.
Proof. exact remove_ok_iff_anypath. Qed.
Print Assumptions C11_remove_ok_iff.

(* ... and an error otherwise (fail-clean: Remove of a missing path is an error, not a silent no-op) *)
Theorem C11_remove_fail_iff : forall m path,
  remove_path m path = Err EOther <-> get_keys (split1 dot path) m = None.
Proof. exact remove_fail_iff_path. Qed.
Print Assumptions C11_remove_fail_iff.

(* post-condition: afterwards the key list is gone (Maps with distinct keys in every map) *)
Theorem C11_remove_gone : forall m path pre k m',
  split1 dot path = pre ++ [k] -> wfb m = true -> remove_path m path = Ok m' ->
  get_keys (pre ++ [k]) m' = None.
Proof. exact remove_gone_path. Qed.
Print Assumptions C11_remove_gone.

(* post-condition through the library's observer: Exists(path) is false afterwards *)
Theorem C11_remove_post : forall pf sep m path pre k m',
  split1 dot path = pre ++ [k] -> plain_keys (pre ++ [k]) -> wfb m = true ->
  remove_path m path = Ok m' ->
  get_keys (pre ++ [k]) m' = None /\ exists_path pf sep m' path [] = Ok false.
Proof. exact remove_post_path. Qed.
Print Assumptions C11_remove_post.

(* frame: every key list that parts ways with the removed one leads to the same value *)
Theorem C11_remove_frame : forall m path pre k m',
  split1 dot path = pre ++ [k] -> remove_path m path = Ok m' ->
  forall qs, diverge (pre ++ [k]) qs = true -> get_keys qs m' = get_keys qs m.
Proof. exact remove_frame_path. Qed.
Print Assumptions C11_remove_frame.

(* frame: the parent afterwards is the parent before minus the one entry *)
Theorem C11_remove_parent : forall m path pre k m',
  split1 dot path = pre ++ [k] -> remove_path m path = Ok m' ->
  exists c, get_keys pre m = Some (VMap c) /\ get_keys pre m' = Some (VMap (del k c)).
Proof. exact remove_parent_path. Qed.
Print Assumptions C11_remove_parent.

(* frame: the maps above the parent keep their key lists *)
Theorem C11_remove_ancestors : forall m path pre k m',
  split1 dot path = pre ++ [k] -> remove_path m path = Ok m' ->
  forall qs r a, pre = qs ++ r -> r <> [] -> get_keys qs m = Some (VMap a) ->
  exists a', get_keys qs m' = Some (VMap a') /\ map fst a' = map fst a.
Proof. exact remove_ancestors_path. Qed.
Print Assumptions C11_remove_ancestors.

(* distinct keys stay distinct *)
Theorem C11_remove_wf : forall m path m', wfb m = true -> remove_path m path = Ok m' -> wfb m' = true.
Proof. exact remove_wf_path. Qed.
Print Assumptions C11_remove_wf.

Theorem C11_remove_top : forall c k,
  mem_ascii dot k = false ->
  remove_path (VMap c) k = if has_key k c then Ok (VMap (del k c)) else Err EOther.
Proof. exact remove_top. Qed.
Print Assumptions C11_remove_top.

(* ------------------------------------------------------------------ *)
(* 4. RenameKey: every Map (no condition on lists), plain keys        *)
(* ------------------------------------------------------------------ *)
(* the whole operation as one equation: found + sibling free -> the one entry moves;
   everything else (missing path, non-map parent, existing sibling) -> error *)
Theorem C11_rename_spec : forall pf sep m path pre k nn,
  split1 dot path = pre ++ [k] -> plain_keys (pre ++ [k]) -> plain_keyb nn = true ->
  rename_key pf sep m path nn =
  match get_keys pre m with
  | Some (VMap c) =>
      match lookup k c with
      | Some v => if reportable v && sibling_free nn c
                  then Ok (put_keys pre (VMap (del k (set nn v c))) m) else Err EOther
      | None => Err EOther
      end
  | _ => Err EOther
  end.
Proof. exact rename_spec_path. Qed.
Print Assumptions C11_rename_spec.

(* success exactly when the key is there and the sibling is not *)
Theorem C11_rename_ok_iff : forall pf sep m path pre k nn,
  split1 dot path = pre ++ [k] -> plain_keys (pre ++ [k]) -> plain_keyb nn = true ->
  (exists m', rename_key pf sep m path nn = Ok m') <->
  (exists v, get_keys (pre ++ [k]) m = Some v /\ reportable v = true) /\
  match get_keys (pre ++ [nn]) m with Some x => reportable x = false | None => True end.
Proof. exact rename_ok_iff_path. Qed.
Print Assumptions C11_rename_ok_iff.

(* ... on the property's domain (no empty lists): old key list found, new key list absent *)
Theorem C11_rename_ok_iff_noel : forall pf sep m path pre k nn,
  split1 dot path = pre ++ [k] -> plain_keys (pre ++ [k]) -> plain_keyb nn = true ->
  no_empty_lists m = true ->
  (exists m', rename_key pf sep m path nn = Ok m') <->
  get_keys (pre ++ [k]) m <> None /\ get_keys (pre ++ [nn]) m = None.
Proof. exact rename_ok_iff_noel_path. Qed.
Print Assumptions C11_rename_ok_iff_noel.

(* refuses an existing sibling at any depth (pre arbitrary, pre = [] is the top level) *)
Theorem C11_rename_refuses : forall pf sep m path pre k nn x,
  split1 dot path = pre ++ [k] -> plain_keys (pre ++ [k]) -> plain_keyb nn = true ->
  get_keys (pre ++ [nn]) m = Some x -> reportable x = true ->
  rename_key pf sep m path nn = Err EOther.
Proof. exact rename_refuses_path. Qed.
Print Assumptions C11_rename_refuses.

Corollary C11_rename_refuses_noel : forall pf sep m path pre k nn,
  split1 dot path = pre ++ [k] -> plain_keys (pre ++ [k]) -> plain_keyb nn = true ->
  no_empty_lists m = true -> get_keys (pre ++ [nn]) m <> None ->
  rename_key pf sep m path nn = Err EOther.
Proof. exact rename_refuses_noel_path. Qed.
Print Assumptions C11_rename_refuses_noel.

(* the top-level case written out: the pinned tree overwrote the sibling here *)
Theorem C11_rename_top_refuses : forall pf sep c k nn x,
  plain_keyb k = true -> plain_keyb nn = true ->
  lookup nn c = Some x -> reportable x = true ->
  rename_key pf sep (VMap c) k nn = Err EOther.
Proof. exact rename_top_refuses. Qed.
Print Assumptions C11_rename_top_refuses.

(* the same refusal for every path and every new name whatsoever, in the library's own terms:
   if Exists(parent.newName) then RenameKey does not succeed *)
Theorem C11_rename_refuses_existing : forall pf sep m path nn,
  exists_path pf sep m (sibling_path path nn) [] = Ok true ->
  forall m', rename_key pf sep m path nn <> Ok m'.
Proof. exact rename_refuses_existing. Qed.
Print Assumptions C11_rename_refuses_existing.

(* renaming a key to its own name is refused too *)
Corollary C11_rename_same_name : forall pf sep m path pre k,
  split1 dot path = pre ++ [k] -> plain_keys (pre ++ [k]) ->
  forall m', rename_key pf sep m path k <> Ok m'.
Proof. exact rename_same_name_path. Qed.
Print Assumptions C11_rename_same_name.

(* fail-clean: missing path -> error *)
Theorem C11_rename_fails_missing : forall pf sep m path pre k nn,
  split1 dot path = pre ++ [k] -> plain_keys (pre ++ [k]) -> plain_keyb nn = true ->
  get_keys (pre ++ [k]) m = None ->
  rename_key pf sep m path nn = Err EOther.
Proof. exact rename_fails_missing_path. Qed.
Print Assumptions C11_rename_fails_missing.

(* post-condition: the value, with everything below it, is now under the new key, unchanged; the old key is gone *)
Theorem C11_rename_moves : forall pf sep m path pre k nn m',
  split1 dot path = pre ++ [k] -> plain_keys (pre ++ [k]) -> plain_keyb nn = true -> wfb m = true ->
  rename_key pf sep m path nn = Ok m' ->
  (forall r, get_keys (pre ++ nn :: r) m' = get_keys (pre ++ k :: r) m) /\
  get_keys (pre ++ [nn]) m' = get_keys (pre ++ [k]) m /\
  get_keys (pre ++ [k]) m <> None /\
  get_keys (pre ++ [k]) m' = None.
Proof. exact rename_moves_path. Qed.
Print Assumptions C11_rename_moves.

(* post-condition through the library's observers: the old path does not exist, the new one does,
   and ValueForPath(new path) afterwards is ValueForPath(old path) before *)
Theorem C11_rename_post : forall pf sep m path pre k nn m',
  split1 dot path = pre ++ [k] -> plain_keys (pre ++ [k]) -> plain_keyb nn = true -> wfb m = true ->
  rename_key pf sep m path nn = Ok m' ->
  exists_path pf sep m' path [] = Ok false /\
  exists_path pf sep m' (sibling_path path nn) [] = Ok true /\
  value_for_path pf sep m' (sibling_path path nn) = value_for_path pf sep m path.
Proof. exact rename_post_path. Qed.
Print Assumptions C11_rename_post.

(* frame: key lists that part ways with both the old and the new place lead to the same value *)
Theorem C11_rename_frame : forall pf sep m path pre k nn m',
  split1 dot path = pre ++ [k] -> plain_keys (pre ++ [k]) -> plain_keyb nn = true ->
  rename_key pf sep m path nn = Ok m' ->
  forall qs, diverge (pre ++ [k]) qs = true -> diverge (pre ++ [nn]) qs = true ->
             get_keys qs m' = get_keys qs m.
Proof. exact rename_frame_path. Qed.
Print Assumptions C11_rename_frame.

(* frame: the parent afterwards is the parent before with the one entry moved *)
Theorem C11_rename_parent : forall pf sep m path pre k nn m',
  split1 dot path = pre ++ [k] -> plain_keys (pre ++ [k]) -> plain_keyb nn = true ->
  rename_key pf sep m path nn = Ok m' ->
  exists c v, get_keys pre m = Some (VMap c) /\ lookup k c = Some v /\
              get_keys pre m' = Some (VMap (del k (set nn v c))).
Proof. exact rename_parent_path. Qed.
Print Assumptions C11_rename_parent.

Theorem C11_rename_ancestors : forall pf sep m path pre k nn m',
  split1 dot path = pre ++ [k] -> plain_keys (pre ++ [k]) -> plain_keyb nn = true ->
  rename_key pf sep m path nn = Ok m' ->
  forall qs r a, pre = qs ++ r -> r <> [] -> get_keys qs m = Some (VMap a) ->
  exists a', get_keys qs m' = Some (VMap a') /\ map fst a' = map fst a.
Proof. exact rename_ancestors_path. Qed.
Print Assumptions C11_rename_ancestors.

Theorem C11_rename_wf : forall pf sep m path pre k nn m',
  split1 dot path = pre ++ [k] -> plain_keys (pre ++ [k]) -> plain_keyb nn = true -> wfb m = true ->
  rename_key pf sep m path nn = Ok m' -> wfb m' = true.
Proof. exact rename_wf_path. Qed.
Print Assumptions C11_rename_wf.

Theorem C11_rename_top : forall pf sep c k nn,
  plain_keyb k = true -> plain_keyb nn = true ->
  rename_key pf sep (VMap c) k nn =
  match lookup k c with
  | Some v => if reportable v && sibling_free nn c then Ok (VMap (del k (set nn v c))) else Err EOther
  | None => Err EOther
  end.
Proof. exact rename_top. Qed.
Print Assumptions C11_rename_top.

(* ------------------------------------------------------------------ *)
(* non-vacuity: a Map with nested maps, a list and scalars; every     *)
(* hypothesis of the theorems above is met by these inputs            *)
(* ------------------------------------------------------------------ *)
Local Open Scope string_scope.
Local Open Scope list_scope.
Definition nopf : str -> option flt := fun _ => None.
Definition ex11 : value :=
  VMap [(s"a", VMap [(s"b", VInt 1);
                     (s"c", VMap [(s"d", VStr (s"x")); (s"e", VNil)]);
                     (s"l", VList [VInt 1; VMap [(s"b", VInt 2)]])]);
        (s"f", VInt 7);
        (s"g", VMap [(s"b", VBool true)])].

Example C11_ex_domain : no_empty_lists ex11 = true /\ wfb ex11 = true.
Proof. vm_compute. split; reflexivity. Qed.

(* Set at depth 3 below a map parent: hypotheses of C11_set_ok / _post_frame / _then_value, and the outcome *)
Example C11_ex_set :
  split1 dot (s"a.c.d") = [s"a"; s"c"] ++ [s"d"] /\
  plain_keys ([s"a"; s"c"] ++ [s"d"]) /\ plain_keys [s"a"; s"c"] /\
  no_list_on ([s"a"; s"c"] ++ [s"d"]) ex11 = true /\
  get_keys [s"a"; s"c"] ex11 = Some (VMap [(s"d", VStr (s"x")); (s"e", VNil)]) /\
  set_value_for_path ex11 (VMap [(s"n", VInt 5)]) (s"a.c.d") =
    Ok (VMap [(s"a", VMap [(s"b", VInt 1);
                           (s"c", VMap [(s"d", VMap [(s"n", VInt 5)]); (s"e", VNil)]);
                           (s"l", VList [VInt 1; VMap [(s"b", VInt 2)]])]);
              (s"f", VInt 7);
              (s"g", VMap [(s"b", VBool true)])]) /\
  diverge ([s"a"; s"c"] ++ [s"d"]) [s"a"; s"c"; s"e"] = true /\
  diverge ([s"a"; s"c"] ++ [s"d"]) [s"g"; s"b"] = true.
Proof. vm_compute. repeat split. Qed.

(* Set: a new key is created; scalar parent and missing parent are errors; nil parent is the no-op *)
Example C11_ex_set_cases :
  (exists m', set_value_for_path ex11 (VInt 9) (s"g.new") = Ok m' /\ get_keys [s"g"; s"new"] m' = Some (VInt 9)) /\
  get_keys [s"f"] ex11 = Some (VInt 7) /\ no_list_on ([s"f"] ++ [s"x"]) ex11 = true /\
  set_value_for_path ex11 (VInt 9) (s"f.x") = Err EOther /\
  get_keys [s"zz"] ex11 = None /\ no_list_on ([s"zz"] ++ [s"x"]) ex11 = true /\
  set_value_for_path ex11 (VInt 9) (s"zz.x") = Err EOther /\
  get_keys [s"a"; s"c"; s"e"] ex11 = Some VNil /\
  set_value_for_path ex11 (VInt 9) (s"a.c.e.x") = Ok ex11.
Proof. vm_compute. repeat split. eexists. split; reflexivity. Qed.

(* Remove at depth 2; a missing key and a scalar on the way are errors *)
Example C11_ex_remove :
  split1 dot (s"a.b") = [s"a"] ++ [s"b"] /\ plain_keys ([s"a"] ++ [s"b"]) /\
  remove_path ex11 (s"a.b") =
    Ok (VMap [(s"a", VMap [(s"c", VMap [(s"d", VStr (s"x")); (s"e", VNil)]);
                           (s"l", VList [VInt 1; VMap [(s"b", VInt 2)]])]);
              (s"f", VInt 7);
              (s"g", VMap [(s"b", VBool true)])]) /\
  get_keys (split1 dot (s"a.zz")) ex11 = None /\ remove_path ex11 (s"a.zz") = Err EOther /\
  get_keys (split1 dot (s"f.x")) ex11 = None /\ remove_path ex11 (s"f.x") = Err EOther /\
  remove_path ex11 (s"a.l.b") = Err EOther.
Proof. vm_compute. repeat split. Qed.

(* Rename at depth 2 to a free name; onto an existing sibling at depth 2 and at the top level: refused *)
Example C11_ex_rename :
  split1 dot (s"a.c") = [s"a"] ++ [s"c"] /\ plain_keys ([s"a"] ++ [s"c"]) /\ plain_keyb (s"z") = true /\
  get_keys ([s"a"] ++ [s"c"]) ex11 <> None /\ get_keys ([s"a"] ++ [s"z"]) ex11 = None /\
  rename_key nopf (s":") ex11 (s"a.c") (s"z") =
    Ok (VMap [(s"a", VMap [(s"b", VInt 1);
                           (s"l", VList [VInt 1; VMap [(s"b", VInt 2)]]);
                           (s"z", VMap [(s"d", VStr (s"x")); (s"e", VNil)])]);
              (s"f", VInt 7);
              (s"g", VMap [(s"b", VBool true)])]) /\
  get_keys ([s"a"] ++ [s"b"]) ex11 = Some (VInt 1) /\ reportable (VInt 1) = true /\
  rename_key nopf (s":") ex11 (s"a.c") (s"b") = Err EOther /\
  split1 dot (s"f") = [] ++ [s"f"] /\ get_keys ([] ++ [s"g"]) ex11 <> None /\
  rename_key nopf (s":") ex11 (s"f") (s"g") = Err EOther /\
  rename_key nopf (s":") ex11 (s"f") (s"f") = Err EOther /\
  rename_key nopf (s":") ex11 (s"zz") (s"y") = Err EOther /\
  diverge ([s"a"] ++ [s"c"]) [s"a"; s"b"] = true /\ diverge ([s"a"] ++ [s"z"]) [s"a"; s"b"] = true.
Proof. vm_compute. repeat split; discriminate. Qed.

(* ---- tie to the CURRENT sources of what RenameKey decides with: Map.Exists (exists.go) over Map.ValuesForPath
   (keyvalues.go), re-translated by go2v on every run (Gen/Pure_gen.v) and proved equal to the model functions
   [exists_path] / [values_for_path] (GenProofs/PureG5.v, PureG7.v) *)
From Mxj Require Import Gen.Setters_gen Gen.PureSupport Gen.Pure_gen Model.KeyValues GenProofs.PureG5 GenProofs.PureG7.

Theorem C11_exists_code_is_model : forall pf st m path subkeys, g_fieldSep st <> [] ->
  fn_Exists (run_ValuesForPath pf st) st m path subkeys
  = of_res (exists_path pf (g_fieldSep st) (VMap m) path subkeys).
Proof. exact exists_code_is_model. Qed.
Print Assumptions C11_exists_code_is_model.

Theorem C11_values_for_path_code_is_model : forall pf st m path subkeys, g_fieldSep st <> [] ->
  run_ValuesForPath pf st m path subkeys = values_for_path pf (g_fieldSep st) (VMap m) path subkeys.
Proof. exact run_ValuesForPath_eq. Qed.
Print Assumptions C11_values_for_path_code_is_model.

(* ---- lastKey (the helper Remove and RenameKey take the entry name from) and Map.Root, translated from the current
   sources (GenProofs/PureG13.v) *)
From Mxj Require Import GenProofs.PureG13.

Theorem C11_last_key_code : forall st path, fn_lastKey st path = Ret (last (split1 dot path) []).
Proof. exact last_key_code. Qed.
Print Assumptions C11_last_key_code.

Theorem C11_root_code : forall st mv, fn_Root st mv = Ret (match mv with [(k, _)] => Ok k | _ => Err EOther end).
Proof. exact root_code. Qed.
Print Assumptions C11_root_code.

(* ---- Map.Remove and Map.RenameKey themselves (remove.go, rename.go), with remove, renameKey, prevValueByPath and parentPath
   below them: translated from the current sources in write-back mode (the Go code stores in place into maps that are part of the
   receiver's tree; the translation returns the receiver afterwards) and proved equal to the functional models [remove_path] /
   [rename_key] the theorems above are stated with (GenProofs/PureG22.v) *)
From Mxj Require Import GenProofs.PureG22.

Theorem C11_Remove_code_is_model : forall st mv path,
  fn_Remove (run_remove st) st mv path = map_result mv (remove_path (VMap mv) path).
Proof. exact Remove_code_is_model. Qed.
Print Assumptions C11_Remove_code_is_model.

Theorem C11_RenameKey_code_is_model : forall pf st mv path newName, g_fieldSep st <> [] ->
  fn_RenameKey (run_Exists pf st) (run_parentPath st) (run_renameKey st) st mv path newName
  = map_result mv (rename_key pf (g_fieldSep st) (VMap mv) path newName).
Proof. exact RenameKey_code_is_model. Qed.
Print Assumptions C11_RenameKey_code_is_model.

Theorem C11_remove_inner_code_is_model : forall st m path,
  fn_remove (run_lastKey st) (run_prevValueByPath st) st m path = tree_result m (remove_path m path).
Proof. exact remove_code_is_model. Qed.
Print Assumptions C11_remove_inner_code_is_model.

Theorem C11_rename_inner_code_is_model : forall st m path newName,
  fn_renameKey (run_lastKey st) (run_prevValueByPath st) st m path newName
  = tree_result m (with_parent (split1 dot path) (rename_write newName) m).
Proof. exact rename_key_inner_code_is_model. Qed.
Print Assumptions C11_rename_inner_code_is_model.

Theorem C11_prev_value_by_path_code : forall st m path, prev_spec (split1 dot path) m (run_prevValueByPath st m path).
Proof. exact run_prevValueByPath_spec. Qed.
Print Assumptions C11_prev_value_by_path_code.

Theorem C11_parent_path_code : forall st path, fn_parentPath st path = Ret (parent_path path).
Proof. exact parent_path_code. Qed.
Print Assumptions C11_parent_path_code.

Theorem C11_Remove_code_no_panic : forall st mv path, fn_Remove (run_remove st) st mv path <> Crash.
Proof. exact Remove_code_no_panic. Qed.
Print Assumptions C11_Remove_code_no_panic.

Theorem C11_RenameKey_code_no_panic : forall pf st mv path newName, g_fieldSep st <> [] ->
  fn_RenameKey (run_Exists pf st) (run_parentPath st) (run_renameKey st) st mv path newName <> Crash.
Proof. exact RenameKey_code_no_panic. Qed.
Print Assumptions C11_RenameKey_code_no_panic.

(* ---- Map.SetValueForPath itself (set.go), translated from the current sources in write-back mode: mv.ValueForPath(parentPath)
   is the lens the model prescribes (the first value values_for_path_loc locates, with the function that puts a new value at its
   position in the receiver); proved equal to the functional model [set_value_for_path] the theorems above are stated with
   (GenProofs/PureG23.v), together with the lens laws on Go maps (distinct keys) *)
From Mxj Require Import GenProofs.PureG23.

Theorem C11_SetValueForPath_code_is_model : forall st mv value path,
  fn_SetValueForPath vfp_lens st mv value path
  = match set_value_for_path (VMap mv) value path with
    | Ok (VMap m') => Ret (None, m') | Ok _ => Crash | Err e => Ret (Some e, mv) | Panic => Crash end.
Proof. exact set_value_for_path_code_is_model_map. Qed.
Print Assumptions C11_SetValueForPath_code_is_model.

Theorem C11_SetValueForPath_code_no_crash : forall st mv value path,
  fn_SetValueForPath vfp_lens st mv value path <> Crash.
Proof. exact set_value_for_path_code_no_crash. Qed.
Print Assumptions C11_SetValueForPath_code_no_crash.

Theorem C11_vfp_lens_get_put : forall mv path v put,
  wfb (VMap mv) = true -> vfp_lens mv path = Ok (v, put) -> put v = mv.
Proof. exact vfp_lens_get_put. Qed.
Print Assumptions C11_vfp_lens_get_put.

Theorem C11_vfp_lens_spec : forall mv path v put,
  wfb (VMap mv) = true -> vfp_lens mv path = Ok (v, put) ->
  exists p, get_at p (VMap mv) = Some v /\ forall x, put x = entries_of (update_at p x (VMap mv)).
Proof. exact vfp_lens_spec. Qed.
Print Assumptions C11_vfp_lens_spec.

(* ---- the lens IS what the translated Map.ValueForPath finds: the located ValuesForPath of the model reports the values of the
   unlocated one (the translated ValuesForPath, PureG5 / PureG9) in the same order (GenProofs/PureG24.v) *)
From Mxj Require Import GenProofs.PureG24.

Theorem C11_values_for_path_loc_values : forall pf sep m path,
  values_for_path pf sep m path [] = bind (values_for_path_loc m path) (fun l => Ok (map snd l)).
Proof. exact values_for_path_loc_values. Qed.
Print Assumptions C11_values_for_path_loc_values.

Theorem C11_value_for_path_code_is_lens : forall pf st mv path, g_fieldSep st <> [] ->
  fn_ValueForPath (run_ValuesForPath pf st) st mv path
  = match vfp_lens mv path with
    | Ok (v, _) => Ret (Ok v)
    | Err e => Ret (Err e)
    | Panic => Crash
    end.
Proof. exact value_for_path_code_is_lens. Qed.
Print Assumptions C11_value_for_path_code_is_lens.
