(* C15 - decoders and string-argument APIs are total.  Statements only.
   Every theorem quantifies over ALL inputs of the modelled function (token lists that need not be
   well nested, with either terminator; Maps with arbitrary keys, the empty key included; arbitrary
   path / key / sub-key / key-pair / new-value strings).  Proofs: Proofs/KVTotal.v, Proofs/C01E.v, Proofs/C01T.v. *)
From Mxj Require Import Model.TreeOps Model.XmlDec Spec.Conv Spec.ConvClauses Spec.Dom01 Proofs.C07P Proofs.KVTotal Proofs.C01E Proofs.C01T.

(* ---- string-argument APIs ---- *)
Theorem C15_values_for_path_no_panic : forall pf sep m path sk, values_for_path pf sep m path sk <> Panic.
Proof. exact values_for_path_no_panic. Qed.
Print Assumptions C15_values_for_path_no_panic.

Theorem C15_values_for_key_no_panic : forall pf sep m k sk, values_for_key pf sep m k sk <> Panic.
Proof. exact values_for_key_no_panic. Qed.
Print Assumptions C15_values_for_key_no_panic.

Theorem C15_update_no_panic : forall pf sep m nv path sk, update_values_for_path pf sep m nv path sk <> Panic.
Proof. exact update_no_panic. Qed.
Print Assumptions C15_update_no_panic.

Theorem C15_set_no_panic : forall m v path, set_value_for_path m v path <> Panic.
Proof. exact set_no_panic. Qed.
Print Assumptions C15_set_no_panic.

Theorem C15_remove_no_panic : forall m path, remove_path m path <> Panic.
Proof. exact remove_no_panic. Qed.
Print Assumptions C15_remove_no_panic.

Theorem C15_rename_no_panic : forall pf sep m path nn, rename_key pf sep m path nn <> Panic.
Proof. exact rename_no_panic. Qed.
Print Assumptions C15_rename_no_panic.

Theorem C15_new_map_no_panic : forall pf sep mv pairs, snd (new_map pf sep mv pairs) <> Panic.
Proof. exact new_map_no_panic. Qed.
Print Assumptions C15_new_map_no_panic.

(* ---- the Map decoder: all token lists the tokenizer can return (named start tags, no end tag
        before the first start tag), every option record, both terminators ---- *)
Theorem C15_decode_no_panic : forall pf skip o r tm ts,
  forallb start_ok ts = true -> top_ok ts = true -> xml_decode pf skip o r ts tm <> Panic.
Proof. exact decode_no_panic. Qed.
Print Assumptions C15_decode_no_panic.

(* it returns a Map exactly when the stream contains the complete root element ... *)
Theorem C15_decode_ok_iff : forall pf skip o r tm ts,
  forallb start_ok ts = true -> top_ok ts = true ->
  ((exists v, xml_decode pf skip o r ts tm = Ok v) <-> doc_complete o ts = true).
Proof. exact decode_ok_iff. Qed.
Print Assumptions C15_decode_ok_iff.

(* ... and otherwise fails with the tokenizer's verdict (io.EOF or the syntax error), returning no partial Map *)
Theorem C15_decode_fails_iff : forall pf skip o r tm ts,
  forallb start_ok ts = true -> top_ok ts = true ->
  (xml_decode pf skip o r ts tm = Err (err_of tm) <-> doc_complete o ts = false).
Proof. exact decode_fails_iff. Qed.
Print Assumptions C15_decode_fails_iff.

(* every truncation of a well-formed document inside its root element is an error *)
Theorem C15_truncated_doc_fails : forall pf skip o r tm d p q,
  dom01 o d = true ->
  flat_map toks_of_node (d_prolog d) ++ toks_of_elem (d_root d) = p ++ q -> q <> [] ->
  xml_decode pf skip o r p tm = Err (err_of tm).
Proof. exact truncated_doc_fails. Qed.
Print Assumptions C15_truncated_doc_fails.

(* ---- the panic-site inventory regenerated from the current Go source matches the table that names,
        per function, the model function representing its sites (GenProofs/SitesG.v) ---- *)
From Mxj Require Import Gen.Sites_gen GenProofs.SitesG.
Theorem C15_sites_covered : sites_match panic_sites expected_sites = true.
Proof. exact sites_covered. Qed.
Print Assumptions C15_sites_covered.

(* ====================================================================================================
   H3: totality of EVERY modelled entry point.  Proofs: Proofs/C15XSeq.v (sequence decoder), Proofs/C15XSeqEnc.v
   (decoder output is encodable, any option record), Proofs/C15XEnc.v (Map encoder), Proofs/C15XApi.v (leaf walkers,
   key search, JSON, reader / bulk / file forms, x2j-wrapper walkers, thin wrappers), Proofs/C15XRef.v (witnesses).
   Model functions whose result type is a plain list (leaf_nodes, paths_for_key, xw_vfkp, ...) have no Panic value:
   the Go index / slice expressions they stand for are stated as in-range / membership facts, and the exported
   wrappers that return (value, error) are stated as `<> Panic` relative to the codec they call.
   ==================================================================================================== *)
From Mxj Require Import Model.SeqDec Model.SeqEnc Model.XmlEnc Model.X2jWrap Model.Reader Model.Json Spec.SeqSpec
  Proofs.C09P Proofs.C13Top Proofs.C15XSeq Proofs.C15XSeqEnc Proofs.C15XEnc Proofs.C15XApi Proofs.C15XRef Proofs.C15XDef.
Import ListNotations.

(* ---- 1. leaf walkers (leafnode.go) ---- *)
(* LeafPaths / LeafValues: every index of `for i := 0; i < len(ln); i++ { ss[i] = ln[i].Path }` is inside both
   slices, for every Map (empty keys, every value kind) and both option values *)
Theorem C15_leaf_index_in_range : forall ap tk dotn m noattr i,
  i < length (leaf_nodes ap tk dotn m noattr) ->
  exists p v, nth_error (leaf_nodes ap tk dotn m noattr) i = Some (p, v) /\
              nth_error (leaf_paths ap tk dotn m noattr) i = Some p /\
              nth_error (leaf_values ap tk dotn m noattr) i = Some v.
Proof. exact leaf_index_in_range. Qed.
Print Assumptions C15_leaf_index_in_range.

(* the attribute test never slices an empty key (node[:1] on the pinned tree), whatever the prefix *)
Theorem C15_leaf_empty_key_not_attribute : forall ap noattr, skip_attr ap noattr [] = false.
Proof. exact skip_attr_empty_key. Qed.
Print Assumptions C15_leaf_empty_key_not_attribute.

Theorem C15_leaf_nodes_empty_key : forall ap tk dotn noattr v,
  is_scalar v = true ->
  leaf_nodes ap tk dotn (VMap [([], v)]) noattr = [(leaf_path tk (leaf_path tk [] [] noattr) [] noattr, v)].
Proof. exact leaf_nodes_empty_key. Qed.
Print Assumptions C15_leaf_nodes_empty_key.

(* ---- 2. key search (keyvalues.go PathsForKey / PathForKeyShortest) ---- *)
(* paths[0] / paths[1:] are guarded: "" exactly when there is no path, else one of the paths *)
Theorem C15_path_for_key_shortest_total : forall m k,
  (paths_for_key m k = [] /\ path_for_key_shortest m k = []) \/
  (paths_for_key m k <> [] /\ In (path_for_key_shortest m k) (paths_for_key m k)).
Proof. exact path_for_key_shortest_total. Qed.
Print Assumptions C15_path_for_key_shortest_total.

(* ---- 3. the sequence decoder (xmlseq.go xmlSeqToMapParser): ALL RawToken lists, every option record, any cast
        flag, both terminators - no hypothesis at all ---- *)
Theorem C15_seq_decode_no_panic : forall pf skip o r tm ts, seq_decode pf skip o r ts tm <> Panic.
Proof. exact seq_decode_no_panic. Qed.
Print Assumptions C15_seq_decode_no_panic.

(* what NewMapXmlSeqReader leaves unread is strictly shorter than what it was given *)
Theorem C15_seq_decode_consumes : forall pf skip o r tm ts kv rest,
  seq_decode_rest pf skip o r ts tm = Ok (kv, rest) -> length rest < length ts.
Proof. exact seq_decode_rest_consumes. Qed.
Print Assumptions C15_seq_decode_consumes.

(* a Map it returns is a singleton {root: value} (no partial Map beside an error: the result is Ok or Err) *)
Theorem C15_seq_decode_singleton : forall pf skip o r tm ts m,
  seq_decode pf skip o r ts tm = Ok m -> exists k v, m = VMap [(k, v)].
Proof. exact seq_decode_singleton. Qed.
Print Assumptions C15_seq_decode_singleton.

(* decoder output is always encodable: EVERY option record whose generated keys are pairwise distinct (true of a fresh
   process and after SetGlobalKeyMapPrefix with any prefix that keeps them distinct), every cast flag, EVERY RawToken
   list (malformed ones included) whose start-tag names are non-empty and none of the generated keys.
   Strengthens C04 seq_decoded_never_panics (there: the two option records seq_o e). *)
Theorem C15_seq_decoded_encodable : forall o, seq_keys_ok o = true ->
  forall pf skip r ts tm m,
    forallb (gtok_ok o) ts = true ->
    seq_decode pf skip o r ts tm = Ok m ->
    seq_encode o m <> Panic /\ seq_encode_indent o m <> Panic.
Proof. exact gseq_decoded_encodable. Qed.
Print Assumptions C15_seq_decoded_encodable.

Theorem C15_seq_encode_no_panic_on_shape : forall o v k, gshape o v k = true -> senc o v k <> Panic.
Proof. exact gsenc_nopanic. Qed.
Print Assumptions C15_seq_encode_no_panic_on_shape.

(* BeautifyXml *)
Theorem C15_beautify_no_panic : forall pf skip o ts tm,
  seq_keys_ok o = true -> forallb (gtok_ok o) ts = true -> beautify_items pf skip o ts tm <> Panic.
Proof. exact beautify_no_panic. Qed.
Print Assumptions C15_beautify_no_panic.

(* the instance for the default key prefix '#': ANY other option values (casts, snake case, XMPP, escaping, trimming),
   any cast flag, EVERY RawToken list - well nested or not - whose start-tag names are XML names (non-empty, not
   beginning with '#'; no XML name can), either terminator *)
Theorem C15_seq_decoded_encodable_default : forall pf skip o r ts tm m,
  default_keys o = true -> names_ok ts = true ->
  seq_decode pf skip o r ts tm = Ok m ->
  seq_encode o m <> Panic /\ seq_encode_indent o m <> Panic.
Proof. exact seq_decoded_encodable_default. Qed.
Print Assumptions C15_seq_decoded_encodable_default.
Theorem C15_beautify_no_panic_default : forall pf skip o ts tm,
  default_keys o = true -> names_ok ts = true -> beautify_items pf skip o ts tm <> Panic.
Proof. exact beautify_no_panic_default. Qed.
Print Assumptions C15_beautify_no_panic_default.

(* REFUTED without the side condition on the names - a genuine defect of the Go code (observed on /repo c7dba98):
   after mxj.SetGlobalKeyMapPrefix("_"), NewMapXmlSeq succeeds on each of
     <_comment><a/></_comment>     <r><_attr><x/></_attr></r>     <r><_procinst>x</_procinst><b/></r>
   and MapSeq.Xml / MapSeq.XmlIndent / BeautifyXml PANIC on the result (mapToXmlSeqIndent: val[textK].(string),
   a.v.(map[string]interface{}), val[targetK].(string)): with a prefix that is a legal XML name start, element names
   collide with the generated keys.  (With the default prefix '#' no XML name can collide: C15_seq_decoded_encodable.) *)
Theorem C15_seq_decoded_encodable_all_opts_refuted :
  exists o, seq_keys_ok o = true /\
    decodes_then_panics o w_comment /\ decodes_then_panics o w_attr /\ decodes_then_panics o w_procinst.
Proof. exact seq_decoded_encodable_all_opts_refuted. Qed.
Print Assumptions C15_seq_decoded_encodable_all_opts_refuted.

(* ---- 4. the Map encoder (xml.go marshalMapToXmlIndent, Map.Xml / XmlIndent, anyxml.go AnyXml): ANY value tree,
        any key, any option record; an unencodable attribute value is an error value ---- *)
Theorem C15_enc_no_panic : forall o v key, enc o v key <> Panic.
Proof. exact enc_no_panic. Qed.
Print Assumptions C15_enc_no_panic.

Theorem C15_map_xml_no_panic : forall o m rt,
  map_xml_items o m rt <> Panic /\ map_xml_indent_items o m rt <> Panic.
Proof. intros o m rt. split; [exact (map_xml_items_no_panic o m rt)|exact (map_xml_indent_items_no_panic o m rt)]. Qed.
Print Assumptions C15_map_xml_no_panic.

Theorem C15_any_xml_no_panic : forall o v rt et, any_xml_items o v rt et <> Panic.
Proof. exact any_xml_items_no_panic. Qed.
Print Assumptions C15_any_xml_no_panic.

(* every Map NewMapXml returns - for any token list and decoder options - can be encoded under any options *)
Theorem C15_decoded_map_encodable : forall pf skip o r ts tm o' m rt,
  xml_decode pf skip o r ts tm = Ok (VMap m) ->
  map_xml_items o' m rt <> Panic /\ map_xml_indent_items o' m rt <> Panic.
Proof. exact decoded_map_xml. Qed.
Print Assumptions C15_decoded_map_encodable.

(* ---- 5. JSON (json.go) ---- *)
(* getJson: every schedule of the reader, legal or not - it returns *)
Theorem C15_get_json_total : forall sc, exists r sc', get_json sc = Some (r, sc').
Proof. exact get_json_total. Qed.
Print Assumptions C15_get_json_total.

(* NewMapJson panics only if encoding/json's decoder does; a decoder error is returned with no Map *)
Theorem C15_new_map_json_no_panic : forall decv b, decv b <> Panic -> new_map_json decv b <> Panic.
Proof. exact new_map_json_no_panic. Qed.
Print Assumptions C15_new_map_json_no_panic.
Theorem C15_new_map_json_err : forall decv b e, b <> [] -> decv b = Err e -> new_map_json decv b = Err e.
Proof. exact new_map_json_err. Qed.
Print Assumptions C15_new_map_json_err.

(* NewMapJsonReader / NewMapJsonReaderRaw: every schedule, every byte string *)
Theorem C15_json_reader_total : forall decv sc, (forall b, decv b <> Panic) ->
  exists r sc', new_map_json_reader (new_map_json decv) sc = Some (r, sc') /\ r <> Panic.
Proof. exact json_reader_total. Qed.
Print Assumptions C15_json_reader_total.
Theorem C15_json_reader_raw_total : forall decv sc, (forall b, decv b <> Panic) ->
  exists r raw sc', new_map_json_reader_raw (new_map_json decv) sc = Some (r, raw, sc') /\ r <> Panic.
Proof. exact json_reader_raw_total. Qed.
Print Assumptions C15_json_reader_raw_total.

(* the bulk handlers and the file readers are loops around a reader function and panic only if it does *)
Theorem C15_handle_reader_no_panic : forall next mh eh sc h,
  next_safe next -> handle_reader next mh eh sc = Some h -> h_ret h <> Panic.
Proof. exact handle_reader_no_panic. Qed.
Print Assumptions C15_handle_reader_no_panic.
Theorem C15_maps_from_file_no_panic : forall next X out,
  next_safe next -> maps_from_file next X = Some out -> snd out <> Panic.
Proof. exact maps_from_file_no_panic. Qed.
Print Assumptions C15_maps_from_file_no_panic.
Theorem C15_handle_json_no_panic : forall decv mh eh sc h, (forall b, decv b <> Panic) ->
  (handle_json_reader (new_map_json decv) mh eh sc = Some h \/
   handle_json_reader_raw (new_map_json decv) mh eh sc = Some h) -> h_ret h <> Panic.
Proof. exact handle_json_no_panic. Qed.
Print Assumptions C15_handle_json_no_panic.
Theorem C15_maps_from_json_file_no_panic : forall decv X out, (forall b, decv b <> Panic) ->
  new_maps_from_json_file_raw (new_map_json decv) X = Some out -> snd out <> Panic.
Proof. exact maps_from_json_file_no_panic. Qed.
Print Assumptions C15_maps_from_json_file_no_panic.

(* the XML reader, bulk and file forms over an abstract decoder that never answers Panic *)
Theorem C15_xml_reader_no_panic : forall (M : xmachine) sc r sc',
  machine_safe M -> new_map_xml_reader M sc = Some (r, sc') -> r <> Panic.
Proof. exact xml_reader_no_panic. Qed.
Print Assumptions C15_xml_reader_no_panic.
Theorem C15_xml_reader_raw_no_panic : forall (M : xmachine) sc r raw sc',
  machine_safe M -> new_map_xml_reader_raw M sc = Some (r, raw, sc') -> r <> Panic.
Proof. exact xml_reader_raw_no_panic. Qed.
Print Assumptions C15_xml_reader_raw_no_panic.
Theorem C15_handle_xml_no_panic : forall (M : xmachine) mh eh sc h, machine_safe M ->
  (handle_xml_reader M mh eh sc = Some h \/ handle_xml_reader_raw M mh eh sc = Some h) -> h_ret h <> Panic.
Proof. exact handle_xml_no_panic. Qed.
Print Assumptions C15_handle_xml_no_panic.
Theorem C15_maps_from_xml_file_no_panic : forall (M : xmachine) X out, machine_safe M ->
  new_maps_from_xml_file_raw M X = Some out -> snd out <> Panic.
Proof. exact maps_from_xml_file_no_panic. Qed.
Print Assumptions C15_maps_from_xml_file_no_panic.

(* ---- 6. x2j-wrapper walkers and the query wrappers of j2x / x2j: a panic can only come from the decoder ---- *)
Theorem C15_xw_skip_attr_empty_key : forall ga, xw_skip_attr [] ga = false.
Proof. exact xw_skip_attr_empty_key. Qed.
Print Assumptions C15_xw_skip_attr_empty_key.

Theorem C15_xw_walkers_no_panic : forall (NewMapXml : str -> bool -> res value) doc key path a,
  NewMapXml doc false <> Panic ->
  xw_ValuesForTag NewMapXml doc key <> Panic /\
  xw_PathsForTag NewMapXml doc key <> Panic /\
  xw_PathForTagShortest NewMapXml doc key <> Panic /\
  xw_ValuesFromTagPath NewMapXml doc path a <> Panic /\
  xw_ValuesAtTagPath NewMapXml doc path a <> Panic.
Proof. exact xw_walkers_no_panic. Qed.
Print Assumptions C15_xw_walkers_no_panic.

Theorem C15_xw_reader_walkers_no_panic : forall (NewMapXmlReader : str -> bool -> res value * str) rd key path a,
  fst (NewMapXmlReader rd false) <> Panic ->
  fst (xw_ReaderValuesFromTagPath NewMapXmlReader rd path a) <> Panic /\
  fst (xw_ReaderValuesForTag NewMapXmlReader rd key) <> Panic.
Proof. exact xw_reader_walkers_no_panic. Qed.
Print Assumptions C15_xw_reader_walkers_no_panic.

Theorem C15_j2x_queries_no_panic : forall pf fieldSep attrPrefix textKey dotn (NewMapJson : str -> res value) j key path sk,
  NewMapJson j <> Panic ->
  j2x_JsonPathsForKey NewMapJson j key <> Panic /\
  j2x_JsonPathForKeyShortest NewMapJson j key <> Panic /\
  j2x_JsonValuesForKey pf fieldSep NewMapJson j key sk <> Panic /\
  j2x_JsonValuesForKeyPath pf fieldSep NewMapJson j path sk <> Panic /\
  j2x_JsonLeafNodes attrPrefix textKey dotn NewMapJson j <> Panic /\
  j2x_JsonLeafValues attrPrefix textKey dotn NewMapJson j <> Panic /\
  j2x_JsonLeafPath attrPrefix textKey dotn NewMapJson j <> Panic.
Proof. exact j2x_queries_no_panic. Qed.
Print Assumptions C15_j2x_queries_no_panic.

Theorem C15_x2j_queries_no_panic : forall pf fieldSep attrPrefix textKey dotn (NewMapXml : str -> bool -> res value) x tag path sk,
  NewMapXml x false <> Panic ->
  x2j_XmlPathsForTag NewMapXml x tag <> Panic /\
  x2j_XmlPathForTagShortest NewMapXml x tag <> Panic /\
  x2j_XmlValuesForTag pf fieldSep NewMapXml x tag sk <> Panic /\
  x2j_XmlValuesForPath pf fieldSep NewMapXml x path sk <> Panic /\
  x2j_XmlLeafNodes attrPrefix textKey dotn NewMapXml x <> Panic /\
  x2j_XmlLeafValues attrPrefix textKey dotn NewMapXml x <> Panic /\
  x2j_XmlLeafPath attrPrefix textKey dotn NewMapXml x <> Panic.
Proof. exact x2j_queries_no_panic. Qed.
Print Assumptions C15_x2j_queries_no_panic.

(* ValuesAtKeyPath `keys[lenKeys-1]`, set.go lastKey / parentPath: the last segment of strings.Split exists for every
   path string and separator *)
Theorem C15_last_segment_exists : forall c path, In (last (split1 c path) []) (split1 c path).
Proof. exact split1_last_in. Qed.
Print Assumptions C15_last_segment_exists.

(* ---- 7. the argument parsers on every string ---- *)
Theorem C15_parse_path_no_panic : forall path, parse_path path <> Panic.
Proof. exact parse_path_no_panic. Qed.
Print Assumptions C15_parse_path_no_panic.
Theorem C15_get_sub_key_map_no_panic : forall pf sep kv, get_sub_key_map pf sep kv <> Panic.
Proof. exact get_sub_key_map_no_panic. Qed.
Print Assumptions C15_get_sub_key_map_no_panic.

(* ---------------- non-vacuity, and malformed inputs that yield an error value rather than a panic ---------------- *)
(* 1. a Map with empty keys, an attribute, a list holding nil and an empty map: both options, dot notation *)
Definition ex15_m : value :=
  VMap [(s "a", VMap [([], VInt 1); (s "-b", VStr (s "x"))]); ([], VList [VNil; VMap []])].
Example C15_ex_leaf :
  leaf_nodes (s "-") (s "#text") false ex15_m true = [(s "a.", VInt 1); (s "[0]", VNil)] /\
  leaf_paths (s "-") (s "#text") true ex15_m false = [s "a."; s "a.-b"; s "0"] /\
  path_for_key_shortest ex15_m (s "zz") = [] /\ path_for_key_shortest ex15_m [] = [].
Proof. vm_compute. repeat split. Qed.

(* 3. the hypotheses of C15_seq_decoded_encodable are met by a fresh process, by C04's option records, by a record with
   snake case + XMPP + casts + escaping, and after SetGlobalKeyMapPrefix("_") / (""); by a stream with mixed content,
   comment, PI, a hyphenated name, a stray end tag and a truncated element *)
Example C15_ex_seq_hypotheses :
  seq_keys_ok opts0 = true /\ seq_keys_ok (seq_o true) = true /\ seq_keys_ok o_snake_xmpp = true /\
  seq_keys_ok o_us = true /\ seq_keys_ok (keyed [] opts0) = true /\
  forallb (gtok_ok o_snake_xmpp) ts_mixed = true /\ forallb (gtok_ok o_us) ts_mixed = true.
Proof. exact keys_ok_examples. Qed.
Example C15_ex_seq_roundtrip :
  match seq_decode pf0 skip0 o_snake_xmpp false ts_mixed TermEOF with
  | Ok m => match seq_encode o_snake_xmpp m with Ok its => semit its | _ => [] end
  | _ => []
  end = s "<a_b k=""1"">u<c></c><!--n--><?p i?><c>2</c></a_b>".
Proof. exact mixed_decodes_and_encodes. Qed.
Example C15_ex_default_hypotheses :
  default_keys opts0 = true /\ default_keys (seq_o true) = true /\ default_keys o_snake_xmpp = true /\
  default_keys o_us = false /\ names_ok ts_mixed = true /\ names_ok w_comment = true.
Proof. exact default_examples. Qed.
(* o_us is the state SetGlobalKeyMapPrefix("_") reaches (generated setter), and the refutation's witnesses violate
   exactly the side condition on names (under the default keys they satisfy it) *)
Example C15_ex_refutation_state :
  match Gen.Setters_gen.set_SetGlobalKeyMapPrefix Gen.Setters_gen.gstate0 (s "_") with
  | Some st => [Gen.Setters_gen.g_textK st; Gen.Setters_gen.g_seqK st; Gen.Setters_gen.g_commentK st; Gen.Setters_gen.g_attrK st;
                Gen.Setters_gen.g_directiveK st; Gen.Setters_gen.g_procinstK st; Gen.Setters_gen.g_targetK st; Gen.Setters_gen.g_instK st]
               = [textK o_us; seqK o_us; commentK o_us; attrK o_us; directiveK o_us; procinstK o_us; targetK o_us; instK o_us]
  | None => False
  end.
Proof. exact o_us_is_setter_state. Qed.
Example C15_ex_refutation_side_condition :
  forallb (gtok_ok o_us) w_comment = false /\ forallb (gtok_ok o_us) w_attr = false /\
  forallb (gtok_ok o_us) w_procinst = false /\
  forallb (gtok_ok opts0) w_comment = true /\ forallb (gtok_ok opts0) w_attr = true /\
  forallb (gtok_ok opts0) w_procinst = true.
Proof. exact witnesses_violate_side_condition. Qed.
(* malformed sequence-XML streams: stray end tag, text then end tag, mismatched end tag, truncation under either
   terminator, comment before the root (the documented no-root result), empty names *)
Example C15_ex_seq_malformed :
  seq_decode pf0 skip0 opts0 false [TEnd (xn "a")] TermEOF = Err EOther /\
  seq_decode pf0 skip0 opts0 false [TChar (s "x"); TEnd (xn "a")] TermEOF = Err EOther /\
  seq_decode pf0 skip0 opts0 false [TStart (xn "a") []; TStart (xn "b") []; TEnd (xn "a")] TermEOF = Err EOther /\
  seq_decode pf0 skip0 opts0 false [TStart (xn "a") []; TChar (s "t")] TermEOF = Err EEOF /\
  seq_decode pf0 skip0 opts0 false [TStart (xn "a") []; TChar (s "t")] TermErr = Err EOther /\
  seq_decode pf0 skip0 opts0 false [TComment (s "c"); TStart (xn "a") []; TEnd (xn "a")] TermEOF = Err ENoRoot /\
  seq_decode pf0 skip0 opts0 false [TStart (xn "") []; TStart (xn "") []; TEnd (xn "")] TermEOF = Err EOther.
Proof. exact seq_malformed_examples. Qed.

(* 4. an attribute whose value is a map or a list is an error value; empty keys and nil members encode *)
Example C15_ex_enc :
  enc opts0 (VMap [(s "-a", VMap []); (s "b", VInt 1)]) (s "r") = Err EOther /\
  enc opts0 (VMap [(s "-a", VList [VInt 1]); (s "b", VInt 1)]) (s "r") = Err EOther /\
  map_xml_items opts0 [([], VList [VMap [(s "-", VNil)]; VNil])] None =
    Ok [IOpen (s "doc") []; IOpen [] []; IEmpty (s "-") []; IClose []; IEmpty [] []; IClose (s "doc")].
Proof. vm_compute. repeat split. Qed.

(* 5. JSON: a scalar document and a decoder error are error values; a lone '}' and an unterminated string on the
   raw reader are error values with the bytes kept so far *)
Example C15_ex_json :
  new_map_json (fun _ => Ok (VInt 1)) (s "1") = Err EOther /\
  new_map_json (fun _ => Err EOther) (s "{") = Err EOther /\
  new_map_json_reader_raw (new_map_json (fun _ => Err EOther)) (file_schedule (s " {""a"":} x"))
    = Some (Err EOther, s "{""a"":}", [Data " "%char; Data "x"%char]) /\
  get_json [Zero; Data "}"%char] = Some (JErr [] EOther, []) /\
  get_json (file_schedule (s "{""a"":""}")) = Some (JErr (s "{""a"":""}") EOther, []).
Proof. vm_compute. repeat split. Qed.
Example C15_ex_machine_safe : machine_safe toy.
Proof. exact toy_machine_safe. Qed.

(* 6. the walkers of x2j-wrapper on Maps with empty keys and on paths with empty segments *)
Example C15_ex_xw :
  xw_values_from (VMap [([], VInt 1); (s "-a", VInt 2)]) (s "*") false = [VInt 1] /\
  xw_values_at (VMap [([], VMap [([], VInt 1)])]) (s ".") false = [VMap [([], VInt 1)]] /\
  xw_values_at (VMap [(s "a", VInt 1)]) (s "a..b.") true = [].
Proof. vm_compute. repeat split. Qed.

(* 7. malformed paths and sub-key arguments are error values; an empty sub-key name is accepted *)
Example C15_ex_parsers :
  parse_path (s "a[-1]") = Err EOther /\ parse_path (s "a[") = Err EOther /\
  parse_path (s "a[x]") = Err EOther /\ parse_path (s "a[99999999999]") = Err EOther /\
  parse_path (s "a[]") = Err EOther /\
  get_sub_key_map (fun _ => None) (s ":") [s ":x"; s "a:1:num"] = Err EOther /\
  get_sub_key_map (fun _ => None) (s ":") [s "nocolon"] = Err EOther /\
  get_sub_key_map (fun _ => None) (s ":") [s ":x"; s "a:true:bool"; s "!b:*"]
    = Ok [([], VStr (s "x")); (s "a", VBool true); (s "!b", VStr (s "*"))].
Proof. vm_compute. repeat split. Qed.

(* ---- tie to the CURRENT source of xmlToMapParser (xml.go:370-538), the core of NewMapXml: go2v re-translates the
   function statement by statement on every run (Gen/Pure_gen.v: key transformation, the attribute loop, the XMPP early
   return, the token loop with its type switch, recursion for child elements, _seq augmentation, list building on
   repeated keys, the shapes at the end tag, character data; xml.Decoder as its token list); GenProofs/PureG14.v proves
   the translation - with the TRANSLATED cast and escapeChars plugged in - equal to the model decoder
   [xml_decode_rest] the theorems above are stated with, on every token list whose start tags have a non-empty local
   name (encoding/xml returns no other; without the condition code and model differ: C15_xml_parser_code_empty_name_refuted). *)
From Mxj Require Import Gen.Setters_gen Gen.PureSupport Gen.Pure_gen Spec.ConvClauses GenProofs.PureG GenProofs.PureG14.

Theorem C15_xml_parser_code_is_model : forall pf callskip o r st fuel ts tm,
  dec_view st o -> cast_view st o -> length ts < fuel -> forallb start_ok ts = true ->
  fn_xmlToMapParser (run_cast pf callskip st) (run_escapeChars st) fuel st [] [] (ts, tm) r
  = dec_top_result tm (xml_decode_rest pf (skip_of st callskip) o r ts tm).
Proof. exact xml_parser_code_is_model_translated. Qed.
Print Assumptions C15_xml_parser_code_is_model.

Theorem C15_xml_parser_code_no_panic : forall pf callskip o r st fuel ts tm,
  dec_view st o -> cast_view st o -> length ts < fuel -> forallb start_ok ts = true -> top_ok ts = true ->
  fn_xmlToMapParser (run_cast pf callskip st) (run_escapeChars st) fuel st [] [] (ts, tm) r <> Crash.
Proof. exact xml_parser_code_no_panic. Qed.
Print Assumptions C15_xml_parser_code_no_panic.

Theorem C15_xml_parser_code_empty_name_refuted :
  exists pf skip o r st ts tm, dec_view st o /\
    fn_xmlToMapParser (fun x b t => cast pf skip o x b t) escape_chars (S (length ts)) st [] [] (ts, tm) r
    <> dec_top_result tm (xml_decode_rest pf skip o r ts tm).
Proof. exact xml_parser_code_is_model_empty_name_refuted. Qed.
Print Assumptions C15_xml_parser_code_empty_name_refuted.

(* ---- tie to the CURRENT source of xmlSeqToMapParser (xmlseq.go:220-437), the core of NewMapXmlSeq: go2v re-translates
   the function statement by statement on every run (Gen/Pure_gen.v: snake-casing, the #attr map with #text / #seq per
   attribute, the XMPP early return, the RawToken loop with all six token cases, recursion, #seq injection, list building,
   the end-tag name check, the NoRoot returns); GenProofs/PureG15.v proves the translation - with the TRANSLATED cast and
   escapeChars plugged in - equal to the model [seq_decode_rest] the theorems above are stated with, on EVERY token list
   (no side condition), and that it never panics in any package state. *)
From Mxj Require Import Gen.Setters_gen Gen.PureSupport Gen.Pure_gen GenProofs.PureG GenProofs.PureG15.

Theorem C15_seq_parser_code_is_model : forall pf callskip o r st ts tm,
  seq_view st o -> cast_view st o ->
  sq_abs (fn_xmlSeqToMapParser (PureG15.run_cast pf callskip st) (PureG15.run_escapeChars st) (S (length ts)) st [] [] (ts, tm) r)
  = seq_decode_rest pf (skip_of st callskip) o r ts tm.
Proof. exact seq_parser_code_abs_translated. Qed.
Print Assumptions C15_seq_parser_code_is_model.

Theorem C15_seq_parser_code_eq : forall pf callskip o r st ts tm,
  seq_view st o -> cast_view st o ->
  fn_xmlSeqToMapParser (PureG15.run_cast pf callskip st) (PureG15.run_escapeChars st) (S (length ts)) st [] [] (ts, tm) r
  = sq_ret tm (seq_decode_rest pf (skip_of st callskip) o r ts tm) (seq_decode_err pf (skip_of st callskip) o r ts tm).
Proof. exact seq_parser_code_eq_translated. Qed.
Print Assumptions C15_seq_parser_code_eq.

Theorem C15_seq_parser_code_no_panic : forall pf callskip r st name a ts tm f, length ts < f ->
  fn_xmlSeqToMapParser (PureG15.run_cast pf callskip st) (PureG15.run_escapeChars st) f st name a (ts, tm) r <> Crash.
Proof. exact seq_parser_code_no_panic. Qed.
Print Assumptions C15_seq_parser_code_no_panic.

(* ---- NewMapXmlSeq, the whole translated chain below it (entry point, xmlSeqToMap with its decoder configuration,
   xmlSeqToMapParser, cast, escapeChars; GenProofs/PureG39.v): no panic on any bytes, under any options and any decoder
   configuration, whatever encoding/xml's tokenizer returns *)
From Mxj Require GenProofs.PureG39.

Theorem C15_new_map_xml_seq_code_no_panic : forall pf callskip o newdec usecd setcr st doc cast,
  PureG15.seq_view st o -> PureG.cast_view st o ->
  fn_NewMapXmlSeq (PureG39.run_xmlSeqToMap pf callskip newdec usecd setcr st) st doc cast <> Crash.
Proof. exact PureG39.new_map_xml_seq_code_no_panic. Qed.
Print Assumptions C15_new_map_xml_seq_code_no_panic.
