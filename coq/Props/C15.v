(* C15 - decoders and string-argument APIs are total.  Statements only.
   Every theorem quantifies over ALL inputs of the modelled function (token lists that need not be
   well nested, with either terminator; Maps with arbitrary keys, the empty key included; arbitrary
   path / key / sub-key / key-pair / new-value strings).  Proofs: Proofs/KVTotal.v, Proofs/C01E.v, Proofs/C01T.v. *)
From Mxj Require Import Model.TreeOps Model.XmlDec Spec.Conv Spec.ConvClauses Spec.Dom01 Proofs.C07P Proofs.KVTotal Proofs.C01E Proofs.C01T.

(* ---- string-argument APIs ---- *)
Theorem C15_values_for_path_no_panic : forall pf sep m path sk, values_for_path pf sep m path sk <> Panic.
Proof. exact values_for_path_no_panic. Qed.
Print Assumptions C15_values_for_path_no_panic.

Theorem C15_values_for_key_no_panic : forall pf sep m k sk, values_for_key pf sep m k sk <> Panic.
Proof. exact values_for_key_no_panic. Qed.
Print Assumptions C15_values_for_key_no_panic.

Theorem C15_update_no_panic : forall pf sep m nv path sk, update_values_for_path pf sep m nv path sk <> Panic.
Proof. exact update_no_panic. Qed.
Print Assumptions C15_update_no_panic.

Theorem C15_set_no_panic : forall m v path, set_value_for_path m v path <> Panic.
Proof. exact set_no_panic. Qed.
Print Assumptions C15_set_no_panic.

Theorem C15_remove_no_panic : forall m path, remove_path m path <> Panic.
Proof. exact remove_no_panic. Qed.
Print Assumptions C15_remove_no_panic.

Theorem C15_rename_no_panic : forall pf sep m path nn, rename_key pf sep m path nn <> Panic.
Proof. exact rename_no_panic. Qed.
Print Assumptions C15_rename_no_panic.

Theorem C15_new_map_no_panic : forall pf sep mv pairs, snd (new_map pf sep mv pairs) <> Panic.
Proof. exact new_map_no_panic. Qed.
Print Assumptions C15_new_map_no_panic.

(* ---- the Map decoder: all token lists the tokenizer can return (named start tags, no end tag
        before the first start tag), every option record, both terminators ---- *)
Theorem C15_decode_no_panic : forall pf skip o r tm ts,
  forallb start_ok ts = true -> top_ok ts = true -> xml_decode pf skip o r ts tm <> Panic.
Proof. exact decode_no_panic. Qed.
Print Assumptions C15_decode_no_panic.

(* it returns a Map exactly when the stream contains the complete root element ... *)
Theorem C15_decode_ok_iff : forall pf skip o r tm ts,
  forallb start_ok ts = true -> top_ok ts = true ->
  ((exists v, xml_decode pf skip o r ts tm = Ok v) <-> doc_complete o ts = true).
Proof. exact decode_ok_iff. Qed.
Print Assumptions C15_decode_ok_iff.

(* ... and otherwise fails with the tokenizer's verdict (io.EOF or the syntax error), returning no partial Map *)
Theorem C15_decode_fails_iff : forall pf skip o r tm ts,
  forallb start_ok ts = true -> top_ok ts = true ->
  (xml_decode pf skip o r ts tm = Err (err_of tm) <-> doc_complete o ts = false).
Proof. exact decode_fails_iff. Qed.
Print Assumptions C15_decode_fails_iff.

(* every truncation of a well-formed document inside its root element is an error *)
Theorem C15_truncated_doc_fails : forall pf skip o r tm d p q,
  dom01 o d = true ->
  flat_map toks_of_node (d_prolog d) ++ toks_of_elem (d_root d) = p ++ q -> q <> [] ->
  xml_decode pf skip o r p tm = Err (err_of tm).
Proof. exact truncated_doc_fails. Qed.
Print Assumptions C15_truncated_doc_fails.

(* ---- the panic-site inventory regenerated from the current Go source matches the table that names,
        per function, the model function representing its sites (GenProofs/SitesG.v) ---- *)
From Mxj Require Import Gen.Sites_gen GenProofs.SitesG.
Theorem C15_sites_covered : sites_match panic_sites expected_sites = true.
Proof. exact sites_covered. Qed.
Print Assumptions C15_sites_covered.
