(* C14 - Casting changes only leaf types, predictably, and never yields NaN or Inf.
   Statements only; proofs are in Proofs/C14P.v (cast) and Proofs/C14Dec.v (decoder).
   Model: cast / xml_decode of Model/XmlDec.v (tied to /repo by the correspondence check:
   XDec cases on real token streams, direct leaf cases through VerifCast, and the H1 sweep).
   Spec:  Spec/CastSpec.v.
   The ParseFloat oracle pf is a variable of every statement; the only facts used about it are
     H1 pf : a nil-error result is NaN/Inf exactly for Go's special spellings (Spec/CastSpec.v, special)
     H0 pf : ParseFloat rejects the empty string
   both validated against the real strconv.ParseFloat on every run.
   The sequence codec (NewMapXmlSeq, xmlseq.go) calls the same cast with an empty tag; its
   structure is covered by the Go-side oracle of this property only (its model belongs to C04). *)
From Mxj Require Import Spec.CastSpec Proofs.C14P Proofs.C14Dec.

(* the decision chain of cast IS the declarative table: skip function, cast flag, NaN/Inf
   guard on the spelling, then int64, uint64, float64, bool, each under its switch, else
   the identical string *)
Theorem C14_cast_spec : forall pf skip o, H1 pf ->
  forall x r t, cast pf skip o x r t = cast_table pf skip o x r t.
Proof. exact cast_spec_l. Qed.
Print Assumptions C14_cast_spec.

(* ... and the table read row by row *)
Theorem C14_cast_rows : forall pf skip o, H1 pf ->
  forall x r t, cast_row pf skip o x r t (cast pf skip o x r t).
Proof. exact cast_rows_l. Qed.
Print Assumptions C14_cast_rows.

(* decoding without the flag: every leaf is the identical string ... *)
Theorem C14_uncast_identity : forall pf skip o x t, cast pf skip o x false t = VStr x.
Proof. exact cast_off. Qed.
Print Assumptions C14_uncast_identity.

(* ... in the whole decoded Map (the ints are the "_seq" entries of IncludeTagSeqNum) *)
Theorem C14_uncast_only_strings : forall pf skip o ts tm v,
  xml_decode pf skip o false ts tm = Ok v -> only_strings v = true.
Proof. exact uncast_only_strings_l. Qed.
Print Assumptions C14_uncast_only_strings.

(* same structure and keys with and without the flag, for every token list: same error class
   or Maps with the same keys in the same positions whose corresponding leaves are a string x
   and the cast of that same x (under the tag of its position) *)
Theorem C14_cast_structure : forall pf skip o, H0 pf -> forall ts tm,
  rrel (cast_leaf pf skip o) (xml_decode pf skip o false ts tm) (xml_decode pf skip o true ts tm).
Proof. exact cast_structure_l. Qed.
Print Assumptions C14_cast_structure.

(* without a skip function this is an equation: the cast-decoded Map is the plain Map with
   every string leaf replaced by its cast *)
Theorem C14_cast_structure_noskip : forall pf o, H0 pf -> forall ts tm,
  xml_decode pf noskip o true ts tm =
  map_leaves_res (fun x => cast pf noskip o x true []) (xml_decode pf noskip o false ts tm).
Proof. exact cast_structure_noskip_l. Qed.
Print Assumptions C14_cast_structure_noskip.

(* the structure is also independent of the cast options and of decoder-side escaping: any two
   configurations that agree on the other options give related Maps, leaf by leaf *)
Theorem C14_structure_parametric : forall pf skip o0 o1 r0 r1 (Lf : value -> value -> Prop),
  same_structure_opts o0 o1 ->
  (forall x t, Lf (leaf_at pf skip o0 r0 x t) (leaf_at pf skip o1 r1 x t)) ->
  Lf (VStr []) (VStr []) -> (forall z, Lf (VInt z) (VInt z)) ->
  forall ts tm, rrel Lf (xml_decode pf skip o0 r0 ts tm) (xml_decode pf skip o1 r1 ts tm).
Proof. exact decode_rel. Qed.
Print Assumptions C14_structure_parametric.

(* each leaf independently: the result depends only on the leaf's own text and tag and on the
   five cast options (every other option, and what pf / the skip function say elsewhere, is irrelevant) *)
Theorem C14_leaf_independent : forall pf pf' skip skip' o o' x r t t',
  cast_opts_eq o o' -> pf x = pf' x -> skipped skip t = skipped skip' t' ->
  cast pf skip o x r t = cast pf' skip' o' x r t'.
Proof. exact cast_frame. Qed.
Print Assumptions C14_leaf_independent.

(* unless CastNanInf is on, a leaf is never cast to NaN or an infinity (no assumption on pf:
   the parsed value itself is tested) *)
Theorem C14_no_nan_inf : forall pf skip o x r t f,
  castNanInf o = false -> cast pf skip o x r t = VFlt f -> is_naninf f = false.
Proof. exact no_nan_inf_l. Qed.
Print Assumptions C14_no_nan_inf.

(* ... and in terms of the text: no spelling of NaN or infinity is ever cast *)
Theorem C14_special_never_cast : forall pf skip o, H1 pf -> forall x r t,
  castNanInf o = false -> is_special x = true -> cast pf skip o x r t = VStr x.
Proof. exact special_never_cast. Qed.
Print Assumptions C14_special_never_cast.

(* hence a cast-decoded Map contains no NaN / Inf float64 anywhere: Json() cannot fail on it *)
Theorem C14_cast_json_ok : forall pf skip o r ts tm v,
  castNanInf o = false -> xml_decode pf skip o r ts tm = Ok v -> json_ok v = true.
Proof. exact cast_json_ok_l. Qed.
Print Assumptions C14_cast_json_ok.

(* ---------------- non-vacuity ---------------- *)
Local Open Scope string_scope.
Local Open Scope list_scope.

(* an oracle that satisfies H1 and H0 and knows a finite number, an infinity and NaN *)
Definition ex_pf (x : str) : option flt :=
  if str_eqb x (s "2.5") then Some (s "2.5")
  else if str_eqb x (s "+Infinity") then Some (s "+Inf")
  else if str_eqb x (s "nAn") then Some (s "NaN")
  else if str_eqb x (s "7") then Some (s "7")
  else None.
Example ex_pf_H1 : H1 ex_pf /\ H0 ex_pf.
Proof.
  split; [|reflexivity]. intros x f. unfold ex_pf.
  destruct (str_eqb x (s "2.5")) eqn:E1; [apply StrLemmas.str_eqb_eq in E1; subst; intro H; injection H as <-; split; discriminate|].
  destruct (str_eqb x (s "+Infinity")) eqn:E2; [apply StrLemmas.str_eqb_eq in E2; subst; intro H; injection H as <-; split; reflexivity|].
  destruct (str_eqb x (s "nAn")) eqn:E3; [apply StrLemmas.str_eqb_eq in E3; subst; intro H; injection H as <-; split; reflexivity|].
  destruct (str_eqb x (s "7")) eqn:E4; [apply StrLemmas.str_eqb_eq in E4; subst; intro H; injection H as <-; split; discriminate|].
  discriminate.
Qed.

Definition ex_o : opts := {|
  attrPrefix := s "-"; lenAttrPrefix := 1;
  includeTagSeqNum := false; lowerCase := false; snakeCaseKeys := false;
  disableTrimWhiteSpace := false; trimRunes := trim_all;
  decodeSimpleValuesAsMap := false;
  castToInt := true; castToFloat := true; castToBool := true; castNanInf := false;
  handleXMPPStreamTag := false; useGoXmlEmptyElemSyntax := false; xmlCheckIsValid := false;
  xmlEscapeChars := false; xmlEscapeCharsDecoder := false;
  textK := s "#text"; seqK := s "#seq"; commentK := s "#comment"; attrK := s "#attr";
  directiveK := s "#directive"; procinstK := s "#procinst"; targetK := s "#target"; instK := s "#inst";
  fieldSep := s ":"; useDotNotation := false; defaultArraySize := 32; jsonUseNumber := false
|}.
Definition nm (x : string) : xname := {| xspace := []; xlocal := s x |}.
(* <a id="7"><b>+Infinity</b><b>True</b><c> 2.5 </c><d>nAn</d><e/></a> *)
Definition ex_toks : list tok :=
  [TStart (nm "a") [{| aname := nm "id"; avalue := s "7" |}];
   TStart (nm "b") []; TChar (s "+Infinity"); TEnd (nm "b");
   TStart (nm "b") []; TChar (s "True"); TEnd (nm "b");
   TStart (nm "c") []; TChar (s " 2.5 "); TEnd (nm "c");
   TStart (nm "d") []; TChar (s "nAn"); TEnd (nm "d");
   TStart (nm "e") []; TEnd (nm "e");
   TEnd (nm "a")].
Example C14_nonvacuous :
  xml_decode ex_pf noskip ex_o false ex_toks TermEOF =
    Ok (VMap [(s "a", VMap [(s "-id", VStr (s "7"));
                            (s "b", VList [VStr (s "+Infinity"); VStr (s "True")]);
                            (s "c", VStr (s "2.5")); (s "d", VStr (s "nAn")); (s "e", VStr [])])]) /\
  xml_decode ex_pf noskip ex_o true ex_toks TermEOF =
    Ok (VMap [(s "a", VMap [(s "-id", VI64 7);
                            (s "b", VList [VStr (s "+Infinity"); VBool true]);
                            (s "c", VFlt (s "2.5")); (s "d", VStr (s "nAn")); (s "e", VStr [])])]) /\
  is_special (s "+Infinity") = true /\ is_special (s "nAn") = true /\ is_special (s "+nan") = false.
Proof. vm_compute. repeat split. Qed.

(* the skip function keeps one tag as a string; 18446744073709551615 is cast to uint64 *)
Example C14_rows_nonvacuous :
  cast ex_pf (fun t => str_eqb t (s "id")) ex_o (s "7") true (s "id") = VStr (s "7") /\
  cast ex_pf (fun t => str_eqb t (s "id")) ex_o (s "7") true (s "x") = VI64 7 /\
  cast ex_pf noskip ex_o (s "18446744073709551615") true [] = VU64 18446744073709551615 /\
  cast ex_pf noskip ex_o (s "18446744073709551616") true [] = VStr (s "18446744073709551616") /\
  cast ex_pf noskip ex_o (s "-9223372036854775808") true [] = VI64 (-9223372036854775808).
Proof. vm_compute. repeat split. Qed.

(* ================================================================== tie to the code (regenerated on every run)
   Gen/Pure_gen.v is go2v's statement-by-statement translation of func cast in /repo's CURRENT xml.go
   (Crash = a run-time panic).  It IS the model function every theorem above is about, for every package state,
   every registered skip function and every argument; so those theorems are re-checked against what the code
   says now, not only against the cases the correspondence run samples. *)
From Mxj Require Import Gen.Setters_gen Gen.PureSupport Gen.Pure_gen GenProofs.PureG.

Theorem C14_cast_code_is_model : forall pf callskip st o x r t, cast_view st o ->
  fn_cast pf callskip st x r t = Ret (cast pf (skip_of st callskip) o x r t).
Proof. exact cast_code_is_model. Qed.
Print Assumptions C14_cast_code_is_model.

Theorem C14_cast_code_no_panic : forall pf callskip st x r t, fn_cast pf callskip st x r t <> Crash.
Proof. exact cast_code_no_panic. Qed.
Print Assumptions C14_cast_code_no_panic.

(* the translated code on concrete inputs: the initial package state, a leaf that overflows int64, a plus-signed infinity *)
Example C14_cast_code_nonvacuous :
  cast_view gstate0 opts0 /\
  fn_cast ex_pf (fun _ => false) (with_castToInt true gstate0) (s "18446744073709551615") true [] = Ret (VU64 18446744073709551615) /\
  fn_cast ex_pf (fun _ => false) gstate0 (s "+Infinity") true [] = Ret (VStr (s "+Infinity")) /\
  fn_cast ex_pf (fun _ => false) gstate0 (s "True") true [] = Ret (VBool true) /\
  fn_cast ex_pf (fun _ => false) gstate0 (s "True") false [] = Ret (VStr (s "True")).
Proof. vm_compute. repeat split. Qed.

(* ---- tie to the CURRENT source of xmlToMapParser (xml.go:370-538), the core of NewMapXml: go2v re-translates the
   function statement by statement on every run (Gen/Pure_gen.v: key transformation, the attribute loop, the XMPP early
   return, the token loop with its type switch, recursion for child elements, _seq augmentation, list building on
   repeated keys, the shapes at the end tag, character data; xml.Decoder as its token list); GenProofs/PureG14.v proves
   the translation - with the TRANSLATED cast and escapeChars plugged in - equal to the model decoder
   [xml_decode_rest] the theorems above are stated with, on every token list whose start tags have a non-empty local
   name (encoding/xml returns no other; without the condition code and model differ: C14_xml_parser_code_empty_name_refuted). *)
From Mxj Require Import Gen.Setters_gen Gen.PureSupport Gen.Pure_gen Spec.ConvClauses GenProofs.PureG GenProofs.PureG14.

Theorem C14_xml_parser_code_is_model : forall pf callskip o r st fuel ts tm,
  dec_view st o -> cast_view st o -> length ts < fuel -> forallb start_ok ts = true ->
  fn_xmlToMapParser (run_cast pf callskip st) (run_escapeChars st) fuel st [] [] (ts, tm) r
  = dec_top_result tm (xml_decode_rest pf (skip_of st callskip) o r ts tm).
Proof. exact xml_parser_code_is_model_translated. Qed.
Print Assumptions C14_xml_parser_code_is_model.

Theorem C14_xml_parser_code_no_panic : forall pf callskip o r st fuel ts tm,
  dec_view st o -> cast_view st o -> length ts < fuel -> forallb start_ok ts = true -> top_ok ts = true ->
  fn_xmlToMapParser (run_cast pf callskip st) (run_escapeChars st) fuel st [] [] (ts, tm) r <> Crash.
Proof. exact xml_parser_code_no_panic. Qed.
Print Assumptions C14_xml_parser_code_no_panic.

Theorem C14_xml_parser_code_empty_name_refuted :
  exists pf skip o r st ts tm, dec_view st o /\
    fn_xmlToMapParser (fun x b t => cast pf skip o x b t) escape_chars (S (length ts)) st [] [] (ts, tm) r
    <> dec_top_result tm (xml_decode_rest pf skip o r ts tm).
Proof. exact xml_parser_code_is_model_empty_name_refuted. Qed.
Print Assumptions C14_xml_parser_code_empty_name_refuted.
