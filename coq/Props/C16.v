(* C16 - Encoders are deterministic and all their variants agree.
   Only statements here; proofs are in Proofs/C16Sort.v, C16P.v, C16Veq.v, C16Order.v, C16Forms.v.
   A Go map is an association list whose order stands for the hash-iteration order of one run
   (DESIGN.md section 3): "however the Map was built, however often it is encoded" = "for every
   permutation of every entry list".  The model functions (Model/XmlEnc.v, Model/EncForms.v) are tied
   to /repo by the correspondence check (Run/RunC16.v) on Maps rebuilt with different insertion
   orders and capacities. *)
From Coq Require Import Permutation.
From Mxj Require Import Model.XmlEnc Model.EncForms Spec.Veq Spec.EncOrder
  Proofs.C16Sort Proofs.C16P Proofs.C16Veq Proofs.C16Order Proofs.C16Forms.

(* ---------------- the relation: equal Maps ---------------- *)
Theorem C16_veq_refl : forall v, veq v v.
Proof. exact veq_refl. Qed.
Print Assumptions C16_veq_refl.

Theorem C16_veq_sym : forall v v', veq v v' -> veq v' v.
Proof. exact veq_sym. Qed.
Print Assumptions C16_veq_sym.

Theorem C16_veq_trans : forall v v' v'', veq v v' -> veq v' v'' -> veq v v''.
Proof. exact veq_trans. Qed.
Print Assumptions C16_veq_trans.

(* a Map equal to a well-formed one (distinct keys in every map) is well-formed *)
Theorem C16_veq_wf : forall v v', wf v -> veq v v' -> wf v'.
Proof. exact veq_wf. Qed.
Print Assumptions C16_veq_wf.

(* the boolean comparison the correspondence runs use (Base/Value.v veqb: reflect.DeepEqual on
   maps with distinct keys) decides the relation *)
Theorem C16_veqb_decides : forall a b, wf a -> (veqb a b = true <-> veq a b).
Proof. exact veqb_iff_veq. Qed.
Print Assumptions C16_veqb_decides.

(* ---------------- determinism ---------------- *)
(* the heart of it: sorting entries with pairwise distinct keys forgets the order they came in *)
Theorem C16_sort_forgets_order : forall (A : Type) (l l' : list (str * A)),
  NoDup (map fst l) -> Permutation l l' -> sort_by_key l = sort_by_key l'.
Proof. intros A. exact (@sort_by_key_perm_eq A). Qed.
Print Assumptions C16_sort_forgets_order.

(* marshalMapToXmlIndent: every option record, every value of any nesting, every key *)
Theorem C16_encode_perm_invariant : forall o m m' key,
  wf m -> veq m m' -> enc o m key = enc o m' key.
Proof. exact enc_perm_invariant. Qed.
Print Assumptions C16_encode_perm_invariant.

(* Map.Xml(rootTag...) including the root selection (which ranges over the one-entry map) *)
Theorem C16_xml_perm_invariant : forall o m m' root,
  wf (VMap m) -> veq (VMap m) (VMap m') -> map_xml_items o m root = map_xml_items o m' root.
Proof. exact map_xml_items_perm_invariant. Qed.
Print Assumptions C16_xml_perm_invariant.

(* ... hence byte-identical output (or the same error) *)
Theorem C16_xml_bytes_perm_invariant : forall o m m' root,
  wf (VMap m) -> veq (VMap m) (VMap m') ->
  xml_bytes (map_xml_items o m root) = xml_bytes (map_xml_items o m' root).
Proof. exact xml_bytes_perm_invariant. Qed.
Print Assumptions C16_xml_bytes_perm_invariant.

(* Map.XmlIndent(prefix, indent, rootTag...): the items between which the whitespace is written *)
Theorem C16_xml_indent_perm_invariant : forall o m m' root,
  wf (VMap m) -> veq (VMap m) (VMap m') -> map_xml_indent_items o m root = map_xml_indent_items o m' root.
Proof. exact map_xml_indent_items_perm_invariant. Qed.
Print Assumptions C16_xml_indent_perm_invariant.

(* AnyXml(v, rootTag, elemTag) on JSON-shaped values *)
Theorem C16_any_xml_perm_invariant : forall o v v' rt et,
  wf v -> veq v v' -> any_xml_items o v rt et = any_xml_items o v' rt et.
Proof. exact any_xml_items_perm_invariant. Qed.
Print Assumptions C16_any_xml_perm_invariant.

(* ---------------- ascending key order ---------------- *)
(* whatever is encoded under a key is a well-nested sequence of elements named by that key in which,
   at every depth, each element's attribute names are strictly ascending and sibling element names
   are ascending (Spec/EncOrder.v ordered) *)
Theorem C16_items_ordered : forall o v key its,
  wf v -> enc o v key = Ok its -> exists n, ordered its (repeat key n).
Proof. exact enc_ordered. Qed.
Print Assumptions C16_items_ordered.

(* the attributes written for a map are exactly its attribute entries (prefix cut off), sorted *)
Theorem C16_attrs_sorted : forall o vv key its,
  wf (VMap vv) -> enc o (VMap vv) key = Ok its ->
  exists attrs rest,
    (its = IOpen key attrs :: rest \/ its = IEmpty key attrs :: rest) /\
    kstrict attrs /\ Permutation attrs (attr_pairs o vv).
Proof. exact enc_map_root_attrs. Qed.
Print Assumptions C16_attrs_sorted.

(* ---------------- indented vs compact ---------------- *)
(* XmlIndent writes the items of Xml with whitespace between them, EXCEPT when no root tag is given
   and the Map has one key whose value is a list of maps (root_rules_differ): there Xml writes the
   members as a sequence of elements without a common root and XmlIndent wraps them in <doc>.
   (That shape is outside the C03 domain: "a single-key map whose value is not a list".) *)
Theorem C16_indent_only_ws : forall o m root,
  root_rules_differ m root = false -> map_xml_indent_items o m root = map_xml_items o m root.
Proof. exact indent_same_items. Qed.
Print Assumptions C16_indent_only_ws.

(* ---------------- JSON ---------------- *)
(* what mxj adds to encoding/json (json.go marshalJSON, after fix b2598e9): Map.Json(safe) is a function of the
   bytes json.Encoder.Encode wrote under SetEscapeHTML(safe) - namely those bytes without the final newline *)
Theorem C16_json_function_of_encoder_bytes : forall r r', r = r' -> map_json r = map_json r'.
Proof. exact map_json_of_bytes. Qed.
Print Assumptions C16_json_function_of_encoder_bytes.

Theorem C16_json_is_encoder_output : forall b, map_json (Ok (b ++ [nl])) = Ok b.
Proof. exact map_json_encoded. Qed.
Print Assumptions C16_json_is_encoder_output.

(* Map.JsonIndent(p, i, safe) is json.Indent(p, i) of exactly those bytes *)
Theorem C16_json_indent_is_indent_of_json : forall indent b, map_json_indent indent (Ok (b ++ [nl])) = indent b.
Proof. exact map_json_indent_spec. Qed.
Print Assumptions C16_json_indent_is_indent_of_json.

(* so both are deterministic whenever encoding/json is (it sorts map keys: the environment's contract,
   an explicit hypothesis here, observed by the oracle on every run) *)
Theorem C16_json_perm_invariant : forall encode : bool -> value -> res str,
  (forall safe v v', wf v -> veq v v' -> encode safe v = encode safe v') ->
  forall safe v v', wf v -> veq v v' -> map_json (encode safe v) = map_json (encode safe v').
Proof. exact map_json_perm_invariant. Qed.
Print Assumptions C16_json_perm_invariant.

Theorem C16_json_indent_perm_invariant : forall encode : bool -> value -> res str,
  (forall safe v v', wf v -> veq v v' -> encode safe v = encode safe v') ->
  forall indent safe v v', wf v -> veq v v' ->
  map_json_indent indent (encode safe v) = map_json_indent indent (encode safe v').
Proof. exact map_json_indent_perm_invariant. Qed.
Print Assumptions C16_json_indent_perm_invariant.

(* ---------------- Writer / Raw forms ---------------- *)
Theorem C16_writer_writes_bytes : forall x sink, writer_form (Ok x) sink = (Ok tt, sink ++ x).
Proof. exact writer_form_ok. Qed.
Print Assumptions C16_writer_writes_bytes.

Theorem C16_writer_error_writes_nothing : forall e sink, writer_form (Err e) sink = (Err e, sink).
Proof. exact writer_form_err. Qed.
Print Assumptions C16_writer_error_writes_nothing.

Theorem C16_writer_raw_returns_bytes : forall enc sink,
  writer_raw_form enc sink = (enc, snd (writer_form enc sink)).
Proof. exact writer_raw_form_spec. Qed.
Print Assumptions C16_writer_raw_returns_bytes.

(* ---------------- Maps string / file forms ---------------- *)
Theorem C16_maps_xml_string_concat : forall xs, maps_xml_string (map Ok xs) = (concat xs, None).
Proof. exact maps_xml_string_concat. Qed.
Print Assumptions C16_maps_xml_string_concat.

Theorem C16_maps_xml_string_error : forall xs e rest,
  maps_xml_string (map Ok xs ++ Err e :: rest) = (concat xs, Some e).
Proof. exact maps_xml_string_error. Qed.
Print Assumptions C16_maps_xml_string_error.

Theorem C16_maps_file_is_string : forall x, maps_file (x, None) = (Some x, None).
Proof. exact maps_file_ok. Qed.
Print Assumptions C16_maps_file_is_string.

(* Maps.JsonString(safe) is the concatenation of the per-Map Json(safe) encodings: js flag = the per-Map results
   of Json(flag).  (After fix da6537e; on the pinned tree the argument was ignored - the model then consulted
   js false - and JsonString(true) on [ {"a":"<"} ] was not that concatenation.) *)
Theorem C16_maps_json_string_concat : forall safe js xs,
  js safe = map Ok xs -> maps_json_string safe js = (concat xs, None).
Proof. exact maps_json_string_concat. Qed.
Print Assumptions C16_maps_json_string_concat.

(* NOT PROVED (false of the code): "Maps.JsonStringIndent is the concatenation of the JsonIndent encodings".
   A newline is written between the documents: refuted by the witness [ {} ; {} ] (KNOWN_FINDINGS key
   maps-jsonstringindent-newline-separator) ... *)
Theorem C16_maps_json_string_indent_refuted :
  exists xs, maps_json_string_indent false (fun _ => map Ok xs) <> (concat xs, None).
Proof. exact maps_json_string_indent_refuted. Qed.
Print Assumptions C16_maps_json_string_indent_refuted.

(* ... what holds instead: the JsonIndent(p, i, safe) encodings joined by "\n"; one document is returned as it is *)
Theorem C16_maps_json_string_indent_partial : forall safe ji xs,
  ji safe = map Ok xs -> maps_json_string_indent safe ji = (join [nl] xs, None).
Proof. exact maps_json_string_indent_join. Qed.
Print Assumptions C16_maps_json_string_indent_partial.

Theorem C16_maps_json_string_indent_single : forall safe ji x,
  ji safe = [Ok x] -> maps_json_string_indent safe ji = (x, None).
Proof. exact maps_json_string_indent_single. Qed.
Print Assumptions C16_maps_json_string_indent_single.

(* ---------------- MapSeq ----------------
   NOT PROVED: seq_encode_perm_invariant / seq_children_in_sequence_order for MapSeq.Xml and
   MapSeq.XmlIndent.  The MapSeq codec model (Model/SeqEnc.v) is written by the C04 check; until its
   theorem is added HERE, determinism and sequence order of the MapSeq encoders are covered by the
   Go-side oracle of harness/c16.go only (its seq-... clauses).  Intended statement:
     forall o m m' root, wf m -> veq m m' -> distinct_seq m -> seq_encode o m root = seq_encode o m' root. *)

(* ---------------- non-vacuity ---------------- *)
Definition ex_m : value :=
  VMap [(s "doc", VMap [(s "-id", VStr (s "7")); (s "-a", VBool true); (s "#text", VStr (s "t"));
                        (s "b", VList [VStr (s "x"); VMap [(s "z", VNil); (s "y", VFlt (s "2.5"))]]);
                        (s "a", VStr (s "<&>"))])].
(* the same content, every entry list in another order *)
Definition ex_m' : value :=
  VMap [(s "doc", VMap [(s "a", VStr (s "<&>"));
                        (s "b", VList [VStr (s "x"); VMap [(s "y", VFlt (s "2.5")); (s "z", VNil)]]);
                        (s "#text", VStr (s "t")); (s "-a", VBool true); (s "-id", VStr (s "7"))])].
Definition ex_entries (v : value) : entries := match v with VMap m => m | _ => [] end.

Example ex_wf : wf ex_m.
Proof. vm_compute. reflexivity. Qed.
Example ex_veq : veq ex_m ex_m'.
Proof. apply veqb_sound; [exact ex_wf | vm_compute; reflexivity]. Qed.
Example ex_differ : ex_m <> ex_m'.
Proof. discriminate. Qed.
Example ex_bytes :
  xml_bytes (map_xml_items opts0 (ex_entries ex_m') None)
  = Ok (s "<doc a=""true"" id=""7"">t<a><&></a><b>x</b><b><y>2.5</y><z/></b></doc>").
Proof. vm_compute. reflexivity. Qed.
Example ex_same_bytes :
  xml_bytes (map_xml_items opts0 (ex_entries ex_m) None) = xml_bytes (map_xml_items opts0 (ex_entries ex_m') None).
Proof. apply C16_xml_bytes_perm_invariant; [exact ex_wf | exact ex_veq]. Qed.
Example ex_ordered : exists its n, enc opts0 ex_m (s "r") = Ok its /\ ordered its (repeat (s "r") n) /\ 10 < length its.
Proof.
  destruct (enc opts0 ex_m (s "r")) as [its| |] eqn:E; try (vm_compute in E; discriminate E).
  destruct (C16_items_ordered opts0 ex_m (s "r") its ex_wf E) as [n Hn].
  exists its, n. split; [reflexivity|]. split; [exact Hn|].
  vm_compute in E. injection E as <-. vm_compute. repeat constructor.
Qed.
(* the one shape on which the two root rules differ, and a shape on which they agree *)
Example ex_root_rules_differ :
  let m := [(s "a", VList [VMap [(s "x", VStr (s "1"))]; VMap [(s "x", VStr (s "2"))]])] in
  root_rules_differ m None = true /\
  xml_bytes (map_xml_items opts0 m None) = Ok (s "<a><x>1</x></a><a><x>2</x></a>") /\
  xml_bytes (map_xml_indent_items opts0 m None) = Ok (s "<doc><a><x>1</x></a><a><x>2</x></a></doc>").
Proof. vm_compute. repeat split. Qed.
Example ex_root_rules_agree : root_rules_differ (ex_entries ex_m) None = false.
Proof. reflexivity. Qed.
Example ex_json : map_json (Ok (s "{""a"":""<""}" ++ [nl])) = Ok (s "{""a"":""<""}").
Proof. vm_compute. reflexivity. Qed.
Example ex_maps_json : maps_json_string true (fun safe => if safe then [Ok (s "{""a"":1}"); Ok (s "{}")] else []) = (s "{""a"":1}{}", None).
Proof. vm_compute. reflexivity. Qed.
