(* C16 - Encoders are deterministic and all their variants agree.
   Only statements here; proofs are in Proofs/C16Sort.v, C16P.v, C16Veq.v, C16Order.v, C16Forms.v.
   A Go map is an association list whose order stands for the hash-iteration order of one run
   (DESIGN.md section 3): "however the Map was built, however often it is encoded" = "for every
   permutation of every entry list".  The model functions (Model/XmlEnc.v, Model/EncForms.v) are tied
   to /repo by the correspondence check (Run/RunC16.v) on Maps rebuilt with different insertion
   orders and capacities. *)
From Coq Require Import Permutation.
From Mxj Require Import Model.XmlEnc Model.EncForms Spec.Veq Spec.EncOrder
  Proofs.C16Sort Proofs.C16P Proofs.C16Veq Proofs.C16Order Proofs.C16Forms.
From Coq Require Import Sorting.Sorted.
From Mxj Require Import Spec.SeqDistinct Spec.SeqSpec Proofs.C04P Proofs.C04ShapeDec
  Proofs.C16Seq Proofs.C16SeqOrder Proofs.C16SeqWf Proofs.C16SeqDec.

(* ---------------- the relation: equal Maps ---------------- *)
Theorem C16_veq_refl : forall v, veq v v.
Proof. exact veq_refl. Qed.
Print Assumptions C16_veq_refl.

Theorem C16_veq_sym : forall v v', veq v v' -> veq v' v.
Proof. exact veq_sym. Qed.
Print Assumptions C16_veq_sym.

Theorem C16_veq_trans : forall v v' v'', veq v v' -> veq v' v'' -> veq v v''.
Proof. exact veq_trans. Qed.
Print Assumptions C16_veq_trans.

(* a Map equal to a well-formed one (distinct keys in every map) is well-formed *)
Theorem C16_veq_wf : forall v v', wf v -> veq v v' -> wf v'.
Proof. exact veq_wf. Qed.
Print Assumptions C16_veq_wf.

(* the boolean comparison the correspondence runs use (Base/Value.v veqb: reflect.DeepEqual on
   maps with distinct keys) decides the relation *)
Theorem C16_veqb_decides : forall a b, wf a -> (veqb a b = true <-> veq a b).
Proof. exact veqb_iff_veq. Qed.
Print Assumptions C16_veqb_decides.

(* ---------------- determinism ---------------- *)
(* the heart of it: sorting entries with pairwise distinct keys forgets the order they came in *)
Theorem C16_sort_forgets_order : forall (A : Type) (l l' : list (str * A)),
  NoDup (map fst l) -> Permutation l l' -> sort_by_key l = sort_by_key l'.
Proof. intros A. exact (@sort_by_key_perm_eq A). Qed.
Print Assumptions C16_sort_forgets_order.

(* marshalMapToXmlIndent: every option record, every value of any nesting, every key *)
Theorem C16_encode_perm_invariant : forall o m m' key,
  wf m -> veq m m' -> enc o m key = enc o m' key.
Proof. exact enc_perm_invariant. Qed.
Print Assumptions C16_encode_perm_invariant.

(* Map.Xml(rootTag...) including the root selection (which ranges over the one-entry map) *)
Theorem C16_xml_perm_invariant : forall o m m' root,
  wf (VMap m) -> veq (VMap m) (VMap m') -> map_xml_items o m root = map_xml_items o m' root.
Proof. exact map_xml_items_perm_invariant. Qed.
Print Assumptions C16_xml_perm_invariant.

(* ... hence byte-identical output (or the same error) *)
Theorem C16_xml_bytes_perm_invariant : forall o m m' root,
  wf (VMap m) -> veq (VMap m) (VMap m') ->
  xml_bytes (map_xml_items o m root) = xml_bytes (map_xml_items o m' root).
Proof. exact xml_bytes_perm_invariant. Qed.
Print Assumptions C16_xml_bytes_perm_invariant.

(* Map.XmlIndent(prefix, indent, rootTag...): the items between which the whitespace is written *)
Theorem C16_xml_indent_perm_invariant : forall o m m' root,
  wf (VMap m) -> veq (VMap m) (VMap m') -> map_xml_indent_items o m root = map_xml_indent_items o m' root.
Proof. exact map_xml_indent_items_perm_invariant. Qed.
Print Assumptions C16_xml_indent_perm_invariant.

(* AnyXml(v, rootTag, elemTag) on JSON-shaped values *)
Theorem C16_any_xml_perm_invariant : forall o v v' rt et,
  wf v -> veq v v' -> any_xml_items o v rt et = any_xml_items o v' rt et.
Proof. exact any_xml_items_perm_invariant. Qed.
Print Assumptions C16_any_xml_perm_invariant.

(* ---------------- ascending key order ---------------- *)
(* whatever is encoded under a key is a well-nested sequence of elements named by that key in which,
   at every depth, each element's attribute names are strictly ascending and sibling element names
   are ascending (Spec/EncOrder.v ordered) *)
Theorem C16_items_ordered : forall o v key its,
  wf v -> enc o v key = Ok its -> exists n, ordered its (repeat key n).
Proof. exact enc_ordered. Qed.
Print Assumptions C16_items_ordered.

(* the attributes written for a map are exactly its attribute entries (prefix cut off), sorted *)
Theorem C16_attrs_sorted : forall o vv key its,
  wf (VMap vv) -> enc o (VMap vv) key = Ok its ->
  exists attrs rest,
    (its = IOpen key attrs :: rest \/ its = IEmpty key attrs :: rest) /\
    kstrict attrs /\ Permutation attrs (attr_pairs o vv).
Proof. exact enc_map_root_attrs. Qed.
Print Assumptions C16_attrs_sorted.

(* ---------------- indented vs compact ---------------- *)
(* XmlIndent writes the items of Xml with whitespace between them, EXCEPT when no root tag is given
   and the Map has one key whose value is a list of maps (root_rules_differ): there Xml writes the
   members as a sequence of elements without a common root and XmlIndent wraps them in <doc>.
   (That shape is outside the C03 domain: "a single-key map whose value is not a list".) *)
Theorem C16_indent_only_ws : forall o m root,
  root_rules_differ m root = false -> map_xml_indent_items o m root = map_xml_items o m root.
Proof. exact indent_same_items. Qed.
Print Assumptions C16_indent_only_ws.

(* ---------------- JSON ---------------- *)
(* what mxj adds to encoding/json (json.go marshalJSON, after fix b2598e9): Map.Json(safe) is a function of the
   bytes json.Encoder.Encode wrote under SetEscapeHTML(safe) - namely those bytes without the final newline *)
Theorem C16_json_function_of_encoder_bytes : forall r r', r = r' -> map_json r = map_json r'.
Proof. exact map_json_of_bytes. Qed.
Print Assumptions C16_json_function_of_encoder_bytes.

Theorem C16_json_is_encoder_output : forall b, map_json (Ok (b ++ [nl])) = Ok b.
Proof. exact map_json_encoded. Qed.
Print Assumptions C16_json_is_encoder_output.

(* Map.JsonIndent(p, i, safe) is json.Indent(p, i) of exactly those bytes *)
Theorem C16_json_indent_is_indent_of_json : forall indent b, map_json_indent indent (Ok (b ++ [nl])) = indent b.
Proof. exact map_json_indent_spec. Qed.
Print Assumptions C16_json_indent_is_indent_of_json.

(* so both are deterministic whenever encoding/json is (it sorts map keys: the environment's contract,
   an explicit hypothesis here, observed by the oracle on every run) *)
Theorem C16_json_perm_invariant : forall encode : bool -> value -> res str,
  (forall safe v v', wf v -> veq v v' -> encode safe v = encode safe v') ->
  forall safe v v', wf v -> veq v v' -> map_json (encode safe v) = map_json (encode safe v').
Proof. exact map_json_perm_invariant. Qed.
Print Assumptions C16_json_perm_invariant.

Theorem C16_json_indent_perm_invariant : forall encode : bool -> value -> res str,
  (forall safe v v', wf v -> veq v v' -> encode safe v = encode safe v') ->
  forall indent safe v v', wf v -> veq v v' ->
  map_json_indent indent (encode safe v) = map_json_indent indent (encode safe v').
Proof. exact map_json_indent_perm_invariant. Qed.
Print Assumptions C16_json_indent_perm_invariant.

(* ---------------- Writer / Raw forms ---------------- *)
Theorem C16_writer_writes_bytes : forall x sink, writer_form (Ok x) sink = (Ok tt, sink ++ x).
Proof. exact writer_form_ok. Qed.
Print Assumptions C16_writer_writes_bytes.

Theorem C16_writer_error_writes_nothing : forall e sink, writer_form (Err e) sink = (Err e, sink).
Proof. exact writer_form_err. Qed.
Print Assumptions C16_writer_error_writes_nothing.

Theorem C16_writer_raw_returns_bytes : forall enc sink,
  writer_raw_form enc sink = (enc, snd (writer_form enc sink)).
Proof. exact writer_raw_form_spec. Qed.
Print Assumptions C16_writer_raw_returns_bytes.

(* ---------------- Maps string / file forms ---------------- *)
Theorem C16_maps_xml_string_concat : forall xs, maps_xml_string (map Ok xs) = (concat xs, None).
Proof. exact maps_xml_string_concat. Qed.
Print Assumptions C16_maps_xml_string_concat.

Theorem C16_maps_xml_string_error : forall xs e rest,
  maps_xml_string (map Ok xs ++ Err e :: rest) = (concat xs, Some e).
Proof. exact maps_xml_string_error. Qed.
Print Assumptions C16_maps_xml_string_error.

Theorem C16_maps_file_is_string : forall x, maps_file (x, None) = (Some x, None).
Proof. exact maps_file_ok. Qed.
Print Assumptions C16_maps_file_is_string.

(* Maps.JsonString(safe) is the concatenation of the per-Map Json(safe) encodings: js flag = the per-Map results
   of Json(flag).  (After fix da6537e; on the pinned tree the argument was ignored - the model then consulted
   js false - and JsonString(true) on [ {"a":"<"} ] was not that concatenation.) *)
Theorem C16_maps_json_string_concat : forall safe js xs,
  js safe = map Ok xs -> maps_json_string safe js = (concat xs, None).
Proof. exact maps_json_string_concat. Qed.
Print Assumptions C16_maps_json_string_concat.

(* NOT PROVED (false of the code): "Maps.JsonStringIndent is the concatenation of the JsonIndent encodings".
   A newline is written between the documents: refuted by the witness [ {} ; {} ] (KNOWN_FINDINGS key
   maps-jsonstringindent-newline-separator) ... *)
Theorem C16_maps_json_string_indent_refuted :
  exists xs, maps_json_string_indent false (fun _ => map Ok xs) <> (concat xs, None).
Proof. exact maps_json_string_indent_refuted. Qed.
Print Assumptions C16_maps_json_string_indent_refuted.

(* ... what holds instead: the JsonIndent(p, i, safe) encodings joined by "\n"; one document is returned as it is *)
Theorem C16_maps_json_string_indent_partial : forall safe ji xs,
  ji safe = map Ok xs -> maps_json_string_indent safe ji = (join [nl] xs, None).
Proof. exact maps_json_string_indent_join. Qed.
Print Assumptions C16_maps_json_string_indent_partial.

Theorem C16_maps_json_string_indent_single : forall safe ji x,
  ji safe = [Ok x] -> maps_json_string_indent safe ji = (x, None).
Proof. exact maps_json_string_indent_single. Qed.
Print Assumptions C16_maps_json_string_indent_single.

(* ---------------- MapSeq ----------------
   The MapSeq encoder (Model/SeqEnc.v: MapSeq.Xml / MapSeq.XmlIndent / mapToXmlSeqIndent) does not sort by key
   but by the "#seq" numbers stored in the values (elemListSeq.Less); proofs in Proofs/C16Seq.v, C16SeqOrder.v,
   C16SeqWf.v, C16SeqDec.v.  Side condition (Spec/SeqDistinct.v, decidable): [distinct_seq o v key] - at every
   depth the encoder reaches, the sub-elements of one element (list members unrolled) carry pairwise distinct
   sequence numbers and so do the attributes of one element; maps under "#comment"/"#directive"/"#procinst" are
   exempt.  [distinct_seq_doc o m root] is that condition for what the root rule encodes.
   NOT PROVED here: nothing of the MapSeq part of C16 is left open; the statement WITHOUT the side condition is
   false (two refutations below), so it is not claimed. *)

(* the heart of it: sort.Sort with elemListSeq.Less on pairwise distinct numbers forgets the order the members
   came in *)
Theorem C16_seq_sort_forgets_order : forall (A : Type) (num : A -> Z) (l l' : list A),
  Permutation l l' -> NoDup (map num l) -> isort num l = isort num l'.
Proof. exact (@isort_perm_nodup). Qed.
Print Assumptions C16_seq_sort_forgets_order.

(* mapToXmlSeqIndent: every option record, every value of any nesting, every key *)
Theorem C16_seq_encode_perm_invariant : forall o v v' key,
  wf v -> veq v v' -> distinct_seq o v key = true -> senc o v key = senc o v' key.
Proof. exact senc_perm_invariant. Qed.
Print Assumptions C16_seq_encode_perm_invariant.

(* MapSeq.Xml(rootTag...) including the root selection *)
Theorem C16_seq_xml_perm_invariant : forall o m m' root,
  wf (VMap m) -> veq (VMap m) (VMap m') -> distinct_seq_doc o m root = true ->
  seq_xml_items o m root = seq_xml_items o m' root.
Proof. exact seq_xml_items_perm_invariant. Qed.
Print Assumptions C16_seq_xml_perm_invariant.

(* ... hence byte-identical output (or the same error, or the same panic) *)
Theorem C16_seq_xml_bytes_perm_invariant : forall o m m' root,
  wf (VMap m) -> veq (VMap m) (VMap m') -> distinct_seq_doc o m root = true ->
  seq_bytes (seq_xml_items o m root) = seq_bytes (seq_xml_items o m' root).
Proof. exact seq_xml_bytes_perm_invariant. Qed.
Print Assumptions C16_seq_xml_bytes_perm_invariant.

(* MapSeq.XmlIndent(prefix, indent, rootTag...): the items between which the whitespace is written *)
Theorem C16_seq_xml_indent_perm_invariant : forall o m m' root,
  wf (VMap m) -> veq (VMap m) (VMap m') -> distinct_seq_doc o m root = true ->
  seq_xml_indent_items o m root = seq_xml_indent_items o m' root.
Proof. exact seq_xml_indent_items_perm_invariant. Qed.
Print Assumptions C16_seq_xml_indent_perm_invariant.

(* the side condition is needed.  Two sub-elements without a sequence number (both compare as 9999999):
   {"doc":{"a":"1","b":"2"}} is written <doc><b>2</b><a>1</a></doc> or <doc><a>1</a><b>2</b></doc> depending on
   the iteration order of the map ... *)
Theorem C16_seq_encode_perm_invariant_refuted :
  exists m m', wf (VMap m) /\ veq (VMap m) (VMap m') /\ seq_xml_items opts0 m None <> seq_xml_items opts0 m' None.
Proof. exact seq_encode_needs_distinct_numbers. Qed.
Print Assumptions C16_seq_encode_perm_invariant_refuted.

(* ... and so do two attributes with the same explicit number *)
Theorem C16_seq_encode_attrs_perm_invariant_refuted :
  exists m m', wf (VMap m) /\ veq (VMap m) (VMap m') /\ seq_xml_items opts0 m None <> seq_xml_items opts0 m' None.
Proof. exact seq_encode_needs_distinct_attr_numbers. Qed.
Print Assumptions C16_seq_encode_attrs_perm_invariant_refuted.

(* sequence order.  An element (a map under a key other than the three special keys) that is encoded is written
   either without sub-elements (start tag, text, end tag / empty-element form), or as start tag, leading text, the
   encodings of ALL its sub-elements [seq_kids] in ascending order of their sequence numbers, end tag -
   whatever the order of the entry list; no well-formedness or distinctness hypothesis *)
Theorem C16_seq_children_in_sequence_order : forall o key val its,
  is_special_key o key = false ->
  senc o (VMap val) key = Ok its ->
  exists ha attrs,
    sattrs o val = Ok (ha, attrs) /\
    ((exists t, its = [SI (IOpen key attrs); SI (IText t); SI (IClose key)]) \/
     its = empty_or_broken o key attrs \/
     exists ks bodies,
       Permutation ks (seq_kids o val) /\
       StronglySorted Z.le (map (fun kv => seq_num o (snd kv)) ks) /\
       Forall2 (fun kv body => senc o (snd kv) (fst kv) = Ok body) ks bodies /\
       its = SI (IOpen key attrs) :: lead_text o val ++ concat bodies ++ [SI (IClose key)]).
Proof. exact senc_children_in_sequence_order. Qed.
Print Assumptions C16_seq_children_in_sequence_order.

(* under the side condition the order is strict, i.e. the sequence of sub-elements written is unique *)
Theorem C16_seq_children_strictly_ascending : forall o val ks,
  nodupZ (kid_seqs o val) = true ->
  Permutation ks (seq_kids o val) ->
  StronglySorted Z.le (map (fun kv => seq_num o (snd kv)) ks) ->
  StronglySorted Z.lt (map (fun kv => seq_num o (snd kv)) ks).
Proof. exact sorted_kids_strict. Qed.
Print Assumptions C16_seq_children_strictly_ascending.

(* the attributes written are the entries of the "#attr" map in ascending order of their sequence numbers, under
   their names *)
Theorem C16_seq_attrs_in_sequence_order : forall o val ha attrs,
  sattrs o val = Ok (ha, attrs) ->
  match lookup (attrK o) val with
  | Some (VMap aa) =>
      ha = true /\
      exists sorted, Permutation sorted aa /\ StronglySorted Z.le (attr_seqs o sorted) /\
                     sattrs_loop o sorted = Ok attrs /\ map fst attrs = map fst sorted
  | _ => ha = false /\ attrs = []
  end.
Proof. exact sattrs_in_sequence_order. Qed.
Print Assumptions C16_seq_attrs_in_sequence_order.

(* the decoder.  Every MapSeq NewMapXmlSeq returns - any options, RawToken stream (well formed or not),
   terminator, cast flag - is well formed ... *)
Theorem C16_seq_decoded_wf : forall pf skip o r ts tm m,
  seq_decode pf skip o r ts tm = Ok m -> wf m.
Proof. exact seq_decode_wf. Qed.
Print Assumptions C16_seq_decoded_wf.

(* ... and, in the option states of C04 and for start-tag names that are non-empty and none of the generated keys
   (XML names cannot begin with '#'), meets the side condition for every root tag argument ... *)
Theorem C16_seq_decoded_distinct : forall pf skip (e r : bool) ts tm m,
  forallb (tok_ok e) ts = true ->
  seq_decode pf skip (seq_o e) r ts tm = Ok m ->
  exists k v, m = VMap [(k, v)] /\ str_ok e k = true /\
              forall root, distinct_seq_doc (seq_o e) [(k, v)] root = true.
Proof. exact seq_decode_distinct. Qed.
Print Assumptions C16_seq_decoded_distinct.

(* ... hence a decoded MapSeq is encoded to the same items by MapSeq.Xml and by MapSeq.XmlIndent whatever the
   order of its entry lists at every depth *)
Theorem C16_seq_decoded_deterministic : forall pf skip (e r : bool) ts tm m m' root,
  forallb (tok_ok e) ts = true ->
  seq_decode pf skip (seq_o e) r ts tm = Ok (VMap m) ->
  veq (VMap m) (VMap m') ->
  seq_xml_items (seq_o e) m' root = seq_xml_items (seq_o e) m root /\
  seq_xml_indent_items (seq_o e) m' root = seq_xml_indent_items (seq_o e) m root.
Proof. exact seq_decoded_deterministic. Qed.
Print Assumptions C16_seq_decoded_deterministic.

(* ---------------- non-vacuity ---------------- *)
Definition ex_m : value :=
  VMap [(s "doc", VMap [(s "-id", VStr (s "7")); (s "-a", VBool true); (s "#text", VStr (s "t"));
                        (s "b", VList [VStr (s "x"); VMap [(s "z", VNil); (s "y", VFlt (s "2.5"))]]);
                        (s "a", VStr (s "<&>"))])].
(* the same content, every entry list in another order *)
Definition ex_m' : value :=
  VMap [(s "doc", VMap [(s "a", VStr (s "<&>"));
                        (s "b", VList [VStr (s "x"); VMap [(s "y", VFlt (s "2.5")); (s "z", VNil)]]);
                        (s "#text", VStr (s "t")); (s "-a", VBool true); (s "-id", VStr (s "7"))])].
Definition ex_entries (v : value) : entries := match v with VMap m => m | _ => [] end.

Example ex_wf : wf ex_m.
Proof. vm_compute. reflexivity. Qed.
Example ex_veq : veq ex_m ex_m'.
Proof. apply veqb_sound; [exact ex_wf | vm_compute; reflexivity]. Qed.
Example ex_differ : ex_m <> ex_m'.
Proof. discriminate. Qed.
Example ex_bytes :
  xml_bytes (map_xml_items opts0 (ex_entries ex_m') None)
  = Ok (s "<doc a=""true"" id=""7"">t<a><&></a><b>x</b><b><y>2.5</y><z/></b></doc>").
Proof. vm_compute. reflexivity. Qed.
Example ex_same_bytes :
  xml_bytes (map_xml_items opts0 (ex_entries ex_m) None) = xml_bytes (map_xml_items opts0 (ex_entries ex_m') None).
Proof. apply C16_xml_bytes_perm_invariant; [exact ex_wf | exact ex_veq]. Qed.
Example ex_ordered : exists its n, enc opts0 ex_m (s "r") = Ok its /\ ordered its (repeat (s "r") n) /\ 10 < length its.
Proof.
  destruct (enc opts0 ex_m (s "r")) as [its| |] eqn:E; try (vm_compute in E; discriminate E).
  destruct (C16_items_ordered opts0 ex_m (s "r") its ex_wf E) as [n Hn].
  exists its, n. split; [reflexivity|]. split; [exact Hn|].
  vm_compute in E. injection E as <-. vm_compute. repeat constructor.
Qed.
(* the one shape on which the two root rules differ, and a shape on which they agree *)
Example ex_root_rules_differ :
  let m := [(s "a", VList [VMap [(s "x", VStr (s "1"))]; VMap [(s "x", VStr (s "2"))]])] in
  root_rules_differ m None = true /\
  xml_bytes (map_xml_items opts0 m None) = Ok (s "<a><x>1</x></a><a><x>2</x></a>") /\
  xml_bytes (map_xml_indent_items opts0 m None) = Ok (s "<doc><a><x>1</x></a><a><x>2</x></a></doc>").
Proof. vm_compute. repeat split. Qed.
Example ex_root_rules_agree : root_rules_differ (ex_entries ex_m) None = false.
Proof. reflexivity. Qed.
Example ex_json : map_json (Ok (s "{""a"":""<""}" ++ [nl])) = Ok (s "{""a"":""<""}").
Proof. vm_compute. reflexivity. Qed.
Example ex_maps_json : maps_json_string true (fun safe => if safe then [Ok (s "{""a"":1}"); Ok (s "{}")] else []) = (s "{""a"":1}{}", None).
Proof. vm_compute. reflexivity. Qed.

(* ---------------- non-vacuity, MapSeq ---------------- *)
(* two levels, the tag b repeated (a list) with a and a comment in between, attributes, a processing instruction *)
Definition ex_sq (z : Z) : str * value := (s "#seq", VInt z).
Definition ex_seq_m : entries :=
  [(s "doc", VMap [(s "#attr", VMap [(s "id", VMap [(s "#text", VStr (s "7")); ex_sq 1]);
                                     (s "a", VMap [(s "#text", VStr (s "x")); ex_sq 0])]);
                   (s "b", VList [VMap [(s "#text", VStr (s "one")); ex_sq 0];
                                  VMap [ex_sq 3; (s "c", VMap [(s "#text", VStr (s "deep")); ex_sq 1]); (s "d", VMap [ex_sq 0])]]);
                   (s "#comment", VMap [(s "#text", VStr (s " note ")); ex_sq 1]);
                   (s "a", VMap [(s "#text", VStr (s "two")); ex_sq 2]);
                   (s "#procinst", VMap [(s "#target", VStr (s "pi")); (s "#inst", VStr (s "x")); ex_sq 4])])].
(* the same content, every entry list in another order *)
Definition ex_seq_m' : entries :=
  [(s "doc", VMap [(s "#procinst", VMap [ex_sq 4; (s "#inst", VStr (s "x")); (s "#target", VStr (s "pi"))]);
                   (s "a", VMap [ex_sq 2; (s "#text", VStr (s "two"))]);
                   (s "#comment", VMap [ex_sq 1; (s "#text", VStr (s " note "))]);
                   (s "b", VList [VMap [ex_sq 0; (s "#text", VStr (s "one"))];
                                  VMap [(s "d", VMap [ex_sq 0]); (s "c", VMap [ex_sq 1; (s "#text", VStr (s "deep"))]); ex_sq 3]]);
                   (s "#attr", VMap [(s "a", VMap [ex_sq 0; (s "#text", VStr (s "x"))]);
                                     (s "id", VMap [ex_sq 1; (s "#text", VStr (s "7"))])])])].

Example ex_seq_wf : wf (VMap ex_seq_m).
Proof. vm_compute. reflexivity. Qed.
Example ex_seq_veq : veq (VMap ex_seq_m) (VMap ex_seq_m').
Proof. apply veqb_sound; [exact ex_seq_wf | vm_compute; reflexivity]. Qed.
Example ex_seq_differ : ex_seq_m <> ex_seq_m'.
Proof. discriminate. Qed.
Example ex_seq_distinct : distinct_seq_doc opts0 ex_seq_m None = true /\ distinct_seq_doc opts0 ex_seq_m (Some (s "root")) = true.
Proof. vm_compute. split; reflexivity. Qed.
Example ex_seq_bytes :
  seq_bytes (seq_xml_items opts0 ex_seq_m' None)
  = Ok (s "<doc a=""x"" id=""7""><b>one</b><!-- note --><a>two</a><b><d/><c>deep</c></b><?pi x?></doc>").
Proof. vm_compute. reflexivity. Qed.
Example ex_seq_same_bytes :
  seq_bytes (seq_xml_items opts0 ex_seq_m None) = seq_bytes (seq_xml_items opts0 ex_seq_m' None).
Proof. apply C16_seq_xml_bytes_perm_invariant; [exact ex_seq_wf | exact ex_seq_veq | apply ex_seq_distinct]. Qed.
Example ex_seq_same_indent_items :
  seq_xml_indent_items opts0 ex_seq_m (Some (s "root")) = seq_xml_indent_items opts0 ex_seq_m' (Some (s "root")).
Proof. apply C16_seq_xml_indent_perm_invariant; [exact ex_seq_wf | exact ex_seq_veq | apply ex_seq_distinct]. Qed.
(* the hypotheses of the order theorems: "doc" is no special key, the element is encoded, it has attributes *)
Example ex_seq_order_hyps :
  let val := match ex_seq_m' with [(_, VMap val)] => val | _ => [] end in
  is_special_key opts0 (s "doc") = false /\
  (exists its, senc opts0 (VMap val) (s "doc") = Ok its /\ 10 < length its) /\
  sattrs opts0 val = Ok (true, [(s "a", s "x"); (s "id", s "7")]) /\
  map (fun kv => seq_num opts0 (snd kv)) (seq_kids opts0 val) = [4; 2; 1; 0; 3]%Z /\
  nodupZ (kid_seqs opts0 val) = true.
Proof.
  cbv zeta. split; [reflexivity|]. split; [|vm_compute; repeat split].
  destruct (senc opts0 _ (s "doc")) as [its| |] eqn:E; try (vm_compute in E; discriminate E).
  exists its. split; [reflexivity|]. vm_compute in E. injection E as <-. vm_compute. repeat constructor.
Qed.
(* the decoder: example_doc of C04 (Proofs/C04P.v: prefixed names, attributes, repeated a, comment, PI, directive,
   text before children) is decoded; every entry list of the result reversed is another presentation of it *)
Fixpoint ex_vrev (v : value) : value :=
  match v with
  | VMap m => VMap (rev ((fix go (m : entries) : entries :=
                            match m with [] => [] | (k, x) :: t => (k, ex_vrev x) :: go t end) m))
  | VList l => VList ((fix go (l : list value) : list value :=
                         match l with [] => [] | x :: t => ex_vrev x :: go t end) l)
  | _ => v
  end.
Definition ex_seq_decoded : res value :=
  seq_decode (fun _ => None) (fun _ => false) (seq_o true) false (rawtoks_of example_doc) TermEOF.
Example ex_seq_decoded_hyps :
  forallb (tok_ok true) (rawtoks_of example_doc) = true /\
  exists m, ex_seq_decoded = Ok (VMap m) /\ veq (VMap m) (ex_vrev (VMap m)) /\ value_eqb (VMap m) (ex_vrev (VMap m)) = false.
Proof.
  split; [vm_compute; reflexivity|].
  destruct ex_seq_decoded as [[| | | | | | | |m|]| |] eqn:E; try (vm_compute in E; discriminate E).
  exists m. split; [reflexivity|].
  pose proof (C16_seq_decoded_wf _ _ _ _ _ _ _ E) as Hwf.
  vm_compute in E. injection E as <-.
  split; [apply veqb_sound; [exact Hwf | vm_compute; reflexivity] | vm_compute; reflexivity].
Qed.

(* ---- tie to the CURRENT sources of the Maps string forms (files.go: Maps.JsonString, JsonStringIndent, XmlString,
   XmlStringIndent): go2v re-translates them on every run (Gen/Pure_gen.v) and GenProofs/PureG12.v proves the translated
   loops equal to the model [maps_concat] the theorems above are stated with, for ANY per-Map encoder that does not
   panic (the encoders themselves are tied by the correspondence run). *)
From Mxj Require Import Gen.Setters_gen Gen.PureSupport Gen.Pure_gen GenProofs.PureG12.

Theorem C16_maps_json_string_code_is_model : forall (Json : entries -> list bool -> res str) st mvs safe,
  Forall (fun m => no_panic (Json m safe)) mvs ->
  fn_JsonString Json st mvs safe = Ret (maps_concat [] true (map (fun m => Json m safe) mvs) []).
Proof. exact maps_json_string_code_is_model. Qed.
Print Assumptions C16_maps_json_string_code_is_model.

Theorem C16_maps_json_string_indent_code_is_model : forall (JsonIndent : entries -> str -> str -> list bool -> res str) st mvs p i safe,
  Forall (fun m => no_panic (JsonIndent m p i safe)) mvs ->
  fn_JsonStringIndent JsonIndent st mvs p i safe = Ret (maps_concat [nl] true (map (fun m => JsonIndent m p i safe) mvs) []).
Proof. exact maps_json_string_indent_code_is_model. Qed.
Print Assumptions C16_maps_json_string_indent_code_is_model.

Theorem C16_maps_xml_string_code_is_model : forall (Xml : entries -> list str -> res str) st mvs,
  Forall (fun m => no_panic (Xml m [])) mvs ->
  fn_XmlString Xml st mvs = Ret (maps_xml_string (map (fun m => Xml m []) mvs)).
Proof. exact maps_xml_string_code_is_model. Qed.
Print Assumptions C16_maps_xml_string_code_is_model.

Theorem C16_maps_xml_string_indent_code_is_model : forall (XmlIndent : entries -> str -> str -> list str -> res str) st mvs p i,
  Forall (fun m => no_panic (XmlIndent m p i [])) mvs ->
  fn_XmlStringIndent XmlIndent st mvs p i = Ret (maps_xml_string (map (fun m => XmlIndent m p i []) mvs)).
Proof. exact maps_xml_string_indent_code_is_model. Qed.
Print Assumptions C16_maps_xml_string_indent_code_is_model.

Example C16_maps_code_nonvacuous :
  fn_JsonStringIndent (fun m _ _ _ => match m with [] => Ok (s "{}") | [_] => Ok (s "{1}") | _ => Err EOther end) gstate0
    [[]; [(s "a", VNil)]; []; [(s "a", VNil); (s "b", VNil)]; []] [] (s " ") [] =
    Ret (s "{}" ++ [nl] ++ s "{1}" ++ [nl] ++ s "{}", Some EOther).
Proof. vm_compute. reflexivity. Qed.

(* ---- tie to the CURRENT sources of the Writer forms (json.go: Map.JsonWriter, JsonWriterRaw, JsonIndentWriter,
   JsonIndentWriterRaw; xml.go: Map.XmlWriter, Map.XmlIndentWriter; xmlseq.go: MapSeq.XmlWriter, MapSeq.XmlIndentWriter):
   go2v re-translates them on every run (the io.Writer is the bytes written so far; Write appends and does not fail)
   and GenProofs/PureG16.v proves them equal to the models [writer_form] / [writer_raw_form] the theorems above are
   stated with, for ANY byte-returning encoder: they write exactly the bytes the byte-returning form returns (and the
   Raw forms return them as well), and nothing when the encoder fails. *)
From Mxj Require Import GenProofs.PureG16.

Theorem C16_json_writer_code : forall (Json : entries -> list bool -> res str) st mv w safe,
  fn_JsonWriter Json st mv w safe = wf_result (writer_form (Json mv safe) w).
Proof. exact json_writer_code. Qed.
Print Assumptions C16_json_writer_code.

Theorem C16_json_writer_raw_code : forall (Json : entries -> list bool -> res str) st mv w safe,
  fn_JsonWriterRaw Json st mv w safe = wrf_result (writer_raw_form (Json mv safe) w).
Proof. exact json_writer_raw_code. Qed.
Print Assumptions C16_json_writer_raw_code.

Theorem C16_json_indent_writer_code : forall (JsonIndent : entries -> str -> str -> list bool -> res str) st mv w p i safe,
  fn_JsonIndentWriter JsonIndent st mv w p i safe = wf_result (writer_form (JsonIndent mv p i safe) w).
Proof. exact json_indent_writer_code. Qed.
Print Assumptions C16_json_indent_writer_code.

Theorem C16_json_indent_writer_raw_code : forall (JsonIndent : entries -> str -> str -> list bool -> res str) st mv w p i safe,
  fn_JsonIndentWriterRaw JsonIndent st mv w p i safe = wrf_result (writer_raw_form (JsonIndent mv p i safe) w).
Proof. exact json_indent_writer_raw_code. Qed.
Print Assumptions C16_json_indent_writer_raw_code.

Theorem C16_map_xml_writer_code : forall (Xml : entries -> list str -> res str) st mv w rt,
  fn_Map_XmlWriter Xml st mv w rt = wf_result (writer_form (Xml mv rt) w).
Proof. exact map_xml_writer_code. Qed.
Print Assumptions C16_map_xml_writer_code.

Theorem C16_map_xml_indent_writer_code : forall (XmlIndent : entries -> str -> str -> list str -> res str) st mv w p i rt,
  fn_Map_XmlIndentWriter XmlIndent st mv w p i rt = wf_result (writer_form (XmlIndent mv p i rt) w).
Proof. exact map_xml_indent_writer_code. Qed.
Print Assumptions C16_map_xml_indent_writer_code.

Theorem C16_seq_xml_writer_code : forall (Xml : entries -> list str -> res str) st mv w rt,
  fn_MapSeq_XmlWriter Xml st mv w rt = wf_result (writer_form (Xml mv rt) w).
Proof. exact seq_xml_writer_code. Qed.
Print Assumptions C16_seq_xml_writer_code.

Theorem C16_seq_xml_indent_writer_code : forall (XmlIndent : entries -> str -> str -> list str -> res str) st mv w p i rt,
  fn_MapSeq_XmlIndentWriter XmlIndent st mv w p i rt = wf_result (writer_form (XmlIndent mv p i rt) w).
Proof. exact seq_xml_indent_writer_code. Qed.
Print Assumptions C16_seq_xml_indent_writer_code.

(* ---- tie to the CURRENT source of mapToXmlSeqIndent (xmlseq.go:609-905), the encoder behind MapSeq.Xml / XmlIndent /
   BeautifyXml: go2v re-translates the function on every run (Gen/Pure_gen.v, join mode; the strings.Builder as the bytes
   written, the pretty struct as five threaded fields, sort.Sort as an insertion sort over the TRANSLATED elemListSeq.Less);
   GenProofs/PureG17.v (helper H9) proves that in compact mode (doIndent = false) it writes exactly the bytes [semit] of
   the model items [senc] the theorems above are stated with - for every value whose #text members are scalars (text_ok:
   the %v text of a map or list is modelled by neither side; the refutation without it is kept) - and returns an error
   where the model does (for values without uint64 / json.Number, which go to xml.Marshal: outside the model). *)
From Mxj Require Import Gen.Setters_gen Gen.PureSupport Gen.Pure_gen GenProofs.PureG3 GenProofs.PureG15 GenProofs.PureG17.

Theorem C16_seq_encoder_code_is_model : forall o st ind outd mar mari,
  senc_view st o ->
  forall f v sb key i c p d e its, vd v < f -> text_ok o v = true ->
  senc o v key = Ok its ->
  fn_mapToXmlSeqIndent (PureG15.run_escapeChars st) ind outd (run_sort st) mar mari f st false sb key v i c p d e
  = Ret (None, (sb ++ semit its, i, c, p, d, e)).
Proof. exact senc_code_is_model_translated. Qed.
Print Assumptions C16_seq_encoder_code_is_model.

Theorem C16_seq_encoder_code_error : forall o st ind outd mar mari,
  senc_view st o ->
  forall f v sb key i c p d e e0, vd v < f -> text_ok o v = true -> no_marshal v = true ->
  senc o v key = Err e0 ->
  exists sb', fn_mapToXmlSeqIndent (PureG15.run_escapeChars st) ind outd (run_sort st) mar mari f st false sb key v i c p d e
              = Ret (Some EOther, (sb', i, c, p, d, e)).
Proof. exact senc_code_error_translated. Qed.
Print Assumptions C16_seq_encoder_code_error.

Theorem C16_seq_less_code_is_model : forall o st e i j ei ej, seqK o = g_seqK st ->
  (0 <= i)%Z -> (0 <= j)%Z -> nth_error e (Z.to_nat i) = Some ei -> nth_error e (Z.to_nat j) = Some ej ->
  fn_elemListSeq_Less st e i j = Ret (Z.leb (seq_num o (keyval_v ei)) (seq_num o (keyval_v ej))).
Proof. exact less_code_is_model. Qed.
Print Assumptions C16_seq_less_code_is_model.

(* ---- the Map encoder itself: marshalMapToXmlIndent (xml.go), translated from the CURRENT sources by go2v (join mode: the
   code after an if / switch once; the case bodies outside the value universe stand as Crash) and proved equal, in compact mode,
   to the model encoder [enc] rendered by [emit] that the theorems above are stated with (GenProofs/PureG18.v); escapeChars is
   the translated one, sort.Sort the model's sort_by_key on the rows *)
From Mxj Require Import Spec.JsonRT GenProofs.PureG15 GenProofs.PureG18.

Theorem C16_marshal_map_code_is_enc : forall o st, enc_view st o ->
  forall ind outd xm xmi v f key b i c p m t, vdepth v <= f -> text_dom o v = true ->
  (forall its, enc o v key = Ok its ->
     fn_marshalMapToXmlIndent (PureG15.run_escapeChars st) ind outd sort_rows sort_vrows xm xmi f st false b key v i c p m t =
     Ret (None, (b ++ emit its, i, c, p, m, t))) /\
  (forall e, enc o v key = Err e ->
     exists e' b', fn_marshalMapToXmlIndent (PureG15.run_escapeChars st) ind outd sort_rows sort_vrows xm xmi f st false b key v i c p m t =
                   Ret (Some e', (b', i, c, p, m, t))) /\
  enc o v key <> Panic.
Proof. exact marshal_map_code_is_enc_translated. Qed.
Print Assumptions C16_marshal_map_code_is_enc.

(* ---- "the indented encoders differ from the compact ones only in inter-element whitespace", on the translated code: the Map
   encoder run with doIndent = true (translated from the current sources, with the translated pretty.Indent / Outdent) writes the
   items of the compact mode, each byte for byte as in the compact mode, with pads (newlines, the prefix followed by copies of the
   indent) in the gaps between them (GenProofs/PureG28.v; repaired code: /repo 77c834d) *)
From Mxj Require GenProofs.PureG28.

Theorem C16_marshal_map_indent_code_insert_ws : forall o st, PureG18.enc_view st o ->
  forall prefix indent m t i c p m' t', PureG28.pp_reach st prefix indent m t (i, c, p, m', t') ->
  forall xm xmi v f key b its, vdepth v <= f -> PureG18.text_dom o v = true -> enc o v key = Ok its ->
  exists ws,
    fn_marshalMapToXmlIndent (PureG15.run_escapeChars st) (PureG28.run_Indent st) (PureG28.run_Outdent st) PureG18.sort_rows PureG18.sort_vrows xm xmi f st true b key v i c p m' t' =
    Ret (None, (b ++ emit (Items.insert_ws ws its), i, c, p, m', t')) /\
    (forall j, PureG28.pad_ok prefix indent (ws j)) /\
    (forall o', Items.ws_str o' prefix = true -> Items.ws_str o' indent = true -> Items.ws_str o' PureG28.nl_str = true -> Items.ws_ok o' ws).
Proof. exact PureG28.marshal_map_indent_code_insert_ws. Qed.
Print Assumptions C16_marshal_map_indent_code_insert_ws.

Theorem C16_pad_is_xml_whitespace : forall prefix indent,
  PureG28.xml_wsb prefix = true -> PureG28.xml_wsb indent = true ->
  (forall w, PureG28.pad_ok prefix indent w -> PureG28.xml_wsb w = true) /\ (forall k, PureG28.xml_wsb (PureG28.pdg prefix indent k) = true).
Proof. exact PureG28.pad_is_xml_whitespace. Qed.
Print Assumptions C16_pad_is_xml_whitespace.

(* ---- "the Maps file forms are the concatenation of the per-Map encodings": the file writers, translated from the current
   sources, write exactly the string their string form returns (GenProofs/PureG37.v; the string forms: PureG12.v) *)
From Mxj Require GenProofs.PureG13 GenProofs.PureG37.

Theorem C16_xml_file_indent_code : forall (xs : list entries -> str -> str -> res str) create st mvs file prefix indent fs,
  fn_XmlFileIndent xs create st mvs file prefix indent fs = PureG37.file_writer_spec (xs mvs prefix indent) create file fs.
Proof. exact PureG37.xml_file_indent_code. Qed.
Print Assumptions C16_xml_file_indent_code.

Theorem C16_json_file_indent_code : forall (js : list entries -> str -> str -> list bool -> res str) create st mvs file prefix indent safe fs,
  fn_JsonFileIndent js create st mvs file prefix indent safe fs
  = PureG37.file_writer_spec (js mvs prefix indent [PureG13.opt_flag safe]) create file fs.
Proof. exact PureG37.json_file_indent_code. Qed.
Print Assumptions C16_json_file_indent_code.
