(* C06 - JSON encode/decode is lossless and agrees with encoding/json.
   Statements only; proofs are in Proofs/JsonP.v (chunk loops, runes, what the string encoder emits) and Proofs/C06P.v.
   Model: Model/Json.v - encoding/json's string encoder (quote_body, HTML escaping on/off) and string decoder
   (unquote_body) transcribed character by character, the structure around the literals as segments, Map.Json /
   Map.JsonIndent = marshalJSON(mv, safeEncoding) [+ json.Indent], NewMapJson as a function of the stdlib decoder oracle.
   Spec: Spec/JsonSpec.v.  The model is tied to /repo by the correspondence check (Run/RunJson.v).

   The model follows /repo after b2598e9 (Json / JsonIndent encode with SetEscapeHTML(safeEncoding) instead of rewriting
   the marshalled bytes) and f8aa2ac (NewMapJson decodes the first value, then looks at what it is).  The defect the
   earlier round proved as a `_refuted` witness - a string containing backslash-u003c made Json() write invalid JSON -
   is kept as `C06_former_default_refuted` about the FORMER code (Spec/JsonSpec.v `rewrite`), next to the theorem that
   the repaired code writes byte for byte what the former code wrote for every Map free of the three texts. *)
From Mxj Require Import Spec.JsonSpec Proofs.JsonP Proofs.C06P.
Import ListNotations.

(* ================================================================== the per-string law *)

(* what encoding/json's string decoder makes of what its string encoder wrote is the string itself - with HTML escaping
   (safe encoding: <, >, & as < ...) and without it (default encoding: written literally); every valid UTF-8 string:
   backslashes, quotes, control characters, U+2028/9, and the literal six-character texts included *)
Theorem C06_per_string_law : forall safe x, utf8_valid x = true -> unquote_body (quote_body safe x) = Some x.
Proof. exact unquote_quote. Qed.
Print Assumptions C06_per_string_law.

(* ... and so does every literal in the output of Map.Json(safe) for a Map of JSON types: it decodes to exactly the key /
   string value it was written for (the structure around the literals - braces, commas, numbers - is encoding/json's) *)
Theorem C06_literals_roundtrip : forall safe v, json_shaped utf8_valid v = true ->
  map unquote_body (lits (segments safe v)) = map Some (strs v).
Proof. exact literals_roundtrip. Qed.
Print Assumptions C06_literals_roundtrip.

(* the literals of the output are the encoder's literals of the keys and string values, in sorted-key order *)
Theorem C06_literals_are_quotes : forall safe v, lits (segments safe v) = map (quote_body safe) (strs v).
Proof. exact lits_segments. Qed.
Print Assumptions C06_literals_are_quotes.

(* ================================================================== safe and default encoding *)

(* safe_no_literal: the safe encoding never contains a literal <, > or & *)
Theorem C06_safe_no_literal : forall P v, json_shaped P v = true -> no_html (map_json true v) = true.
Proof. exact safe_no_literal. Qed.
Print Assumptions C06_safe_no_literal.

(* default_literal: the default encoding writes <, > and & as themselves *)
Theorem C06_default_literal : forall c t, is_html c = true -> quote_body false (c :: t) = c :: quote_body false t.
Proof. exact default_literal. Qed.
Print Assumptions C06_default_literal.

(* ================================================================== the former implementation of the default encoding *)

(* rewrite_distributes: running the three bytes.Replace passes over the whole marshalled output = running them inside
   each string literal (the patterns start with a backslash, which occurs in literals only, and hold no double quote,
   so a match cannot straddle a literal's end) *)
Theorem C06_rewrite_distributes : forall l, sp_clean l = true ->
  rewrite (flatten l) = flatten (map_quoted rewrite l).
Proof. exact rewrite_distributes. Qed.
Print Assumptions C06_rewrite_distributes.

(* on one string: rewriting the HTML-escaped literal gives the literal the non-escaping encoder writes - provided the
   string does not contain backslash-u003c, backslash-u003e or backslash-u0026 *)
Theorem C06_rewrite_is_nohtml : forall x, hazard_free x = true -> rewrite (quote_body true x) = quote_body false x.
Proof. exact rewrite_is_nohtml. Qed.
Print Assumptions C06_rewrite_is_nohtml.

(* on whole Maps: the repair keeps the output byte for byte *)
Theorem C06_former_json_is_current : forall v, json_shaped hazard_free v = true ->
  rewrite (marshal true v) = map_json false v.
Proof. exact former_json_is_current. Qed.
Print Assumptions C06_former_json_is_current.

(* the per-string law was FALSE of the former code: for the six characters backslash-u003c its output is no JSON
   literal at all (Json() emitted invalid JSON, NewMapJson and Copy failed); the repaired encoding round-trips it *)
Theorem C06_former_default_refuted :
  utf8_valid x_u003c = true /\ unquote_body (rewrite (quote_body true x_u003c)) = None /\
  unquote_body (quote_body false x_u003c) = Some x_u003c.
Proof. exact former_default_refuted. Qed.
Print Assumptions C06_former_default_refuted.

(* ================================================================== NewMapJson *)

(* NewMapJson accepts exactly the (non-empty) inputs whose first value encoding/json decodes as an object (returned as
   it is) or an array (wrapped under "object"), and passes the decoder's error on otherwise; decv is the stdlib decoder
   (first value of the text into an interface{}) *)
Theorem C06_new_map_json_accepts_exactly : forall decv b, b <> [] -> new_map_json decv b = accept_spec decv b.
Proof. exact new_map_json_accepts_exactly. Qed.
Print Assumptions C06_new_map_json_accepts_exactly.

(* the documented exception (recorded finding empty-input-accepted): "empty or nil begets empty" *)
Theorem C06_new_map_json_empty : forall decv, new_map_json decv [] = Ok (VMap []).
Proof. exact new_map_json_empty. Qed.
Print Assumptions C06_new_map_json_empty.
Theorem C06_new_map_json_empty_refuted : exists decv b, decv b = Err EEOF /\ new_map_json decv b <> accept_spec decv b.
Proof. exact new_map_json_empty_refuted. Qed.
Print Assumptions C06_new_map_json_empty_refuted.

(* NOT PROVED: json_roundtrip at the structural level - decode_segs usenum (segments safe v) = Some (v with every map
   sorted by key) for all JSON-shaped v.  decode_segs is this development's model of encoding/json's decoder on the
   segment layer (the environment, not mxj code); it is compared with NewMapJson(Map.Json(m)) and Map.Copy() on every
   run (JRound cases).  What is proved is the part that depends on mxj's choice of encoding: every literal of the output
   decodes to its string (C06_literals_roundtrip), for both encodings. *)

(* ================================================================== non-vacuity *)


(* a Map of JSON types whose keys and values contain <, >, &, backslashes, quotes, a control character, U+2028, a
   non-ASCII rune and the literal texts backslash-u003c / backslash-u0026: every hypothesis holds, the default encoding
   writes < literally, the safe one does not, both decode back *)
Definition ex_v : value :=
  VMap [(s "k<" ++ bsl :: s "u003c", VStr (s "a<b>&" ++ [bsl; dq] ++ hx "0a" ++ hx "e280a8" ++ hx "c3a9" ++ bsl :: s "u0026"));
        (s "n", VList [VFlt (s "1.5"); VNil; VBool true; VJNum (s "12")])].
Example C06_nonvacuous :
  json_shaped utf8_valid ex_v = true /\
  no_html (map_json true ex_v) = true /\ no_html (map_json false ex_v) = false /\
  decode_segs false (segments false ex_v) = decode_segs false (segments true ex_v) /\
  map unquote_body (lits (segments false ex_v)) = map Some (strs ex_v).
Proof. repeat split; vm_compute; reflexivity. Qed.

(* a hazard-free Map with <, > and & : former and current default encodings agree *)
Definition ex_w : value := VMap [(s "a&b", VStr (s "x<y>" ++ [bsl] ++ s "u003"))].
Example C06_compat_nonvacuous :
  json_shaped hazard_free ex_w = true /\ rewrite (marshal true ex_w) = map_json false ex_w.
Proof. split; vm_compute; reflexivity. Qed.
