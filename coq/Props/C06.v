(* C06 - JSON encode/decode is lossless and agrees with encoding/json.
   Statements only; proofs are in Proofs/JsonP.v (chunk loops, runes, what the string encoder emits) and Proofs/C06P.v.
   Model: Model/Json.v - encoding/json's string encoder (quote_body, HTML escaping on/off) and string decoder
   (unquote_body) transcribed character by character, the structure around the literals as segments, Map.Json /
   Map.JsonIndent = marshalJSON(mv, safeEncoding) [+ json.Indent], NewMapJson as a function of the stdlib decoder oracle.
   Spec: Spec/JsonSpec.v.  The model is tied to /repo by the correspondence check (Run/RunJson.v).

   The model follows /repo after b2598e9 (Json / JsonIndent encode with SetEscapeHTML(safeEncoding) instead of rewriting
   the marshalled bytes) and f8aa2ac (NewMapJson decodes the first value, then looks at what it is).  The defect the
   earlier round proved as a `_refuted` witness - a string containing backslash-u003c made Json() write invalid JSON -
   is kept as `C06_former_default_refuted` about the FORMER code (Spec/JsonSpec.v `rewrite`), next to the theorem that
   the repaired code writes byte for byte what the former code wrote for every Map free of the three texts. *)
From Mxj Require Import Spec.JsonSpec Proofs.JsonP Proofs.C06P.
Import ListNotations.

(* ================================================================== the per-string law *)

(* what encoding/json's string decoder makes of what its string encoder wrote is the string itself - with HTML escaping
   (safe encoding: <, >, & as < ...) and without it (default encoding: written literally); every valid UTF-8 string:
   backslashes, quotes, control characters, U+2028/9, and the literal six-character texts included *)
Theorem C06_per_string_law : forall safe x, utf8_valid x = true -> unquote_body (quote_body safe x) = Some x.
Proof. exact unquote_quote. Qed.
Print Assumptions C06_per_string_law.

(* ... and so does every literal in the output of Map.Json(safe) for a Map of JSON types: it decodes to exactly the key /
   string value it was written for (the structure around the literals - braces, commas, numbers - is encoding/json's) *)
Theorem C06_literals_roundtrip : forall safe v, json_shaped utf8_valid v = true ->
  map unquote_body (lits (segments safe v)) = map Some (strs v).
Proof. exact literals_roundtrip. Qed.
Print Assumptions C06_literals_roundtrip.

(* the literals of the output are the encoder's literals of the keys and string values, in sorted-key order *)
Theorem C06_literals_are_quotes : forall safe v, lits (segments safe v) = map (quote_body safe) (strs v).
Proof. exact lits_segments. Qed.
Print Assumptions C06_literals_are_quotes.

(* ================================================================== safe and default encoding *)

(* safe_no_literal: the safe encoding never contains a literal <, > or & *)
Theorem C06_safe_no_literal : forall P v, json_shaped P v = true -> no_html (map_json true v) = true.
Proof. exact safe_no_literal. Qed.
Print Assumptions C06_safe_no_literal.

(* default_literal: the default encoding writes <, > and & as themselves *)
Theorem C06_default_literal : forall c t, is_html c = true -> quote_body false (c :: t) = c :: quote_body false t.
Proof. exact default_literal. Qed.
Print Assumptions C06_default_literal.

(* ================================================================== the former implementation of the default encoding *)

(* rewrite_distributes: running the three bytes.Replace passes over the whole marshalled output = running them inside
   each string literal (the patterns start with a backslash, which occurs in literals only, and hold no double quote,
   so a match cannot straddle a literal's end) *)
Theorem C06_rewrite_distributes : forall l, sp_clean l = true ->
  rewrite (flatten l) = flatten (map_quoted rewrite l).
Proof. exact rewrite_distributes. Qed.
Print Assumptions C06_rewrite_distributes.

(* on one string: rewriting the HTML-escaped literal gives the literal the non-escaping encoder writes - provided the
   string does not contain backslash-u003c, backslash-u003e or backslash-u0026 *)
Theorem C06_rewrite_is_nohtml : forall x, hazard_free x = true -> rewrite (quote_body true x) = quote_body false x.
Proof. exact rewrite_is_nohtml. Qed.
Print Assumptions C06_rewrite_is_nohtml.

(* on whole Maps: the repair keeps the output byte for byte *)
Theorem C06_former_json_is_current : forall v, json_shaped hazard_free v = true ->
  rewrite (marshal true v) = map_json false v.
Proof. exact former_json_is_current. Qed.
Print Assumptions C06_former_json_is_current.

(* the per-string law was FALSE of the former code: for the six characters backslash-u003c its output is no JSON
   literal at all (Json() emitted invalid JSON, NewMapJson and Copy failed); the repaired encoding round-trips it *)
Theorem C06_former_default_refuted :
  utf8_valid x_u003c = true /\ unquote_body (rewrite (quote_body true x_u003c)) = None /\
  unquote_body (quote_body false x_u003c) = Some x_u003c.
Proof. exact former_default_refuted. Qed.
Print Assumptions C06_former_default_refuted.

(* ================================================================== NewMapJson *)

(* NewMapJson accepts exactly the (non-empty) inputs whose first value encoding/json decodes as an object (returned as
   it is) or an array (wrapped under "object"), and passes the decoder's error on otherwise; decv is the stdlib decoder
   (first value of the text into an interface{}) *)
Theorem C06_new_map_json_accepts_exactly : forall decv b, b <> [] -> new_map_json decv b = accept_spec decv b.
Proof. exact new_map_json_accepts_exactly. Qed.
Print Assumptions C06_new_map_json_accepts_exactly.

(* the documented exception (recorded finding empty-input-accepted): "empty or nil begets empty" *)
Theorem C06_new_map_json_empty : forall decv, new_map_json decv [] = Ok (VMap []).
Proof. exact new_map_json_empty. Qed.
Print Assumptions C06_new_map_json_empty.
Theorem C06_new_map_json_empty_refuted : exists decv b, decv b = Err EEOF /\ new_map_json decv b <> accept_spec decv b.
Proof. exact new_map_json_empty_refuted. Qed.
Print Assumptions C06_new_map_json_empty_refuted.

(* ================================================================== the structural round trip *)
From Mxj Require Import Spec.JsonRT Proofs.C06Struct Proofs.C06StructCopy Proofs.C06StructIdem Proofs.C06StructIndent.
From Mxj Require Model.Files.

(* json_roundtrip, at the structural level (proofs: Proofs/C06Struct.v, Proofs/C06StructCopy.v; definitions: Spec/JsonRT.v).
   decode_segs is this development's model of encoding/json's decoder on the segment layer (the environment, not mxj
   code; compared with NewMapJson(Map.Json(m)) and Map.Copy() on every run, JRound cases).  For BOTH encodings, BOTH
   number modes and EVERY value of JSON types - any nesting, any valid UTF-8 keys and strings - whose maps have distinct
   keys (wfb: every Go map) and whose number texts begin with a digit or '-' (nums_start: what encoding/json prints for a
   float64 and accepts as a json.Number), decoding what Map.Json wrote gives exactly jcanon usenum v: the same tree with
   every map's entries in sorted-key order (the order the decoder inserts them) and every number in the decoder's Go type
   (float64 without UseNumber, json.Number with it). *)
Theorem C06_json_roundtrip : forall safe usenum v,
  json_shaped utf8_valid v = true -> nums_start v = true -> wfb v = true ->
  decode_segs usenum (segments safe v) = Some (jcanon usenum v).
Proof. exact json_roundtrip. Qed.
Print Assumptions C06_json_roundtrip.

(* jcanon changes nothing but the order of map entries when the numbers already have the decoder's type *)
Theorem C06_jcanon_veq : forall usenum v, nums_mode usenum v = true -> veq (jcanon usenum v) v.
Proof. exact jcanon_veq. Qed.
Print Assumptions C06_jcanon_veq.

(* ... so the decoded value is the encoded one up to the order of map entries at every depth (reflect.DeepEqual on Go
   maps): as a relation (veq), by the boolean test the harness uses (veqb), and it is again a well-formed value *)
Theorem C06_json_roundtrip_veq : forall safe usenum v,
  json_shaped utf8_valid v = true -> nums_start v = true -> nums_mode usenum v = true -> wfb v = true ->
  exists v', decode_segs usenum (segments safe v) = Some v' /\ veq v' v /\ veqb v' v = true /\ wfb v' = true.
Proof. exact json_roundtrip_veq. Qed.
Print Assumptions C06_json_roundtrip_veq.

(* the two side conditions are needed: a number text with a leading '+' (valid for json_shaped's num_text, never written
   by encoding/json) does not decode, and a "map" with a repeated key (no Go map) loses the earlier entry *)
Theorem C06_json_roundtrip_side_conditions_needed :
  (exists v, json_shaped utf8_valid v = true /\ wfb v = true /\ nums_start v = false /\
             decode_segs false (segments false v) = None) /\
  (exists v, json_shaped utf8_valid v = true /\ nums_start v = true /\ wfb v = false /\
             decode_segs false (segments false v) = Some (VMap [(s "a", VBool true)]) /\
             veqb (VMap [(s "a", VBool true)]) v = false).
Proof. exact roundtrip_side_conditions_needed. Qed.
Print Assumptions C06_json_roundtrip_side_conditions_needed.

(* JsonIndent: what json.Indent adds is whitespace-only segments (newline + prefix + depth * indent, and the blank after
   a colon), which the decoder skips - for every prefix and indent made of JSON whitespace, JsonIndent's output decodes
   to the same canonical value as Json's *)
Theorem C06_json_indent_roundtrip : forall prefix indent safe usenum v,
  ws_str prefix = true -> ws_str indent = true ->
  json_shaped utf8_valid v = true -> nums_start v = true -> wfb v = true ->
  decode_segs usenum (segments_ind safe prefix indent 0 v) = Some (jcanon usenum v).
Proof. exact json_indent_roundtrip. Qed.
Print Assumptions C06_json_indent_roundtrip.

(* "JsonIndent always produces valid JSON" is FALSE for a prefix or indent that is not whitespace: json.Indent copies
   both into the text as they are (documented for encoding/json's Indent; mxj passes the arguments through unchecked) *)
Theorem C06_json_indent_nonws_prefix_refuted : exists prefix indent v,
  json_shaped utf8_valid v = true /\ nums_start v = true /\ wfb v = true /\
  decode_segs false (segments_ind false prefix indent 0 v) = None.
Proof. exact json_indent_nonws_prefix_refuted. Qed.
Print Assumptions C06_json_indent_nonws_prefix_refuted.

(* Json() of the decoded value is byte for byte Json() of the original - for EVERY value and both encodings: the
   round trip loses nothing the encoding shows *)
Theorem C06_reencode_same_text : forall safe usenum v, map_json safe (jcanon usenum v) = map_json safe v.
Proof. exact reencode_same_text. Qed.
Print Assumptions C06_reencode_same_text.

(* a second round trip (in either encoding) returns exactly what the first one returned; jcanon is idempotent *)
Theorem C06_roundtrip_stable : forall safe usenum v,
  json_shaped utf8_valid v = true -> nums_start v = true -> wfb v = true ->
  decode_segs usenum (segments safe (jcanon usenum v)) = Some (jcanon usenum v).
Proof. exact roundtrip_stable. Qed.
Print Assumptions C06_roundtrip_stable.
Theorem C06_jcanon_idem : forall usenum v, jcanon usenum (jcanon usenum v) = jcanon usenum v.
Proof. exact jcanon_idem. Qed.
Print Assumptions C06_jcanon_idem.

(* NewMapJson(Map.Json(safe)) with mxj's own NewMapJson logic (Model/Json.v new_map_json) around the decoder oracle decv:
   when decv reads the text Json wrote as the segment-layer model does, the result is Ok of the canonical Map *)
Theorem C06_newmapjson_json_roundtrip : forall safe usenum (decv : str -> res value) m,
  decv (map_json safe (VMap m)) = opt_res (decode_segs usenum (segments safe (VMap m))) ->
  json_shaped utf8_valid (VMap m) = true -> nums_start (VMap m) = true -> wfb (VMap m) = true ->
  new_map_json decv (map_json safe (VMap m)) = Ok (jcanon usenum (VMap m)).
Proof. exact newmapjson_json_roundtrip. Qed.
Print Assumptions C06_newmapjson_json_roundtrip.

(* copy_roundtrip: Map.Copy (Model/Files.v map_copy: Json() = the Encoder's output minus its newline, then NewMapJson)
   with encoding/json's Encoder writing the model's text and its Decoder reading that text as the segment-layer model
   does: Copy returns the canonical Map ... *)
Theorem C06_copy_canon : forall usenum (encode : bool -> value -> option str) (json_dec : str -> res value) m,
  encode false (VMap m) = Some (map_json false (VMap m) ++ [Files.nl_byte]) ->
  json_dec (map_json false (VMap m)) = opt_res (decode_segs usenum (segments false (VMap m))) ->
  json_shaped utf8_valid (VMap m) = true -> nums_start (VMap m) = true -> wfb (VMap m) = true ->
  Files.map_copy encode json_dec (VMap m) = Ok (jcanon usenum (VMap m)).
Proof. exact copy_roundtrip. Qed.
Print Assumptions C06_copy_canon.

(* ... which is the receiver up to the order of map entries *)
Theorem C06_copy_roundtrip : forall usenum (encode : bool -> value -> option str) (json_dec : str -> res value) m,
  encode false (VMap m) = Some (map_json false (VMap m) ++ [Files.nl_byte]) ->
  json_dec (map_json false (VMap m)) = opt_res (decode_segs usenum (segments false (VMap m))) ->
  json_shaped utf8_valid (VMap m) = true -> nums_start (VMap m) = true -> nums_mode usenum (VMap m) = true ->
  wfb (VMap m) = true ->
  exists w, Files.map_copy encode json_dec (VMap m) = Ok w /\ veq w (VMap m) /\ veqb w (VMap m) = true.
Proof. exact copy_roundtrip_veq. Qed.
Print Assumptions C06_copy_roundtrip.

(* NOT PROVED (and not modelled): the step from the bytes of the text to its segments.  decode_segs works on the segment
   list; encoding/json's scanner (which splits the text into literals, punctuation and number tokens) is the environment
   and is not transcribed, so the NewMapJson / Copy theorems above take "the Decoder reads the text Json wrote as
   decode_segs reads its segments" as a hypothesis about the oracle (checked on every JRound / Copy run of the harness).
   Numbers are carried as text: that float64 -> text -> float64 is the identity is encoding/json's property, not stated. *)

(* ================================================================== non-vacuity *)


(* a Map of JSON types whose keys and values contain <, >, &, backslashes, quotes, a control character, U+2028, a
   non-ASCII rune and the literal texts backslash-u003c / backslash-u0026: every hypothesis holds, the default encoding
   writes < literally, the safe one does not, both decode back *)
Definition ex_v : value :=
  VMap [(s "k<" ++ bsl :: s "u003c", VStr (s "a<b>&" ++ [bsl; dq] ++ hx "0a" ++ hx "e280a8" ++ hx "c3a9" ++ bsl :: s "u0026"));
        (s "n", VList [VFlt (s "1.5"); VNil; VBool true; VJNum (s "12")])].
Example C06_nonvacuous :
  json_shaped utf8_valid ex_v = true /\
  no_html (map_json true ex_v) = true /\ no_html (map_json false ex_v) = false /\
  decode_segs false (segments false ex_v) = decode_segs false (segments true ex_v) /\
  map unquote_body (lits (segments false ex_v)) = map Some (strs ex_v).
Proof. repeat split; vm_compute; reflexivity. Qed.

(* a hazard-free Map with <, > and & : former and current default encodings agree *)
Definition ex_w : value := VMap [(s "a&b", VStr (s "x<y>" ++ [bsl] ++ s "u003"))].
Example C06_compat_nonvacuous :
  json_shaped hazard_free ex_w = true /\ rewrite (marshal true ex_w) = map_json false ex_w.
Proof. split; vm_compute; reflexivity. Qed.

(* the structural round trip: a nested Map with lists, nulls, booleans, numbers (negative, exponent), empty containers,
   keys out of order, strings with <, >, &, a quote, a backslash, a control character, U+2028, a non-ASCII rune and the
   literal text backslash-u0026.  Every hypothesis holds, for both number modes; the result differs from the input
   (entries reordered at two depths) and is veqb-equal to it *)
Definition ex_rt (num : str -> value) : value :=
  VMap [(s "z<" ++ bsl :: s "u003c", VStr (s "a<b>&" ++ [bsl; dq] ++ hx "0a" ++ hx "e280a8" ++ hx "c3a9" ++ bsl :: s "u0026"));
        (s "n", VList [num (s "1.5"); VNil; VBool true; num (s "-12"); VMap []; VList [];
                       VMap [(s "b", VNil); (s "a", VList [VList [VBool false; VStr []]])]]);
        (s "a&", VMap [(s "k", num (s "1e+21")); (s "", VNil)])].
Example C06_roundtrip_nonvacuous :
  json_shaped utf8_valid (ex_rt VFlt) = true /\ nums_start (ex_rt VFlt) = true /\ nums_mode false (ex_rt VFlt) = true /\
  wfb (ex_rt VFlt) = true /\
  json_shaped utf8_valid (ex_rt VJNum) = true /\ nums_start (ex_rt VJNum) = true /\ nums_mode true (ex_rt VJNum) = true /\
  wfb (ex_rt VJNum) = true /\
  decode_segs false (segments false (ex_rt VFlt)) = Some (jcanon false (ex_rt VFlt)) /\
  decode_segs true (segments true (ex_rt VJNum)) = Some (jcanon true (ex_rt VJNum)) /\
  decode_segs false (segments true (ex_rt VJNum)) = Some (jcanon false (ex_rt VFlt)) /\
  value_eqb (jcanon false (ex_rt VFlt)) (ex_rt VFlt) = false /\ veqb (jcanon false (ex_rt VFlt)) (ex_rt VFlt) = true /\
  ws_str (s "  ") = true /\ ws_str [ascii_of_N 9] = true /\
  decode_segs false (segments_ind true (s "  ") [ascii_of_N 9] 0 (ex_rt VFlt)) = Some (jcanon false (ex_rt VFlt)) /\
  no_html (map_json_indent (s "  ") [ascii_of_N 9] true (ex_rt VFlt)) = true /\
  no_html (map_json_indent (s "  ") [ascii_of_N 9] false (ex_rt VFlt)) = false.
Proof. repeat split; vm_compute; reflexivity. Qed.

(* Copy: an Encoder and a Decoder that meet the two hypotheses of C06_copy_roundtrip on this Map *)
Definition ex_encode (eh : bool) (v : value) : option str := Some (map_json eh v ++ [Files.nl_byte]).
Definition ex_dec (b : str) : res value :=
  if str_eqb b (map_json false (ex_rt VFlt)) then opt_res (decode_segs false (segments false (ex_rt VFlt))) else Err EOther.
Example C06_copy_nonvacuous :
  match ex_rt VFlt with
  | VMap m =>
      ex_encode false (VMap m) = Some (map_json false (VMap m) ++ [Files.nl_byte]) /\
      ex_dec (map_json false (VMap m)) = opt_res (decode_segs false (segments false (VMap m))) /\
      Files.map_copy ex_encode ex_dec (VMap m) = Ok (jcanon false (VMap m))
  | _ => False
  end.
Proof. repeat split; vm_compute; reflexivity. Qed.

(* ---- tie to the CURRENT sources of Map.Json (json.go) and Map.Copy (mxj.go): go2v re-translates them on every run
   (Gen/Pure_gen.v); GenProofs/PureG13.v proves that Json is marshalJSON(mv, flag) with flag the single optional
   argument (false otherwise - the safe encoding is switched on by exactly Json(true)), and that Copy is Json()
   followed by NewMapJson, for ANY marshaller / decoder (encoding/json: tied by the correspondence run). *)
From Mxj Require Import Gen.Setters_gen Gen.PureSupport Gen.Pure_gen GenProofs.PureG5 GenProofs.PureG13.

Theorem C06_json_code : forall (marshalJSON : value -> bool -> res str) st mv safe,
  fn_Json marshalJSON st mv safe = of_res (marshalJSON (VMap mv) (opt_flag safe)).
Proof. exact json_code. Qed.
Print Assumptions C06_json_code.

Theorem C06_copy_code : forall (Json : entries -> list bool -> res str) (NewMapJson : str -> res entries) st mv,
  fn_Copy Json NewMapJson st mv = of_res (bind (Json mv []) NewMapJson).
Proof. exact copy_code. Qed.
Print Assumptions C06_copy_code.

(* ---- tie to the CURRENT source of NewMapJson (json.go): go2v re-translates it on every run (Gen/Pure_gen.v); GenProofs/
   PureG20.v proves the translation equal to the model [new_map_json] the theorems above are stated with, for ANY decoding
   function (encoding/json's Decoder with / without UseNumber is the environment). *)
From Mxj Require Import Gen.Setters_gen Gen.PureSupport Gen.Pure_gen GenProofs.PureG20.

Theorem C06_new_map_json_code_is_model : forall (Decode : str -> bool -> res value) st b,
  fn_NewMapJson Decode st b
  = match new_map_json (fun x => Decode x (g_JsonUseNumber st)) b with
    | Ok (VMap m) => Ret (Ok m)
    | Ok _ => Crash
    | Err e => Ret (Err e)
    | Panic => Crash
    end.
Proof. exact new_map_json_code_is_model. Qed.
Print Assumptions C06_new_map_json_code_is_model.

(* ---- marshalJSON and Map.JsonIndent (json.go), translated from the current sources: the models map_json / map_json_indent for
   ANY behaviour of encoding/json's Encoder.Encode and json.Indent (GenProofs/PureG29.v) *)
From Mxj Require Import GenProofs.PureG29.

Theorem C06_marshal_json_code_is_model : forall (encode : value -> bool -> res str) st v escapeHTML,
  fn_marshalJSON encode st v escapeHTML = of_res (EncForms.map_json (encode v escapeHTML)).
Proof. exact marshal_json_code_is_model. Qed.
Print Assumptions C06_marshal_json_code_is_model.

Theorem C06_json_indent_code_is_model : forall (indent : str -> str -> str -> res str) (encode : value -> bool -> res str) st mv prefix ind safe,
  fn_JsonIndent indent (run_marshalJSON encode st) st mv prefix ind safe
  = of_res (EncForms.map_json_indent (fun b => indent b prefix ind) (encode (VMap mv) (opt_flag safe))).
Proof. exact json_indent_code_is_model. Qed.
Print Assumptions C06_json_indent_code_is_model.

Theorem C06_json_code_is_model : forall (encode : value -> bool -> res str) st mv safe,
  fn_Json (run_marshalJSON encode st) st mv safe = of_res (EncForms.map_json (encode (VMap mv) (opt_flag safe))).
Proof. exact json_code_is_model. Qed.
Print Assumptions C06_json_code_is_model.
