(* placeholder while the proofs are being written *)
From Mxj Require Import Model.Json.
Theorem C06_placeholder : True.
Proof. exact I. Qed.
Print Assumptions C06_placeholder.
