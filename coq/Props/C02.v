(* C02 - XML -> Map -> XML -> Map is a fixed point; re-encoded XML is well formed.  Statements only. *)
From Mxj Require Import Spec.Items.

(* no whitespace at all is admissible under every option vector (the compact encoder) *)
Theorem ws_none_ok : forall o, ws_ok o no_ws.
Proof. intros o i. reflexivity. Qed.
Print Assumptions ws_none_ok.
