(* C02 - XML -> Map -> XML -> Map is a fixed point; re-encoded XML is well formed.
   Statements only; proofs in Proofs/XmlStr.v XmlItems.v XmlRT.v XmlWF.v XmlImgG.v
   C02Dec.v C02Cast.v C02RT.v C02P.v.

   Reading.  [toks_of_doc d] (Spec/Conv.v) is the token stream of the document d;
   [xml_decode pf nskip o c] (Model/XmlDec.v) is NewMapXml(doc, c) under the options o;
   [map_xml_items] / [map_xml_indent_items] (Model/XmlEnc.v) are the items Map.Xml /
   Map.XmlIndent write; [toks_of_items] (Spec/Items.v) is what the tokenizer reads back;
   [insert_ws ws] puts whitespace [ws i] in every gap between items; [ws_ok o ws]: every
   [ws i] consists of characters the decoder trims under o (blank, tab, newline; under
   DisableTrimWhiteSpace: tab and newline only - blanks written by XmlIndent are then data,
   see [keepspaces_indent_refuted]); [veqb] is equality of Maps up to entry order.
   [sym02 o]: the symmetric option combinations (Spec/Shape.v); [dom02 o d]: element and
   attribute names are names and no element key begins with the attribute prefix;
   [pf_hyps pf] (Proofs/C02Cast.v): print/parse round trip of float64 through %v and
   strconv.ParseFloat, used only when the cast argument is true. *)
From Mxj Require Import Spec.Shape Spec.Img Proofs.C02Cast Proofs.C02P Run.RunXml.

(* ---- the fixed point, for all documents of the domain and all symmetric options ---- *)
Theorem xml_fixed_point : forall pf o c, sym02 o -> (c = true -> pf_hyps pf) ->
  forall d m, dom02 o d = true ->
  xml_decode pf nskip o c (toks_of_doc d) TermEOF = Ok m ->
  exists mm its,
    m = VMap mm /\
    map_xml_items o mm None = Ok its /\ map_xml_indent_items o mm None = Ok its /\
    wf_items its /\ single_root its /\
    forall ws, ws_ok o ws ->
      exists m', xml_decode pf nskip o c (toks_of_items (insert_ws ws its)) TermEOF = Ok m' /\
                 veqb m' m = true.
Proof. exact fixed_point_doc. Qed.
Print Assumptions xml_fixed_point.

(* without cast no assumption about ParseFloat is involved *)
Corollary xml_fixed_point_uncast : forall pf o, sym02 o ->
  forall d m, dom02 o d = true ->
  xml_decode pf nskip o false (toks_of_doc d) TermEOF = Ok m ->
  exists mm its,
    m = VMap mm /\
    map_xml_items o mm None = Ok its /\ map_xml_indent_items o mm None = Ok its /\
    wf_items its /\ single_root its /\
    forall ws, ws_ok o ws ->
      exists m', xml_decode pf nskip o false (toks_of_items (insert_ws ws its)) TermEOF = Ok m' /\
                 veqb m' m = true.
Proof. intros pf o Hs. apply (fixed_point_doc pf o false Hs). discriminate. Qed.
Print Assumptions xml_fixed_point_uncast.

(* ---- the two halves ---- *)
(* every Map the decoder returns for a token stream of the domain has the decoder shape *)
Theorem decode_shape : forall pf o c, sym02 o -> (c = true -> pf_hyps pf) ->
  forall ts tm m, toks02 o ts = true -> xml_decode pf nskip o c ts tm = Ok m ->
  exists K v, m = VMap [(K, v)] /\ elem_key_ok o K /\ eshape pf o c v.
Proof. exact decode_shape02. Qed.
Print Assumptions decode_shape.

(* every value of decoder shape is written as one well-formed element and read back equal,
   under any admissible indentation: nothing lost, duplicated or moved to another parent *)
Theorem roundtrip_shape : forall pf o c, sym02 o ->
  forall K v, elem_key_ok o K -> eshape pf o c v ->
  exists its, enc o v K = Ok its /\ wf_items its /\ single_root its /\
    forall ws, ws_ok o ws ->
      exists x, xml_decode pf nskip o c (toks_of_items (insert_ws ws its)) TermEOF = Ok (VMap [(K, x)]) /\
                veqb x v = true.
Proof. exact roundtrip_shape. Qed.
Print Assumptions roundtrip_shape.

(* ---- the by-design exception (KNOWN_FINDINGS key keepspaces-indent) ----
   Under DisableTrimWhiteSpace the blanks an indented encoder writes are data: with
   indentation that contains a blank the round trip is NOT a fixed point.  [ws_ok]
   excludes exactly this. *)
Definition o_keep : opts :=
  mko (s "-") false false false true false false true true false false false false true false (s "#").
Definition nm (x : string) : xname := {| xspace := []; xlocal := s x |}.
Definition d_small : doc :=
  {| d_prolog := []; d_root := Elem (nm "a") [] [NElem (Elem (nm "b") [] [NText (s "1")])]; d_trailer := [] |}.
(* <a>\n  <b>1</b>\n</a> : what XmlIndent("", "  ") writes *)
Definition ws_indent (i : nat) : str :=
  if Nat.eqb i 1 then ascii_of_nat 10 :: s "  " else if Nat.eqb i 4 then [ascii_of_nat 10] else [].
Definition pf_none (x : str) : option flt := None.

Theorem keepspaces_indent_refuted :
  sym02 o_keep /\ dom02 o_keep d_small = true /\
  exists mm its m',
    xml_decode pf_none nskip o_keep false (toks_of_doc d_small) TermEOF = Ok (VMap mm) /\
    map_xml_indent_items o_keep mm None = Ok its /\
    xml_decode pf_none nskip o_keep false (toks_of_items (insert_ws ws_indent its)) TermEOF = Ok m' /\
    veqb m' (VMap mm) = false.
Proof.
  split; [constructor; try reflexivity; try discriminate; right; reflexivity|].
  split; [reflexivity|].
  eexists. eexists. eexists. split; [vm_compute; reflexivity|].
  split; [vm_compute; reflexivity|]. split; [vm_compute; reflexivity|]. vm_compute. reflexivity.
Qed.
Print Assumptions keepspaces_indent_refuted.

(* ---- non-vacuity ---- *)
(* attribute prefix "A_", lower-case and snake-case folding, simple-values-as-map, decoder-side escaping, key prefix "$" *)
Definition o_ex : opts :=
  mko (s "A_") false true true false true false true true false false false false false true (s "$").
Example o_ex_sym : sym02 o_ex.
Proof. constructor; try reflexivity; try discriminate. left. reflexivity. Qed.
Example o_keep_sym : sym02 o_keep.
Proof. constructor; try reflexivity; try discriminate. right. reflexivity. Qed.
Example opts0e_sym : sym02 opts0e.
Proof. constructor; try reflexivity; try discriminate. left. reflexivity. Qed.

Definition d_ex : doc :=
  {| d_prolog := [NOther (TComment (s "c"))];
     d_root := Elem (nm "Ab") [{| aname := nm "Id"; avalue := s "<7>" |}]
                    [NText (s " x&y "); NElem (Elem (nm "b") [] [NText (s "1")]);
                     NElem (Elem (nm "b") [] [NText (s " 2.5 ")]); NElem (Elem (nm "c-d") [] [])];
     d_trailer := [] |}.
Example d_ex_dom : dom02 o_ex d_ex = true.
Proof. reflexivity. Qed.
Example d_ex_decodes : exists m, xml_decode pf_none nskip o_ex false (toks_of_doc d_ex) TermEOF = Ok m.
Proof. eexists. vm_compute. reflexivity. Qed.

(* a ParseFloat table that satisfies the assumptions, and a cast document *)
Definition pf_ex (x : str) : option flt :=
  if str_eqb x (s "2.5") then Some (s "2.5")
  else if str_eqb x (s "1e3") || str_eqb x (s "1000") then Some (s "1000") else None.
Example pf_ex_hyps : pf_hyps pf_ex.
Proof.
  split; [|split; reflexivity]. intros x f. unfold pf_ex.
  destruct (str_eqb x (s "2.5")); [intro H; inversion H; subst; repeat split; try reflexivity; discriminate|].
  destruct (str_eqb x (s "1e3") || str_eqb x (s "1000")); [|discriminate].
  intro H; inversion H; subst; repeat split; try reflexivity; discriminate.
Qed.
Definition d_cast : doc :=
  {| d_prolog := [];
     d_root := Elem (nm "a") [{| aname := nm "n"; avalue := s "1e3" |}]
                    [NElem (Elem (nm "b") [] [NText (s "2.5")]); NElem (Elem (nm "b") [] [NText (s "true")]);
                     NElem (Elem (nm "b") [] [NText (s "x")])];
     d_trailer := [] |}.
Example d_cast_decodes :
  dom02 opts0e d_cast = true /\
  xml_decode pf_ex nskip opts0e true (toks_of_doc d_cast) TermEOF =
  Ok (VMap [(s "a", VMap [(s "-n", VFlt (s "1000")); (s "b", VList [VFlt (s "2.5"); VBool true; VStr (s "x")])])]).
Proof. split; reflexivity. Qed.

(* ================================================================== tie to the code (regenerated on every run)
   The decoder / encoder models above call the model functions [cast] and [escape_chars]; go2v's statement-by-statement
   translations of func cast (xml.go) and func escapeChars (escapechars.go) from /repo's CURRENT sources are proved equal
   to them (GenProofs/PureG.v), so the theorems of this file are re-checked against what those two functions say now. *)
From Mxj Require Import Gen.Setters_gen Gen.PureSupport Gen.Pure_gen GenProofs.PureG.

Theorem C02_cast_code_is_model : forall pf callskip st o x r t, cast_view st o ->
  fn_cast pf callskip st x r t = Ret (cast pf (skip_of st callskip) o x r t).
Proof. exact cast_code_is_model. Qed.
Print Assumptions C02_cast_code_is_model.

Theorem C02_escape_code_is_model : forall st x, fn_escapeChars st x = Ret (escape_chars x).
Proof. exact escape_code_is_model. Qed.
Print Assumptions C02_escape_code_is_model.

(* ---- tie to the CURRENT source of xmlToMapParser (xml.go:370-538), the core of NewMapXml: go2v re-translates the
   function statement by statement on every run (Gen/Pure_gen.v: key transformation, the attribute loop, the XMPP early
   return, the token loop with its type switch, recursion for child elements, _seq augmentation, list building on
   repeated keys, the shapes at the end tag, character data; xml.Decoder as its token list); GenProofs/PureG14.v proves
   the translation - with the TRANSLATED cast and escapeChars plugged in - equal to the model decoder
   [xml_decode_rest] the theorems above are stated with, on every token list whose start tags have a non-empty local
   name (encoding/xml returns no other; without the condition code and model differ: C02_xml_parser_code_empty_name_refuted). *)
From Mxj Require Import Gen.Setters_gen Gen.PureSupport Gen.Pure_gen Spec.ConvClauses GenProofs.PureG GenProofs.PureG14.

Theorem C02_xml_parser_code_is_model : forall pf callskip o r st fuel ts tm,
  dec_view st o -> cast_view st o -> length ts < fuel -> forallb start_ok ts = true ->
  fn_xmlToMapParser (run_cast pf callskip st) (run_escapeChars st) fuel st [] [] (ts, tm) r
  = dec_top_result tm (xml_decode_rest pf (skip_of st callskip) o r ts tm).
Proof. exact xml_parser_code_is_model_translated. Qed.
Print Assumptions C02_xml_parser_code_is_model.

Theorem C02_xml_parser_code_no_panic : forall pf callskip o r st fuel ts tm,
  dec_view st o -> cast_view st o -> length ts < fuel -> forallb start_ok ts = true -> top_ok ts = true ->
  fn_xmlToMapParser (run_cast pf callskip st) (run_escapeChars st) fuel st [] [] (ts, tm) r <> Crash.
Proof. exact xml_parser_code_no_panic. Qed.
Print Assumptions C02_xml_parser_code_no_panic.

Theorem C02_xml_parser_code_empty_name_refuted :
  exists pf skip o r st ts tm, dec_view st o /\
    fn_xmlToMapParser (fun x b t => cast pf skip o x b t) escape_chars (S (length ts)) st [] [] (ts, tm) r
    <> dec_top_result tm (xml_decode_rest pf skip o r ts tm).
Proof. exact xml_parser_code_is_model_empty_name_refuted. Qed.
Print Assumptions C02_xml_parser_code_empty_name_refuted.

(* ---- the Map encoder itself: marshalMapToXmlIndent (xml.go), translated from the CURRENT sources by go2v (join mode: the
   code after an if / switch once; the case bodies outside the value universe stand as Crash) and proved equal, in compact mode,
   to the model encoder [enc] rendered by [emit] that the theorems above are stated with (GenProofs/PureG18.v); escapeChars is
   the translated one, sort.Sort the model's sort_by_key on the rows *)
From Mxj Require Import Spec.JsonRT GenProofs.PureG15 GenProofs.PureG18.

Theorem C02_marshal_map_code_is_enc : forall o st, enc_view st o ->
  forall ind outd xm xmi v f key b i c p m t, vdepth v <= f -> text_dom o v = true ->
  (forall its, XmlEnc.enc o v key = Ok its ->
     fn_marshalMapToXmlIndent (PureG15.run_escapeChars st) ind outd sort_rows sort_vrows xm xmi f st false b key v i c p m t =
     Ret (None, (b ++ emit its, i, c, p, m, t))) /\
  (forall e, XmlEnc.enc o v key = Err e ->
     exists e' b', fn_marshalMapToXmlIndent (PureG15.run_escapeChars st) ind outd sort_rows sort_vrows xm xmi f st false b key v i c p m t =
                   Ret (Some e', (b', i, c, p, m, t))) /\
  XmlEnc.enc o v key <> Panic.
Proof. exact marshal_map_code_is_enc_translated. Qed.
Print Assumptions C02_marshal_map_code_is_enc.
