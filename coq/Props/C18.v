(* C18 - package options.  Statements only; proofs in GenProofs/C18G.v (against the regenerated Gen/Setters_gen.v). *)
From Mxj Require Import Gen.GenSupport Gen.Setters_gen.

(* placeholder until GenProofs/C18G.v is wired in: the initial state satisfies the prefix-length invariant *)
Theorem C18_init_len : g_lenAttrPrefix gstate0 = Z.of_nat (length (g_attrPrefix gstate0)).
Proof. reflexivity. Qed.
Print Assumptions C18_init_len.
