(* C18 - Package options have only their documented effect and can always be restored.
   Statements only; the proofs are in GenProofs/C18G.v, C18Idem.v, C18Inv.v, C18Restore.v, C18NI.v and are
   about Gen/Setters_gen.v and Gen/Effects_gen.v, which go2v REGENERATES from /repo's sources on every run.
   A result of None is a run-time panic.  [fields st] lists every option variable with its value. *)
From Mxj Require Import Gen.GenSupport Gen.Effects_gen Gen.Setters_gen GenProofs.EffectsTheory GenProofs.C17G.
From Mxj Require Import GenProofs.C18G GenProofs.C18Idem GenProofs.C18Inv GenProofs.C18Restore GenProofs.C18NI.
Local Open Scope string_scope.
Local Open Scope list_scope.

(* ================================================================== *)
(* T1 - every setter is its row of the documentation table              *)

(* toggle without argument; set with exactly one; two or more arguments: no effect *)
Theorem C18_T1_toggle_setters : forall st b,
  set_IncludeTagSeqNum st b =
    match b with [] => Some (with_includeTagSeqNum (negb (g_includeTagSeqNum st)) st)
               | [x] => Some (with_includeTagSeqNum x st) | _ => Some st end /\
  set_CoerceKeysToLower st b =
    match b with [] => Some (with_lowerCase (negb (g_lowerCase st)) st)
               | [x] => Some (with_lowerCase x st) | _ => Some st end /\
  set_CoerceKeysToSnakeCase st b =
    match b with [] => Some (with_snakeCaseKeys (negb (g_snakeCaseKeys st)) st)
               | [x] => Some (with_snakeCaseKeys x st) | _ => Some st end /\
  set_CastValuesToInt st b =
    match b with [] => Some (with_castToInt (negb (g_castToInt st)) st)
               | [x] => Some (with_castToInt x st) | _ => Some st end /\
  set_HandleXMPPStreamTag st b =
    match b with [] => Some (with_handleXMPPStreamTag (negb (g_handleXMPPStreamTag st)) st)
               | [x] => Some (with_handleXMPPStreamTag x st) | _ => Some st end /\
  set_DecodeSimpleValuesAsMap st b =
    match b with [] => Some (with_decodeSimpleValuesAsMap (negb (g_decodeSimpleValuesAsMap st)) st)
               | [x] => Some (with_decodeSimpleValuesAsMap x st) | _ => Some st end /\
  set_CastNanInf st b =
    match b with [] => Some (with_castNanInf (negb (g_castNanInf st)) st)
               | [x] => Some (with_castNanInf x st) | _ => Some st end /\
  set_CastValuesToFloat st b =
    match b with [] => Some (with_castToFloat (negb (g_castToFloat st)) st)
               | [x] => Some (with_castToFloat x st) | _ => Some st end /\
  set_CastValuesToBool st b =
    match b with [] => Some (with_castToBool (negb (g_castToBool st)) st)
               | [x] => Some (with_castToBool x st) | _ => Some st end.
Proof.
  exact (fun st b =>
    conj (IncludeTagSeqNum_char st b) (conj (CoerceKeysToLower_char st b) (conj (CoerceKeysToSnakeCase_char st b)
    (conj (CastValuesToInt_char st b) (conj (HandleXMPPStreamTag_char st b) (conj (DecodeSimpleValuesAsMap_char st b)
    (conj (CastNanInf_char st b) (conj (CastValuesToFloat_char st b) (CastValuesToBool_char st b))))))))).
Qed.
Print Assumptions C18_T1_toggle_setters.

(* exactly one argument sets; none - and also two or more - toggle *)
Theorem C18_T1_XmlCheckIsValid : forall st b,
  set_XmlCheckIsValid st b =
  match b with [x] => Some (with_xmlCheckIsValid x st)
             | _ => Some (with_xmlCheckIsValid (negb (g_xmlCheckIsValid st)) st) end.
Proof. exact XmlCheckIsValid_char. Qed.
Print Assumptions C18_T1_XmlCheckIsValid.

(* none toggles, otherwise the FIRST argument *)
Theorem C18_T1_LeafUseDotNotation : forall st b,
  set_LeafUseDotNotation st b =
  Some (with_useDotNotation (match b with [] => negb (g_useDotNotation st) | x :: _ => x end) st).
Proof. exact LeafUseDotNotation_char. Qed.
Print Assumptions C18_T1_LeafUseDotNotation.

(* none = disable trimming (flag true), otherwise the first argument; trimRunes follows the flag *)
Theorem C18_T1_DisableTrimWhiteSpace : forall st b,
  let v := match b with [] => true | x :: _ => x end in
  set_DisableTrimWhiteSpace st b =
  Some (with_trimRunes (if v then hx"090d080a" else hx"090d080a20") (with_disableTrimWhiteSpace v st)).
Proof. exact DisableTrimWhiteSpace_char. Qed.
Print Assumptions C18_T1_DisableTrimWhiteSpace.

(* escapechars.go: the request bb (none: toggle) takes effect only while the decoder-side switch is off *)
Theorem C18_T1_XMLEscapeChars : forall st b,
  let bb := match b with [] => negb (g_xmlEscapeChars st) | x :: _ => x end in
  set_XMLEscapeChars st b = Some (with_xmlEscapeChars (bb && negb (g_xmlEscapeCharsDecoder st)) st).
Proof. exact XMLEscapeChars_char. Qed.
Print Assumptions C18_T1_XMLEscapeChars.

(* the decoder-side switch becomes d (none: toggle) and switching it on clears the encoder-side switch *)
Theorem C18_T1_XMLEscapeCharsDecoder : forall st b,
  let d := match b with [] => negb (g_xmlEscapeCharsDecoder st) | x :: _ => x end in
  set_XMLEscapeCharsDecoder st b =
  Some (with_xmlEscapeChars (g_xmlEscapeChars st && negb d) (with_xmlEscapeCharsDecoder d st)).
Proof. exact XMLEscapeCharsDecoder_char. Qed.
Print Assumptions C18_T1_XMLEscapeCharsDecoder.

(* no argument or "" resets to ":" *)
Theorem C18_T1_SetFieldSeparator : forall st a,
  set_SetFieldSeparator st a =
  Some (with_fieldSep (match a with [] => s":" | [] :: _ => s":" | x :: _ => x end) st).
Proof. exact SetFieldSeparator_char. Qed.
Print Assumptions C18_T1_SetFieldSeparator.

Theorem C18_T1_attr_prefix : forall st,
  (forall p, set_SetAttrPrefix st p = Some (with_lenAttrPrefix (Z.of_nat (length p)) (with_attrPrefix p st))) /\
  set_PrependAttrWithHyphen st true = Some (with_lenAttrPrefix 1 (with_attrPrefix (s"-") st)) /\
  set_PrependAttrWithHyphen st false = Some (with_lenAttrPrefix 0 (with_attrPrefix [] st)).
Proof.
  exact (fun st => conj (SetAttrPrefix_char st)
                  (conj (PrependAttrWithHyphen_char st true) (PrependAttrWithHyphen_char st false))).
Qed.
Print Assumptions C18_T1_attr_prefix.

(* never below 32; the function returns the new size *)
Theorem C18_T1_SetArraySize : forall st n,
  set_SetArraySize st n = Some (with_defaultArraySize (Z.max n 32) st, Z.max n 32).
Proof. exact SetArraySize_char. Qed.
Print Assumptions C18_T1_SetArraySize.

Theorem C18_T1_plain_setters : forall st,
  (forall f, set_SetCheckTagToSkipFunc st f = Some (with_checkTagToSkip f st)) /\
  set_XmlGoEmptyElemSyntax st = Some (with_useGoXmlEmptyElemSyntax true st) /\
  set_XmlDefaultEmptyElemSyntax st = Some (with_useGoXmlEmptyElemSyntax false st).
Proof.
  exact (fun st => conj (SetCheckTagToSkipFunc_char st)
                  (conj (XmlGoEmptyElemSyntax_char st) (XmlDefaultEmptyElemSyntax_char st))).
Qed.
Print Assumptions C18_T1_plain_setters.

(* in general: every key k becomes ReplaceAll(k, k[0:1], new); an empty key panics *)
Theorem C18_T1_SetGlobalKeyMapPrefix_general : forall st new,
  set_SetGlobalKeyMapPrefix st new =
  if forallb nonempty (key_list st) then Some (map_keys (fun k => replace_all k (firstn 1 k) new) st) else None.
Proof. exact SetGlobalKeyMapPrefix_char. Qed.
Print Assumptions C18_T1_SetGlobalKeyMapPrefix_general.

(* on keys of the form [punctuation character] ++ suffix: the prefix is replaced, the suffixes stay *)
Theorem C18_T1_SetGlobalKeyMapPrefix : forall st p0 new,
  In p0 puncts -> keys_at p0 st ->
  exists st', set_SetGlobalKeyMapPrefix st new = Some st' /\
    g_textK st' = new ++ s"text" /\ g_seqK st' = new ++ s"seq" /\ g_commentK st' = new ++ s"comment" /\
    g_attrK st' = new ++ s"attr" /\ g_directiveK st' = new ++ s"directive" /\ g_procinstK st' = new ++ s"procinst" /\
    g_targetK st' = new ++ s"target" /\ g_instK st' = new ++ s"inst".
Proof. exact SetGlobalKeyMapPrefix_inv_char. Qed.
Print Assumptions C18_T1_SetGlobalKeyMapPrefix.

(* ================================================================== *)
(* T2 - the argument-less forms                                         *)

Theorem C18_T2_noarg_toggles : forall st,
  set_IncludeTagSeqNum st [] = Some (with_includeTagSeqNum (negb (g_includeTagSeqNum st)) st) /\
  set_CoerceKeysToLower st [] = Some (with_lowerCase (negb (g_lowerCase st)) st) /\
  set_CoerceKeysToSnakeCase st [] = Some (with_snakeCaseKeys (negb (g_snakeCaseKeys st)) st) /\
  set_CastValuesToInt st [] = Some (with_castToInt (negb (g_castToInt st)) st) /\
  set_HandleXMPPStreamTag st [] = Some (with_handleXMPPStreamTag (negb (g_handleXMPPStreamTag st)) st) /\
  set_DecodeSimpleValuesAsMap st [] = Some (with_decodeSimpleValuesAsMap (negb (g_decodeSimpleValuesAsMap st)) st) /\
  set_CastNanInf st [] = Some (with_castNanInf (negb (g_castNanInf st)) st) /\
  set_CastValuesToFloat st [] = Some (with_castToFloat (negb (g_castToFloat st)) st) /\
  set_CastValuesToBool st [] = Some (with_castToBool (negb (g_castToBool st)) st) /\
  set_XmlCheckIsValid st [] = Some (with_xmlCheckIsValid (negb (g_xmlCheckIsValid st)) st) /\
  set_LeafUseDotNotation st [] = Some (with_useDotNotation (negb (g_useDotNotation st)) st).
Proof.
  exact (fun st =>
    conj (IncludeTagSeqNum_noarg st) (conj (CoerceKeysToLower_noarg st) (conj (CoerceKeysToSnakeCase_noarg st)
    (conj (CastValuesToInt_noarg st) (conj (HandleXMPPStreamTag_noarg st) (conj (DecodeSimpleValuesAsMap_noarg st)
    (conj (CastNanInf_noarg st) (conj (CastValuesToFloat_noarg st) (conj (CastValuesToBool_noarg st)
    (conj (XmlCheckIsValid_noarg st) (LeafUseDotNotation_noarg st))))))))))).
Qed.
Print Assumptions C18_T2_noarg_toggles.

(* a toggle is an involution *)
Theorem C18_T2_toggle_twice : forall st c st1,
  is_toggle c = true -> apply_call st c = Some st1 -> apply_call st1 c = Some st.
Proof. exact toggle_twice. Qed.
Print Assumptions C18_T2_toggle_twice.

(* the white-space switch does not toggle: no argument DISABLES trimming *)
Theorem C18_T2_DisableTrimWhiteSpace_noarg : forall st,
  set_DisableTrimWhiteSpace st [] = Some (with_trimRunes (hx"090d080a") (with_disableTrimWhiteSpace true st)).
Proof. exact DisableTrimWhiteSpace_noarg. Qed.
Print Assumptions C18_T2_DisableTrimWhiteSpace_noarg.

(* the field separator is RESET - by no argument and by an empty first argument *)
Theorem C18_T2_SetFieldSeparator_noarg : forall st,
  set_SetFieldSeparator st [] = Some (with_fieldSep (s":") st) /\
  (forall r, set_SetFieldSeparator st ([] :: r) = Some (with_fieldSep (s":") st)).
Proof. exact (fun st => conj (SetFieldSeparator_noarg st) (SetFieldSeparator_empty st)). Qed.
Print Assumptions C18_T2_SetFieldSeparator_noarg.

(* the escaping switches toggle, subject to their interplay *)
Theorem C18_T2_escape_noarg : forall st,
  set_XMLEscapeChars st [] =
    Some (with_xmlEscapeChars (negb (g_xmlEscapeChars st) && negb (g_xmlEscapeCharsDecoder st)) st) /\
  set_XMLEscapeCharsDecoder st [] =
    Some (with_xmlEscapeChars (g_xmlEscapeChars st && negb (negb (g_xmlEscapeCharsDecoder st)))
            (with_xmlEscapeCharsDecoder (negb (g_xmlEscapeCharsDecoder st)) st)).
Proof. exact (fun st => conj (XMLEscapeChars_noarg st) (XMLEscapeCharsDecoder_noarg st)). Qed.
Print Assumptions C18_T2_escape_noarg.

(* ================================================================== *)
(* T3 - idempotence of the explicit forms                               *)

Theorem C18_T3_set_idempotent : forall st c st1,
  Inv st -> explicit c = true -> apply_call st c = Some st1 -> apply_call st1 c = Some st1.
Proof. exact set_idempotent. Qed.
Print Assumptions C18_T3_set_idempotent.

(* all explicit forms but the key prefix: in any state whatsoever *)
Theorem C18_T3_set_idempotent_any_state : forall st c st1,
  explicit c = true -> is_keyprefix c = false -> apply_call st c = Some st1 -> apply_call st1 c = Some st1.
Proof. exact set_idempotent_any_state. Qed.
Print Assumptions C18_T3_set_idempotent_any_state.

(* ================================================================== *)
(* T4 - frame                                                           *)

Theorem C18_T4_set_frame : forall st c st',
  apply_call st c = Some st' ->
  forall n, ~ In n (call_writes c) -> lookup n (fields st') = lookup n (fields st).
Proof. exact set_frame. Qed.
Print Assumptions C18_T4_set_frame.

(* and the listed variables are really written: each (setter, variable) pair of the generated table has a witness *)
Theorem C18_T4_writes_tight : forall nm vs v,
  In (nm, vs) setter_writes -> In v vs ->
  exists c st st', call_name c = nm /\ apply_call st c = Some st' /\ lookup v (fields st') <> lookup v (fields st).
Proof. exact setter_writes_tight. Qed.
Print Assumptions C18_T4_writes_tight.

(* ================================================================== *)
(* T5 - the invariant                                                   *)

Theorem C18_T5_Inv_unfolded : forall st,
  Inv st <->
  (g_lenAttrPrefix st = Z.of_nat (length (g_attrPrefix st)) /\
   g_trimRunes st = (if g_disableTrimWhiteSpace st then hx"090d080a" else hx"090d080a20") /\
   ~ (g_xmlEscapeChars st = true /\ g_xmlEscapeCharsDecoder st = true) /\
   (32 <= g_defaultArraySize st)%Z /\
   g_fieldSep st <> [] /\
   exists p, In p puncts /\
     g_textK st = p :: s"text" /\ g_seqK st = p :: s"seq" /\ g_commentK st = p :: s"comment" /\
     g_attrK st = p :: s"attr" /\ g_directiveK st = p :: s"directive" /\ g_procinstK st = p :: s"procinst" /\
     g_targetK st = p :: s"target" /\ g_instK st = p :: s"inst").
Proof. exact (fun st => conj (fun H => H) (fun H => H)). Qed.
Print Assumptions C18_T5_Inv_unfolded.

Theorem C18_T5_hist_ok_unfolded : forall h,
  hist_ok h <-> (forall a, In (C_SetGlobalKeyMapPrefix a) h -> exists p, In p puncts /\ a = [p]).
Proof. exact hist_ok_spec. Qed.
Print Assumptions C18_T5_hist_ok_unfolded.

Theorem C18_T5_inv_step : forall st c st',
  Inv st -> call_ok c = true -> apply_call st c = Some st' -> Inv st'.
Proof. exact inv_step. Qed.
Print Assumptions C18_T5_inv_step.

Theorem C18_T5_inv_reachable : forall h st, hist_ok h -> run h gstate0 = Some st -> Inv st.
Proof. exact inv_reachable. Qed.
Print Assumptions C18_T5_inv_reachable.

Theorem C18_T5_setters_total : forall st c, Inv st -> call_ok c = true -> apply_call st c <> None.
Proof. exact setters_total. Qed.
Print Assumptions C18_T5_setters_total.

Theorem C18_T5_run_total : forall h, hist_ok h -> run h gstate0 <> None.
Proof. exact (fun h Hh => run_total h gstate0 Inv_init Hh). Qed.
Print Assumptions C18_T5_run_total.

(* ================================================================== *)
(* T6 - restore                                                         *)

Theorem C18_T6_restore_defaults : forall h st st',
  hist_ok h -> run h gstate0 = Some st -> run restore st = Some st' -> st' = gstate0.
Proof. exact restore_defaults. Qed.
Print Assumptions C18_T6_restore_defaults.

Theorem C18_T6_restore_fields : forall h st st',
  hist_ok h -> run h gstate0 = Some st -> run restore st = Some st' -> fields st' = fields gstate0.
Proof. exact restore_fields. Qed.
Print Assumptions C18_T6_restore_fields.

Theorem C18_T6_restore_total : forall h st,
  hist_ok h -> run h gstate0 = Some st -> run restore st <> None.
Proof. exact restore_total. Qed.
Print Assumptions C18_T6_restore_total.

Theorem C18_T6_history_then_restore : forall h, hist_ok h -> run (h ++ restore) gstate0 = Some gstate0.
Proof. exact history_then_restore. Qed.
Print Assumptions C18_T6_history_then_restore.

(* variables that no call assigns (the two handler poll intervals) keep their initial value - for ANY history *)
Theorem C18_T6_never_assigned_unchanged : forall h st,
  run h gstate0 = Some st ->
  Forall (fun n => lookup n (fields st) = lookup n (fields gstate0)) never_assigned.
Proof. exact never_assigned_unchanged. Qed.
Print Assumptions C18_T6_never_assigned_unchanged.

(* ================================================================== *)
(* T7 - non-interference, from the regenerated read sets                *)

(* GR(f) is exactly the set of package variables f reads through some chain of calls *)
Theorem C18_T7_GR_exact : forall f v, In v (lookup_s [] f GR) <-> touches_var effects f_greads f v.
Proof. exact GR_exact. Qed.
Print Assumptions C18_T7_GR_exact.

Theorem C18_T7_seq_codec_ignores_attr_prefix_and_case : forall v f,
  In v ["attrPrefix"; "lenAttrPrefix"; "lowerCase"] ->
  In f ["NewMapXmlSeq"; "NewMapXmlSeqReader"; "NewMapXmlSeqReaderRaw"; "NewMapFormattedXmlSeq"; "MapSeq.Xml"; "MapSeq.XmlWriter"] ->
  ~ touches_var effects f_greads f v.
Proof. exact seq_codec_ignores_attr_prefix_and_case. Qed.
Print Assumptions C18_T7_seq_codec_ignores_attr_prefix_and_case.

Theorem C18_T7_json_ignores_attr_prefix_and_case : forall v f,
  In v ["attrPrefix"; "lenAttrPrefix"; "lowerCase"] ->
  In f ["Map.Json"; "Map.JsonIndent"; "Map.JsonWriter"; "Map.JsonWriterRaw"; "Map.JsonIndentWriter"; "Map.JsonIndentWriterRaw";
        "NewMapJson"; "NewMapJsonReader"; "NewMapJsonReaderRaw"] ->
  ~ touches_var effects f_greads f v.
Proof. exact json_ignores_attr_prefix_and_case. Qed.
Print Assumptions C18_T7_json_ignores_attr_prefix_and_case.

Theorem C18_T7_json_reads_only_JsonUseNumber : forall f v,
  In f json_entry -> touches_var effects f_greads f v -> v = "JsonUseNumber".
Proof. exact json_reads_only_JsonUseNumber. Qed.
Print Assumptions C18_T7_json_reads_only_JsonUseNumber.

Theorem C18_T7_decoders_ignore_encoder_switches : forall v f,
  In v ["xmlEscapeChars"; "useGoXmlEmptyElemSyntax"; "xmlCheckIsValid"] ->
  In f ["NewMapXml"; "NewMapXmlReader"; "NewMapXmlReaderRaw"; "NewMapXmlSeq"; "NewMapXmlSeqReader"; "NewMapXmlSeqReaderRaw";
        "NewMapJson"; "NewMapJsonReader"; "NewMapJsonReaderRaw"] ->
  ~ touches_var effects f_greads f v.
Proof. exact decoders_ignore_encoder_switches. Qed.
Print Assumptions C18_T7_decoders_ignore_encoder_switches.

Theorem C18_T7_encoders_queries_ignore_decoder_switches : forall v f,
  In v ["includeTagSeqNum"; "lowerCase"; "snakeCaseKeys"; "decodeSimpleValuesAsMap"; "trimRunes"; "disableTrimWhiteSpace";
        "castToInt"; "castToFloat"; "castToBool"; "castNanInf"; "xmlEscapeCharsDecoder"; "handleXMPPStreamTag";
        "checkTagToSkip"; "XmlCharsetReader"; "CustomDecoder"] ->
  In f ["Map.Xml"; "Map.XmlIndent"; "Map.XmlWriter"; "Map.XmlIndentWriter"; "Map.Json"; "Map.JsonIndent"; "MapSeq.Xml";
        "Map.ValuesForPath"; "Map.ValuesForKey"; "Map.ValueForPath"; "Map.ValueForKey"; "Map.ValueForPathString";
        "Map.PathsForKey"; "Map.PathForKeyShortest"; "Map.Exists"; "Map.LeafNodes"; "Map.LeafPaths"; "Map.LeafValues";
        "Map.Elements"; "Map.Attributes"; "Map.Root";
        "Map.UpdateValuesForPath"; "Map.SetValueForPath"; "Map.Remove"; "Map.RenameKey"; "Map.NewMap"] ->
  ~ touches_var effects f_greads f v.
Proof. exact encoders_queries_ignore_decoder_switches. Qed.
Print Assumptions C18_T7_encoders_queries_ignore_decoder_switches.

(* the exception: MapSeq.XmlIndent validates its output with NewMapXml *)
Theorem C18_T7_seq_indent_exception :
  touches_var effects f_greads "MapSeq.XmlIndent" "attrPrefix" /\
  touches_var effects f_greads "MapSeq.XmlIndent" "lowerCase" /\
  touches_var effects f_greads "MapSeq.XmlIndentWriter" "attrPrefix" /\
  ~ touches_var effects f_greads "MapSeq.XmlIndent" "lenAttrPrefix".
Proof. exact seq_indent_exception. Qed.
Print Assumptions C18_T7_seq_indent_exception.

(* surprising facts the read sets show *)
Theorem C18_T7_seq_decoder_reads_snakeCaseKeys : touches_var effects f_greads "NewMapXmlSeq" "snakeCaseKeys".
Proof. exact seq_decoder_reads_snakeCaseKeys. Qed.
Print Assumptions C18_T7_seq_decoder_reads_snakeCaseKeys.

Theorem C18_T7_disableTrimWhiteSpace_read_only_by_setter : forall f,
  touches_var effects f_greads f "disableTrimWhiteSpace" -> f = "DisableTrimWhiteSpace".
Proof. exact disableTrimWhiteSpace_read_only_by_setter. Qed.
Print Assumptions C18_T7_disableTrimWhiteSpace_read_only_by_setter.

(* the analysis is not vacuous: the documented dependencies are found *)
Theorem C18_T7_documented_reads_present :
  touches_var effects f_greads "NewMapXml" "attrPrefix" /\
  touches_var effects f_greads "NewMapXml" "lowerCase" /\
  touches_var effects f_greads "Map.Xml" "attrPrefix" /\
  touches_var effects f_greads "Map.Xml" "lenAttrPrefix" /\
  touches_var effects f_greads "Map.Xml" "xmlEscapeChars" /\
  touches_var effects f_greads "NewMapXml" "xmlEscapeCharsDecoder" /\
  touches_var effects f_greads "NewMapXml" "trimRunes" /\
  touches_var effects f_greads "Map.ValuesForPath" "fieldSep" /\
  touches_var effects f_greads "Map.ValuesForKey" "defaultArraySize" /\
  touches_var effects f_greads "Map.LeafNodes" "useDotNotation" /\
  touches_var effects f_greads "NewMapJson" "JsonUseNumber".
Proof. exact documented_reads_present. Qed.
Print Assumptions C18_T7_documented_reads_present.

(* ================================================================== *)
(* non-vacuity                                                          *)

Example C18_ex_init_inv : Inv gstate0.
Proof. exact Inv_init. Qed.

Example C18_ex_puncts : puncts = s"!""#$%&'()*+,-./:;<=>?@[" ++ [ascii_of_nat 92] ++ s"]^_`{|}~" /\ length puncts = 32%nat.
Proof. split; reflexivity. Qed.

(* the domain restricts nothing but the key prefix: any attribute prefix, any argument lists *)
Example C18_ex_call_ok :
  call_ok (C_SetAttrPrefix (s"any string, even <&>")) = true /\
  call_ok (C_IncludeTagSeqNum [true; false; true]) = true /\
  call_ok (C_SetFieldSeparator [[]; s"x"]) = true /\
  call_ok (C_SetGlobalKeyMapPrefix (s"$")) = true /\
  call_ok (C_SetGlobalKeyMapPrefix (s"ab")) = false /\
  call_ok (C_SetGlobalKeyMapPrefix []) = false.
Proof. repeat split. Qed.

Example C18_ex_explicit :
  explicit (C_CastValuesToFloat [false]) = true /\ explicit (C_CastValuesToFloat []) = false /\
  explicit (C_SetGlobalKeyMapPrefix (s"_")) = true /\ explicit (C_SetGlobalKeyMapPrefix (s"x")) = false /\
  explicit (C_SetFieldSeparator [s"|"]) = true /\ explicit (C_SetFieldSeparator []) = false.
Proof. repeat split. Qed.

(* a history with toggles, two key prefix changes and the escaping switches in both orders *)
Example C18_ex_history :
  hist_ok sample_history /\ (8 <= length sample_history)%nat /\
  run sample_history gstate0 = Some sample_state /\
  fields sample_state <> fields gstate0 /\
  run restore sample_state = Some gstate0.
Proof.
  exact (conj sample_history_ok (conj sample_history_long
        (conj sample_history_result (conj sample_state_differs sample_restore)))).
Qed.
Print Assumptions C18_ex_history.

Example C18_ex_escaping_interplay :
  (forall st, run (firstn 3 sample_history) gstate0 = Some st -> g_xmlEscapeChars st = true /\ g_xmlEscapeCharsDecoder st = false) /\
  (forall st, run (firstn 4 sample_history) gstate0 = Some st -> g_xmlEscapeChars st = false /\ g_xmlEscapeCharsDecoder st = true) /\
  (forall st, run (firstn 5 sample_history) gstate0 = Some st -> g_xmlEscapeChars st = false /\ g_xmlEscapeCharsDecoder st = true).
Proof. exact sample_escaping. Qed.

(* outside the domain (recorded, not part of the property): emptying the key prefix eats the keys; the
   fifth SetGlobalKeyMapPrefix("") panics on textK[0:1] *)
Example C18_ex_keyprefix_panic_reachable :
  run (repeat (C_SetGlobalKeyMapPrefix []) 4) gstate0 <> None /\
  run (repeat (C_SetGlobalKeyMapPrefix []) 5) gstate0 = None.
Proof. exact keyprefix_panic_reachable. Qed.
Print Assumptions C18_ex_keyprefix_panic_reachable.

(* without the domain restriction idempotence fails: a two-character prefix grows on the second call *)
Example C18_ex_keyprefix_not_idempotent_outside_domain :
  exists st1 st2, apply_call gstate0 (C_SetGlobalKeyMapPrefix (s"ab")) = Some st1 /\
                  apply_call st1 (C_SetGlobalKeyMapPrefix (s"ab")) = Some st2 /\
                  g_textK st1 = s"abtext" /\ g_textK st2 = s"abbtext".
Proof. exact keyprefix_not_idempotent_outside_domain. Qed.
