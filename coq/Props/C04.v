(* C04 - MapSeq round trip preserves order, attributes, comments and instructions.
   Statements only; proofs are in Proofs/C04*.v.
   Models: Model/SeqDec.v (xmlSeqToMapParser over RawToken lists), Model/SeqEnc.v (MapSeq.Xml /
   XmlIndent / mapToXmlSeqIndent / elemListSeq.Less / BeautifyXml); specification: Spec/SeqSpec.v. *)
From Coq Require Import Permutation Sorting.Sorted.
From Mxj Require Import Spec.SeqSpec Proofs.C04Sort Proofs.C04Map Proofs.C04P.

(* The round trip, for every document of the domain in which a text run stands alone in its
   element (no size or depth bound; any interleaving of equally and differently named siblings;
   prefixed names; xmlns attributes; <= 1 comment, directive, PI per element at any position;
   any values when XMLEscapeChars(true) is set, values free of the five specials otherwise):
   NewMapXmlSeq succeeds with m; MapSeq.Xml, MapSeq.XmlIndent and BeautifyXml produce the same items;
   and for EVERY whitespace inserted at element boundaries (every blank prefix / indent) the
   normalised RawToken stream of the output equals the normalised RawToken stream of the document:
   same names (with prefix) in the same order, same attributes in the same order with the same
   values, same text, same comments / directives / PIs in the same positions. *)
Theorem seq_roundtrip_partial :
  forall (pf : str -> option flt) (skip : str -> bool) (esc : bool) (d : node),
    dom04_alone (seq_o esc) d = true ->
    exists m its,
      seq_decode pf skip (seq_o esc) false (rawtoks_of d) TermEOF = Ok m /\
      seq_encode (seq_o esc) m = Ok its /\
      seq_encode_indent (seq_o esc) m = Ok its /\
      beautify_items pf skip (seq_o esc) (rawtoks_of d) TermEOF = Ok its /\
      forall ws, normalize (rawtoks_of_items (insert_ws ws its)) = normalize (map rt_of_tok (rawtoks_of d)).
Proof. exact roundtrip_alone. Qed.
Print Assumptions seq_roundtrip_partial.

(* NOT PROVED: seq_roundtrip, the same statement under [dom04] (text may also PRECEDE the child
   elements, as the property's quantifier allows).  It is FALSE of the faithful model, hence of the
   code: witness below; recorded as finding key=text-before-children-panics. *)
Theorem seq_roundtrip_refuted :
  exists d, dom04 (seq_o true) d = true /\
    exists m, seq_decode (fun _ => None) (fun _ => false) (seq_o true) false (rawtoks_of d) TermEOF = Ok m /\
              seq_encode (seq_o true) m = Panic /\ seq_encode_indent (seq_o true) m = Panic.
Proof. exact roundtrip_refuted. Qed.
Print Assumptions seq_roundtrip_refuted.

(* Key lemma: sort.Sort with elemListSeq.Less returns the entries in increasing sequence-number
   order - the document order - for EVERY order [l] in which the Go map iteration presents them,
   provided the numbers are pairwise distinct (strictly increasing along [e]) and every value is a map. *)
Theorem sort_by_seq_recovers_order :
  forall (A : Type) (o : opts) (val : A -> value) (l e : list A),
    Permutation l e ->
    StronglySorted (fun a b => (seq_num o (val a) < seq_num o (val b))%Z) e ->
    forallb (fun x => is_map (val x)) e = true ->
    seq_sort o val l = Ok e.
Proof. exact (@seq_sort_recovers). Qed.
Print Assumptions sort_by_seq_recovers_order.

Theorem sort_by_seq_order_independent :
  forall (A : Type) (key : A -> Z) (l l' e : list A),
    Permutation l e -> Permutation l' e ->
    StronglySorted (fun a b => (key a < key b)%Z) e ->
    isort key l = isort key l'.
Proof. exact (@isort_perm_invariant). Qed.
Print Assumptions sort_by_seq_order_independent.

(* Attributes come back in their original order with their (escaped) values, whatever the order of
   the "#attr" map the decoder built *)
Theorem attributes_in_original_order :
  forall pf skip (e : bool) (a : list xattr) (m rest : entries),
    nodup_keys (map (fun at_ => xfull (aname at_)) a) = true ->
    Permutation m (seq_attr_entries pf skip (seq_o e) false a) ->
    sattrs (seq_o e) ((attrK (seq_o e), VMap m) :: rest)
    = Ok (true, map (fun at_ => (xfull (aname at_), esc (seq_o e) (avalue at_))) a).
Proof. exact attrs_original_order. Qed.
Print Assumptions attributes_in_original_order.

(* BeautifyXml = XmlIndent after NewMapXmlSeq: the model composition, definitionally *)
Theorem beautify_is_indent_after_decode :
  forall pf skip o ts tm,
    beautify_items pf skip o ts tm = bind (seq_decode pf skip o false ts tm) (seq_encode_indent o).
Proof. intros. reflexivity. Qed.
Print Assumptions beautify_is_indent_after_decode.

(* On the proved sub-domain the decoder's output never makes an encoder panic (for C15);
   outside it, it does: seq_roundtrip_refuted. *)
Theorem seq_encode_no_panic_on_decoded :
  forall pf skip e d,
    dom04_alone (seq_o e) d = true ->
    exists m, seq_decode pf skip (seq_o e) false (rawtoks_of d) TermEOF = Ok m /\
              seq_encode (seq_o e) m <> Panic /\ seq_encode_indent (seq_o e) m <> Panic.
Proof. exact encode_total_alone. Qed.
Print Assumptions seq_encode_no_panic_on_decoded.

(* ---------------- non-vacuity ---------------- *)
(* example_doc (Proofs/C04P.v): prefixed root with an xmlns attribute and values with specials, children
   a, comment, b, PI, a, directive, ns:c - it is in the domain, and these are the bytes the model writes *)
Example c04_example_in_domain : dom04_alone (seq_o true) example_doc = true.
Proof. vm_compute. reflexivity. Qed.

Example c04_example_roundtrip :
  match seq_decode (fun _ => None) (fun _ => false) (seq_o true) false (rawtoks_of example_doc) TermEOF with
  | Ok m => match seq_encode (seq_o true) m with
            | Ok its => semit its
            | _ => []
            end
  | _ => []
  end
  = s "<ns:doc xmlns:ns=""urn:x"" id=""&lt;&amp;&gt;"" ns:k=""it&apos;s""><a>one</a><!-- note --><b z=""1"" a=""2""/><?pi data?><a>a&lt;b</a><!D x><ns:c><a/><b>q&quot;q</b></ns:c></ns:doc>".
Proof. vm_compute. reflexivity. Qed.

(* the sort lemma's hypotheses are met by a shuffled a,b,a with sequence numbers 2,0,1 *)
Example c04_sort_example :
  seq_sort opts0 (fun kv : str * value => snd kv)
    [(s "a", VMap [(s "#seq", VInt 2)]); (s "a", VMap [(s "#seq", VInt 0)]); (s "b", VMap [(s "#seq", VInt 1)])]
  = Ok [(s "a", VMap [(s "#seq", VInt 0)]); (s "b", VMap [(s "#seq", VInt 1)]); (s "a", VMap [(s "#seq", VInt 2)])].
Proof. vm_compute. reflexivity. Qed.

(* the witness of the refutation is the document <a>text<b/></a> *)
Example c04_refutation_witness :
  map rt_of_tok (rawtoks_of witness_text_before_child)
  = [RStart (s "a") []; RChar (s "text"); RStart (s "b") []; REnd (s "b"); REnd (s "a")].
Proof. reflexivity. Qed.
