From Mxj Require Import Run.RunSeq.
Example c04_smoke : mismatches [] = [].
Proof. reflexivity. Qed.
