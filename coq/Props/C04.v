(* C04 - MapSeq round trip preserves order, attributes, comments and instructions.
   Statements only; proofs are in Proofs/C04*.v.
   Models: Model/SeqDec.v (xmlSeqToMapParser over RawToken lists), Model/SeqEnc.v (MapSeq.Xml /
   XmlIndent / mapToXmlSeqIndent / elemListSeq.Less / BeautifyXml); specification: Spec/SeqSpec.v. *)
From Coq Require Import Permutation Sorting.Sorted.
From Mxj Require Import Spec.SeqSpec Proofs.C04Sort Proofs.C04Map Proofs.C04Tok Proofs.C04P
     Proofs.C04Shape Proofs.C04ShapeDec.

(* The round trip, for every document of the property's domain (no size or depth bound; any
   interleaving of equally and differently named siblings; prefixed names; xmlns attributes; <= 1
   comment, directive, PI per element at any position; text alone in its element or before its child
   elements; any values when XMLEscapeChars(true) is set, values free of the five specials otherwise):
   NewMapXmlSeq succeeds with m; MapSeq.Xml, MapSeq.XmlIndent and BeautifyXml produce the same items;
   and for EVERY whitespace inserted at element boundaries (every blank prefix / indent) the
   normalised RawToken stream of the output equals the normalised RawToken stream of the document:
   same names (with prefix) in the same order, same attributes in the same order with the same
   values, same text, same comments / directives / PIs in the same positions. *)
Theorem seq_roundtrip :
  forall (pf : str -> option flt) (skip : str -> bool) (e : bool) (d : node),
    dom04 (seq_o e) d = true ->
    exists m its,
      seq_decode pf skip (seq_o e) false (rawtoks_of d) TermEOF = Ok m /\
      seq_encode (seq_o e) m = Ok its /\
      seq_encode_indent (seq_o e) m = Ok its /\
      beautify_items pf skip (seq_o e) (rawtoks_of d) TermEOF = Ok its /\
      forall ws, normalize (rawtoks_of_items (insert_ws ws its)) = normalize (map rt_of_tok (rawtoks_of d)).
Proof. exact roundtrip_all. Qed.
Print Assumptions seq_roundtrip.

(* NOT PROVED (beyond the property's statement; C16 states determinism): the same conclusion for every
   deep reordering of the entries of m.  What is proved for every order is the step that depends on
   it: sort_by_seq_recovers_order and attributes_in_original_order below; the correspondence run
   presents every MapSeq to the model with shuffled entry lists. *)

(* [rawtoks_of_items] does not merge adjacent character data as the tokenizer does.  The only adjacency
   the encoders produce is a text run followed by the indentation of the first child; under
   [normalize] the merged and the unmerged reading agree: *)
Theorem text_followed_by_indentation_merges :
  forall o v w,
    value_ok o v = true ->
    normalize (rawtoks_of_items [SI (IText (esc o v ++ ws_str w))])
    = normalize (rawtoks_of_items [SI (IText (esc o v)); SI (IText (ws_str w))]).
Proof. exact text_then_ws_merges. Qed.
Print Assumptions text_followed_by_indentation_merges.

(* Key lemma: sort.Sort with elemListSeq.Less returns the entries in increasing sequence-number
   order - the document order - for EVERY order [l] in which the Go map iteration presents them,
   provided the numbers are pairwise distinct (strictly increasing along [e]). *)
Theorem sort_by_seq_recovers_order :
  forall (A : Type) (o : opts) (val : A -> value) (l e : list A),
    Permutation l e ->
    StronglySorted (fun a b => (seq_num o (val a) < seq_num o (val b))%Z) e ->
    seq_sort o val l = Ok e.
Proof. exact (@seq_sort_recovers). Qed.
Print Assumptions sort_by_seq_recovers_order.

Theorem sort_by_seq_order_independent :
  forall (A : Type) (key : A -> Z) (l l' e : list A),
    Permutation l e -> Permutation l' e ->
    StronglySorted (fun a b => (key a < key b)%Z) e ->
    isort key l = isort key l'.
Proof. exact (@isort_perm_invariant). Qed.
Print Assumptions sort_by_seq_order_independent.

(* Attributes come back in their original order with their (escaped) values, whatever the order of
   the "#attr" map the decoder built *)
Theorem attributes_in_original_order :
  forall pf skip (e : bool) (a : list xattr) (m rest : entries),
    nodup_keys (map (fun at_ => xfull (aname at_)) a) = true ->
    Permutation m (seq_attr_entries pf skip (seq_o e) false a) ->
    sattrs (seq_o e) ((attrK (seq_o e), VMap m) :: rest)
    = Ok (true, map (fun at_ => (xfull (aname at_), esc (seq_o e) (avalue at_))) a).
Proof. exact attrs_original_order. Qed.
Print Assumptions attributes_in_original_order.

(* BeautifyXml = XmlIndent after NewMapXmlSeq: the model composition, definitionally *)
Theorem beautify_is_indent_after_decode :
  forall pf skip o ts tm,
    beautify_items pf skip o ts tm = bind (seq_decode pf skip o false ts tm) (seq_encode_indent o).
Proof. intros. reflexivity. Qed.
Print Assumptions beautify_is_indent_after_decode.

(* Shape invariant of the decoder's output (also used by C15).  For EVERY RawToken stream - well
   formed or not, any terminator, any cast flag - whose start-tag names are non-empty and none of the
   generated keys (XML names cannot begin with '#'), a Map returned by NewMapXmlSeq is a singleton
   {key: value} with [seq_shape value key] ... *)
Theorem seq_decode_output_shape :
  forall pf skip (e r : bool) ts tm m,
    forallb (tok_ok e) ts = true ->
    seq_decode pf skip (seq_o e) r ts tm = Ok m ->
    exists k v, m = VMap [(k, v)] /\ str_ok e k = true /\ seq_shape e v k = true.
Proof. exact seq_decode_shape. Qed.
Print Assumptions seq_decode_output_shape.

(* ... the encoder never panics on a value of that shape ... *)
Theorem seq_encode_never_panics_on_shape :
  forall (e : bool) v k, seq_shape e v k = true -> senc (seq_o e) v k <> Panic.
Proof. exact senc_nopanic. Qed.
Print Assumptions seq_encode_never_panics_on_shape.

(* ... hence MapSeq.Xml and MapSeq.XmlIndent never panic on a decoded MapSeq *)
Theorem seq_decoded_never_panics :
  forall pf skip (e r : bool) ts tm m,
    forallb (tok_ok e) ts = true ->
    seq_decode pf skip (seq_o e) r ts tm = Ok m ->
    seq_encode (seq_o e) m <> Panic /\ seq_encode_indent (seq_o e) m <> Panic.
Proof. exact seq_decoded_encodable. Qed.
Print Assumptions seq_decoded_never_panics.

(* ---------------- non-vacuity ---------------- *)
(* example_doc (Proofs/C04P.v): prefixed root with an xmlns attribute and values with specials, children
   a, comment, b, PI, a, directive, ns:c (text before its children) - it is in the domain, and these are the bytes the model writes *)
Example c04_example_in_domain : dom04 (seq_o true) example_doc = true.
Proof. vm_compute. reflexivity. Qed.

Example c04_example_roundtrip :
  match seq_decode (fun _ => None) (fun _ => false) (seq_o true) false (rawtoks_of example_doc) TermEOF with
  | Ok m => match seq_encode (seq_o true) m with
            | Ok its => semit its
            | _ => []
            end
  | _ => []
  end
  = s "<ns:doc xmlns:ns=""urn:x"" id=""&lt;&amp;&gt;"" ns:k=""it&apos;s""><a>one</a><!-- note --><b z=""1"" a=""2""/><?pi data?><a>a&lt;b</a><!D x><ns:c>lead<a/><b>q&quot;q</b></ns:c></ns:doc>".
Proof. vm_compute. reflexivity. Qed.

(* the sort lemma's hypotheses are met by a shuffled a,b,a with sequence numbers 2,0,1 *)
Example c04_sort_example :
  seq_sort opts0 (fun kv : str * value => snd kv)
    [(s "a", VMap [(s "#seq", VInt 2)]); (s "a", VMap [(s "#seq", VInt 0)]); (s "b", VMap [(s "#seq", VInt 1)])]
  = Ok [(s "a", VMap [(s "#seq", VInt 0)]); (s "b", VMap [(s "#seq", VInt 1)]); (s "a", VMap [(s "#seq", VInt 2)])].
Proof. vm_compute. reflexivity. Qed.

(* <a>text<b/></a>, on which the encoders panicked before fix 3cc484a, is in the domain and comes back *)
Example c04_text_before_child :
  dom04 (seq_o true) witness_text_before_child = true /\
  match seq_decode (fun _ => None) (fun _ => false) (seq_o true) false (rawtoks_of witness_text_before_child) TermEOF with
  | Ok m => match seq_encode (seq_o true) m with Ok its => semit its | _ => [] end
  | _ => []
  end = s "<a>text<b/></a>".
Proof. vm_compute. split; reflexivity. Qed.

(* the hypothesis of the shape theorems is met by the example document and by a malformed stream
   (stray end tag after the root, truncated second element) *)
Example c04_tok_ok_example : forallb (tok_ok true) (rawtoks_of example_doc) = true.
Proof. vm_compute. reflexivity. Qed.
Example c04_tok_ok_malformed :
  forallb (tok_ok true) [TStart (xn "a") []; TChar (s "t"); TStart (xn "b") []; TEnd (xn "b"); TEnd (xn "a"); TEnd (xn "x"); TStart (xn "c") []] = true.
Proof. vm_compute. reflexivity. Qed.

(* ---- tie to the CURRENT sources of BeautifyXml and NewMapXmlSeq (xmlseq.go): go2v re-translates them on every run
   (Gen/Pure_gen.v); GenProofs/PureG13.v proves that BeautifyXml is NewMapXmlSeq(doc) followed by MapSeq.XmlIndent(prefix,
   indent) - the composition [beautify_is_indent_after_decode] is stated with - and that NewMapXmlSeq hands the document
   and its single optional cast flag to the sequence parser, for ANY decoder / encoder (tied by the correspondence run). *)
From Mxj Require Import Gen.Setters_gen Gen.PureSupport Gen.Pure_gen GenProofs.PureG5 GenProofs.PureG13.

Theorem C04_beautify_code : forall (NewMapXmlSeq : str -> list bool -> res entries)
    (XmlIndent : entries -> str -> str -> list str -> res str) st doc prefix indent,
  fn_BeautifyXml XmlIndent NewMapXmlSeq st doc prefix indent
  = of_res (bind (NewMapXmlSeq doc []) (fun x => XmlIndent x prefix indent [])).
Proof. exact beautify_code. Qed.
Print Assumptions C04_beautify_code.

Theorem C04_new_map_xml_seq_code : forall (xmlSeqToMap : str -> bool -> res entries) st doc cast,
  fn_NewMapXmlSeq xmlSeqToMap st doc cast = of_res (xmlSeqToMap doc (opt_flag cast)).
Proof. exact new_map_xml_seq_code. Qed.
Print Assumptions C04_new_map_xml_seq_code.

(* ---- tie to the CURRENT source of xmlSeqToMapParser (xmlseq.go:220-437), the core of NewMapXmlSeq: go2v re-translates
   the function statement by statement on every run (Gen/Pure_gen.v: snake-casing, the #attr map with #text / #seq per
   attribute, the XMPP early return, the RawToken loop with all six token cases, recursion, #seq injection, list building,
   the end-tag name check, the NoRoot returns); GenProofs/PureG15.v proves the translation - with the TRANSLATED cast and
   escapeChars plugged in - equal to the model [seq_decode_rest] the theorems above are stated with, on EVERY token list
   (no side condition), and that it never panics in any package state. *)
From Mxj Require Import Gen.Setters_gen Gen.PureSupport Gen.Pure_gen GenProofs.PureG GenProofs.PureG15.

Theorem C04_seq_parser_code_is_model : forall pf callskip o r st ts tm,
  seq_view st o -> cast_view st o ->
  sq_abs (fn_xmlSeqToMapParser (PureG15.run_cast pf callskip st) (PureG15.run_escapeChars st) (S (length ts)) st [] [] (ts, tm) r)
  = seq_decode_rest pf (skip_of st callskip) o r ts tm.
Proof. exact seq_parser_code_abs_translated. Qed.
Print Assumptions C04_seq_parser_code_is_model.

Theorem C04_seq_parser_code_eq : forall pf callskip o r st ts tm,
  seq_view st o -> cast_view st o ->
  fn_xmlSeqToMapParser (PureG15.run_cast pf callskip st) (PureG15.run_escapeChars st) (S (length ts)) st [] [] (ts, tm) r
  = sq_ret tm (seq_decode_rest pf (skip_of st callskip) o r ts tm) (seq_decode_err pf (skip_of st callskip) o r ts tm).
Proof. exact seq_parser_code_eq_translated. Qed.
Print Assumptions C04_seq_parser_code_eq.

Theorem C04_seq_parser_code_no_panic : forall pf callskip r st name a ts tm f, length ts < f ->
  fn_xmlSeqToMapParser (PureG15.run_cast pf callskip st) (PureG15.run_escapeChars st) f st name a (ts, tm) r <> Crash.
Proof. exact seq_parser_code_no_panic. Qed.
Print Assumptions C04_seq_parser_code_no_panic.

(* ---- tie to the CURRENT source of mapToXmlSeqIndent (xmlseq.go:609-905), the encoder behind MapSeq.Xml / XmlIndent /
   BeautifyXml: go2v re-translates the function on every run (Gen/Pure_gen.v, join mode; the strings.Builder as the bytes
   written, the pretty struct as five threaded fields, sort.Sort as an insertion sort over the TRANSLATED elemListSeq.Less);
   GenProofs/PureG17.v (helper H9) proves that in compact mode (doIndent = false) it writes exactly the bytes [semit] of
   the model items [senc] the theorems above are stated with - for every value whose #text members are scalars (text_ok:
   the %v text of a map or list is modelled by neither side; the refutation without it is kept) - and returns an error
   where the model does (for values without uint64 / json.Number, which go to xml.Marshal: outside the model). *)
From Mxj Require Import Gen.Setters_gen Gen.PureSupport Gen.Pure_gen GenProofs.PureG3 GenProofs.PureG15 GenProofs.PureG17.

Theorem C04_seq_encoder_code_is_model : forall o st ind outd mar mari,
  senc_view st o ->
  forall f v sb key i c p d e its, vd v < f -> text_ok o v = true ->
  senc o v key = Ok its ->
  fn_mapToXmlSeqIndent (PureG15.run_escapeChars st) ind outd (run_sort st) mar mari f st false sb key v i c p d e
  = Ret (None, (sb ++ semit its, i, c, p, d, e)).
Proof. exact senc_code_is_model_translated. Qed.
Print Assumptions C04_seq_encoder_code_is_model.

Theorem C04_seq_encoder_code_error : forall o st ind outd mar mari,
  senc_view st o ->
  forall f v sb key i c p d e e0, vd v < f -> text_ok o v = true -> no_marshal v = true ->
  senc o v key = Err e0 ->
  exists sb', fn_mapToXmlSeqIndent (PureG15.run_escapeChars st) ind outd (run_sort st) mar mari f st false sb key v i c p d e
              = Ret (Some EOther, (sb', i, c, p, d, e)).
Proof. exact senc_code_error_translated. Qed.
Print Assumptions C04_seq_encoder_code_error.

Theorem C04_seq_less_code_is_model : forall o st e i j ei ej, seqK o = g_seqK st ->
  (0 <= i)%Z -> (0 <= j)%Z -> nth_error e (Z.to_nat i) = Some ei -> nth_error e (Z.to_nat j) = Some ej ->
  fn_elemListSeq_Less st e i j = Ret (Z.leb (seq_num o (keyval_v ei)) (seq_num o (keyval_v ej))).
Proof. exact less_code_is_model. Qed.
Print Assumptions C04_seq_less_code_is_model.

(* ---- the entry point MapSeq.Xml (xmlseq.go), translated from the current sources, with the translated sequence encoder: in
   compact mode exactly the bytes of the model [seq_xml_items] (GenProofs/PureG25.v, PureG26.v) *)
From Mxj Require Import Spec.JsonRT GenProofs.PureG17 GenProofs.PureG25 GenProofs.PureG26.

Theorem C04_mapseq_xml_code_is_model : forall o st, senc_view st o ->
  forall ind outd mar mari dec f m rt, vd (VMap m) < f -> text_ok o (VMap m) = true ->
  forall its, seq_xml_items o m (rt_opt rt) = Ok its ->
  fn_MapSeq_Xml (run_ms ind outd mar mari st f) dec st m rt =
    if g_xmlCheckIsValid st && negb (acceptb dec (semit its)) then Ret ([], Some EOther) else Ret (semit its, None).
Proof. exact mapseq_xml_code_is_model. Qed.
Print Assumptions C04_mapseq_xml_code_is_model.

Theorem C04_mapseq_xmlindent_is_root_sel : forall nmx (ext : enc_fn) dec st m prefix indent rt,
  fn_MapSeq_XmlIndent nmx ext dec st m prefix indent rt =
  finish_nmx nmx st dec (ext true [] (fst (root_sel_indent m rt)) (snd (root_sel_indent m rt)) indent 0%Z prefix 0%Z 0%Z).
Proof. exact mapseq_xmlindent_is_root_sel. Qed.
Print Assumptions C04_mapseq_xmlindent_is_root_sel.

(* ---- the sequence encoder in INDENTED mode (doIndent = true), translated from the current sources with the translated
   pretty.Indent / Outdent, escapeChars and Less: the items of the compact mode, each written as in compact mode, with only pads
   (newlines, the prefix followed by copies of the indent) before them - in the gap form seq_roundtrip quantifies over when prefix
   and indent are blanks; an error where the model errs, a panic exactly where the model panics (GenProofs/PureG31.v) *)
From Mxj Require GenProofs.PureG28 GenProofs.PureG31.

Theorem C04_senc_indent_code_is_model : forall o st mar mari,
  senc_view st o ->
  forall prefix indent m t i c p m' t', PureG28.pp_reach st prefix indent m t (i, c, p, m', t') ->
  forall f v sb key, vd v < f -> text_ok o v = true ->
  (forall its, senc o v key = Ok its ->
     exists out,
       fn_mapToXmlSeqIndent (PureG15.run_escapeChars st) (PureG28.run_Indent st) (PureG28.run_Outdent st) (run_sort st) mar mari f st true sb key v i c p m' t' =
       Ret (None, (sb ++ out, i, c, p, m', t')) /\
       PureG31.spadded prefix indent its out) /\
  (forall e0, senc o v key = Err e0 -> no_marshal v = true ->
     exists sb',
       fn_mapToXmlSeqIndent (PureG15.run_escapeChars st) (PureG28.run_Indent st) (PureG28.run_Outdent st) (run_sort st) mar mari f st true sb key v i c p m' t' =
       Ret (Some EOther, (sb', i, c, p, m', t'))) /\
  (senc o v key = Panic ->
     fn_mapToXmlSeqIndent (PureG15.run_escapeChars st) (PureG28.run_Indent st) (PureG28.run_Outdent st) (run_sort st) mar mari f st true sb key v i c p m' t' = Crash).
Proof. exact PureG31.senc_indent_code_is_model_translated. Qed.
Print Assumptions C04_senc_indent_code_is_model.

Theorem C04_senc_indent_code_insert_ws : forall o st mar mari,
  senc_view st o ->
  forall lp li m t i c p m' t', PureG28.pp_reach st (SeqSpec.ws_str lp) (SeqSpec.ws_str li) m t (i, c, p, m', t') ->
  forall f v sb key its, vd v < f -> text_ok o v = true -> senc o v key = Ok its ->
  exists ws,
    fn_mapToXmlSeqIndent (PureG15.run_escapeChars st) (PureG28.run_Indent st) (PureG28.run_Outdent st) (run_sort st) mar mari f st true sb key v i c p m' t' =
    Ret (None, (sb ++ semit (SeqSpec.insert_ws ws its), i, c, p, m', t')).
Proof. exact PureG31.senc_indent_code_insert_ws. Qed.
Print Assumptions C04_senc_indent_code_insert_ws.

(* ---- the glue between NewMapXmlSeq / NewMapFormattedXmlSeq and the sequence parser, translated from the current xmlseq.go
   (GenProofs/PureG39.v): no side condition on the tokens; re stands for package regexp's ReplaceAll, applied to the pattern's
   source text. *)
From Mxj Require GenProofs.PureG39.

Theorem C04_xml_seq_to_map_code_is_model : forall pf callskip o newdec usecd setcr st doc r,
  PureG15.seq_view st o -> PureG.cast_view st o ->
  fn_xmlSeqToMap usecd (PureG39.run_xmlSeqToMapParser pf callskip st) newdec setcr st doc r
  = PureG5.of_res (PureG39.seq_decode_entries pf (PureG.skip_of st callskip) o r (PureG39.configured_decoder newdec usecd setcr st doc)).
Proof. exact PureG39.xml_seq_to_map_code_is_model. Qed.
Print Assumptions C04_xml_seq_to_map_code_is_model.

Theorem C04_new_map_xml_seq_code_is_model : forall pf callskip o newdec usecd setcr st doc cast,
  PureG15.seq_view st o -> PureG.cast_view st o ->
  fn_NewMapXmlSeq (PureG39.run_xmlSeqToMap pf callskip newdec usecd setcr st) st doc cast
  = PureG5.of_res (PureG39.seq_decode_entries pf (PureG.skip_of st callskip) o (PureG13.opt_flag cast)
                     (PureG39.configured_decoder newdec usecd setcr st doc)).
Proof. exact PureG39.new_map_xml_seq_code_is_model. Qed.
Print Assumptions C04_new_map_xml_seq_code_is_model.

Theorem C04_new_map_formatted_xml_seq_code : forall (re : str -> str -> str -> str) (xmlSeqToMap : str -> bool -> res entries) st doc cast,
  fn_NewMapFormattedXmlSeq re xmlSeqToMap st doc cast
  = PureG5.of_res (xmlSeqToMap (re (s">[\n\t\r ]*<") doc (s"><")) (PureG13.opt_flag cast)).
Proof. exact PureG39.new_map_formatted_xml_seq_code. Qed.
Print Assumptions C04_new_map_formatted_xml_seq_code.

Theorem C04_new_map_formatted_xml_seq_code_is_model : forall pf callskip o re newdec usecd setcr st doc cast,
  PureG15.seq_view st o -> PureG.cast_view st o ->
  fn_NewMapFormattedXmlSeq re (PureG39.run_xmlSeqToMap pf callskip newdec usecd setcr st) st doc cast
  = PureG5.of_res (PureG39.seq_decode_entries pf (PureG.skip_of st callskip) o (PureG13.opt_flag cast)
              (PureG39.configured_decoder newdec usecd setcr st (re (s">[\n\t\r ]*<") doc (s"><")))).
Proof. exact PureG39.new_map_formatted_xml_seq_code_is_model. Qed.
Print Assumptions C04_new_map_formatted_xml_seq_code_is_model.

Theorem C04_seq_decode_entries_is_seq_decode : forall pf skip o r p,
  seq_decode pf skip o r (fst p) (snd p)
  = match PureG39.seq_decode_entries pf skip o r p with Ok m => Ok (VMap m) | Err e => Err e | Panic => Panic end.
Proof. exact PureG39.seq_decode_entries_value. Qed.
Print Assumptions C04_seq_decode_entries_is_seq_decode.
