(* C07 - ValuesForPath returns exactly the values a dot/wildcard/indexed path denotes.
   Only statements here; proofs are in Proofs/C07P.v.  The model functions
   (Model/KeyValues.v) are tied to /repo by the correspondence check. *)
From Mxj Require Import Model.KeyValues Spec.PathSem Proofs.C07P.

(* plain keys and wildcards: every Map (any shape, nested lists included), every path string without '[' *)
Theorem C07_plain_wildcard : forall pf sep m path,
  mem_ascii lbr path = false ->
  values_for_path pf sep m path [] = Ok (eval (path_keys path) m).
Proof. exact values_for_path_plain. Qed.
Print Assumptions C07_plain_wildcard.

(* the walker itself, on key lists: valuesForKeyPath = eval *)
Theorem C07_walker_eval : forall ks m, vfkp ks [] m = eval ks m.
Proof. exact vfkp_eval. Qed.
Print Assumptions C07_walker_eval.

(* indexed paths: the loop of valuesForArray (tmppath, look-ahead, index
   selection, continuation from the selected map, stale vals) computes the
   compositional meaning evalx of the segmented key list, whatever pending
   prefix and whatever stale vals it is entered with *)
Theorem C07_array_loop : forall keys m pre vals,
  keys <> [] -> Forall good_key keys -> Forall good_name pre ->
  (pre <> [] -> head_plain keys) ->
  vfa keys m (tmp_of pre) vals = let '(sg, tl) := segment keys pre in evalx sg tl m.
Proof. exact vfa_evalx. Qed.
Print Assumptions C07_array_loop.

(* ... and from the path string: any path with '[' that parsePath accepts, with non-empty step names *)
Theorem C07_indexed : forall pf sep m path ks,
  mem_ascii lbr path = true ->
  parse_path path = Ok ks -> ks <> [] -> Forall (fun k => pk_name k <> []) ks ->
  values_for_path pf sep m path [] = Ok (denote_keys ks m).
Proof. exact values_for_path_indexed. Qed.
Print Assumptions C07_indexed.

(* ValueForPath is the first value; Exists is non-emptiness - for every path and Map *)
Theorem C07_value_for_path_first : forall pf sep m path,
  value_for_path pf sep m path =
  match values_for_path pf sep m path [] with
  | Ok (v :: _) => Ok v | Ok [] => Err EOther | Err e => Err e | Panic => Panic
  end.
Proof. exact value_for_path_first. Qed.
Print Assumptions C07_value_for_path_first.

Theorem C07_exists_nonempty : forall pf sep m path sk,
  exists_path pf sep m path sk =
  match values_for_path pf sep m path sk with
  | Ok vs => Ok (negb (Nat.eqb (length vs) 0)) | Err e => Err e | Panic => Panic
  end.
Proof. exact exists_nonempty. Qed.
Print Assumptions C07_exists_nonempty.

(* totality (also C15): no path / sub-key strings make ValuesForPath panic *)
Theorem C07_no_panic : forall pf sep m path sk, values_for_path pf sep m path sk <> Panic.
Proof. exact values_for_path_no_panic. Qed.
Print Assumptions C07_no_panic.

(* ---- non-vacuity: a concrete Map and path meeting every hypothesis; the
   path that the pinned tree answered with three values denotes exactly one ---- *)
Local Open Scope string_scope.
Definition ex_m : value :=
  VMap [(s"doc", VMap [(s"items", VList [
     VMap [(s"sub", VMap [(s"list", VList [VStr (s"a")])])];
     VMap [(s"sub", VMap [(s"list", VList [VStr (s"c"); VStr (s"d")])])]])])].
Definition ex_path : str := s"doc.items[1].sub.list[0]".
Example C07_nonvacuous :
  mem_ascii lbr ex_path = true /\
  (exists ks, parse_path ex_path = Ok ks /\ ks <> [] /\ Forall (fun k => pk_name k <> []) ks /\
              denote_keys ks ex_m = [VStr (s"c")]) /\
  values_for_path (fun _ => None) (s":") ex_m ex_path [] = Ok [VStr (s"c")].
Proof.
  split; [reflexivity|]. split; [|vm_compute; reflexivity].
  eexists. split; [vm_compute; reflexivity|]. split; [discriminate|]. split; [|vm_compute; reflexivity].
  repeat constructor; discriminate.
Qed.

(* ================================================================== tie to the code (regenerated on every run)
   Gen/Pure_gen.v is go2v's statement-by-statement translation of func parsePath in /repo's CURRENT keyvalues.go
   (Crash = a run-time panic: the index expressions p[0], p[1] of the Go code).  It IS the model's [parse_path],
   for every path string; in particular the translated code never panics. *)
From Mxj Require Import Gen.Setters_gen Gen.PureSupport Gen.Pure_gen GenProofs.PureG2.

Theorem C07_parse_path_code_is_model : forall st path,
  fn_parsePath st path =
    match parse_path path with Ok ks => Ret (Ok (map to_key ks)) | Err e => Ret (Err e) | Panic => Crash end.
Proof. exact parse_path_code_is_model. Qed.
Print Assumptions C07_parse_path_code_is_model.

Theorem C07_parse_path_code_no_panic : forall st path, fn_parsePath st path <> Crash.
Proof. exact parse_path_code_no_panic. Qed.
Print Assumptions C07_parse_path_code_no_panic.

Example C07_parse_path_code_nonvacuous :
  fn_parsePath gstate0 (s "doc.items[1].sub..list[0]") =
    Ret (Ok [mk_key (s "doc") false 0; mk_key (s "items") true 1; mk_key (s "sub") false 0; mk_key (s "list") true 0]) /\
  fn_parsePath gstate0 (s "a[-1]") = Ret (Err EOther) /\ fn_parsePath gstate0 (s "a[") = Ret (Err EOther) /\
  fn_parsePath gstate0 (s "k][1]") = Ret (Ok [mk_key (s "k]") true 1]).
Proof. vm_compute. repeat split. Qed.

(* the recursive walker itself: go2v's translation of func valuesForKeyPath (recursion on explicit fuel; the
   out-parameters ret / cnt threaded as state; hasSubKeys an external call, instantiated with the model function that
   GenProofs/PureG2.v proves equal to the translated hasSubKeys) IS the model walker [vfkp], for every fuel above the
   length of the key list: the values are appended to ret in the model's order and cnt grows by their number *)
From Mxj Require Import GenProofs.PureG3.

Theorem C07_walker_code_is_model : forall keys fuel st ret cnt m sk,
  length keys < fuel ->
  fn_valuesForKeyPath has_sub_keys fuel st ret cnt m keys sk
  = Ret (ret ++ vfkp keys sk m, (cnt + Z.of_nat (length (vfkp keys sk m)))%Z).
Proof. exact vfkp_code_is_model. Qed.
Print Assumptions C07_walker_code_is_model.

(* with C07_walker_eval: the translated code computes the declarative path semantics *)
Corollary C07_walker_code_eval : forall ks fuel st m,
  length ks < fuel ->
  fn_valuesForKeyPath has_sub_keys fuel st [] 0 m ks [] = Ret (eval ks m, Z.of_nat (length (eval ks m))).
Proof. intros ks fuel st m H. rewrite vfkp_code_is_model by exact H. rewrite C07_walker_eval. reflexivity. Qed.
Print Assumptions C07_walker_code_eval.

Example C07_walker_code_nonvacuous :
  fn_valuesForKeyPath has_sub_keys 5 gstate0 [] 0
    (VMap [(s "doc", VMap [(s "items", VList [VMap [(s "k", VStr (s "1"))]; VStr (s "x"); VMap [(s "k", VList [VStr (s "2"); VStr (s "3")])]])])])
    [s "doc"; s "items"; s "k"] []
  = Ret ([VStr (s "1"); VStr (s "2"); VStr (s "3")], 3%Z).
Proof. vm_compute. reflexivity. Qed.

(* the EXPORTED entry points: go2v's translations of Map.ValuesForPath and Map.oldValuesForPath, with every function they
   call instantiated by the translated callee itself (getSubKeyMap, hasSubKeys, parsePath, valuesForKeyPath run with enough
   fuel; only the indexed-path loop valuesForArray is the hand-written model), ARE the model's values_for_path /
   old_values_for_path: same values in the same order, same error class, and a panic of the code exactly where the model
   says Panic (nowhere: C07_no_panic) *)
From Mxj Require Import GenProofs.PureG5.

Theorem C07_values_for_path_code_is_model : forall pf st m path subkeys,
  g_fieldSep st <> [] ->
  fn_ValuesForPath (run_oldValuesForPath pf st) (run_getSubKeyMap pf st) (run_hasSubKeys st) (run_parsePath st) model_valuesForArray
    st m path subkeys
  = of_res (values_for_path pf (g_fieldSep st) (VMap m) path subkeys).
Proof. exact values_for_path_code_is_model. Qed.
Print Assumptions C07_values_for_path_code_is_model.

Theorem C07_old_values_for_path_code_is_model : forall pf st m path subkeys,
  g_fieldSep st <> [] ->
  fn_oldValuesForPath (run_getSubKeyMap pf st) (run_valuesForKeyPath st) st m path subkeys
  = of_res (old_values_for_path pf (g_fieldSep st) (VMap m) path subkeys).
Proof. exact old_values_for_path_code_is_model. Qed.
Print Assumptions C07_old_values_for_path_code_is_model.

Example C07_entry_code_nonvacuous :
  g_fieldSep gstate0 <> [] /\
  fn_ValuesForPath (run_oldValuesForPath (fun x => Some x) gstate0) (run_getSubKeyMap (fun x => Some x) gstate0) (run_hasSubKeys gstate0)
    (run_parsePath gstate0) model_valuesForArray gstate0
    [(s "doc", VMap [(s "items", VList [VMap [(s "k", VStr (s "1")); (s "t", VStr (s "a"))]; VMap [(s "k", VStr (s "2")); (s "t", VStr (s "b"))]])])]
    (s "doc.items.k") [] = Ret (Ok [VStr (s "1"); VStr (s "2")]) /\
  fn_ValuesForPath (run_oldValuesForPath (fun x => Some x) gstate0) (run_getSubKeyMap (fun x => Some x) gstate0) (run_hasSubKeys gstate0)
    (run_parsePath gstate0) model_valuesForArray gstate0
    [(s "doc", VMap [(s "items", VList [VMap [(s "k", VStr (s "1")); (s "t", VStr (s "a"))]; VMap [(s "k", VStr (s "2")); (s "t", VStr (s "b"))]])])]
    (s "doc.items[1]") [s "t:b"] = Ret (Ok [VMap [(s "k", VStr (s "2")); (s "t", VStr (s "b"))]]).
Proof. split; [discriminate|split; vm_compute; reflexivity]. Qed.

(* ---- the wrappers of ValuesForPath (exists.go, keyvalues.go), translated from the current sources and instantiated
   with the translated ValuesForPath (GenProofs/PureG7.v) *)
From Mxj Require Import GenProofs.PureG7.

Theorem C07_exists_code_is_model : forall pf st m path subkeys, g_fieldSep st <> [] ->
  fn_Exists (run_ValuesForPath pf st) st m path subkeys
  = of_res (exists_path pf (g_fieldSep st) (VMap m) path subkeys).
Proof. exact exists_code_is_model. Qed.
Print Assumptions C07_exists_code_is_model.

Theorem C07_value_for_path_code_is_model : forall pf st m path, g_fieldSep st <> [] ->
  fn_ValueForPath (run_ValuesForPath pf st) st m path
  = of_res (value_for_path pf (g_fieldSep st) (VMap m) path).
Proof. exact value_for_path_code_is_model. Qed.
Print Assumptions C07_value_for_path_code_is_model.

(* ---- the indexed-path loop valuesForArray (keyvalues.go:203-290: counting loop, look-ahead, recursion into the members
   of an unindexed list, index selection), translated from the current sources and instantiated with the translated
   oldValuesForPath, IS the model [values_for_array] (GenProofs/PureG9.v), for keys with non-negative positions - which
   is what parsePath produces (parse_path_nonneg); for a negative position the translated code panics on the slice
   expression while the model's nth_z reads member 0 (C07_values_for_array_negative_position_refuted): such a key list
   cannot reach valuesForArray.  With it, EVERY function below Map.ValuesForPath is translated code: *)
From Mxj Require Import GenProofs.PureG9.

Theorem C07_values_for_array_code_is_model : forall pf st ks m fuel,
  g_fieldSep st <> [] -> length ks < fuel -> Forall nonneg_pkey ks ->
  fn_valuesForArray (run_oldValuesForPath pf st) fuel st (map to_key ks) m = Ret (Ok (values_for_array ks (VMap m))).
Proof. exact vfa_code_is_model_translated. Qed.
Print Assumptions C07_values_for_array_code_is_model.

Theorem C07_parse_path_positions_nonneg : forall path ks, parse_path path = Ok ks -> Forall nonneg_pkey ks.
Proof. exact parse_path_nonneg. Qed.
Print Assumptions C07_parse_path_positions_nonneg.

Theorem C07_values_for_array_negative_position_refuted :
  exists pf st ks m fuel, length ks < fuel /\
    fn_valuesForArray (fun m path sk => old_values_for_path pf (g_fieldSep st) (VMap m) path sk) fuel st (map to_key ks) m
    <> Ret (Ok (values_for_array ks (VMap m))).
Proof. exact vfa_code_is_model_negative_position_refuted. Qed.
Print Assumptions C07_values_for_array_negative_position_refuted.

Theorem C07_values_for_path_code_is_model_full : forall pf st m path subkeys,
  g_fieldSep st <> [] ->
  fn_ValuesForPath (run_oldValuesForPath pf st) (run_getSubKeyMap pf st) (run_hasSubKeys st) (run_parsePath st)
    (run_valuesForArray pf st) st m path subkeys
  = of_res (values_for_path pf (g_fieldSep st) (VMap m) path subkeys).
Proof. exact values_for_path_code_is_model_full. Qed.
Print Assumptions C07_values_for_path_code_is_model_full.

(* ---- the string forms of ValueForPath, translated from the current keyvalues.go (GenProofs/PureG39.v): the same error as
   ValueForPath, and for a scalar first value its %v text *)
From Mxj Require GenProofs.PureG39.

Theorem C07_value_for_path_string_code_is_model : forall pf st m path, g_fieldSep st <> [] ->
  match value_for_path pf (g_fieldSep st) (VMap m) path with
  | Ok v => PureG39.is_scalar v = true -> fn_ValueForPathString (run_ValuesForPath pf st) st m path = Ret (Ok (Fmt.fmt_v v))
  | Err e => fn_ValueForPathString (run_ValuesForPath pf st) st m path = Ret (Err e)
  | Panic => fn_ValueForPathString (run_ValuesForPath pf st) st m path = Crash
  end.
Proof. exact PureG39.value_for_path_string_code_is_model. Qed.
Print Assumptions C07_value_for_path_string_code_is_model.

Theorem C07_value_or_empty_for_path_string_code_is_model : forall pf st m path, g_fieldSep st <> [] ->
  match value_for_path pf (g_fieldSep st) (VMap m) path with
  | Ok v => PureG39.is_scalar v = true -> fn_ValueOrEmptyForPathString (PureG39.run_ValueForPathString pf st) st m path = Ret (Fmt.fmt_v v)
  | Err e => fn_ValueOrEmptyForPathString (PureG39.run_ValueForPathString pf st) st m path = Ret []
  | Panic => fn_ValueOrEmptyForPathString (PureG39.run_ValueForPathString pf st) st m path = Crash
  end.
Proof. exact PureG39.value_or_empty_for_path_string_code_is_model. Qed.
Print Assumptions C07_value_or_empty_for_path_string_code_is_model.
