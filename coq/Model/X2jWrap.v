(* Model of the RE-IMPLEMENTED walkers of /repo/x2j-wrapper (package x2j):
     x2j_findPath.go   hasKeyPath, PathsForKey, PathForKeyShortest
     x2j.go            hasKey, ValuesForKey
     x2j_valuesFrom.go valuesFromKeyPath, ValuesFromKeyPath
     x2j_valuesAt.go   ValuesAtKeyPath
   and hand transcriptions of the thin wrapper bodies of j2x, x2j and
   x2j-wrapper over an abstract codec environment (section Thin).
   Executable transcriptions mirroring the Go control flow; NO proofs here.

   Conventions (as in Model/KeyValues.v): a Go map is an association list whose
   order stands for the hash-iteration order of the run; a result slice that is
   returned as nil when empty is modelled by the empty list; the basket
   (map[string]bool) is the list of distinct crumbs.
   The model follows the repaired code (/repo 5ff47ea, 6251df7, 3b36840, a59bf47). *)
From Mxj Require Export Model.TreeOps.

(* ================= x2j_findPath.go =================
   func hasKeyPath(crumb string, iv interface{}, key string, basket *map[string]bool)
   (fix 5ff47ea: the hit gets a breadcrumb of its own, `hit`; the parameter `crumb`
   is no longer assigned and the children's crumbs are built from it) *)
Fixpoint xw_has_key_path (crumb0 : str) (iv : value) (key : str) : list str :=
  match iv with
  | VMap vv =>
      (if has_key key vv then [crumb crumb0 key] else [])                  (* hit *)
      ++ flat_map (fun kv => xw_has_key_path (crumb crumb0 (fst kv)) (snd kv) key) vv
  | VList l => flat_map (fun v => xw_has_key_path crumb0 v key) l    (* crumb-trail doesn't change *)
  | _ => []
  end.

(* func PathsForKey(m map[string]interface{}, key string) []string : the keys of the basket *)
Definition xw_paths_for_key (m : value) (key : str) : list str := dedup (xw_has_key_path [] m key).

(* func PathForKeyShortest: the loop over paths[1:] with (shortest, shortestLen) *)
Fixpoint xw_shortest_loop (shortest : str) (shortestLen : nat) (paths : list str) : str :=
  match paths with
  | [] => shortest
  | p :: t => let vlen := path_len p in
              if vlen <? shortestLen then xw_shortest_loop p vlen t
              else xw_shortest_loop shortest shortestLen t
  end.
Definition xw_shortest_of (paths : list str) : str :=
  match paths with
  | [] => []                       (* lp == 0 *)
  | [p] => p                       (* lp == 1 *)
  | p :: t => xw_shortest_loop p (path_len p) t
  end.
Definition xw_path_for_key_shortest (m : value) (key : str) : str :=
  xw_shortest_of (xw_paths_for_key m key).

(* keyvalues.go (core) Map.PathForKeyShortest is the same loop over Map.PathsForKey; Model/KeyValues.v has
   only the path set, so the core function is written here for the thin wrappers that call it *)
Definition path_for_key_shortest (m : value) (key : str) : str := xw_shortest_of (paths_for_key m key).

(* ================= x2j.go: hasKey / ValuesForKey =================
   the stored value itself is appended (a stored list is NOT expanded), "*" is
   an ordinary key, then every entry is scanned *)
Fixpoint xw_has_key (iv : value) (key : str) : list value :=
  match iv with
  | VMap vv =>
      (match lookup key vv with Some v => [v] | None => [] end)
      ++ flat_map (fun kv => xw_has_key (snd kv) key) vv
  | VList l => flat_map (fun v => xw_has_key v key) l
  | _ => []
  end.
Definition xw_values_for_key (m : value) (key : str) : list value := xw_has_key m key.

(* ================= x2j_valuesFrom.go ================= *)
Definition hyphen : ascii := "-"%char.
(* strings.HasPrefix(k, "-") && !getAttrs   (fix 3b36840: was string(k[:1]) == "-", a panic for the empty key) *)
Definition xw_skip_attr (k : str) (getAttrs : bool) : bool := prefixb [hyphen] k && negb getAttrs.

Fixpoint xw_vfkp (keys : list str) (getAttrs : bool) (m : value) : list value :=
  match keys with
  | [] => match m with VList l => l | _ => [m] end
  | key :: rest =>
      let entry (kv : str * value) : list value :=
        if xw_skip_attr (fst kv) getAttrs then [] else xw_vfkp rest getAttrs (snd kv) in
      if str_eqb key star then
        match m with
        | VMap mm => flat_map entry mm
        | VList l => flat_map (fun v => match v with
                                        | VMap mm => flat_map entry mm
                                        | _ => xw_vfkp rest getAttrs v
                                        end) l
        | _ => []
        end
      else
        match m with
        | VMap mm => match lookup key mm with Some v => xw_vfkp rest getAttrs v | None => [] end
        | VList l => flat_map (fun v => match v with
                                        | VMap mm => match lookup key mm with
                                                     | Some vv => xw_vfkp rest getAttrs vv
                                                     | None => []
                                                     end
                                        | _ => []
                                        end) l
        | _ => []
        end
  end.

(* func ValuesFromKeyPath(m, path, getAttrs...) : keys := strings.Split(path, ".") -- no trailing
   empty segment is dropped, no '[' notation; a nil result is the empty list *)
Definition xw_values_from (m : value) (path : str) (getAttrs : bool) : list value :=
  xw_vfkp (split1 dot path) getAttrs m.

(* ================= x2j_valuesAt.go ================= *)
Definition xw_map_has (key : str) (v : value) : bool :=
  match v with VMap mm => has_key key mm | _ => false end.
Definition xw_values_at (m : value) (path : str) (getAttrs : bool) : list value :=
  let keys := split1 dot path in
  let key := last keys [] in                                  (* keys[lenKeys-1] *)
  let ret := match keys with
             | _ :: _ :: _ => xw_vfkp (removelast keys) getAttrs m   (* lenKeys > 1 *)
             | _ => [m]
             end in
  match ret with
  | [] => []                                                  (* len(ret) == 0 => nil *)
  | _ => if str_eqb key star then ret
         else if existsb (xw_map_has key) ret then ret else []
  end.

(* ================= x2j-wrapper/xml.go =================
   func CastNanInf(b bool) { mxj.CastNanInf(b) }   (fix a59bf47: the private variable is gone)
   The flag state is mxj's package variable, which every decoder entry point reads. *)
Record nanst := { core_castNanInf : bool }.
Definition xw_CastNanInf (b : bool) (st : nanst) : nanst := {| core_castNanInf := b |}.
Definition decoder_castNanInf (st : nanst) : bool := core_castNanInf st.

(* ================= thin wrapper bodies =================
   Hand transcription of the bodies of the exported functions of j2x, x2j and
   x2j-wrapper that only sequence core calls and error tests.  The codec (the
   XML / JSON decoders and encoders, readers and writers) is the environment:
   section variables.  A reader is the byte string still to be read; reading
   returns the result and the rest.  A writer is modelled by the bytes written.

   (* Wrappers_gen *)  THIS SECTION IS THE PLACE OF Gen/Wrappers_gen.v: once the
   source-to-Gallina translator covers these bodies, the definitions below are
   replaced by `From Mxj Require Import Gen.Wrappers_gen.` and the theorems of
   Proofs/C20P.v (section Thin) are re-checked against the regenerated text. *)
Section Thin.
Variable pf : str -> option flt.
Variable fieldSep : str.
Variables attrPrefix textKey : str.
Variable dotn : bool.
(* core codec *)
Variable NewMapXml : str -> bool -> res value.                 (* NewMapXml(doc, cast) *)
Variable NewMapJson : str -> res value.
Variable NewMapXmlReader : str -> bool -> res value * str.     (* (Map, err), rest of the stream *)
Variable NewMapXmlReaderRaw : str -> res (value * str) * str.  (* (Map, raw, err) *)
Variable NewMapJsonReader : str -> res value * str.
Variable NewMapJsonReaderRaw : str -> res (value * str) * str.
Variable MapJson : value -> bool -> res str.                   (* Map.Json(safeEncoding) *)
Variable MapJsonIndent : value -> str -> str -> bool -> res str.
Variable MapXml : value -> res str.                            (* Map.Xml() *)
Variable JsonMarshal : value -> res str.                       (* encoding/json Marshal *)
Variable JsonMarshalIndent : value -> str -> str -> res str.

Definition leaf_pairs (m : value) : list (str * value) := leaf_nodes attrPrefix textKey dotn m false.

(* ---- package j2x ---- *)
Definition j2x_JsonToMap (j : str) : res value := NewMapJson j.
Definition j2x_MapToJson (m : value) (safeEncoding : bool) : res str := MapJson m safeEncoding.   (* fix 6251df7 *)
Definition j2x_JsonToXml (j : str) : res str :=
  match NewMapJson j with Ok m => MapXml m | Err e => Err e | Panic => Panic end.
Definition j2x_JsonToXmlWriter (j : str) : res str :=          (* bytes written *)
  match NewMapJson j with Ok m => MapXml m | Err e => Err e | Panic => Panic end.
Definition j2x_JsonReaderToXml (rd : str) : res (str * str) * str :=
  match NewMapJsonReaderRaw rd with
  | (Ok (m, jraw), rest) =>
      (match MapXml m with Ok x => Ok (jraw, x) | Err e => Err e | Panic => Panic end, rest)
  | (Err e, rest) => (Err e, rest)
  | (Panic, rest) => (Panic, rest)
  end.
Definition j2x_JsonReaderToXmlWriter (rd : str) : res str * str :=
  match NewMapJsonReader rd with
  | (Ok m, rest) => (MapXml m, rest)
  | (Err e, rest) => (Err e, rest)
  | (Panic, rest) => (Panic, rest)
  end.
Definition j2x_JsonPathsForKey (j key : str) : res (list str) :=
  match NewMapJson j with Ok m => Ok (paths_for_key m key) | Err e => Err e | Panic => Panic end.
Definition j2x_JsonPathForKeyShortest (j key : str) : res str :=
  match NewMapJson j with Ok m => Ok (path_for_key_shortest m key) | Err e => Err e | Panic => Panic end.
Definition j2x_JsonValuesForKey (j key : str) (sk : list str) : res (list value) :=
  match NewMapJson j with Ok m => values_for_key pf fieldSep m key sk | Err e => Err e | Panic => Panic end.
Definition j2x_JsonValuesForKeyPath (j path : str) (sk : list str) : res (list value) :=
  match NewMapJson j with Ok m => values_for_path pf fieldSep m path sk | Err e => Err e | Panic => Panic end.
Definition j2x_JsonUpdateValsForPath (j : str) (nv : newval) (path : str) (sk : list str) : res str :=
  match NewMapJson j with
  | Ok m => match update_values_for_path pf fieldSep m nv path sk with
            | Ok (m', _) => MapJson m' false
            | Err e => Err e
            | Panic => Panic
            end
  | Err e => Err e
  | Panic => Panic
  end.
Definition j2x_JsonNewJson (j : str) (pairs : list str) : res str :=
  match NewMapJson j with
  | Ok m => match new_map pf fieldSep m pairs with
            | (n, Ok _) => MapJson (VMap n) false
            | (_, Err e) => Err e
            | (_, Panic) => Panic
            end
  | Err e => Err e
  | Panic => Panic
  end.
Definition j2x_JsonNewXml (j : str) (pairs : list str) : res str :=
  match NewMapJson j with
  | Ok m => match new_map pf fieldSep m pairs with
            | (n, Ok _) => MapXml (VMap n)
            | (_, Err e) => Err e
            | (_, Panic) => Panic
            end
  | Err e => Err e
  | Panic => Panic
  end.
Definition j2x_JsonLeafNodes (j : str) : res (list (str * value)) :=
  match NewMapJson j with Ok m => Ok (leaf_pairs m) | Err e => Err e | Panic => Panic end.
Definition j2x_JsonLeafValues (j : str) : res (list value) :=
  match NewMapJson j with Ok m => Ok (map snd (leaf_pairs m)) | Err e => Err e | Panic => Panic end.
Definition j2x_JsonLeafPath (j : str) : res (list str) :=
  match NewMapJson j with Ok m => Ok (map fst (leaf_pairs m)) | Err e => Err e | Panic => Panic end.

(* ---- package x2j ---- *)
Definition x2j_XmlToMap (x : str) : res value :=
  match NewMapXml x false with Ok m => Ok m | Err e => Err e | Panic => Panic end.
Definition x2j_MapToXml (m : value) : res str := MapXml m.
Definition x2j_XmlToJson (x : str) (safe : bool) : res str :=
  match NewMapXml x false with Ok m => MapJson m safe | Err e => Err e | Panic => Panic end.
Definition x2j_XmlToJsonWriter (x : str) (safe : bool) : res str :=
  match NewMapXml x false with Ok m => MapJson m safe | Err e => Err e | Panic => Panic end.
Definition x2j_XmlReaderToJson (rd : str) (safe : bool) : res (str * str) * str :=
  match NewMapXmlReaderRaw rd with
  | (Ok (m, xraw), rest) =>
      (match MapJson m safe with Ok j => Ok (xraw, j) | Err e => Err e | Panic => Panic end, rest)
  | (Err e, rest) => (Err e, rest)
  | (Panic, rest) => (Panic, rest)
  end.
Definition x2j_XmlReaderToJsonWriter (rd : str) (safe : bool) : res (str * str) * str :=   (* jraw is also what was written *)
  match NewMapXmlReaderRaw rd with
  | (Ok (m, xraw), rest) =>
      (match MapJson m safe with Ok j => Ok (xraw, j) | Err e => Err e | Panic => Panic end, rest)
  | (Err e, rest) => (Err e, rest)
  | (Panic, rest) => (Panic, rest)
  end.
Definition x2j_XmlPathsForTag (x tag : str) : res (list str) :=
  match NewMapXml x false with Ok m => Ok (paths_for_key m tag) | Err e => Err e | Panic => Panic end.
Definition x2j_XmlPathForTagShortest (x tag : str) : res str :=
  match NewMapXml x false with Ok m => Ok (path_for_key_shortest m tag) | Err e => Err e | Panic => Panic end.
Definition x2j_XmlValuesForTag (x tag : str) (sk : list str) : res (list value) :=
  match NewMapXml x false with Ok m => values_for_key pf fieldSep m tag sk | Err e => Err e | Panic => Panic end.
Definition x2j_XmlValuesForPath (x path : str) (sk : list str) : res (list value) :=
  match NewMapXml x false with Ok m => values_for_path pf fieldSep m path sk | Err e => Err e | Panic => Panic end.
Definition x2j_XmlUpdateValsForPath (x : str) (nv : newval) (path : str) (sk : list str) : res str :=
  match NewMapXml x false with
  | Ok m => match update_values_for_path pf fieldSep m nv path sk with
            | Ok (m', _) => MapXml m'
            | Err e => Err e
            | Panic => Panic
            end
  | Err e => Err e
  | Panic => Panic
  end.
Definition x2j_XmlNewXml (x : str) (pairs : list str) : res str :=
  match NewMapXml x false with
  | Ok m => match new_map pf fieldSep m pairs with
            | (n, Ok _) => MapXml (VMap n)
            | (_, Err e) => Err e
            | (_, Panic) => Panic
            end
  | Err e => Err e
  | Panic => Panic
  end.
Definition x2j_XmlNewJson (x : str) (pairs : list str) : res str :=
  match NewMapXml x false with
  | Ok m => match new_map pf fieldSep m pairs with
            | (n, Ok _) => MapJson (VMap n) false
            | (_, Err e) => Err e
            | (_, Panic) => Panic
            end
  | Err e => Err e
  | Panic => Panic
  end.
Definition x2j_XmlLeafNodes (x : str) : res (list (str * value)) :=
  match NewMapXml x false with Ok m => Ok (leaf_pairs m) | Err e => Err e | Panic => Panic end.
Definition x2j_XmlLeafValues (x : str) : res (list value) :=
  match NewMapXml x false with Ok m => Ok (map snd (leaf_pairs m)) | Err e => Err e | Panic => Panic end.
Definition x2j_XmlLeafPath (x : str) : res (list str) :=
  match NewMapXml x false with Ok m => Ok (map fst (leaf_pairs m)) | Err e => Err e | Panic => Panic end.

(* ---- package x2j-wrapper (recast ...bool read as: r = recast[0] when exactly one is given) ---- *)
Definition xw_DocToMap (doc : str) (r : bool) : res value := NewMapXml doc r.
Definition xw_DocToJson (doc : str) (r : bool) : res str :=
  match NewMapXml doc r with Ok m => MapJson m false | Err e => Err e | Panic => Panic end.
Definition xw_DocToJsonIndent (doc : str) (r : bool) : res str :=
  match NewMapXml doc r with
  | Ok m => MapJsonIndent m [] (s "  ") false
  | Err e => Err e
  | Panic => Panic
  end.
Definition xw_ToMap (rd : str) (r : bool) : res value * str := NewMapXmlReader rd r.
Definition xw_ToJson (rd : str) (r : bool) : res str * str :=
  match NewMapXmlReader rd r with
  | (Ok m, rest) => (JsonMarshal m, rest)
  | (Err e, rest) => (Err e, rest)
  | (Panic, rest) => (Panic, rest)
  end.
Definition xw_ToJsonIndent (rd : str) (r : bool) : res str * str :=
  match NewMapXmlReader rd r with
  | (Ok m, rest) => (JsonMarshalIndent m [] (s "  "), rest)
  | (Err e, rest) => (Err e, rest)
  | (Panic, rest) => (Panic, rest)
  end.
Definition xw_XmlBufferToMap (rd : str) (r : bool) : res value * str := NewMapXmlReader rd r.
Definition xw_XmlBufferToJson (rd : str) (r : bool) : res str * str :=
  match NewMapXmlReader rd r with
  | (Ok m, rest) => (MapJson m false, rest)
  | (Err e, rest) => (Err e, rest)
  | (Panic, rest) => (Panic, rest)
  end.
Definition xw_ValuesForTag (doc tag : str) : res (list value) :=
  match NewMapXml doc false with Ok m => Ok (xw_values_for_key m tag) | Err e => Err e | Panic => Panic end.
Definition xw_PathsForTag (doc key : str) : res (list str) :=
  match NewMapXml doc false with Ok m => Ok (xw_paths_for_key m key) | Err e => Err e | Panic => Panic end.
Definition xw_PathForTagShortest (doc key : str) : res str :=
  match NewMapXml doc false with Ok m => Ok (xw_path_for_key_shortest m key) | Err e => Err e | Panic => Panic end.
Definition xw_ValuesFromTagPath (doc path : str) (a : bool) : res (list value) :=
  match NewMapXml doc false with Ok m => Ok (xw_values_from m path a) | Err e => Err e | Panic => Panic end.
Definition xw_ValuesAtTagPath (doc path : str) (a : bool) : res (list value) :=
  match NewMapXml doc false with Ok m => Ok (xw_values_at m path a) | Err e => Err e | Panic => Panic end.
Definition xw_ReaderValuesFromTagPath (rd path : str) (a : bool) : res (list value) * str :=
  match NewMapXmlReader rd false with
  | (Ok m, rest) => (Ok (xw_values_from m path a), rest)
  | (Err e, rest) => (Err e, rest)
  | (Panic, rest) => (Panic, rest)
  end.
Definition xw_ReaderValuesForTag (rd tag : str) : res (list value) * str :=
  match NewMapXmlReader rd false with
  | (Ok m, rest) => (Ok (xw_values_for_key m tag), rest)
  | (Err e, rest) => (Err e, rest)
  | (Panic, rest) => (Panic, rest)
  end.
End Thin.
