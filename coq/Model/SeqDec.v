(* Model of the sequence-preserving decoder of xmlseq.go: xmlSeqToMapParser as a
   consumer of the token list encoding/xml's Decoder.RawToken returns
   (NewMapXmlSeq, NewMapXmlSeqReader; BeautifyXml's first half).
   RawToken does not translate name spaces: a token name is (prefix, local) and
   the decoder rebuilds the key "prefix:local".
   Executable transcription, statement by statement; NO proofs in this file. *)
From Mxj Require Export Model.XmlDec.

(* tt.Name.Space + ":" + tt.Name.Local when len(Space) > 0, else tt.Name.Local *)
Definition full_name (sp lo : str) : str :=
  match sp with [] => lo | _ => sp ++ s ":" ++ lo end.
Definition xfull (n : xname) : str := full_name (xspace n) (xlocal n).

Section SeqDec.
Variable pf : str -> option flt.
Variable skip : str -> bool.
Variable o : opts.
Variable r : bool.                      (* the cast argument *)

(* strings.Replace(k, "-", "_", -1) when snakeCaseKeys *)
Definition snake (k : str) : str :=
  if snakeCaseKeys o then replace_char "-"%char "_"%char k else k.

Definition nonempty (x : str) : bool := match x with [] => false | _ => true end.

(* map[string]interface{}{textK: cast(v, r, ""), seqK: i} *)
Definition text_seq_map (v : value) (i : Z) : value :=
  VMap (set (seqK o) (VInt i) (set (textK o) v [])).

(* for i, v := range a { ... aa[name] = {textK: cast(v.Value), seqK: i} } *)
Definition seq_attr_step (st : Z * entries) (at_ : xattr) : Z * entries :=
  let '(i, aa) := st in
  let lo := snake (xlocal (aname at_)) in
  let v := if xmlEscapeCharsDecoder o then escape_chars (avalue at_) else avalue at_ in
  ((i + 1)%Z, set (full_name (xspace (aname at_)) lo) (text_seq_map (cast pf skip o v r []) i) aa).
Definition seq_attr_entries (a : list xattr) : entries := snd (fold_left seq_attr_step a (0%Z, [])).

(* na after "Allocate maps and load attributes, if any" *)
Definition seq_init_na (a : list xattr) : entries :=
  match a with [] => [] | _ => set (attrK o) (VMap (seq_attr_entries a)) [] end.

(* the "#seq" injection into the value of a decoded child:
   switch val.(type) { case map: val[seqK] = seq; seq++  case interface{} (non-nil): val = {textK: val, seqK: seq}; seq++ } *)
Definition seq_inject (val : value) (seq : Z) : value * Z :=
  match val with
  | VMap m => (VMap (set (seqK o) (VInt seq) m), (seq + 1)%Z)
  | VNil => (val, seq)
  | _ => (text_seq_map val seq, (seq + 1)%Z)
  end.

Definition stream_stream : str := s "stream:stream".

(* One activation of xmlSeqToMapParser after its prologue: the token loop.
   [skey] is the (snake-cased) key of the element being filled; skey = "" is the
   top-level activation, whose maps n and na are nil.
   Returns the singleton n as (key, value) and the unconsumed tokens.
   [Err ENoRoot] stands for "(n, NoRoot)": only the error class is modelled. *)
Fixpoint sloop (fuel : nat) (skey : str) (na : entries) (seq : Z)
         (ts : list tok) (tm : term) {struct fuel} : res ((str * value) * list tok) :=
  match fuel with
  | O => Panic                                       (* excluded: fuel = S (length ts) suffices *)
  | S fuel' =>
      (* the recursive call xmlSeqToMapParser(name, attrs, p, r): prologue, XMPP return, loop *)
      let call (name : str) (a : list xattr) (ts' : list tok) :=
        let ck := snake name in
        let cna := if nonempty ck then seq_init_na a else [] in
        if handleXMPPStreamTag o && str_eqb ck stream_stream
        then Ok ((ck, VMap cna), ts')
        else sloop fuel' ck cna 0%Z ts' tm in
      match ts with
      | [] => match tm with TermEOF => Err EEOF | TermErr => Err EOther end
      | TStart nm a :: ts' =>
          match skey with
          | [] => call (xfull nm) a ts'               (* return xmlSeqToMapParser(...) *)
          | _ =>
              match call (xfull nm) a ts' with
              | Ok ((key, val), rest) =>
                  let '(val', seq') := seq_inject val seq in
                  sloop fuel' skey (add_child key val' na) seq' rest tm
              | Err e => Err e
              | Panic => Panic
              end
          end
      | TEnd nm :: ts' =>
          match skey with
          | [] => Err EOther                         (* fix 96a206a: an end tag before any start tag is an error *)
          | _ =>
              let name := full_name (xspace nm) (snake (xlocal nm)) in
              if negb (str_eqb skey name) then Err EOther       (* element ... not properly terminated *)
              else Ok ((skey, match na with [] => VStr [] | _ => VMap na end), ts')
          end
      | TChar x :: ts' =>
          let tt := trim (trimRunes o) x in
          let tt := if xmlEscapeCharsDecoder o then escape_chars tt else tt in
          match skey with
          | [] => sloop fuel' skey na seq ts' tm     (* stray text before the root: continue *)
          | _ =>
              if nonempty tt
              then sloop fuel' skey (set (seqK o) (VInt seq) (set (textK o) (cast pf skip o tt r []) na)) (seq + 1)%Z ts' tm
              else sloop fuel' skey na seq ts' tm
          end
      | TComment x :: ts' =>
          match skey with
          | [] => Err ENoRoot
          | _ => sloop fuel' skey (set (commentK o) (text_seq_map (VStr x) seq) na) (seq + 1)%Z ts' tm
          end
      | TDirective x :: ts' =>
          match skey with
          | [] => Err ENoRoot
          | _ => sloop fuel' skey (set (directiveK o) (text_seq_map (VStr x) seq) na) (seq + 1)%Z ts' tm
          end
      | TProcInst t i :: ts' =>
          match skey with
          | [] => Err ENoRoot
          | _ =>
              let pm := set (seqK o) (VInt seq) (set (instK o) (VStr i) (set (targetK o) (VStr t) [])) in
              sloop fuel' skey (set (procinstK o) (VMap pm) na) (seq + 1)%Z ts' tm
          end
      end
  end.

(* xmlSeqToMap: xmlSeqToMapParser("", nil, p, r) on a document whose RawToken
   stream is ts followed by the terminator *)
Definition seq_decode_rest (ts : list tok) (tm : term) : res ((str * value) * list tok) :=
  sloop (S (length ts)) [] [] 0%Z ts tm.
Definition seq_decode (ts : list tok) (tm : term) : res value :=
  match seq_decode_rest ts tm with
  | Ok (kv, _) => Ok (VMap [kv])
  | Err e => Err e
  | Panic => Panic
  end.
End SeqDec.
