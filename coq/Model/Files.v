(* Model of files.go, gob.go and Map.Copy (property C19).

   Level of the model: a file is a byte string; a writer concatenates the
   per-Map encodings; a reader loop repeatedly takes one document from the
   front of what is still unread.  The one-document reader
   (NewMapXmlReaderRaw / NewMapJsonReaderRaw), the per-Map encoders
   (Xml, XmlIndent, Json, JsonIndent), encoding/json and encoding/gob are
   PARAMETERS of the model (Section variables): the loops, the file-system
   preamble, the separator logic, NewMapGob's and NewMapJson's special cases,
   Json()'s trimming of the encoder output and the getJson scanner are mxj's own
   code and are transcribed statement by statement.

   No proofs here (Proofs/C19P.v). *)
From Mxj Require Export Base.Str Base.Value.

Definition bytes := str.

(* error class of one reader call: nil, io.EOF, any other error, panic *)
Inductive rerr := RNil | REOF | ROther | RPanic.

Definition rerr_eqb (a b : rerr) : bool :=
  match a, b with RNil, RNil | REOF, REOF | ROther, ROther | RPanic, RPanic => true | _, _ => false end.

(* ------------------------------------------------------------------ *)
(* files.go:36-49 / 68-82 / 101-114 / 135-149: the read loop.
   St = state of the open file handle (Props: the unread bytes; Run: the
   offset); D = what is collected (Map, or MapRaw). *)
Section ReadLoop.
  Variable St : Type.
  Variable D : Type.

  (* result of one call  m, raw, err := NewMap...ReaderRaw(fh)  and the state of fh afterwards *)
  Record taken := mkTaken { t_doc : D; t_err : rerr; t_rest : St }.

  Variable take : St -> taken.
  Variable keep : D -> bool.          (* m != nil *)

  Inductive loop_res :=
  | LDone (am : list D)               (* return am, nil *)
  | LErr (am : list D)                (* return am, fmt.Errorf(...) *)
  | LPanic
  | LFuel.                            (* model fuel exhausted: the Go loop would not have ended yet *)

  (*  am := make([]Map, 0)
      for {
          m, raw, err := NewMapXmlReaderRaw(fh)
          if err != nil && err != io.EOF { return am, fmt.Errorf(...) }
          if m != nil { am = append(am, m) }
          if err == io.EOF { break }
      }
      return am, nil *)
  Fixpoint read_loop (fuel : nat) (st : St) (am : list D) : loop_res :=
    match fuel with
    | O => LFuel
    | S fuel' =>
        let t := take st in
        match t_err t with
        | RPanic => LPanic
        | ROther => LErr am
        | e =>
            let am' := if keep (t_doc t) then am ++ [t_doc t] else am in
            match e with
            | REOF => LDone am'
            | _ => read_loop fuel' (t_rest t) am'
            end
        end
    end.

  (* os.Stat / fi.Mode().IsRegular() / os.Open *)
  Inductive fstate := StatFails | NotRegular | OpenFails | Opened (st : St).

  Inductive file_res :=
  | FR (nil_slice : bool) (am : list D) (err : bool)   (* (am, err); nil_slice: the slice returned is nil *)
  | FRPanic
  | FRFuel.

  Definition maps_from_file (fuel : nat) (f : fstate) : file_res :=
    match f with
    | StatFails => FR true [] true          (* return nil, err *)
    | NotRegular => FR true [] true         (* return nil, fmt.Errorf("file %s is not a regular file") *)
    | OpenFails => FR true [] true          (* return nil, err *)
    | Opened st =>
        match read_loop fuel st [] with
        | LDone am => FR false am false
        | LErr am => FR false am true
        | LPanic => FRPanic
        | LFuel => FRFuel
        end
    end.
End ReadLoop.

Arguments mkTaken {St D}. Arguments t_doc {St D}. Arguments t_err {St D}. Arguments t_rest {St D}.
Arguments read_loop {St D}. Arguments maps_from_file {St D}.
Arguments LDone {D}. Arguments LErr {D}. Arguments LPanic {D}. Arguments LFuel {D}.
Arguments StatFails {St}. Arguments NotRegular {St}. Arguments OpenFails {St}. Arguments Opened {St}.
Arguments FR {D}. Arguments FRPanic {D}. Arguments FRFuel {D}.

(* m != nil for a Map value; a nil Map is VNil  (fix fd230a2; before it the loops tested
   len(m) > 0 and dropped the document {}) *)
Definition map_not_nil (v : value) : bool :=
  match v with VNil => false | _ => true end.

(* MapRaw{M, R} *)
Definition mapraw := (value * bytes)%type.
Definition keep_raw (mr : mapraw) : bool := map_not_nil (fst mr).

(* The four exported readers.  The XML and the JSON functions are the same
   statements around a different one-document reader, which is the parameter. *)
Section Readers.
  Variable St : Type.
  Variable rd : St -> taken St mapraw.    (* NewMapXmlReaderRaw(fh) or NewMapJsonReaderRaw(fh) *)

  (* the non-Raw functions drop raw:  m, raw, err := ... ; am = append(am, m) *)
  Definition rd_map (st : St) : taken St value :=
    let t := rd st in mkTaken (fst (t_doc t)) (t_err t) (t_rest t).

  Definition new_maps_from_file (fuel : nat) (f : fstate St) : file_res value :=
    maps_from_file rd_map map_not_nil fuel f.
  Definition new_maps_from_file_raw (fuel : nat) (f : fstate St) : file_res mapraw :=
    maps_from_file rd keep_raw fuel f.
End Readers.
Arguments rd_map {St}. Arguments new_maps_from_file {St}. Arguments new_maps_from_file_raw {St}.

(* with St = bytes the fuel that always suffices (each nil-error call consumes at least one byte) *)
Definition file_fuel (file : bytes) : nat := S (length file).

(* ------------------------------------------------------------------ *)
(* files.go:156-287: the writers *)
Section Writers.
  Variable M : Type.
  Variable enc : M -> option bytes.   (* v.Xml() / v.XmlIndent(p,i) / v.Json(safeEncoding...) / v.JsonIndent(p,i,safeEncoding...); None = error *)

  (* XmlString, XmlStringIndent, JsonString:
       var s string; for _, v := range mvs { x, err := v.Xml(); if err != nil { return s, err }; s += string(x) }; return s, nil *)
  Fixpoint string_loop (ms : list M) (acc : bytes) : bytes * bool :=
    match ms with
    | [] => (acc, false)
    | v :: t => match enc v with
                | None => (acc, true)
                | Some x => string_loop t (acc ++ x)
                end
    end.

  (* JsonStringIndent: a "\n" before every document but the first (haveFirst) *)
  Definition nl : bytes := ["010"%char].
  Fixpoint string_loop_nl (ms : list M) (acc : bytes) (haveFirst : bool) : bytes * bool :=
    match ms with
    | [] => (acc, false)
    | v :: t => match enc v with
                | None => (acc, true)
                | Some j => string_loop_nl t ((if haveFirst then acc ++ nl else acc) ++ j) true
                end
    end.

  Definition maps_string (indent_json : bool) (ms : list M) : bytes * bool :=
    if indent_json then string_loop_nl ms [] false else string_loop ms [].

  (* XmlFile / XmlFileIndent / JsonFile / JsonFileIndent:
       s, err := mvs.XmlString(); if err != nil { return err }
       fh, err := os.Create(file); if err != nil { return err }
       defer fh.Close(); fh.WriteString(s); return nil
     result: the new content of the file (None: the file was not touched) and whether an error is returned *)
  Definition maps_file (indent_json : bool) (ms : list M) (creatable : bool) : option bytes * bool :=
    let (s, err) := maps_string indent_json ms in
    if err then (None, true)
    else if creatable then (Some s, false) else (None, true).
End Writers.
Arguments string_loop {M}. Arguments string_loop_nl {M}. Arguments maps_string {M}. Arguments maps_file {M}.

(* ------------------------------------------------------------------ *)
(* json.go marshalJSON / Json / NewMapJson / mxj.go Copy  (fixes b2598e9, f8aa2ac, ad83684).
   Json() is the output of a json.Encoder with SetEscapeHTML(safeEncoding), minus the newline
   Encode appends; there is no rewrite of the marshalled bytes any more. *)
Definition bsl : ascii := "\"%char.
Definition nl_byte : ascii := "010"%char.

(* bytes.TrimSuffix(b, "\n") *)
Definition trim_nl (b : bytes) : bytes :=
  match rev b with
  | c :: r => if Ascii.eqb c nl_byte then rev r else b
  | [] => b
  end.

Section JsonCopy.
  Variable encode : bool -> value -> option bytes.   (* enc.SetEscapeHTML(esc); enc.Encode(v): the buffer; None = error *)
  Variable json_dec : bytes -> res value.            (* json.NewDecoder(bytes).Decode(&v) with v interface{}: the first value; class of the error only *)

  (* marshalJSON(v, escapeHTML) *)
  Definition marshal_json (esc : bool) (v : value) : option bytes :=
    match encode esc v with
    | None => None
    | Some b => Some (trim_nl b)
    end.

  (* Map.Json(safeEncoding...) *)
  Definition map_json (safe : bool) (mv : value) : option bytes := marshal_json safe mv.

  (* NewMapJson: empty input is the empty Map; the first value must be an object, or an
     array (given the root key "object"); anything else, null included, is an error *)
  Definition new_map_json (j : bytes) : res value :=
    match j with
    | [] => Ok (VMap [])
    | _ =>
        match json_dec j with
        | Ok (VMap m) => Ok (VMap m)
        | Ok (VList l) => Ok (VMap [(s "object", VList l)])
        | Ok _ => Err EOther
        | Err e => Err e
        | Panic => Panic
        end
    end.

  (* mxj.go Copy: j, jerr := mv.Json(); if jerr != nil { return nil, jerr }; return NewMapJson(j) *)
  Definition map_copy (mv : value) : res value :=
    match map_json false mv with
    | None => Err EOther
    | Some j => new_map_json j
    end.
End JsonCopy.

(* ------------------------------------------------------------------ *)
(* gob.go *)
Section Gob.
  Variable gob_enc : value -> option bytes.   (* gob.NewEncoder(&buf).Encode(map[string]interface{}(mv)); None = error *)
  Variable gob_dec : bytes -> res value.      (* gob.NewDecoder(r).Decode(&m) into a fresh map *)

  Definition map_gob (mv : value) : res bytes :=
    match gob_enc mv with Some b => Ok b | None => Err EOther end.

  Definition new_map_gob (gobj : bytes) : res value :=
    match gobj with
    | [] => Ok (VMap [])          (* if len(gobj) == 0 { return m, nil } *)
    | _ => gob_dec gobj
    end.
End Gob.

(* What encoding/gob accepts inside an interface{} value: the basic types, and the types
   registered with gob.Register.  gob.go registers map[string]interface{} and []interface{}
   in its init() (fix 6a56aba; before it a nested map or list made Encode fail with
   "type not registered for interface"), so every value of JSON types is transmitted, at
   any depth; json.Number is a named type nobody registers.  Environment model, validated
   on every run. *)
Fixpoint gob_ok (v : value) : bool :=
  match v with
  | VJNum _ => false
  | VMap m => (fix go (m : entries) : bool :=
                 match m with [] => true | (_, x) :: t => gob_ok x && go t end) m
  | VList l => (fix go (l : list value) : bool :=
                  match l with [] => true | x :: t => gob_ok x && go t end) l
  | _ => true
  end.
Definition gob_encodable (mv : value) : bool :=
  match mv with
  | VMap _ => gob_ok mv
  | _ => false
  end.

(* ------------------------------------------------------------------ *)
(* json.go:182-236 getJson: the brace scanner in front of NewMapJson *)
Inductive scan_res :=
| SDoc (jb rest : bytes)     (* return &jb, nil  -- rest = unread bytes *)
| SEof (jb : bytes)          (* return &jb, io.EOF *)
| SNoClose (jb : bytes)      (* return &jb, fmt.Errorf("no closing } ...") *)
| SStray (jb rest : bytes).  (* return &jb, fmt.Errorf("closing } without opening {")  (fix 9f7e6ef; before it: return nil, ...,
                                which NewMapJsonReaderRaw dereferenced) *)

Definition is_json_ws (c : ascii) : bool :=
  Ascii.eqb c "010"%char || Ascii.eqb c "013"%char || Ascii.eqb c "009"%char || Ascii.eqb c " "%char.

(* jb is accumulated in reverse; escaped = the previous byte was an unescaped backslash inside a
   string (fix 419ac2a; before it the test was previous == backslash, which took the quote after
   an escaped backslash for an escaped quote) *)
Fixpoint get_json (x : bytes) (jb : bytes) (inQuote inJson : bool) (parenCnt : nat) (escaped : bool) : scan_res :=
  match x with
  | [] =>
      (* rdr.Read(bval) returns (0, io.EOF) *)
      if inJson && (0 <? parenCnt) then SNoClose (rev jb) else SEof (rev jb)
  | c :: x' =>
      (* after(inQuote, inJson, parenCnt): the statements below the switch, with the updated state:
           if inJson { jb = append(jb, c); if parenCnt == 0 { break } }
           escaped = inQuote && !escaped && c == backslash *)
      let after (inQ inJ : bool) (cnt : nat) :=
        let esc' := inQ && negb escaped && Ascii.eqb c bsl in
        if inJ then
          if Nat.eqb cnt 0 then SDoc (rev (c :: jb)) x'
          else get_json x' (c :: jb) inQ inJ cnt esc'
        else get_json x' jb inQ inJ cnt esc' in
      if Ascii.eqb c "{"%char then
        if inQuote then after inQuote inJson parenCnt else after inQuote true (S parenCnt)
      else if Ascii.eqb c "}"%char then
        if inQuote then after inQuote inJson parenCnt
        else match parenCnt with
             | O => SStray (rev jb) x'      (* parenCnt-- ; if parenCnt < 0 { return &jb, ... } *)
             | S k => after inQuote inJson k
             end
      else if Ascii.eqb c """"%char then
        if inQuote then
          if escaped then after inQuote inJson parenCnt   (* break: an escaped quote, still in the string *)
          else after false inJson parenCnt
        else after true inJson parenCnt
      else if is_json_ws c then
        if inQuote then after inQuote inJson parenCnt
        else get_json x' jb inQuote inJson parenCnt escaped     (* continue *)
      else after inQuote inJson parenCnt
  end.

Definition scan_json (x : bytes) : scan_res := get_json x [] false false 0 false.

(* json.go:169-178 NewMapJsonReaderRaw over the unread bytes of the file *)
Section JsonReader.
  Variable json_dec : bytes -> res value.
  Definition json_reader_raw (x : bytes) : taken bytes mapraw :=
    match scan_json x with
    | SStray jb rest => mkTaken (VNil, jb) ROther rest  (* err != nil: return nil, *jb, err *)
    | SEof jb => mkTaken (VNil, jb) REOF []            (* err != nil: return nil, *jb, err *)
    | SNoClose jb => mkTaken (VNil, jb) ROther []
    | SDoc jb rest =>
        match new_map_json json_dec jb with
        | Ok m => mkTaken (m, jb) RNil rest
        | Err _ => mkTaken (VNil, jb) ROther rest      (* NewMapJson returns a nil Map with an error *)
        | Panic => mkTaken (VNil, jb) RPanic rest
        end
    end.
End JsonReader.
