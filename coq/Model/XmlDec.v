(* Model of the Map decoder of xml.go: cast, escapeChars, xmlToMapParser as a
   consumer of the token list encoding/xml's Decoder.Token returns.
   Executable transcriptions; NO proofs in this file. *)
From Mxj Require Export Model.Opts Base.XmlTok.

(* ---------------- escapechars.go ---------------- *)
Definition replace1 (pat : ascii) (rep : str) (x : str) : str :=
  flat_map (fun c => if Ascii.eqb c pat then rep else [c]) x.
Definition escape_table : list (ascii * str) :=
  [("&"%char, s "&amp;"); ("<"%char, s "&lt;"); (">"%char, s "&gt;");
   (""""%char, s "&quot;"); ("'"%char, s "&apos;")].
(* for _, v := range escapechars { b = bytes.Replace(b, v[0], v[1], n) } *)
Definition escape_chars (x : str) : str :=
  fold_left (fun acc pr => replace1 (fst pr) (snd pr) acc) escape_table x.

(* ---------------- cast ---------------- *)
Section Cast.
Variable pf : str -> option flt.       (* strconv.ParseFloat(s, 64): Some (%v text) when err == nil *)
Variable skip : str -> bool.           (* checkTagToSkip; nil = fun _ => false *)

(* %v text of the three non-finite float64 values *)
Definition is_naninf (f : flt) : bool :=
  str_eqb f (s "NaN") || str_eqb f (s "+Inf") || str_eqb f (s "-Inf").

Definition cast (o : opts) (x : str) (r : bool) (t : str) : value :=
  if (match t with [] => false | _ => true end) && skip t then VStr x
  else if negb r then VStr x
  else if negb (castNanInf o) && existsb (str_eqb (to_lower x)) [s "nan"; s "inf"; s "-inf"] then VStr x
  else
    match (if castToInt o then
             match parse_int 64 x with
             | Some z => Some (VI64 z)
             | None => match parse_uint 64 x with Some z => Some (VU64 z) | None => None end
             end
           else None) with
    | Some v => v
    | None =>
        match (if castToFloat o then
                 match pf x with
                 | Some f => if castNanInf o || negb (is_naninf f) then Some (VFlt f) else None   (* fix: test the parsed value *)
                 | None => None
                 end
               else None) with
        | Some v => v
        | None =>
            if castToBool o && (match x with [] => false | _ => true end) && (length x <? 6)
               && (match x with c :: _ => mem_ascii c (s "tTfF") | [] => false end)
            then match parse_bool x with Some b => VBool b | None => VStr x end
            else VStr x
        end
    end.
End Cast.

(* ---------------- tokens: Base/XmlTok.v (xname, xattr, tok, term) ---------------- *)

(* ---------------- xmlToMapParser ---------------- *)
Section Dec.
Variable pf : str -> option flt.
Variable skip : str -> bool.
Variable o : opts.
Variable r : bool.                      (* the cast argument *)

Definition xform_key (k : str) : str :=
  let k := if lowerCase o then to_lower k else k in
  if snakeCaseKeys o then replace_char "-"%char "_"%char k else k.

Definition attr_key (local : str) : str :=
  let local := if snakeCaseKeys o then replace_char "-"%char "_"%char local else local in
  (* fix 7400dc9: the attribute name is lower-cased, the prefix is kept as set *)
  if lowerCase o then attrPrefix o ++ to_lower local else attrPrefix o ++ local.

Definition attr_entries (a : list xattr) : entries :=
  fold_left (fun na at_ =>
               let key := attr_key (xlocal (aname at_)) in
               let v := if xmlEscapeCharsDecoder o then escape_chars (avalue at_) else avalue at_ in
               set key (cast pf skip o v r key) na) a [].

Definition seq_key : str := s "_seq".

(* val after the includeTagSeqNum step, and the new counter *)
Definition tag_seq (val : value) (seq : Z) : value * Z :=
  if includeTagSeqNum o then
    match val with
    | VList _ => (val, seq)
    | VMap m => (VMap (set seq_key (VInt seq) m), (seq + 1)%Z)
    | VNil => (val, seq)
    | _ => (VMap (set seq_key (VInt seq) [(textK o, val)]), (seq + 1)%Z)
    end
  else (val, seq).

(* na[key] = val, or conversion to / extension of a list on a repeated key *)
Definition add_child (key : str) (val : value) (na : entries) : entries :=
  match lookup key na with
  | Some (VList a) => set key (VList (a ++ [val])) na
  | Some v => set key (VList [v; val]) na
  | None => set key val na
  end.

Definition finish_elem (n : option value) (na : entries) : value :=
  match n with
  | None => match na with [] => VStr [] | _ => VMap na end
  | Some v => match na with [] => v | _ => VMap (set (textK o) v na) end
  end.

Definition on_chardata (skey : str) (x : str) (n : option value) (na : entries) : option value * entries :=
  let tt := trim (trimRunes o) x in
  let tt := if xmlEscapeCharsDecoder o then escape_chars tt else tt in
  match tt with
  | [] => (n, na)
  | _ => if (match na with [] => false | _ => true end) || decodeSimpleValuesAsMap o
         then (n, set (textK o) (cast pf skip o tt r (textK o)) na)
         else (Some (cast pf skip o tt r skey), na)
  end.

(* the token loop of one element; [skey] is already transformed and non-empty.
   Returns the (key, value) singleton and the unconsumed tokens. *)
Fixpoint elem_loop (fuel : nat) (skey : str) (n : option value) (na : entries) (seq : Z)
         (ts : list tok) (tm : term) : res ((str * value) * list tok) :=
  match fuel with
  | O => Panic                                       (* excluded: fuel = S (length ts) suffices *)
  | S fuel' =>
      match ts with
      | [] => match tm with TermEOF => Err EEOF | TermErr => Err EOther end
      | TStart nm a :: ts' =>
          let ckey := xform_key (xlocal nm) in
          let cna := attr_entries a in
          let child :=
            match ckey with
            | [] => Panic                            (* a start tag with an empty local name: the tokenizer never returns one *)
            | _ => if handleXMPPStreamTag o && str_eqb ckey (s "stream")
                   then Ok ((ckey, VMap cna), ts')
                   else elem_loop fuel' ckey None cna 0 ts' tm
            end in
          match child with
          | Ok ((key, val), rest) =>
              let '(val', seq') := tag_seq val seq in
              elem_loop fuel' skey n (add_child key val' na) seq' rest tm
          | Err e => Err e
          | Panic => Panic
          end
      | TEnd _ :: ts' => Ok ((skey, finish_elem n na), ts')
      | TChar x :: ts' =>
          let '(n', na') := on_chardata skey x n na in
          elem_loop fuel' skey n' na' seq ts' tm
      | _ :: ts' => elem_loop fuel' skey n na seq ts' tm
      end
  end.

(* the top-level call xmlToMapParser("", nil, p, r): skip to the first start tag *)
Fixpoint top_loop (fuel : nat) (ts : list tok) (tm : term) : res (entries * list tok) :=
  match ts with
  | [] => match tm with TermEOF => Err EEOF | TermErr => Err EOther end
  | TStart nm a :: ts' =>
      let ckey := xform_key (xlocal nm) in
      match ckey with
      | [] => Panic
      | _ =>
        if handleXMPPStreamTag o && str_eqb ckey (s "stream")
        then Ok ([(ckey, VMap (attr_entries a))], ts')
        else match elem_loop fuel ckey None (attr_entries a) 0 ts' tm with
             | Ok (kv, rest) => Ok ([kv], rest)
             | Err e => Err e
             | Panic => Panic
             end
      end
  | TEnd _ :: _ => Panic                            (* write to the nil map n; Decoder.Token never yields a stray end tag *)
  | TChar x :: ts' => top_loop fuel ts' tm          (* fix: stray text before the root is skipped whatever the options *)
  | _ :: ts' => top_loop fuel ts' tm
  end.

(* NewMapXml on a document whose token stream is ts ++ [terminator]; also
   returns what the decoder has not consumed (NewMapXmlReader leaves it in the reader) *)
Definition xml_decode_rest (ts : list tok) (tm : term) : res (entries * list tok) :=
  top_loop (S (length ts)) ts tm.
Definition xml_decode (ts : list tok) (tm : term) : res value :=
  match xml_decode_rest ts tm with
  | Ok (m, _) => Ok (VMap m)
  | Err e => Err e
  | Panic => Panic
  end.
End Dec.
