(* Model of the encoder entry points that are built on top of the byte-returning
   encoders: Map.Json / JsonIndent (post-processing of encoding/json's output),
   the Writer and WriterRaw forms (xml.go, xmlseq.go, json.go) and the Maps
   string / file forms (files.go).  encoding/json, io.Writer and the file system
   are the environment: marshalled bytes and the result of the byte-returning
   form are arguments.  Executable transcriptions; NO proofs in this file. *)
From Mxj Require Export Model.XmlEnc.

(* bytes.Replace(x, old, new, -1) for a non-empty old: left to right, non-overlapping *)
Fixpoint replace_all_aux (old new x : str) (skip : nat) : str :=
  match x with
  | [] => []
  | c :: x' =>
      match skip with
      | S k => replace_all_aux old new x' k
      | O => if prefixb old x
             then new ++ replace_all_aux old new x' (length old - 1)
             else c :: replace_all_aux old new x' 0
      end
  end.
Definition replace_all (old new x : str) : str := replace_all_aux old new x 0.

Definition bs : str := [ascii_of_nat 92].   (* one backslash *)

(* if !safeEncoding { b = bytes.Replace(b, `\u003c`, "<", -1); ... `\u003e`, ">" ...; ... `\u0026`, "&" ... } *)
Definition json_post (safe : bool) (b : str) : str :=
  if safe then b
  else replace_all (bs ++ s "u0026") (s "&")
         (replace_all (bs ++ s "u003e") (s ">")
            (replace_all (bs ++ s "u003c") (s "<") b)).

(* Map.Json(safeEncoding...) / Map.JsonIndent(prefix, indent, safeEncoding...):
   marshalled = what json.Marshal / json.MarshalIndent returned for the Map *)
Definition map_json (safe : bool) (marshalled : res str) : res str :=
  match marshalled with
  | Ok b => Ok (json_post safe b)
  | Err e => Err e
  | Panic => Panic
  end.

(* ---------------- Writer forms ----------------
   x, err := mv.Xml(rootTag...); if err != nil { return err }; _, err = w.Write(x); return err
   The sink is the byte string written so far; Write appends (io.Writer contract, no short writes). *)
Definition writer_form (enc : res str) (sink : str) : res unit * str :=
  match enc with
  | Ok x => (Ok tt, sink ++ x)
  | Err e => (Err e, sink)
  | Panic => (Panic, sink)
  end.
(* the Raw forms also return the bytes: b, err := mv.Json(...); if err != nil { return b, err }; w.Write(b); return b, err *)
Definition writer_raw_form (enc : res str) (sink : str) : res str * str :=
  match enc with
  | Ok x => (Ok x, sink ++ x)
  | Err e => (Err e, sink)
  | Panic => (Panic, sink)
  end.

(* ---------------- Maps string forms (files.go) ----------------
   for _, v := range mvs { x, err := v.Xml(); if err != nil { return s, err }; s += string(x) }
   result: the string returned and the error, if any *)
Fixpoint maps_concat (sep : str) (first : bool) (encs : list (res str)) (acc : str) : str * option err :=
  match encs with
  | [] => (acc, None)
  | Ok x :: t => maps_concat sep false t (acc ++ (if first then [] else sep) ++ x)
  | Err e :: _ => (acc, Some e)
  | Panic :: _ => (acc, Some EOther)
  end.

(* Maps.XmlString() and Maps.XmlStringIndent(prefix, indent): encs = the per-Map Xml() / XmlIndent() results *)
Definition maps_xml_string (encs : list (res str)) : str * option err := maps_concat [] true encs [].

(* Maps.JsonString(safeEncoding...): j, err := v.Json(safeEncoding...) per Map (fix da6537e) *)
Definition maps_json_string (safe : bool) (marshalled : list (res str)) : str * option err :=
  maps_concat [] true (map (map_json safe) marshalled) [].

(* Maps.JsonStringIndent(prefix, indent, safeEncoding...): v.JsonIndent(prefix, indent, safeEncoding...) per Map,
   and "\n" written between the documents (haveFirst) *)
Definition maps_json_string_indent (safe : bool) (marshalled : list (res str)) : str * option err :=
  maps_concat [ascii_of_nat 10] true (map (map_json safe) marshalled) [].

(* Maps.XmlFile / XmlFileIndent / JsonFile / JsonFileIndent: s, err := mvs.XxxString(...); if err != nil
   { return err }; create; WriteString(s) - file content (None = file not written) and error *)
Definition maps_file (str_form : str * option err) : option str * option err :=
  match str_form with
  | (x, None) => (Some x, None)
  | (_, Some e) => (None, Some e)
  end.
