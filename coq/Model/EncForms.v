(* Model of the encoder entry points that are built on top of the byte-returning
   encoders: Map.Json / JsonIndent (on top of encoding/json's Encoder and Indent),
   the Writer and WriterRaw forms (xml.go, xmlseq.go, json.go) and the Maps
   string / file forms (files.go).  encoding/json, io.Writer and the file system
   are the environment: marshalled bytes and the result of the byte-returning
   form are arguments.  Executable transcriptions; NO proofs in this file. *)
From Mxj Require Export Model.XmlEnc.

Definition nl : ascii := ascii_of_nat 10.

(* bytes.TrimSuffix(b, "\n") *)
Definition trim_suffix_nl (b : str) : str :=
  match rev b with
  | c :: r => if Ascii.eqb c nl then rev r else b
  | [] => b
  end.

(* marshalJSON(v, escapeHTML) (json.go, after fix b2598e9): enc := json.NewEncoder(&buf);
   enc.SetEscapeHTML(escapeHTML); if err := enc.Encode(v); err != nil { return nil, err };
   return bytes.TrimSuffix(buf.Bytes(), "\n"), nil.
   Map.Json(safeEncoding...) = marshalJSON(mv, safe).  encoded = what Encoder.Encode wrote for the Map
   under SetEscapeHTML(safe) - the environment *)
Definition map_json (encoded : res str) : res str :=
  match encoded with
  | Ok b => Ok (trim_suffix_nl b)
  | Err e => Err e
  | Panic => Panic
  end.

(* Map.JsonIndent(prefix, indent, safeEncoding...): b, err := marshalJSON(mv, safe); if err != nil { return nil, err };
   err = json.Indent(&buf, b, prefix, indent); if err != nil { return nil, err }; return buf.Bytes(), nil.
   indent = json.Indent with the given prefix and indent - the environment *)
Definition map_json_indent (indent : str -> res str) (encoded : res str) : res str :=
  bind (map_json encoded) indent.

(* ---------------- Writer forms ----------------
   x, err := mv.Xml(rootTag...); if err != nil { return err }; _, err = w.Write(x); return err
   The sink is the byte string written so far; Write appends (io.Writer contract, no short writes). *)
Definition writer_form (enc : res str) (sink : str) : res unit * str :=
  match enc with
  | Ok x => (Ok tt, sink ++ x)
  | Err e => (Err e, sink)
  | Panic => (Panic, sink)
  end.
(* the Raw forms also return the bytes: b, err := mv.Json(...); if err != nil { return b, err }; w.Write(b); return b, err *)
Definition writer_raw_form (enc : res str) (sink : str) : res str * str :=
  match enc with
  | Ok x => (Ok x, sink ++ x)
  | Err e => (Err e, sink)
  | Panic => (Panic, sink)
  end.

(* ---------------- Maps string forms (files.go) ----------------
   for _, v := range mvs { x, err := v.Xml(); if err != nil { return s, err }; s += string(x) }
   result: the string returned and the error, if any *)
Fixpoint maps_concat (sep : str) (first : bool) (encs : list (res str)) (acc : str) : str * option err :=
  match encs with
  | [] => (acc, None)
  | Ok x :: t => maps_concat sep false t (acc ++ (if first then [] else sep) ++ x)
  | Err e :: _ => (acc, Some e)
  | Panic :: _ => (acc, Some EOther)
  end.

(* Maps.XmlString() and Maps.XmlStringIndent(prefix, indent): encs = the per-Map Xml() / XmlIndent() results *)
Definition maps_xml_string (encs : list (res str)) : str * option err := maps_concat [] true encs [].

(* Maps.JsonString(safeEncoding...): j, err := v.Json(safeEncoding...) per Map (fix da6537e).
   js flag = the per-Map results of Json(flag) *)
Definition maps_json_string (safe : bool) (js : bool -> list (res str)) : str * option err :=
  maps_concat [] true (js safe) [].

(* Maps.JsonStringIndent(prefix, indent, safeEncoding...): v.JsonIndent(prefix, indent, safeEncoding...) per Map,
   and "\n" written between the documents (haveFirst).  ji flag = the per-Map results of JsonIndent(p, i, flag) *)
Definition maps_json_string_indent (safe : bool) (ji : bool -> list (res str)) : str * option err :=
  maps_concat [nl] true (ji safe) [].

(* Maps.XmlFile / XmlFileIndent / JsonFile / JsonFileIndent: s, err := mvs.XxxString(...); if err != nil
   { return err }; create; WriteString(s) - file content (None = file not written) and error *)
Definition maps_file (str_form : str * option err) : option str * option err :=
  match str_form with
  | (x, None) => (Some x, None)
  | (_, Some e) => (None, Some e)
  end.
