(* Model of the option setters of escapechars.go and of the post-encode validity check
   (xml.go Map.Xml / Map.XmlIndent, xmlseq.go MapSeq.Xml / MapSeq.XmlIndent).
   Executable transcriptions; NO proofs in this file. *)
From Mxj Require Export Model.XmlEnc.

(* ---- the validity check: if xmlCheckIsValid { run the tokenizer over the output; an error replaces the result } ---- *)
Definition checked_enc (o : opts) (accept : str -> bool) (r : res (list item)) : res (list item) :=
  match r with
  | Ok its => if xmlCheckIsValid o && negb (accept (emit its)) then Err EOther else Ok its
  | _ => r
  end.
(* the same check on the bytes of any encoder (all four encoders end with it: Map.Xml, Map.XmlIndent,
   MapSeq.XmlIndent, and since fix 122e022 MapSeq.Xml, which used to tokenize an empty string) *)
Definition checked_bytes (o : opts) (accept : str -> bool) (r : res str) : res str :=
  match r with
  | Ok b => if xmlCheckIsValid o && negb (accept b) then Err EOther else Ok b
  | _ => r
  end.

(* ---- the two setters of escapechars.go; None = called without argument (toggle) ---- *)
Definition with_esc (e d : bool) (o : opts) : opts := {|
  attrPrefix := attrPrefix o; lenAttrPrefix := lenAttrPrefix o;
  includeTagSeqNum := includeTagSeqNum o; lowerCase := lowerCase o; snakeCaseKeys := snakeCaseKeys o;
  disableTrimWhiteSpace := disableTrimWhiteSpace o; trimRunes := trimRunes o;
  decodeSimpleValuesAsMap := decodeSimpleValuesAsMap o;
  castToInt := castToInt o; castToFloat := castToFloat o; castToBool := castToBool o; castNanInf := castNanInf o;
  handleXMPPStreamTag := handleXMPPStreamTag o; useGoXmlEmptyElemSyntax := useGoXmlEmptyElemSyntax o;
  xmlCheckIsValid := xmlCheckIsValid o;
  xmlEscapeChars := e; xmlEscapeCharsDecoder := d;
  textK := textK o; seqK := seqK o; commentK := commentK o; attrK := attrK o;
  directiveK := directiveK o; procinstK := procinstK o; targetK := targetK o; instK := instK o;
  fieldSep := fieldSep o; useDotNotation := useDotNotation o; defaultArraySize := defaultArraySize o;
  jsonUseNumber := jsonUseNumber o
|}.
Definition set_esc (b : option bool) (o : opts) : opts :=
  let bb := match b with None => negb (xmlEscapeChars o) | Some b => b end in
  with_esc (bb && negb (xmlEscapeCharsDecoder o)) (xmlEscapeCharsDecoder o) o.
Definition set_escdec (b : option bool) (o : opts) : opts :=
  let d := match b with None => negb (xmlEscapeCharsDecoder o) | Some b => b end in
  with_esc (if d && xmlEscapeChars o then false else xmlEscapeChars o) d o.
Inductive esc_call := CallEsc (b : option bool) | CallEscDec (b : option bool).
Definition apply_call (o : opts) (c : esc_call) : opts :=
  match c with CallEsc b => set_esc b o | CallEscDec b => set_escdec b o end.
Definition apply_calls (h : list esc_call) (o : opts) : opts := fold_left apply_call h o.
