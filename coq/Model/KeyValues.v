(* Model of keyvalues.go + exists.go: executable transcriptions mirroring the Go
   control flow.  NO proofs in this file.

   Conventions: a Go map is an association list whose order stands for the
   hash-iteration order of the run; `ret`/`cnt` pairs are modelled by the
   returned list (ret[:cnt] is everything appended, see Proofs/KeyValuesP.v);
   strconv.ParseFloat is the oracle [pf]. *)
From Mxj Require Export Base.Value.

Section KV.
Variable pf : str -> option flt.      (* strconv.ParseFloat(s, 64) rendered with %v *)
Variable fieldSep : str.              (* package variable fieldSep *)

(* ---------------- getSubKeyMap ---------------- *)
Definition sub_key_entry (v : str) : res (str * value) :=
  match split fieldSep v with
  | [k; x] => Ok (k, VStr x)
  | [k; x; t] =>
      if existsb (str_eqb t) [s "string"; s "char"; s "text"] then Ok (k, VStr x)
      else if existsb (str_eqb t) [s "bool"; s "boolean"] then
        match parse_bool x with Some b => Ok (k, VBool b) | None => Err EOther end
      else if existsb (str_eqb t) [s "float"; s "float64"; s "num"; s "number"; s "numeric"] then
        match pf x with Some f => Ok (k, VFlt f) | None => Err EOther end
      else Err EOther
  | _ => Err EOther
  end.
Fixpoint get_sub_key_map_aux (kv : list str) (m : entries) : res entries :=
  match kv with
  | [] => Ok m
  | v :: t => match sub_key_entry v with
              | Ok (k, x) => get_sub_key_map_aux t (set k x m)
              | Err e => Err e
              | Panic => Panic
              end
  end.
(* nil map ([]) when no sub-keys are given *)
Definition get_sub_key_map (kv : list str) : res entries := get_sub_key_map_aux kv [].

(* ---------------- hasSubKeys ---------------- *)
Definition is_star_val (v : value) : bool :=
  match v with VStr x => str_eqb x star | _ => false end.
Definition sub_val_matches (sval vv : value) : bool :=
  match sval, vv with
  | VStr a, VStr b => str_eqb a b
  | VBool a, VBool b => Bool.eqb a b
  | VFlt a, VFlt b => str_eqb a b
  | _, _ => false
  end.
(* one iteration of the range loop: true = continue, false = return false *)
Definition sub_key_ok (mv : entries) (kv : str * value) : bool :=
  let '(skey0, sval) := kv in
  let '(skey, isNot) := match skey0 with
                        | "!"%char :: t => (t, true)
                        | _ => (skey0, false)
                        end in
  match lookup skey mv with
  | None => isNot && is_star_val sval
  | Some vv =>
      if is_star_val sval then negb isNot
      else if sub_val_matches sval vv then negb isNot else isNot
  end.
Definition has_sub_keys (v : value) (subkeys : entries) : bool :=
  match subkeys with
  | [] => true
  | _ => match v with VMap mv => forallb (sub_key_ok mv) subkeys | _ => false end
  end.

(* ---------------- hasKey (ValuesForKey) ---------------- *)
Definition key_hit (v : value) (subkeys : entries) : list value :=
  match v with
  | VMap _ => if has_sub_keys v subkeys then [v] else []
  | VList l => filter (fun av => has_sub_keys av subkeys) l
  | _ => match subkeys with [] => [v] | _ => [] end
  end.
Fixpoint has_key_walk (iv : value) (key : str) (subkeys : entries) : list value :=
  match iv with
  | VMap vv =>
      (match lookup key vv with Some v => key_hit v subkeys | None => [] end)
      ++ (if str_eqb key star then flat_map (fun kv => key_hit (snd kv) subkeys) vv else [])
      ++ flat_map (fun kv => has_key_walk (snd kv) key subkeys) vv
  | VList l => flat_map (fun v => has_key_walk v key subkeys) l
  | _ => []
  end.
Definition values_for_key (m : value) (key : str) (subkeys : list str) : res (list value) :=
  bind (get_sub_key_map subkeys) (fun sk => Ok (has_key_walk m key sk)).

(* ---------------- valuesForKeyPath (legacy ValuesForPath) ---------------- *)
Definition vfkp_leaf (m : value) (subkeys : entries) : list value :=
  match m with
  | VMap _ => if has_sub_keys m subkeys then [m] else []
  | VList l => filter (fun v => has_sub_keys v subkeys) l
  | _ => match subkeys with [] => [m] | _ => [] end
  end.
Fixpoint vfkp (keys : list str) (subkeys : entries) (m : value) : list value :=
  match keys with
  | [] => vfkp_leaf m subkeys
  | key :: rest =>
      if str_eqb key star then
        match m with
        | VMap mm => flat_map (fun kv => vfkp rest subkeys (snd kv)) mm
        | VList l => flat_map (fun v => match v with
                                        | VMap mm => flat_map (fun kv => vfkp rest subkeys (snd kv)) mm
                                        | _ => vfkp rest subkeys v
                                        end) l
        | _ => []
        end
      else
        match m with
        | VMap mm => match lookup key mm with Some v => vfkp rest subkeys v | None => [] end
        | VList l => flat_map (fun v => match v with
                                        | VMap mm => match lookup key mm with
                                                     | Some vv => vfkp rest subkeys vv
                                                     | None => []
                                                     end
                                        | _ => []
                                        end) l
        | _ => []
        end
  end.

(* keys := strings.Split(path, "."); drop one trailing empty segment *)
Definition path_keys (path : str) : list str :=
  let ks := split1 dot path in
  match last ks [dot] with [] => removelast ks | _ => ks end.
Definition old_values_for_path (m : value) (path : str) (subkeys : list str) : res (list value) :=
  bind (get_sub_key_map subkeys) (fun sk => Ok (vfkp (path_keys path) sk m)).

(* ---------------- parsePath ---------------- *)
Record pkey := { pk_name : str; pk_arr : bool; pk_pos : Z }.
(* vals[pos] for a non-negative Go int, without building a huge unary number *)
Definition nth_z {A} (l : list A) (z : Z) : option A :=
  if (z <? Z.of_nat (length l))%Z then nth_error l (Z.to_nat z) else None.
Definition lbr : ascii := "["%char.
Definition rbr : ascii := "]"%char.
Definition parse_seg (seg : str) : res pkey :=
  if negb (mem_ascii lbr seg) then Ok {| pk_name := seg; pk_arr := false; pk_pos := 0%Z |}
  else
    match split1 lbr seg with
    | name :: p1 :: _ =>
        match split1 rbr p1 with
        | [] => Panic                                  (* unreachable: Split never returns [] *)
        | idx :: _ =>
            match idx with
            | [] => Err EOther                         (* no right bracket *)
            | _ => match parse_int 32 idx with
                   | None => Err EOther
                   | Some z => if (z <? 0)%Z then Err EOther   (* fix: negative index rejected *)
                               else Ok {| pk_name := name; pk_arr := true; pk_pos := z |}
                   end
            end
        end
    | _ => Panic                                       (* unreachable: seg contains "[" *)
    end.
Fixpoint parse_path_segs (segs : list str) : res (list pkey) :=
  match segs with
  | [] => Ok []
  | [] :: t => parse_path_segs t                       (* empty segment skipped *)
  | seg :: t => bind (parse_seg seg) (fun k => bind (parse_path_segs t) (fun ks => Ok (k :: ks)))
  end.
Definition parse_path (path : str) : res (list pkey) := parse_path_segs (split1 dot path).

(* ---------------- valuesForArray ----------------
   The loop is a structural recursion over the key list; the loop-carried
   variables are [m], [tmp] (None = !haveFirst) and [vals]. *)
Definition tmp_path (tmp : option str) (name : str) : str :=
  match tmp with None => name | Some t => t ++ sdot ++ name end.
Definition ovfp (m : value) (path : str) : list value := vfkp (path_keys path) [] m.

Fixpoint vfa (keys : list pkey) (m : value) (tmp : option str) (vals : list value) : list value :=
  match keys with
  | [] => vals
  | k :: rest =>
      let tp := tmp_path tmp (pk_name k) in
      let next_is_arr := match rest with k2 :: _ => pk_arr k2 | [] => false end in
      if negb (pk_arr k) && next_is_arr then
        (* look-ahead; fix: vals reset before accumulating *)
        flat_map (fun v => match v with VMap _ => vfa rest v None [] | _ => [] end) (ovfp m tp)
      else if pk_arr k || match rest with [] => true | _ => false end then
        let vals := ovfp m tp in
        match rest, pk_arr k with
        | [], false => vals                                   (* i == lastkey && !isArray *)
        | _, _ =>
            match nth_z vals (pk_pos k) with
            | None => []                                      (* index out of range *)
            | Some x =>
                match rest with
                | [] => [x]
                | _ => match x with
                       | VMap _ => vfa rest x None vals       (* vals still holds the whole list *)
                       | _ => []
                       end
                end
            end
        end
      else vfa rest m (Some tp) vals
  end.
Definition values_for_array (keys : list pkey) (m : value) : list value := vfa keys m None [].

(* ---------------- ValuesForPath, ValueForPath, Exists ---------------- *)
Definition values_for_path (m : value) (path : str) (subkeys : list str) : res (list value) :=
  if negb (mem_ascii lbr path) then old_values_for_path m path subkeys
  else
    bind (get_sub_key_map subkeys) (fun sk =>
    bind (parse_path path) (fun ks =>
      Ok (filter (fun v => has_sub_keys v sk) (values_for_array ks m)))).

(* ValueForPath: first value, or PathNotExistError *)
Definition value_for_path (m : value) (path : str) : res value :=
  bind (values_for_path m path []) (fun vs =>
    match vs with [] => Err EOther | v :: _ => Ok v end).
Definition exists_path (m : value) (path : str) (subkeys : list str) : res bool :=
  bind (values_for_path m path subkeys) (fun vs =>
    Ok (match vs with [] => false | _ => true end)).

(* ---------------- hasKeyPath (PathsForKey) ---------------- *)
Definition crumb (crumbs k : str) : str :=
  match crumbs with [] => k | _ => crumbs ++ sdot ++ k end.
Fixpoint has_key_path (crumbs : str) (iv : value) (key : str) : list str :=
  match iv with
  | VMap vv =>
      (if has_key key vv then [crumb crumbs key] else [])
      ++ flat_map (fun kv => has_key_path (crumb crumbs (fst kv)) (snd kv) key) vv
  | VList l => flat_map (fun v => has_key_path crumbs v key) l
  | _ => []
  end.
Fixpoint dedup (l : list str) : list str :=
  match l with
  | [] => []
  | x :: t => if existsb (str_eqb x) t then dedup t else x :: dedup t
  end.
(* the basket is a set: distinct paths, order unspecified *)
Definition paths_for_key (m : value) (key : str) : list str := dedup (has_key_path [] m key).
Definition path_len (p : str) : nat := length (split1 dot p).

End KV.
