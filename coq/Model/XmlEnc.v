(* Model of the Map encoder of xml.go / anyxml.go for JSON/XML-shaped values:
   Map.Xml root selection, marshalMapToXmlIndent, AnyXml.  The encoder
   produces items; [emit] renders them as the bytes the compact encoder writes.
   The indented encoder writes the same items with whitespace between them.
   Executable transcriptions; NO proofs in this file. *)
From Mxj Require Export Base.Fmt Model.XmlDec.

Inductive item :=
| IOpen (name : str) (attrs : list (str * str))     (* <name a="v" ...>      *)
| IClose (name : str)                               (* </name>               *)
| IEmpty (name : str) (attrs : list (str * str))    (* <name a="v" .../>     *)
| IText (raw : str).                                (* character data, as written *)

Definition emit_attrs (a : list (str * str)) : str :=
  flat_map (fun kv => s " " ++ fst kv ++ s "=""" ++ snd kv ++ s """") a.
Definition emit1 (i : item) : str :=
  match i with
  | IOpen n a => s "<" ++ n ++ emit_attrs a ++ s ">"
  | IClose n => s "</" ++ n ++ s ">"
  | IEmpty n a => s "<" ++ n ++ emit_attrs a ++ s "/>"
  | IText x => x
  end.
Definition emit (its : list item) : str := flat_map emit1 its.

(* ---------------- fmt.Sprintf("%v", scalar): Base/Fmt.v (ntoa_aux, ztoa, fmt_v) ---------------- *)

(* insertion sort by key, ascending bytewise (sort.Sort with Less = "<=" on distinct keys) *)
Fixpoint insert_by_key {A} (kv : str * A) (l : list (str * A)) : list (str * A) :=
  match l with
  | [] => [kv]
  | h :: t => if str_leb (fst kv) (fst h) then kv :: l else h :: insert_by_key kv t
  end.
Definition sort_by_key {A} (l : list (str * A)) : list (str * A) :=
  fold_right insert_by_key [] l.

Section Enc.
Variable o : opts.

Definition esc (x : str) : str := if xmlEscapeChars o then escape_chars x else x.

(* is k an attribute key?  lenAttrPrefix > 0 && lenAttrPrefix < len(k) && k[:lenAttrPrefix] == attrPrefix *)
Definition is_attr_key (k : str) : bool :=
  (0 <? lenAttrPrefix o) && (lenAttrPrefix o <? length k) && str_eqb (firstn (lenAttrPrefix o) k) (attrPrefix o).

(* attribute value text, or None = "invalid attribute value" *)
Definition attr_text (v : value) : option str :=
  match v with
  | VStr x => Some (esc x)
  | VBool _ | VInt _ | VI64 _ | VFlt _ | VJNum _ => Some (fmt_v v)
  | _ => None                                        (* uint64 is not among the types of the attribute switch: "invalid attribute value" *)
  end.
Fixpoint attrs_of (m : entries) : res (list (str * str)) :=
  match m with
  | [] => Ok []
  | (k, v) :: t =>
      if is_attr_key k then
        match attr_text v with
        | Some x => bind (attrs_of t) (fun r => Ok ((skipn (lenAttrPrefix o) k, x) :: r))
        | None => Err EOther
        end
      else attrs_of t
  end.

(* the #text value as written: strings escaped, nil as the empty string (fix), others %v *)
Definition text_text (v : value) : str :=
  match v with VStr x => esc x | VNil => [] | _ => fmt_v v end.

Definition close_or_empty (key : str) (attrs : list (str * str)) : list item :=
  if useGoXmlEmptyElemSyntax o then [IOpen key attrs; IClose key] else [IEmpty key attrs].

Fixpoint concat_res (l : list (res (list item))) : res (list item) :=
  match l with
  | [] => Ok []
  | r :: t => bind r (fun a => bind (concat_res t) (fun b => Ok (a ++ b)))
  end.

(* marshalMapToXmlIndent(false, b, key, value, p) *)
Fixpoint enc (value : value) (key : str) {struct value} : res (list item) :=
  match value with
  | VMap vv =>
      (* children are encoded first (structural recursion), then selected and sorted *)
      let kids := map (fun kv => (fst kv, enc (snd kv) (fst kv))) vv in
      bind (attrs_of vv) (fun attrs =>
        let attrs := sort_by_key attrs in
        let n := length attrs in
        if Nat.eqb n (length vv) then Ok (close_or_empty key attrs)   (* only attributes (or nothing) *)
        else
          match lookup (textK o) vv with
          | Some tv =>
              if Nat.eqb (S n) (length vv)
              then Ok [IOpen key attrs; IText (text_text tv); IClose key]         (* value and attributes only *)
              else
                let elems := sort_by_key (filter (fun kr => negb (str_eqb (fst kr) (textK o)) && negb (is_attr_key (fst kr))) kids) in
                bind (concat_res (map snd elems)) (fun body =>
                  Ok (IOpen key attrs :: IText (text_text tv) :: body ++ [IClose key]))
          | None =>
              let elems := sort_by_key (filter (fun kr => negb (is_attr_key (fst kr))) kids) in
              bind (concat_res (map snd elems)) (fun body =>
                Ok (IOpen key attrs :: body ++ [IClose key]))
          end)
  | VList l =>
      match l with
      | [] => Ok (close_or_empty key [])
      | _ => concat_res (map (fun v => enc v key) l)
      end
  | VNil => Ok (close_or_empty key [])               (* value = "" *)
  | VStr x =>
      match esc x with
      | [] => Ok (close_or_empty key [])
      | e => Ok [IOpen key []; IText e; IClose key]
      end
  | _ => match fmt_v value with
         | [] => Ok (close_or_empty key [])          (* an empty json.Number: an empty element (after /repo 9f7c997) *)
         | x => Ok [IOpen key []; IText x; IClose key]
         end
  end.

Definition default_root : str := s "doc".
Definition default_elem : str := s "element".

Definition all_maps (l : list value) : bool := forallb is_map l.

(* Map.Xml(rootTag...) without the validity check; rootTag = None when no tag is given *)
Definition map_xml_items (m : entries) (rootTag : option str) : res (list item) :=
  match rootTag with
  | Some rt => enc (VMap m) rt
  | None =>
      match m with
      | [(key, value)] =>
          match value with
          | VList l => if all_maps l then enc value key else enc (VMap m) default_root
          | _ => enc value key
          end
      | _ => enc (VMap m) default_root
      end
  end.

(* Map.XmlIndent(prefix, indent, rootTag...): same items, whitespace between them *)
Definition map_xml_indent_items (m : entries) (rootTag : option str) : res (list item) :=
  match rootTag with
  | Some rt => enc (VMap m) rt
  | None =>
      match m with
      | [(key, value)] =>
          match value with
          | VList _ => enc (VMap m) default_root
          | _ => enc value key
          end
      | _ => enc (VMap m) default_root
      end
  end.

(* AnyXml(v, tags...) for JSON-shaped v; rt / et are the root and element tags in effect *)
Definition any_xml_items (v : value) (rt et : str) : res (list item) :=
  match v with
  | VNil => Ok (close_or_empty rt [])
  | VList l =>
      bind (concat_res (map (fun vv => match vv with
                                       | VMap [(tag, val)] => enc val tag
                                       | _ => enc vv et
                                       end) l)) (fun body =>
        Ok (IOpen rt [] :: body ++ [IClose rt]))
  | VMap m => map_xml_items m (Some rt)
  | _ => enc v rt
  end.
End Enc.
