(* Stream decoding (C13): reader schedules, the two single-byte adaptors of xml.go
   (byteReader, teeReader), the JSON object scanner getJson of json.go, the reader
   entry points, the bulk handlers and the file readers.

   An io.Reader is a schedule: the list of results of its successive Read calls.  All
   callers modelled here pass a one-byte buffer (b.b, t.b, bval are make([]byte, 1)), so
   one event is (n, err) with n <= 1: Data b = (1, nil), DataEOF b = (1, io.EOF),
   Zero = (0, nil), Eof = (0, io.EOF); a finished list keeps answering Eof.  io.EOF is
   the only reader error modelled.

   encoding/xml's Decoder together with xmlToMapParser / xmlSeqToMapParser is the
   environment: an abstract deterministic consumer (`machine`) of the ReadByte results,
   which looks at the error first (Decoder.getc: `b, d.err = d.r.ReadByte(); if d.err != nil
   { return 0, false }`) and otherwise at the byte.  NewMapJson is an oracle `str -> res value`.
   No proofs in this file. *)
From Mxj Require Export Base.Value.

(* ------------------------------------------------------------------ schedules *)

Inductive rev := Data (b : ascii) | DataEOF (b : ascii) | Zero | Eof.

Fixpoint delivered (S : list rev) : str :=
  match S with
  | [] => []
  | Data b :: t | DataEOF b :: t => b :: delivered t
  | _ :: t => delivered t
  end.
Fixpoint only_eof (S : list rev) : bool :=
  match S with [] => true | Eof :: t => only_eof t | _ => false end.
(* the io.Reader contract: once io.EOF has been returned, only (0, io.EOF) follows *)
Fixpoint legal_tail (S : list rev) : bool :=
  match S with
  | [] => true
  | DataEOF _ :: t | Eof :: t => only_eof t
  | _ :: t => legal_tail t
  end.
Definition legal (X : str) (S : list rev) : Prop := delivered S = X /\ legal_tail S = true.
(* a finished list keeps answering Eof *)
Definition read1 (S : list rev) : rev * list rev :=
  match S with [] => (Eof, []) | r :: t => (r, t) end.

(* schedules that never return data together with io.EOF and never return (0, nil) *)
Definition clean_ev (e : rev) : bool := match e with Data _ | Eof => true | _ => false end.
Definition clean (S : list rev) : bool := forallb clean_ev S.

Definition zero_byte : ascii := ascii_of_N 0.

(* n, err := r.Read(p) with len(p) = 1 and p[0] = buf before the call:
   (n, err != nil, p[0] afterwards, the reader afterwards) *)
Definition read_into (buf : ascii) (S : list rev) : nat * bool * ascii * list rev :=
  match read1 S with
  | (Data b, S') => (1, false, b, S')
  | (DataEOF b, S') => (1, true, b, S')
  | (Zero, S') => (0, false, buf, S')
  | (Eof, S') => (0, true, buf, S')
  end.

(* ------------------------------------------------------------------ xml.go:927-951 byteReader *)

Record breader := { br_b : ascii; br_r : list rev }.
(* myByteReader: b := make([]byte, 1) *)
Definition my_byte_reader (S : list rev) : breader := {| br_b := zero_byte; br_r := S |}.
(* func (b *byteReader) ReadByte() (byte, error) {
       _, err := b.r.Read(b.b)
       if len(b.b) > 0 { return b.b[0], err }     -- len(b.b) is always 1
       ... } *)
Definition br_read_byte (b : breader) : (ascii * bool) * breader :=
  let '(_, err, buf', S') := read_into (br_b b) (br_r b) in
  ((buf', err), {| br_b := buf'; br_r := S' |}).

(* ------------------------------------------------------------------ xml.go:897-924 teeReader *)

Record treader := { tr_b : ascii; tr_w : str; tr_r : list rev }.
Definition my_tee_reader (S : list rev) : treader := {| tr_b := zero_byte; tr_w := []; tr_r := S |}.
(* func (t *teeReader) ReadByte() (byte, error) {
       n, err := t.r.Read(t.b)
       if n > 0 { if _, err := t.w.Write(t.b[:1]); err != nil { return t.b[0], err } }   -- bytes.Buffer.Write: err == nil
       return t.b[0], err } *)
Definition tr_read_byte (t : treader) : (ascii * bool) * treader :=
  let '(n, err, buf', S') := read_into (tr_b t) (tr_r t) in
  let w' := if Nat.ltb 0 n then tr_w t ++ [buf'] else tr_w t in
  ((buf', err), {| tr_b := buf'; tr_w := w'; tr_r := S' |}).

(* the first n results of ReadByte, as the caller sees them *)
Fixpoint br_results (n : nat) (b : breader) : list (ascii * bool) :=
  match n with O => [] | S k => let '(r, b') := br_read_byte b in r :: br_results k b' end.
Fixpoint tr_results (n : nat) (t : treader) : list (ascii * bool) * treader :=
  match n with
  | O => ([], t)
  | S k => let '(r, t') := tr_read_byte t in let '(rs, t'') := tr_results k t' in (r :: rs, t'')
  end.

(* ------------------------------------------------------------------ the consumer of ReadByte results *)

Record machine (R : Type) := {
  m_st : Type;
  m_init : m_st;
  m_step : m_st -> ascii -> m_st + R;   (* ReadByte returned (b, nil) *)
  m_eof : m_st -> R                     (* ReadByte returned (_, io.EOF): the byte is not looked at *)
}.
Arguments m_st {R}. Arguments m_init {R}. Arguments m_step {R}. Arguments m_eof {R}.

(* run M over the results of a ReadByte function; every call consumes one schedule event,
   so fuel = 1 + length of the schedule is never exhausted (Proofs/C13P.v) *)
Fixpoint drive {R A} (M : machine R) (rb : A -> (ascii * bool) * A) (fuel : nat) (st : m_st M) (a : A)
  : option (R * A) :=
  match fuel with
  | O => None
  | S f =>
      let '((b, err), a') := rb a in
      if err then Some (m_eof M st, a')
      else match m_step M st b with
           | inl st' => drive M rb f st' a'
           | inr r => Some (r, a')
           end
  end.

(* the same machine fed from a bytes.Reader (an io.ByteReader: no adaptor in between):
   the bytes in order, then io.EOF.  Result and number of bytes consumed. *)
Fixpoint direct {R} (M : machine R) (st : m_st M) (X : str) : R * nat :=
  match X with
  | [] => (m_eof M st, 0)
  | b :: X' => match m_step M st b with
               | inl st' => let '(r, n) := direct M st' X' in (r, S n)
               | inr r => (r, 1)
               end
  end.

(* ------------------------------------------------------------------ XML reader entry points *)

Definition xmachine := machine (res value).

(* NewMapXmlReader / NewMapXmlSeqReader (xml.go:101-118, xmlseq.go:139-155) on a reader that is not
   an io.ByteReader: a fresh byteReader is put under xml.NewDecoder on every call *)
Definition new_map_xml_reader (M : xmachine) (S : list rev) : option (res value * list rev) :=
  match drive M br_read_byte (Datatypes.S (length S)) (m_init M) (my_byte_reader S) with
  | Some (r, b) => Some (r, br_r b)
  | None => None
  end.

(* NewMapXmlReaderRaw (xml.go:134-154): a fresh teeReader; `if err != nil { return nil, b, err }` *)
Definition new_map_xml_reader_raw (M : xmachine) (S : list rev) : option (res value * str * list rev) :=
  match drive M tr_read_byte (Datatypes.S (length S)) (m_init M) (my_tee_reader S) with
  | Some (r, t) => Some (r, tr_w t, tr_r t)
  | None => None
  end.

(* ------------------------------------------------------------------ json.go:182-237 getJson *)

Record jstate := { inQuote : bool; inJson : bool; parenCnt : Z; previous : ascii; jb : str }.
Definition jinit : jstate :=
  {| inQuote := false; inJson := false; parenCnt := 0; previous := zero_byte; jb := [] |}.

Inductive jscan :=
| JOk (b : str)             (* return &jb, nil *)
| JErr (b : str) (e : err)  (* return &jb, err  (io.EOF, or "no closing }") *)
| JNil.                     (* return nil, err  ("closing } without opening {") *)

Definition cbyte (c : ascii) : N := N_of_ascii c.

(* one pass through the body of the for loop after a successful Read, c = bval[0] *)
Definition jstep (st : jstate) (c : ascii) : jstate + jscan :=
  (* the statements after the switch *)
  let after (st : jstate) : jstate + jscan :=
    if inJson st then
      let jb' := jb st ++ [c] in                                   (* jb = append(jb, bval[0]) *)
      if (parenCnt st =? 0)%Z then inr (JOk jb')                    (* if parenCnt == 0 { break } *)
      else inl {| inQuote := inQuote st; inJson := true; parenCnt := parenCnt st; previous := c; jb := jb' |}
    else inl {| inQuote := inQuote st; inJson := false; parenCnt := parenCnt st; previous := c; jb := jb st |} in
  let n := cbyte c in
  if (n =? 123)%N then                                              (* case '{' *)
    after (if inQuote st then st
           else {| inQuote := false; inJson := true; parenCnt := parenCnt st + 1; previous := previous st; jb := jb st |})
  else if (n =? 125)%N then                                         (* case '}' *)
    let st1 := if inQuote st then st
               else {| inQuote := false; inJson := inJson st; parenCnt := parenCnt st - 1; previous := previous st; jb := jb st |} in
    if (parenCnt st1 <? 0)%Z then inr JNil                          (* return nil, fmt.Errorf("closing } without opening {") *)
    else after st1
  else if (n =? 34)%N then                                          (* case the double quote *)
    if inQuote st then
      if (cbyte (previous st) =? 92)%N then after st                (* if previous == '\\' { break } *)
      else after {| inQuote := false; inJson := inJson st; parenCnt := parenCnt st; previous := previous st; jb := jb st |}
    else after {| inQuote := true; inJson := inJson st; parenCnt := parenCnt st; previous := previous st; jb := jb st |}
  else if (n =? 10)%N || (n =? 13)%N || (n =? 9)%N || (n =? 32)%N then   (* case '\n', '\r', '\t', ' ' *)
    if negb (inQuote st) then inl st                                (* continue: nothing appended, previous unchanged *)
    else after st
  else after st.

(* if err != nil { if err == io.EOF && inJson && parenCnt > 0 { return &jb, "no closing }" }; return &jb, err } *)
Definition jeof (st : jstate) : jscan :=
  if inJson st && (0 <? parenCnt st)%Z then JErr (jb st) EOther else JErr (jb st) EEOF.

Definition jmachine : machine jscan :=
  {| m_st := jstate; m_init := jinit; m_step := jstep; m_eof := jeof |}.

(* bval := make([]byte, 1); for { _, err := rdr.Read(bval); if err != nil {...}; switch bval[0] ... }:
   the count returned by Read is ignored and the error is tested first - the very statements of
   byteReader.ReadByte followed by the decoder's test, so the loop is `drive` over br_read_byte *)
Definition get_json (S : list rev) : option (jscan * list rev) :=
  match drive jmachine br_read_byte (Datatypes.S (length S)) jinit (my_byte_reader S) with
  | Some (r, b) => Some (r, br_r b)
  | None => None
  end.

(* NewMapJsonReader (json.go:154-162): jb, err := getJson(r); if err != nil || len( *jb ) == 0 { return nil, err } *)
Definition new_map_json_reader (nmj : str -> res value) (S : list rev) : option (res value * list rev) :=
  match get_json S with
  | None => None
  | Some (JNil, S') => Some (Err EOther, S')              (* err != nil: *jb is not evaluated *)
  | Some (JErr _ e, S') => Some (Err e, S')
  | Some (JOk b, S') => Some (match b with [] => Ok VNil | _ => nmj b end, S')
  end.

(* NewMapJsonReaderRaw (json.go:169-178): ... { return nil, *jb, err } - *jb with jb == nil panics *)
Definition new_map_json_reader_raw (nmj : str -> res value) (S : list rev) : option (res value * str * list rev) :=
  match get_json S with
  | None => None
  | Some (JNil, S') => Some (Panic, [], S')
  | Some (JErr b e, S') => Some (Err e, b, S')
  | Some (JOk b, S') => Some (match b with [] => Ok VNil | _ => nmj b end, b, S')
  end.

(* ------------------------------------------------------------------ reading document after document *)

(* what a caller does with a reader function: call it until it returns an error (io.EOF at
   the end of the stream); the list of all results, the last one being the error *)
Fixpoint read_docs {T} (next : list rev -> option (res value * T * list rev)) (fuel : nat) (S : list rev)
  : list (res value * T) :=
  match fuel with
  | O => []
  | Datatypes.S f =>
      match next S with
      | None => []
      | Some (r, t, S') => match r with
                           | Ok _ => (r, t) :: read_docs next f S'
                           | _ => [(r, t)]
                           end
      end
  end.
Definition noraw (next : list rev -> option (res value * list rev)) (S : list rev) : option (res value * unit * list rev) :=
  match next S with Some (r, S') => Some (r, tt, S') | None => None end.

(* ------------------------------------------------------------------ bulk handlers *)

(* len(m) != 0 for the Map a reader returned *)
Definition nonempty_map (v : value) : bool := match v with VMap (_ :: _) => true | _ => false end.

Record hout := {
  h_calls : list (value * str);   (* mapHandler invocations, in order (Map, raw) *)
  h_errs : nat;                   (* errHandler invocations *)
  h_ret : res unit;               (* Ok tt = nil; Err e = the error returned; Panic *)
  h_rest : list rev               (* the reader afterwards *)
}.

(* HandleXmlReader[Raw] (xml.go:818-881) and HandleJsonReader[Raw] (json.go:254-323) are the same loop
   around a reader function `next`; mh k m = what mapHandler returns on its k-th call (k from 0),
   eh k = what errHandler returns on its k-th call:
     for { m, raw, merr := next(rdr); n++
           if merr != nil && merr != io.EOF { if ok := errHandler(merr, raw); !ok { return merr }; continue }
           if len(m) != 0 { if ok := mapHandler(m, raw); !ok { break } } else if merr != io.EOF { sleep }
           if merr == io.EOF { break } }
     return nil *)
Fixpoint handle_loop (next : list rev -> option (res value * str * list rev))
         (mh : nat -> value -> bool) (eh : nat -> bool)
         (fuel : nat) (calls : list (value * str)) (nerr : nat) (S : list rev) : option hout :=
  match fuel with
  | O => None
  | Datatypes.S f =>
      match next S with
      | None => None
      | Some (Panic, _, S') => Some {| h_calls := calls; h_errs := nerr; h_ret := Panic; h_rest := S' |}
      | Some (Err EEOF, _, S') =>                          (* m == nil; merr == io.EOF: break *)
          Some {| h_calls := calls; h_errs := nerr; h_ret := Ok tt; h_rest := S' |}
      | Some (Err e, _, S') =>
          if eh nerr then handle_loop next mh eh f calls (Datatypes.S nerr) S'
          (* merr = fmt.Errorf("[xmlReader: %d] %s", n, merr.Error()): a new error value *)
          else Some {| h_calls := calls; h_errs := Datatypes.S nerr; h_ret := Err EOther; h_rest := S' |}
      | Some (Ok m, raw, S') =>
          if nonempty_map m then
            if mh (length calls) m then handle_loop next mh eh f (calls ++ [(m, raw)]) nerr S'
            else Some {| h_calls := calls ++ [(m, raw)]; h_errs := nerr; h_ret := Ok tt; h_rest := S' |}
          else handle_loop next mh eh f calls nerr S'      (* sleep(pollInterval); next iteration *)
      end
  end.
Definition handle_reader next mh eh (S : list rev) : option hout :=
  handle_loop next mh eh (2 + length S) [] 0 S.
Definition with_unit_raw (next : list rev -> option (res value * list rev)) (S : list rev)
  : option (res value * str * list rev) :=
  match next S with Some (r, S') => Some (r, [], S') | None => None end.

Definition handle_xml_reader (M : xmachine) := handle_reader (with_unit_raw (new_map_xml_reader M)).
Definition handle_xml_reader_raw (M : xmachine) := handle_reader (new_map_xml_reader_raw M).
Definition handle_json_reader nmj := handle_reader (with_unit_raw (new_map_json_reader nmj)).
Definition handle_json_reader_raw nmj := handle_reader (new_map_json_reader_raw nmj).

(* ------------------------------------------------------------------ file readers (files.go:21-152) *)

(* an *os.File read one byte at a time: every byte with a nil error, then (0, io.EOF) *)
Definition file_schedule (X : str) : list rev := map Data X.

(* for { m, raw, err := next(fh); if err != nil && err != io.EOF { return am, error }
         if len(m) > 0 { am = append(am, MapRaw{m, raw}) }; if err == io.EOF { break } }
   return am, nil *)
Fixpoint maps_loop (next : list rev -> option (res value * str * list rev))
         (fuel : nat) (am : list (value * str)) (S : list rev) : option (list (value * str) * res unit) :=
  match fuel with
  | O => None
  | Datatypes.S f =>
      match next S with
      | None => None
      | Some (Panic, _, _) => Some (am, Panic)
      | Some (Err EEOF, _, _) => Some (am, Ok tt)
      | Some (Err e, _, _) => Some (am, Err EOther)     (* fmt.Errorf("error: %s - reading: %s", ...) *)
      | Some (Ok m, raw, S') => maps_loop next f (if nonempty_map m then am ++ [(m, raw)] else am) S'
      end
  end.
Definition maps_from_file next (X : str) : option (list (value * str) * res unit) :=
  maps_loop next (2 + length X) [] (file_schedule X).
Definition new_maps_from_xml_file_raw (M : xmachine) := maps_from_file (new_map_xml_reader_raw M).
Definition new_maps_from_json_file_raw nmj := maps_from_file (new_map_json_reader_raw nmj).
(* NewMapsFromXmlFile / NewMapsFromJsonFile keep the Maps only *)
Definition drop_raw (r : option (list (value * str) * res unit)) : option (list value * res unit) :=
  match r with Some (am, e) => Some (map fst am, e) | None => None end.
Definition new_maps_from_xml_file (M : xmachine) (X : str) := drop_raw (new_maps_from_xml_file_raw M X).
Definition new_maps_from_json_file nmj (X : str) := drop_raw (new_maps_from_json_file_raw nmj X).
