(* Stream decoding (C13): reader schedules, the two single-byte adaptors of xml.go
   (byteReader, teeReader), the JSON object scanner getJson of json.go, the reader
   entry points, the bulk handlers and the file readers.

   An io.Reader is a schedule: the list of results of its successive Read calls.  All
   callers modelled here pass a one-byte buffer (b.b, t.b, bval are make([]byte, 1)), so
   one event is (n, err) with n <= 1: Data b = (1, nil), DataEOF b = (1, io.EOF),
   Zero = (0, nil), Eof = (0, io.EOF); a finished list keeps answering Eof.  io.EOF is
   the only reader error modelled.

   encoding/xml's Decoder together with xmlToMapParser / xmlSeqToMapParser is the
   environment: an abstract deterministic consumer (`machine`) of the ReadByte results
   (Decoder.getc: `b, d.err = d.r.ReadByte(); if d.err != nil { return 0, false }`).
   NewMapJson is an oracle `str -> res value`.
   The model follows /repo after a2b77a7 (adaptors and getJson use the count returned by Read),
   419ac2a (escape state in getJson), fd230a2 (m != nil in the loops), 9f7e6ef.
   No proofs in this file. *)
From Mxj Require Export Base.Value.

(* ------------------------------------------------------------------ schedules *)

Inductive rev := Data (b : ascii) | DataEOF (b : ascii) | Zero | Eof.

Fixpoint delivered (S : list rev) : str :=
  match S with
  | [] => []
  | Data b :: t | DataEOF b :: t => b :: delivered t
  | _ :: t => delivered t
  end.
Fixpoint only_eof (S : list rev) : bool :=
  match S with [] => true | Eof :: t => only_eof t | _ => false end.
(* the io.Reader contract: once io.EOF has been returned, only (0, io.EOF) follows *)
Fixpoint legal_tail (S : list rev) : bool :=
  match S with
  | [] => true
  | DataEOF _ :: t | Eof :: t => only_eof t
  | _ :: t => legal_tail t
  end.
Definition legal (X : str) (S : list rev) : Prop := delivered S = X /\ legal_tail S = true.
(* a finished list keeps answering Eof *)
Definition read1 (S : list rev) : rev * list rev :=
  match S with [] => (Eof, []) | r :: t => (r, t) end.

(* schedules that never return data together with io.EOF and never return (0, nil) *)
Definition clean_ev (e : rev) : bool := match e with Data _ | Eof => true | _ => false end.
Definition clean (S : list rev) : bool := forallb clean_ev S.

Definition zero_byte : ascii := ascii_of_N 0.

(* n, err := r.Read(p) with len(p) = 1: (n, err != nil, the byte stored in p[0] if n > 0, the reader afterwards) *)
Definition read_into (S : list rev) : nat * bool * ascii * list rev :=
  match read1 S with
  | (Data b, S') => (1, false, b, S')
  | (DataEOF b, S') => (1, true, b, S')
  | (Zero, S') => (0, false, zero_byte, S')
  | (Eof, S') => (0, true, zero_byte, S')
  end.

(* what ReadByte returns *)
Inductive rberr := RBEof | RBNoProgress.          (* io.EOF (from the reader) | io.ErrNoProgress *)
Inductive rbres := RBByte (b : ascii) | RBErr (e : rberr).

(* ------------------------------------------------------------------ xml.go byteReader *)

(* func (b *byteReader) ReadByte() (byte, error) {
       for i := 0; i < 100; i++ {
           n, err := b.r.Read(b.b)
           if n > 0 { return b.b[0], nil }     -- the reader reports err again on the next Read
           if err != nil { return 0, err }
       }
       return 0, io.ErrNoProgress }
   b.b[0] is only looked at right after Read stored a byte in it, so the buffer carries no state;
   the adaptor's state is the reader. *)
Fixpoint br_loop (i : nat) (S : list rev) : rbres * list rev :=
  match i with
  | O => (RBErr RBNoProgress, S)
  | Datatypes.S i' =>
      let '(n, err, b, S') := read_into S in
      if Nat.ltb 0 n then (RBByte b, S')
      else if err then (RBErr RBEof, S')
      else br_loop i' S'
  end.
Definition br_read_byte (S : list rev) : rbres * list rev := br_loop 100 S.

(* ------------------------------------------------------------------ xml.go teeReader *)

Record treader := { tr_w : str; tr_r : list rev }.
Definition my_tee_reader (S : list rev) : treader := {| tr_w := []; tr_r := S |}.
(* func (t *teeReader) ReadByte() (byte, error) {
       for i := 0; i < 100; i++ {
           n, err := t.r.Read(t.b)
           if n > 0 { if _, werr := t.w.Write(t.b[:1]); werr != nil {...}   -- bytes.Buffer.Write: werr == nil
                      return t.b[0], nil }
           if err != nil { return 0, err }
       }
       return 0, io.ErrNoProgress } *)
Fixpoint tr_loop (i : nat) (t : treader) : rbres * treader :=
  match i with
  | O => (RBErr RBNoProgress, t)
  | Datatypes.S i' =>
      let '(n, err, b, S') := read_into (tr_r t) in
      if Nat.ltb 0 n then (RBByte b, {| tr_w := tr_w t ++ [b]; tr_r := S' |})
      else if err then (RBErr RBEof, {| tr_w := tr_w t; tr_r := S' |})
      else tr_loop i' {| tr_w := tr_w t; tr_r := S' |}
  end.
Definition tr_read_byte (t : treader) : rbres * treader := tr_loop 100 t.

(* the first n results of ReadByte *)
Fixpoint br_results (n : nat) (S : list rev) : list rbres :=
  match n with O => [] | Datatypes.S k => let '(r, S') := br_read_byte S in r :: br_results k S' end.
Fixpoint tr_results (n : nat) (t : treader) : list rbres * treader :=
  match n with
  | O => ([], t)
  | Datatypes.S k => let '(r, t') := tr_read_byte t in let '(rs, t'') := tr_results k t' in (r :: rs, t'')
  end.

(* ------------------------------------------------------------------ the consumer of ReadByte results *)

Record machine (R : Type) := {
  m_st : Type;
  m_init : m_st;
  m_step : m_st -> ascii -> m_st + R;   (* ReadByte returned (b, nil) *)
  m_eof : m_st -> R;                    (* ReadByte returned (_, io.EOF) *)
  m_noprog : m_st -> R                  (* ReadByte returned (_, io.ErrNoProgress) *)
}.
Arguments m_st {R}. Arguments m_init {R}. Arguments m_step {R}. Arguments m_eof {R}. Arguments m_noprog {R}.

(* run M over the results of a ReadByte function; every call consumes at least one schedule event
   unless the schedule is exhausted, so fuel = 1 + length of the schedule is never exhausted *)
Fixpoint drive {R A} (M : machine R) (rb : A -> rbres * A) (fuel : nat) (st : m_st M) (a : A)
  : option (R * A) :=
  match fuel with
  | O => None
  | S f =>
      let '(r, a') := rb a in
      match r with
      | RBErr RBEof => Some (m_eof M st, a')
      | RBErr RBNoProgress => Some (m_noprog M st, a')
      | RBByte b => match m_step M st b with
                    | inl st' => drive M rb f st' a'
                    | inr r => Some (r, a')
                    end
      end
  end.

(* the same machine fed from a bytes.Reader (an io.ByteReader: no adaptor in between):
   the bytes in order, then io.EOF.  Result and number of bytes consumed. *)
Fixpoint direct {R} (M : machine R) (st : m_st M) (X : str) : R * nat :=
  match X with
  | [] => (m_eof M st, 0)
  | b :: X' => match m_step M st b with
               | inl st' => let '(r, n) := direct M st' X' in (r, S n)
               | inr r => (r, 1)
               end
  end.

(* ------------------------------------------------------------------ XML reader entry points *)

Definition xmachine := machine (res value).

(* NewMapXmlReader / NewMapXmlSeqReader (xml.go:101-118, xmlseq.go:139-155) on a reader that is not
   an io.ByteReader: a fresh byteReader is put under xml.NewDecoder on every call *)
Definition new_map_xml_reader (M : xmachine) (S : list rev) : option (res value * list rev) :=
  drive M br_read_byte (Datatypes.S (length S)) (m_init M) S.

(* NewMapXmlReaderRaw (xml.go:134-154): a fresh teeReader; `if err != nil { return nil, b, err }` *)
Definition new_map_xml_reader_raw (M : xmachine) (S : list rev) : option (res value * str * list rev) :=
  match drive M tr_read_byte (Datatypes.S (length S)) (m_init M) (my_tee_reader S) with
  | Some (r, t) => Some (r, tr_w t, tr_r t)
  | None => None
  end.

(* ------------------------------------------------------------------ json.go:182-237 getJson *)

Record jstate := { inQuote : bool; inJson : bool; parenCnt : Z; escaped : bool; jb : str }.
Definition jinit : jstate :=
  {| inQuote := false; inJson := false; parenCnt := 0; escaped := false; jb := [] |}.

Inductive jscan :=
| JOk (b : str)             (* return &jb, nil *)
| JErr (b : str) (e : err). (* return &jb, err  (io.EOF, "no closing }", "closing } without opening {") *)

Definition cbyte (c : ascii) : N := N_of_ascii c.

(* one pass through the body of the for loop after a Read that delivered the byte c = bval[0] *)
Definition jstep (st : jstate) (c : ascii) : jstate + jscan :=
  (* the statements after the switch; q = inQuote after the switch *)
  let after (q : bool) (cnt : Z) (ij : bool) : jstate + jscan :=
    let esc' := q && negb (escaped st) && (cbyte c =? 92)%N in        (* escaped = inQuote && !escaped && bval[0] == '\\' *)
    if ij then
      let jb' := jb st ++ [c] in                                     (* jb = append(jb, bval[0]) *)
      if (cnt =? 0)%Z then inr (JOk jb')                              (* if parenCnt == 0 { break } *)
      else inl {| inQuote := q; inJson := true; parenCnt := cnt; escaped := esc'; jb := jb' |}
    else inl {| inQuote := q; inJson := false; parenCnt := cnt; escaped := esc'; jb := jb st |} in
  let n := cbyte c in
  if (n =? 123)%N then                                              (* case '{' *)
    if inQuote st then after true (parenCnt st) (inJson st)
    else after false (parenCnt st + 1)%Z true                         (* parenCnt++; inJson = true *)
  else if (n =? 125)%N then                                         (* case '}' *)
    let cnt := if inQuote st then parenCnt st else (parenCnt st - 1)%Z in
    if (cnt <? 0)%Z then inr (JErr (jb st) EOther)                  (* return &jb, fmt.Errorf("closing } without opening {") *)
    else after (inQuote st) cnt (inJson st)
  else if (n =? 34)%N then                                          (* case the double quote *)
    if inQuote st then
      if escaped st then after true (parenCnt st) (inJson st)       (* if escaped { break } *)
      else after false (parenCnt st) (inJson st)                    (* inQuote = false *)
    else after true (parenCnt st) (inJson st)                       (* inQuote = true *)
  else if (n =? 10)%N || (n =? 13)%N || (n =? 9)%N || (n =? 32)%N then   (* case '\n', '\r', '\t', ' ' *)
    if negb (inQuote st) then inl st                                (* continue: nothing appended, escaped unchanged *)
    else after true (parenCnt st) (inJson st)
  else after (inQuote st) (parenCnt st) (inJson st).

(* if n == 0 { if err == io.EOF && inJson && parenCnt > 0 { return &jb, "no closing }" }; return &jb, err } *)
Definition jeof (st : jstate) : jscan :=
  if inJson st && (0 <? parenCnt st)%Z then JErr (jb st) EOther else JErr (jb st) EEOF.

Definition jmachine : machine jscan :=
  {| m_st := jstate; m_init := jinit; m_step := jstep; m_eof := jeof; m_noprog := jeof |}.

(* the reading statements of getJson:
     n, err := rdr.Read(bval)
     if n == 0 && err == nil { continue }       -- retried without bound
     if n == 0 { ... return &jb, err }
     (n > 0: bval[0] is used, err is ignored - the reader reports it again on the next Read) *)
Fixpoint jr_read_byte (S : list rev) : rbres * list rev :=
  match S with
  | [] => (RBErr RBEof, [])
  | Data b :: S' | DataEOF b :: S' => (RBByte b, S')
  | Zero :: S' => jr_read_byte S'
  | Eof :: S' => (RBErr RBEof, S')
  end.

Definition get_json (S : list rev) : option (jscan * list rev) :=
  drive jmachine jr_read_byte (Datatypes.S (length S)) jinit S.

(* NewMapJsonReader (json.go:154-162): jb, err := getJson(r); if err != nil || len( *jb ) == 0 { return nil, err } *)
Definition new_map_json_reader (nmj : str -> res value) (S : list rev) : option (res value * list rev) :=
  match get_json S with
  | None => None
  | Some (JErr _ e, S') => Some (Err e, S')
  | Some (JOk b, S') => Some (match b with [] => Ok VNil | _ => nmj b end, S')
  end.

(* NewMapJsonReaderRaw: jb, err := getJson(r); if err != nil || len( *jb ) == 0 { return nil, *jb, err };
   getJson always returns a non-nil pointer *)
Definition new_map_json_reader_raw (nmj : str -> res value) (S : list rev) : option (res value * str * list rev) :=
  match get_json S with
  | None => None
  | Some (JErr b e, S') => Some (Err e, b, S')
  | Some (JOk b, S') => Some (match b with [] => Ok VNil | _ => nmj b end, b, S')
  end.

(* ------------------------------------------------------------------ reading document after document *)

(* what a caller does with a reader function: call it until it returns an error (io.EOF at
   the end of the stream); the list of all results, the last one being the error *)
Fixpoint read_docs {T} (next : list rev -> option (res value * T * list rev)) (fuel : nat) (S : list rev)
  : list (res value * T) :=
  match fuel with
  | O => []
  | Datatypes.S f =>
      match next S with
      | None => []
      | Some (r, t, S') => match r with
                           | Ok _ => (r, t) :: read_docs next f S'
                           | _ => [(r, t)]
                           end
      end
  end.
Definition noraw (next : list rev -> option (res value * list rev)) (S : list rev) : option (res value * unit * list rev) :=
  match next S with Some (r, S') => Some (r, tt, S') | None => None end.

(* ------------------------------------------------------------------ bulk handlers *)

(* m != nil for the Map a reader returned together with a nil error (VNil stands for the nil Map) *)
Definition non_nil (v : value) : bool := match v with VNil => false | _ => true end.

Record hout := {
  h_calls : list (value * str);   (* mapHandler invocations, in order (Map, raw) *)
  h_errs : nat;                   (* errHandler invocations *)
  h_ret : res unit;               (* Ok tt = nil; Err e = the error returned; Panic *)
  h_rest : list rev               (* the reader afterwards *)
}.

(* HandleXmlReader[Raw] (xml.go:818-881) and HandleJsonReader[Raw] (json.go:254-323) are the same loop
   around a reader function `next`; mh k m = what mapHandler returns on its k-th call (k from 0),
   eh k = what errHandler returns on its k-th call:
     for { m, raw, merr := next(rdr); n++
           if merr != nil && merr != io.EOF { if ok := errHandler(merr, raw); !ok { return merr }; continue }
           if m != nil { if ok := mapHandler(m, raw); !ok { break } } else if merr != io.EOF { sleep }
           if merr == io.EOF { break } }
     return nil *)
Fixpoint handle_loop (next : list rev -> option (res value * str * list rev))
         (mh : nat -> value -> bool) (eh : nat -> bool)
         (fuel : nat) (calls : list (value * str)) (nerr : nat) (S : list rev) : option hout :=
  match fuel with
  | O => None
  | Datatypes.S f =>
      match next S with
      | None => None
      | Some (Panic, _, S') => Some {| h_calls := calls; h_errs := nerr; h_ret := Panic; h_rest := S' |}
      | Some (Err EEOF, _, S') =>                          (* m == nil; merr == io.EOF: break *)
          Some {| h_calls := calls; h_errs := nerr; h_ret := Ok tt; h_rest := S' |}
      | Some (Err e, _, S') =>
          if eh nerr then handle_loop next mh eh f calls (Datatypes.S nerr) S'
          (* merr = fmt.Errorf("[xmlReader: %d] %s", n, merr.Error()): a new error value *)
          else Some {| h_calls := calls; h_errs := Datatypes.S nerr; h_ret := Err EOther; h_rest := S' |}
      | Some (Ok m, raw, S') =>
          if non_nil m then
            if mh (length calls) m then handle_loop next mh eh f (calls ++ [(m, raw)]) nerr S'
            else Some {| h_calls := calls ++ [(m, raw)]; h_errs := nerr; h_ret := Ok tt; h_rest := S' |}
          else handle_loop next mh eh f calls nerr S'      (* sleep(pollInterval); next iteration *)
      end
  end.
Definition handle_reader next mh eh (S : list rev) : option hout :=
  handle_loop next mh eh (2 + length S) [] 0 S.
Definition with_unit_raw (next : list rev -> option (res value * list rev)) (S : list rev)
  : option (res value * str * list rev) :=
  match next S with Some (r, S') => Some (r, [], S') | None => None end.

Definition handle_xml_reader (M : xmachine) := handle_reader (with_unit_raw (new_map_xml_reader M)).
Definition handle_xml_reader_raw (M : xmachine) := handle_reader (new_map_xml_reader_raw M).
Definition handle_json_reader nmj := handle_reader (with_unit_raw (new_map_json_reader nmj)).
Definition handle_json_reader_raw nmj := handle_reader (new_map_json_reader_raw nmj).

(* ------------------------------------------------------------------ file readers (files.go:21-152) *)

(* an *os.File read one byte at a time: every byte with a nil error, then (0, io.EOF) *)
Definition file_schedule (X : str) : list rev := map Data X.

(* for { m, raw, err := next(fh); if err != nil && err != io.EOF { return am, error }
         if m != nil { am = append(am, MapRaw{m, raw}) }; if err == io.EOF { break } }
   return am, nil *)
Fixpoint maps_loop (next : list rev -> option (res value * str * list rev))
         (fuel : nat) (am : list (value * str)) (S : list rev) : option (list (value * str) * res unit) :=
  match fuel with
  | O => None
  | Datatypes.S f =>
      match next S with
      | None => None
      | Some (Panic, _, _) => Some (am, Panic)
      | Some (Err EEOF, _, _) => Some (am, Ok tt)
      | Some (Err e, _, _) => Some (am, Err EOther)     (* fmt.Errorf("error: %s - reading: %s", ...) *)
      | Some (Ok m, raw, S') => maps_loop next f (if non_nil m then am ++ [(m, raw)] else am) S'
      end
  end.
Definition maps_from_file next (X : str) : option (list (value * str) * res unit) :=
  maps_loop next (2 + length X) [] (file_schedule X).
Definition new_maps_from_xml_file_raw (M : xmachine) := maps_from_file (new_map_xml_reader_raw M).
Definition new_maps_from_json_file_raw nmj := maps_from_file (new_map_json_reader_raw nmj).
(* NewMapsFromXmlFile / NewMapsFromJsonFile keep the Maps only *)
Definition drop_raw (r : option (list (value * str) * res unit)) : option (list value * res unit) :=
  match r with Some (am, e) => Some (map fst am, e) | None => None end.
Definition new_maps_from_xml_file (M : xmachine) (X : str) := drop_raw (new_maps_from_xml_file_raw M X).
Definition new_maps_from_json_file nmj (X : str) := drop_raw (new_maps_from_json_file_raw nmj X).
