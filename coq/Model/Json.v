(* JSON at the string layer (C06, C13).

   encoding/json is the environment (DESIGN.md section 3); mxj's own code meets it at the
   characters of string literals: Map.Json / Map.JsonIndent choose between the HTML-safe and the
   literal encoding of < > & (since /repo b2598e9 by Encoder.SetEscapeHTML; before, by rewriting
   the marshalled bytes - that former code is kept in Spec/JsonSpec.v for the compatibility
   theorem), and getJson scans bytes for the end of an object (modelled in Model/Reader.v).  So the
   string encoder of encoding/json is transcribed here character by character
   (`quote_body`, from encoding/json/encode.go appendString, go1.23), as is the string
   decoder (`unquote_body`, from decode.go unquoteBytes restricted to what the scanner
   accepts); the structure around the literals is carried as segments.
   No proofs in this file. *)
From Mxj Require Export Base.Value.

Definition bsl : ascii := ascii_of_N 92.   (* backslash *)
Definition dq : ascii := ascii_of_N 34.    (* double quote *)
Definition byte (c : ascii) : N := N_of_ascii c.
Definition inrng (lo hi n : N) : bool := (lo <=? n)%N && (n <=? hi)%N.

(* ------------------------------------------------------------------ UTF-8 (unicode/utf8) *)

(* first-byte table of utf8.DecodeRune: (size, lo, hi) with lo..hi the accepted range of the second byte *)
Definition first_info (n : N) : option (nat * N * N) :=
  if inrng 194 223 n then Some (2%nat, 128%N, 191%N)
  else if (n =? 224)%N then Some (3%nat, 160%N, 191%N)
  else if inrng 225 236 n then Some (3%nat, 128%N, 191%N)
  else if (n =? 237)%N then Some (3%nat, 128%N, 159%N)
  else if inrng 238 239 n then Some (3%nat, 128%N, 191%N)
  else if (n =? 240)%N then Some (4%nat, 144%N, 191%N)
  else if inrng 241 243 n then Some (4%nat, 128%N, 191%N)
  else if (n =? 244)%N then Some (4%nat, 128%N, 143%N)
  else None.
Definition is_cont (c : ascii) : bool := inrng 128 191 (byte c).

(* size of the rune at the head of x; None = (RuneError, 1): invalid or truncated encoding.
   Only called with a non-ASCII head. *)
Definition rune_size (x : str) : option nat :=
  match x with
  | [] => None
  | c0 :: t =>
      if (byte c0 <? 128)%N then Some 1 else
      match first_info (byte c0), t with
      | Some (2, lo, hi), c1 :: _ => if inrng lo hi (byte c1) then Some 2 else None
      | Some (3, lo, hi), c1 :: c2 :: _ => if inrng lo hi (byte c1) && is_cont c2 then Some 3 else None
      | Some (4, lo, hi), c1 :: c2 :: c3 :: _ =>
          if inrng lo hi (byte c1) && is_cont c2 && is_cont c3 then Some 4 else None
      | _, _ => None
      end
  end.

(* Go's loops over a string advance by one chunk (a byte or a whole rune) per iteration:
   `for i < len(src) { ...; i += size }`.  step x = (what the iteration emits, the rest of x). *)
Fixpoint chunk_loop (step : str -> option (str * str)) (fuel : nat) (x : str) : option str :=
  match x with
  | [] => Some []
  | _ :: _ =>
      match fuel with
      | O => None
      | S f => match step x with
               | None => None
               | Some (out, rest) => option_map (app out) (chunk_loop step f rest)
               end
      end
  end.

(* the whole string is valid UTF-8 (utf8.ValidString) *)
Definition valid_step (x : str) : option (str * str) :=
  match rune_size x with Some n => Some ([], skipn n x) | None => None end.
Definition utf8_valid (x : str) : bool :=
  match chunk_loop valid_step (length x) x with Some _ => true | None => false end.

(* utf8.EncodeRune for a code point (surrogates and out-of-range -> U+FFFD) *)
Definition a_of (n : N) : ascii := ascii_of_N n.
Definition fffd : str := [a_of 239; a_of 191; a_of 189].
Definition encode_rune (r : N) : str :=
  if (r <? 128)%N then [a_of r]
  else if (r <? 2048)%N then [a_of (192 + r / 64); a_of (128 + r mod 64)]
  else if inrng 55296 57343 r then fffd
  else if (r <? 65536)%N then [a_of (224 + r / 4096); a_of (128 + (r / 64) mod 64); a_of (128 + r mod 64)]
  else if (r <? 1114112)%N then
    [a_of (240 + r / 262144); a_of (128 + (r / 4096) mod 64); a_of (128 + (r / 64) mod 64); a_of (128 + r mod 64)]
  else fffd.

(* ------------------------------------------------------------------ the string encoder *)

Definition hexdig (n : N) : ascii := if (n <? 10)%N then a_of (48 + n) else a_of (87 + n).

(* htmlSafeSet / safeSet of encoding/json/tables.go *)
Definition safe_set (n : N) : bool := inrng 32 127 n && negb (n =? 34)%N && negb (n =? 92)%N.
Definition html_safe_set (n : N) : bool :=
  safe_set n && negb (n =? 38)%N && negb (n =? 60)%N && negb (n =? 62)%N.

(* what appendString writes for one byte b < 0x80 *)
Definition esc_ascii (eh : bool) (c : ascii) : str :=
  let n := byte c in
  if html_safe_set n || (negb eh && safe_set n) then [c]
  else if (n =? 92)%N || (n =? 34)%N then [bsl; c]
  else if (n =? 8)%N then [bsl; "b"%char]
  else if (n =? 12)%N then [bsl; "f"%char]
  else if (n =? 10)%N then [bsl; "n"%char]
  else if (n =? 13)%N then [bsl; "r"%char]
  else if (n =? 9)%N then [bsl; "t"%char]
  else [bsl; "u"%char; "0"%char; "0"%char; hexdig (n / 16); hexdig (n mod 16)].

Definition esc_fffd : str := bsl :: s "ufffd".
Definition is_2028 (x : str) : option N :=      (* U+2028 / U+2029 = E2 80 A8 / E2 80 A9 *)
  match x with
  | c0 :: c1 :: c2 :: _ =>
      if (byte c0 =? 226)%N && (byte c1 =? 128)%N && ((byte c2 =? 168)%N || (byte c2 =? 169)%N)
      then Some (byte c2 mod 16)%N else None
  | _ => None
  end.

(* one iteration of the loop of appendString; eh = escapeHTML (json.Marshal: true) *)
Definition q_step (eh : bool) (x : str) : option (str * str) :=
  match x with
  | [] => None
  | c :: t =>
      if (byte c <? 128)%N then Some (esc_ascii eh c, t)
      else match rune_size x with
           | None => Some (esc_fffd, t)                      (* c == utf8.RuneError && size == 1 *)
           | Some n =>
               match is_2028 x with
               | Some d => Some ([bsl; "u"%char; "2"%char; "0"%char; "2"%char; hexdig d], skipn n x)
               | None => Some (firstn n x, skipn n x)        (* copied through with src[start:i] *)
               end
           end
  end.
(* the bytes between the quotes *)
Definition quote_body (eh : bool) (x : str) : str :=
  match chunk_loop (q_step eh) (length x) x with Some y => y | None => [] end.
Definition quote (eh : bool) (x : str) : str := dq :: quote_body eh x ++ [dq].

(* ------------------------------------------------------------------ the string decoder *)

Definition hexval (c : ascii) : option N :=
  let n := byte c in
  if inrng 48 57 n then Some (n - 48)%N
  else if inrng 97 102 n then Some (n - 87)%N
  else if inrng 65 70 n then Some (n - 55)%N else None.
(* getu4 on the four digits after "\u" *)
Definition getu4 (x : str) : option (N * str) :=
  match x with
  | a :: b :: c :: d :: t =>
      match hexval a, hexval b, hexval c, hexval d with
      | Some a, Some b, Some c, Some d => Some (((a * 16 + b) * 16 + c) * 16 + d, t)%N
      | _, _, _, _ => None
      end
  | _ => None
  end.

(* one iteration of the loop of unquoteBytes on the body of a literal the scanner accepted
   (the escape \' that unquoteBytes would take is rejected earlier by the scanner, and here):
   (the bytes written, the rest) or None = not a valid literal *)
Definition unq_step (x : str) : option (str * str) :=
  match x with
  | [] => None
  | c :: t =>
      let n := byte c in
      if (n =? 92)%N then
        match t with
        | [] => None
        | e :: t' =>
            let m := byte e in
            if (m =? 34)%N || (m =? 92)%N || (m =? 47)%N then Some ([e], t')
            else if (m =? 98)%N then Some ([a_of 8], t')
            else if (m =? 102)%N then Some ([a_of 12], t')
            else if (m =? 110)%N then Some ([a_of 10], t')
            else if (m =? 114)%N then Some ([a_of 13], t')
            else if (m =? 116)%N then Some ([a_of 9], t')
            else if (m =? 117)%N then
              match getu4 t' with
              | None => None
              | Some (rr, t'') =>
                  if inrng 55296 57343 rr then
                    (* surrogate: a valid pair is combined, anything else is U+FFFD *)
                    match t'' with
                    | b1 :: u1 :: t3 =>
                        match (if (byte b1 =? 92)%N && (byte u1 =? 117)%N then getu4 t3 else None) with
                        | Some (r2, t4) =>
                            if inrng 55296 56319 rr && inrng 56320 57343 r2
                            then Some (encode_rune (65536 + (rr - 55296) * 1024 + (r2 - 56320))%N, t4)
                            else Some (fffd, t'')
                        | None => Some (fffd, t'')
                        end
                    | _ => Some (fffd, t'')
                    end
                  else Some (encode_rune rr, t'')
              end
            else None
        end
      else if (n =? 34)%N || (n <? 32)%N then None          (* quote, control characters are invalid *)
      else if (n <? 128)%N then Some ([c], t)
      else match rune_size x with
           | Some k => Some (firstn k x, skipn k x)
           | None => Some (fffd, t)                          (* coerce to well-formed UTF-8 *)
           end
  end.
Definition unquote_body (x : str) : option str := chunk_loop unq_step (length x) x.

(* ------------------------------------------------------------------ structure: segments *)

(* the marshalled text as a list of segments: bytes outside string literals (no quote, no
   backslash) and string literals given by their body (the bytes between the quotes) *)
Inductive seg := SP (x : str) | SQ (body : str).
Definition render_seg (g : seg) : str := match g with SP x => x | SQ b => dq :: b ++ [dq] end.
Definition flatten (l : list seg) : str := flat_map render_seg l.
Definition map_quoted (f : str -> str) (l : list seg) : list seg :=
  map (fun g => match g with SP x => SP x | SQ b => SQ (f b) end) l.

(* map keys are written in sorted order (bytewise on the key) *)
Fixpoint jinsert {A} (kv : str * A) (l : list (str * A)) : list (str * A) :=
  match l with
  | [] => [kv]
  | kv' :: t => if str_leb (fst kv) (fst kv') then kv :: l else kv' :: jinsert kv t
  end.
Definition jsort {A} (l : list (str * A)) : list (str * A) := fold_right jinsert [] l.

Fixpoint pos_digits (fuel : nat) (n : N) (acc : str) : str :=
  match fuel with
  | O => acc
  | S f => let acc' := a_of (48 + n mod 10) :: acc in
           if (n <? 10)%N then acc' else pos_digits f (n / 10) acc'
  end.
Definition z_dec (z : Z) : str :=
  match z with
  | Z0 => s "0"
  | Zpos p => pos_digits (S (N.to_nat (N.log2 (Npos p)))) (Npos p) []
  | Zneg p => "-"%char :: pos_digits (S (N.to_nat (N.log2 (Npos p)))) (Npos p) []
  end.

Definition sp1 (c : string) : seg := SP (s c).
Fixpoint sep_by (sep : seg) (l : list (list seg)) : list seg :=
  match l with
  | [] => []
  | [x] => x
  | x :: t => x ++ sep :: sep_by sep t
  end.

(* marshalJSON(v, escapeHTML) (json.go:17-26) = an Encoder with SetEscapeHTML(eh), for a Map value tree.
   Numbers are carried as text: a float64 is the text encoding/json prints for it (the harness
   supplies it), json.Number is its own text. *)
Fixpoint segments (eh : bool) (v : value) : list seg :=
  match v with
  | VStr x => [SQ (quote_body eh x)]
  | VBool true => [sp1 "true"]
  | VBool false => [sp1 "false"]
  | VNil => [sp1 "null"]
  | VInt z | VI64 z | VU64 z => [SP (z_dec z)]
  | VFlt f => [SP f]
  | VJNum x => [SP x]
  | VMap m =>
      (* children first (structural recursion), then sorted by key *)
      let kids := (fix go (m : entries) : list (str * list seg) :=
                     match m with [] => [] | (k, x) :: t => (k, segments eh x) :: go t end) m in
      sp1 "{" ::
      sep_by (sp1 ",") (map (fun kx => SQ (quote_body eh (fst kx)) :: sp1 ":" :: snd kx) (jsort kids))
      ++ [sp1 "}"]
  | VList l =>
      sp1 "[" :: sep_by (sp1 ",") ((fix go (l : list value) : list (list seg) :=
                                      match l with [] => [] | x :: t => segments eh x :: go t end) l)
      ++ [sp1 "]"]
  end.

Definition marshal (eh : bool) (v : value) : str := flatten (segments eh v).
(* Map.Json(safeEncoding) = marshalJSON(mv, safeEncoding) (json.go:31-37) *)
Definition map_json (safe : bool) (v : value) : str := marshal safe v.

(* ---- Map.JsonIndent = marshalJSON then json.Indent (json.go:42-56): newline + prefix + depth*indent
   outside literals, "key": value, empty containers stay {} / [] ---- *)
Definition nl_indent (prefix indent : str) (d : nat) : seg :=
  SP (ascii_of_N 10 :: prefix ++ concat (repeat indent d)).
Fixpoint sep_by_nl (sepnl : list seg) (l : list (list seg)) : list seg :=
  match l with
  | [] => []
  | [x] => x
  | x :: t => x ++ sepnl ++ sep_by_nl sepnl t
  end.
Fixpoint segments_ind (eh : bool) (prefix indent : str) (d : nat) (v : value) : list seg :=
  match v with
  | VMap m =>
      let kids := (fix go (m : entries) : list (str * list seg) :=
                     match m with [] => [] | (k, x) :: t => (k, segments_ind eh prefix indent (S d) x) :: go t end) m in
      match kids with
      | [] => [sp1 "{"; sp1 "}"]
      | _ => sp1 "{" :: nl_indent prefix indent (S d) ::
             sep_by_nl [sp1 ","; nl_indent prefix indent (S d)]
               (map (fun kx => SQ (quote_body eh (fst kx)) :: sp1 ":" :: sp1 " " :: snd kx) (jsort kids))
             ++ [nl_indent prefix indent d; sp1 "}"]
      end
  | VList l =>
      let kids := (fix go (l : list value) : list (list seg) :=
                     match l with [] => [] | x :: t => segments_ind eh prefix indent (S d) x :: go t end) l in
      match kids with
      | [] => [sp1 "["; sp1 "]"]
      | _ => sp1 "[" :: nl_indent prefix indent (S d) ::
             sep_by_nl [sp1 ","; nl_indent prefix indent (S d)] kids
             ++ [nl_indent prefix indent d; sp1 "]"]
      end
  | _ => segments eh v
  end.
Definition marshal_indent (eh : bool) (prefix indent : str) (v : value) : str := flatten (segments_ind eh prefix indent 0 v).
Definition map_json_indent (prefix indent : str) (safe : bool) (v : value) : str :=
  marshal_indent safe prefix indent v.

(* ------------------------------------------------------------------ decoding, at the segment layer *)

Definition is_ws_char (c : ascii) : bool :=
  let n := byte c in (n =? 32)%N || (n =? 9)%N || (n =? 10)%N || (n =? 13)%N.
Definition is_ws_seg (g : seg) : bool := match g with SP x => forallb is_ws_char x | SQ _ => false end.
Definition sp_is (g : seg) (c : string) : bool := match g with SP x => str_eqb x (s c) | SQ _ => false end.
Definition num_start (x : str) : bool :=
  match x with c :: _ => is_digit c || Ascii.eqb c "-"%char | [] => false end.

(* encoding/json's decoder on a segment list (whitespace-only segments dropped beforehand):
   literals are unquoted, numbers become float64 (text) or json.Number, the rest is structure.
   Returns the value and the remaining segments. *)
Fixpoint dec_val (fuel : nat) (usenum : bool) (l : list seg) : option (value * list seg) :=
  match fuel with
  | O => None
  | S f =>
      match l with
      | [] => None
      | SQ b :: t => match unquote_body b with Some x => Some (VStr x, t) | None => None end
      | SP x :: t =>
          if str_eqb x (s "true") then Some (VBool true, t)
          else if str_eqb x (s "false") then Some (VBool false, t)
          else if str_eqb x (s "null") then Some (VNil, t)
          else if str_eqb x (s "{") then
            match t with
            | g :: t' => if sp_is g "}" then Some (VMap [], t') else
                (fix members (k : nat) (acc : entries) (l : list seg) : option (value * list seg) :=
                   match k with
                   | O => None
                   | S k' =>
                       match l with
                       | SQ kb :: c :: l1 =>
                           if sp_is c ":" then
                             match unquote_body kb, dec_val f usenum l1 with
                             | Some key, Some (v, g2 :: l2) =>
                                 (* a repeated key overwrites the earlier entry, as m[key] = v does *)
                                 let acc' := if has_key key acc then set key v acc else acc ++ [(key, v)] in
                                 if sp_is g2 "," then members k' acc' l2
                                 else if sp_is g2 "}" then Some (VMap acc', l2) else None
                             | _, _ => None
                             end
                           else None
                       | _ => None
                       end
                   end) (S (length t)) [] t
            | [] => None
            end
          else if str_eqb x (s "[") then
            match t with
            | g :: t' => if sp_is g "]" then Some (VList [], t') else
                (fix elems (k : nat) (acc : list value) (l : list seg) : option (value * list seg) :=
                   match k with
                   | O => None
                   | S k' =>
                       match dec_val f usenum l with
                       | Some (v, g2 :: l2) =>
                           if sp_is g2 "," then elems k' (acc ++ [v]) l2
                           else if sp_is g2 "]" then Some (VList (acc ++ [v]), l2) else None
                       | _ => None
                       end
                   end) (S (length t)) [] t
            | [] => None
            end
          else if num_start x then Some ((if usenum then VJNum x else VFlt x), t)
          else None
      end
  end.
Definition decode_segs (usenum : bool) (l : list seg) : option value :=
  let l' := filter (fun g => negb (is_ws_seg g)) l in
  match dec_val (S (length l')) usenum l' with
  | Some (v, []) => Some v
  | _ => None
  end.

(* ------------------------------------------------------------------ NewMapJson (json.go) *)

(* as a function of the stdlib decoder oracle decv (Decoder.Decode of the first value of the text into an
   interface{}, with UseNumber when JsonUseNumber is set):
     if len(jsonVal) == 0 { return empty Map, nil }
     if err := dec.Decode(&v); err != nil { return nil, err }
     switch x := v.(type) { case map[string]interface{}: return x, nil
                            case []interface{}: return map[string]interface{}{"object": x}, nil }
     return nil, fmt.Errorf(...) *)
Definition new_map_json (decv : str -> res value) (b : str) : res value :=
  match b with
  | [] => Ok (VMap [])
  | _ :: _ =>
      match decv b with
      | Ok (VMap m) => Ok (VMap m)
      | Ok (VList l) => Ok (VMap [(s "object", VList l)])
      | Ok _ => Err EOther
      | Err e => Err e
      | Panic => Panic
      end
  end.
