(* Model of the sequence-preserving encoder of xmlseq.go: MapSeq.Xml / MapSeq.XmlIndent
   root handling, mapToXmlSeqIndent, elemListSeq.Less, BeautifyXml.
   The encoder produces items; [semit] renders them as the bytes the compact encoder
   writes; the indented encoder writes the same items with whitespace between them.
   Executable transcription; NO proofs in this file.

   Outside the model (never produced by the decoder): []byte, int32, float32 values and
   the xml.Marshal arm (uint64, json.Number, structs) - [Err EOther] stands for them;
   float64 sequence numbers that %v prints with a positive exponent, NaN, Inf. *)
From Mxj Require Export Model.SeqDec Model.XmlEnc.

Inductive sitem :=
| SI (i : item)                      (* start tag, end tag, empty-element tag, character data *)
| SComment (x : str)                 (* <!--x-->   *)
| SDirective (x : str)               (* <!x>       *)
| SProcInst (t i : str)              (* <?t i?>    *)
| SRaw (x : str).                    (* bytes that are no XML construct: "<key" for a nil value,
                                        a scalar under one of the three special keys *)

Definition semit1 (i : sitem) : str :=
  match i with
  | SI i => emit1 i
  | SComment x => s "<!--" ++ x ++ s "-->"
  | SDirective x => s "<!" ++ x ++ s ">"
  | SProcInst t i => s "<?" ++ t ++ s " " ++ i ++ s "?>"
  | SRaw x => x
  end.
Definition semit (its : list sitem) : str := flat_map semit1 its.

(* ---------------- elemListSeq.Less and sort.Sort ---------------- *)

(* int(f) for a float64 given by its %v text: Base/Fmt.v (take_digits, flt_to_int) *)

Section SeqEnc.
Variable o : opts.

(* iseq of Less: the value's [seqK] entry as int, else as float64, else 9999999; a value that is
   not a map has no sequence number and sorts last (comma-ok assertions, fix 3cc484a) *)
Definition seq_num (v : value) : Z :=
  match v with
  | VMap m => match lookup (seqK o) m with
              | Some (VInt z) => z
              | Some (VFlt f) => flt_to_int f
              | _ => 9999999%Z
              end
  | _ => 9999999%Z
  end.

(* sort.Sort's insertion sort (the algorithm used up to 12 elements) with Less(i,j) = iseq <= jseq:
   the element moves left while it is <= its left neighbour.  [racc] is the sorted prefix reversed.
   On pairwise distinct sequence numbers every correct sorting algorithm returns this result. *)
Fixpoint ins_desc {A} (key : A -> Z) (x : A) (racc : list A) : list A :=
  match racc with
  | [] => [x]
  | y :: t => if (key x <=? key y)%Z then y :: ins_desc key x t else x :: racc
  end.
Definition isort {A} (key : A -> Z) (l : list A) : list A :=
  rev (fold_left (fun racc x => ins_desc key x racc) l []).

(* sort.Sort(elemListSeq(kv)); Less never panics *)
Definition seq_sort {A} (val : A -> value) (l : list A) : res (list A) :=
  Ok (isort (fun x => seq_num (val x)) l).

Fixpoint sconcat (l : list (res (list sitem))) : res (list sitem) :=
  match l with
  | [] => Ok []
  | r :: t => bind r (fun a => bind (sconcat t) (fun b => Ok (a ++ b)))
  end.

(* ---------------- attributes ---------------- *)

(* switch vv[textK].(type): string escaped, float64/bool/int/int64 via %v, default: error *)
Definition sattr_text (v : option value) : option str :=
  match v with
  | Some (VStr x) => Some (esc o x)
  | Some (VBool b) => Some (fmt_v (VBool b))
  | Some (VInt z) => Some (fmt_v (VInt z))
  | Some (VI64 z) => Some (fmt_v (VI64 z))
  | Some (VFlt f) => Some (fmt_v (VFlt f))
  | _ => None
  end.

(* for _, a := range kv { vv := a.v.(map[string]interface{}); ... } *)
Fixpoint sattrs_loop (kv : entries) : res (list (str * str)) :=
  match kv with
  | [] => Ok []
  | (k, v) :: t =>
      match v with
      | VMap vv =>
          match sattr_text (lookup (textK o) vv) with
          | Some x => bind (sattrs_loop t) (fun r => Ok ((k, x) :: r))
          | None => Err EOther                       (* invalid attribute value *)
          end
      | _ => Panic                                   (* a.v.(map[string]interface{}) *)
      end
  end.

(* (haveAttrs, attributes in sequence order) *)
Definition sattrs (val : entries) : res (bool * list (str * str)) :=
  match lookup (attrK o) val with
  | Some (VMap v) =>
      bind (seq_sort (fun kv => snd kv) v) (fun kv =>
      bind (sattrs_loop kv) (fun a => Ok (true, a)))
  | _ => Ok (false, [])
  end.

(* ---------------- mapToXmlSeqIndent(false, sb, key, value, p) ---------------- *)

Definition is_special_key (key : str) : bool :=
  str_eqb key (commentK o) || str_eqb key (directiveK o) || str_eqb key (procinstK o).

(* the endTag == false exit: "/>", or "></key>" under XmlGoEmptyElemSyntax (fix b04ec07) *)
Definition empty_or_broken (key : str) (attrs : list (str * str)) : list sitem :=
  map SI (close_or_empty o key attrs).

(* a scalar whose %v / escaped text is x *)
Definition scalar_items (key : str) (x : str) : list sitem :=
  if is_special_key key
  then (* the start tag "<key" is not written for the three special keys *)
       [SRaw (match x with
              | [] => if useGoXmlEmptyElemSyntax o then s "></" ++ key ++ s ">" else s "/>"
              | _ => s ">" ++ x ++ s "</" ++ key ++ s ">"
              end)]
  else match x with
       | [] => map SI (close_or_empty o key [])
       | _ => [SI (IOpen key []); SI (IText x); SI (IClose key)]
       end.

(* the text written right after the start tag, ahead of the sub-elements (fix 3cc484a):
   if tv, ok := val[textK]; ok && tv != nil { string: escaped; otherwise %v } *)
Definition lead_text (val : entries) : list sitem :=
  match lookup (textK o) val with
  | None | Some VNil => []
  | Some (VStr x) => [SI (IText (esc o x))]
  | Some v => [SI (IText (fmt_v v))]
  end.

Fixpoint senc (value : value) (key : str) {struct value} : res (list sitem) :=
  match value with
  | VMap val =>
      (* everything except attributes, the sequence number and the text, lists unrolled; the encodings
         of the members are computed first (structural recursion), selected and sorted below *)
      let kids : list (str * Mxj.Base.Value.value * res (list sitem)) :=
        flat_map (fun kv =>
                    if str_eqb (fst kv) (attrK o) || str_eqb (fst kv) (seqK o) || str_eqb (fst kv) (textK o) then []
                    else match snd kv with
                         | VList l => map (fun x => (fst kv, x, senc x (fst kv))) l
                         | _ => [(fst kv, snd kv, senc (snd kv) (fst kv))]
                         end) val in
      if str_eqb key (commentK o) then
        match lookup (textK o) val with Some (VStr x) => Ok [SComment x] | _ => Panic end
      else if str_eqb key (directiveK o) then
        match lookup (textK o) val with Some (VStr x) => Ok [SDirective x] | _ => Panic end
      else if str_eqb key (procinstK o) then
        match lookup (targetK o) val with
        | Some (VStr t) => match lookup (instK o) val with Some (VStr i) => Ok [SProcInst t i] | _ => Panic end
        | _ => Panic
        end
      else
        bind (sattrs val) (fun ha =>
          let haveAttrs := fst ha in
          let attrs := snd ha in
          let n := length val in
          let seqOK := has_key (seqK o) val in
          let general :=
            bind (seq_sort (fun t => snd (fst t)) kids) (fun sorted =>
            bind (sconcat (map snd sorted)) (fun body =>
              Ok (SI (IOpen key attrs) :: lead_text val ++ body ++ [SI (IClose key)]))) in
          match lookup (textK o) val with
          | Some v =>
              if Nat.eqb n (if haveAttrs then 3 else 2) && seqOK then
                match v with
                | VStr (c :: x) => Ok [SI (IOpen key attrs); SI (IText (esc o (c :: x))); SI (IClose key)]
                | _ => Ok (empty_or_broken key attrs)         (* empty or non-string #text: nothing is written *)
                end
              else general
          | None =>
              if Nat.eqb n (if haveAttrs then 2 else 1) && seqOK then Ok (empty_or_broken key attrs)
              else general
          end)
  | VList l => sconcat (map (fun v => senc v key) l)
  | VNil => Ok [SRaw (s "<" ++ key)]                 (* "<key" and nothing else: nil is in no case list of the closing switch *)
  | VStr x => Ok (scalar_items key (esc o x))
  | VBool _ | VInt _ | VI64 _ | VFlt _ => Ok (scalar_items key (fmt_v value))
  | VU64 _ | VJNum _ => Err EOther                   (* xml.Marshal arm: outside the model *)
  end.

(* ---------------- MapSeq.Xml / MapSeq.XmlIndent root handling ---------------- *)

(* MapSeq.Xml(rootTag...) with xmlCheckIsValid off (the validity check is C05's subject) *)
Definition seq_xml_items (m : entries) (rootTag : option str) : res (list sitem) :=
  match rootTag with
  | Some rt => senc (VMap m) rt
  | None =>
      match m with
      | [(key, value)] =>
          match value with
          | VList l => if all_maps l then senc value key else senc (VMap m) default_root
          | _ => senc value key
          end
      | _ => senc (VMap m) default_root
      end
  end.

(* MapSeq.XmlIndent(prefix, indent, rootTag...) with xmlCheckIsValid off: same items, whitespace between them *)
Definition seq_xml_indent_items (m : entries) (rootTag : option str) : res (list sitem) :=
  match rootTag with
  | Some rt => senc (VMap m) rt
  | None =>
      match m with
      | [(key, value)] =>
          match value with
          | VList _ => senc (VMap m) default_root
          | _ => senc value key
          end
      | _ => senc (VMap m) default_root
      end
  end.

Definition seq_encode (m : value) : res (list sitem) :=
  match m with VMap mm => seq_xml_items mm None | _ => Panic end.
Definition seq_encode_indent (m : value) : res (list sitem) :=
  match m with VMap mm => seq_xml_indent_items mm None | _ => Panic end.
End SeqEnc.

(* BeautifyXml(b, prefix, indent): x, err := NewMapXmlSeq(b); if err != nil { return nil, err }; return x.XmlIndent(prefix, indent) *)
Definition beautify_items (pf : str -> option flt) (skip : str -> bool) (o : opts) (ts : list tok) (tm : term)
  : res (list sitem) :=
  bind (seq_decode pf skip o false ts tm) (fun m => seq_encode_indent o m).
