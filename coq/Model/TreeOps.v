(* Models of leafnode.go, updatevalues.go, set.go, remove.go, rename.go,
   newmap.go.  Executable transcriptions; NO proofs in this file.
   In-place mutation of the receiver becomes "return the new tree"; the
   receiver is a tree (no sub-map reachable twice), which is what every
   decoder produces. *)
From Mxj Require Export Model.KeyValues.

(* ================= leafnode.go ================= *)
Section Leaf.
Variable attrPrefix textK : str.
Variable useDotNotation : bool.

Definition leaf_path (path node : str) (noattr : bool) : str :=
  if negb noattr || negb (str_eqb node textK) then
    (if (match path with [] => false | _ => true end) && negb (prefixb [lbr] node)
     then path ++ sdot else path) ++ node
  else path.

Definition idx_node (i : nat) : str :=
  if useDotNotation then itoa i else [lbr] ++ itoa i ++ [rbr].

Definition skip_attr (noattr : bool) (k : str) : bool :=
  noattr && (match attrPrefix with [] => false | _ => true end) && prefixb attrPrefix k.

Fixpoint get_leaf_nodes (path node : str) (mv : value) (noattr : bool) : list (str * value) :=
  let path := leaf_path path node noattr in
  match mv with
  | VMap m =>
      flat_map (fun kv => if skip_attr noattr (fst kv) then []
                          else get_leaf_nodes path (fst kv) (snd kv) noattr) m
  | VList l =>
      (fix go (l : list value) (i : nat) : list (str * value) :=
         match l with
         | [] => []
         | v :: t => get_leaf_nodes path (idx_node i) v noattr ++ go t (S i)
         end) l 0
  | _ => [(path, mv)]
  end.
Definition leaf_nodes (m : value) (noattr : bool) : list (str * value) :=
  get_leaf_nodes [] [] m noattr.
End Leaf.

(* ================= updatevalues.go ================= *)
Section Update.
Variable pf : str -> option flt.
Variable fieldSep : str.

Inductive newval := NVMap (m : entries) | NVStr (x : str) | NVOther.

Definition parse_newval (nv : newval) : res (str * value) :=
  match nv with
  | NVMap [(k, v)] => Ok (k, v)
  | NVMap _ => Err EOther
  | NVStr x =>
      match split fieldSep x with
      | [k; v] => Ok (k, VStr v)
      | [k; v; t] =>
          if existsb (str_eqb t) [s "bool"; s "boolean"] then
            match parse_bool v with Some b => Ok (k, VBool b) | None => Err EOther end
          else if existsb (str_eqb t) [s "num"; s "numeric"; s "float"; s "int"] then
            match pf v with Some f => Ok (k, VFlt f) | None => Err EOther end
          else Err EOther
      | _ => Err EOther
      end
  | NVOther => Err EOther
  end.

(* replace the [key] entry of every map member that has it and satisfies the sub-keys *)
Fixpoint upd_members (key : str) (value : value) (subkeys : entries) (l : list Value.value)
  : list Value.value * nat :=
  match l with
  | [] => ([], 0)
  | v :: t =>
      let '(t', n) := upd_members key value subkeys t in
      match v with
      | VMap mm =>
          if has_key key mm && has_sub_keys v subkeys
          then (VMap (set key value mm) :: t', S n) else (v :: t', n)
      | _ => (v :: t', n)
      end
  end.

(* updateValue for a concrete last key keys0 (not "*") on a map [m] *)
Definition update_value_key (key : str) (value : Value.value) (m : entries) (keys0 : str)
           (subkeys : entries) : entries * nat :=
  let endVal := lookup keys0 m in
  if str_eqb key keys0 then
    match endVal with
    | Some (VList l) =>
        if has_sub_keys (VMap m) subkeys then (set keys0 value m, 1)
        else
          let hits := filter (fun v => has_sub_keys v subkeys) l in
          match hits with
          | [] => (m, 0)
          | _ => (set keys0 (VList (map (fun v => if has_sub_keys v subkeys then value else v) l)) m,
                  length hits)
          end
    | _ => (* map, scalar, nil or absent: strict replacement (creates the entry when absent) *)
        if has_sub_keys (VMap m) subkeys then (set keys0 value m, 1) else (m, 0)
    end
  else
    match endVal with
    | Some (VMap em) =>
        if has_sub_keys (VMap em) subkeys && has_key key em
        then (set keys0 (VMap (set key value em)) m, 1) else (m, 0)
    | Some (VList l) =>
        let '(l', n) := upd_members key value subkeys l in
        match n with O => (m, 0) | _ => (set keys0 (VList l') m, n) end
    | _ => (m, 0)
    end.

Definition update_value (key : str) (value : Value.value) (m : Value.value) (keys0 : str)
           (subkeys : entries) : Value.value * nat :=
  match m with
  | VMap mm =>
      if str_eqb keys0 star then
        (* for k := range m { updateValue(key, value, m, k, ...) } *)
        let '(mm', n) := fold_left (fun acc k => let '(cur, n) := acc in
                                       let '(cur', n') := update_value_key key value cur k subkeys in
                                       (cur', n + n')) (keys mm) (mm, 0) in
        (VMap mm', n)
      else let '(mm', n) := update_value_key key value mm keys0 subkeys in (VMap mm', n)
  | VList l => let '(l', n) := upd_members key value subkeys l in (VList l', n)
  | _ => (m, 0)
  end.

(* map a counting update over a list / over the values of a map *)
Definition upd_list (f : Value.value -> Value.value * nat) (l : list Value.value)
  : list Value.value * nat :=
  fold_right (fun v acc => let '(v', n) := f v in let '(t, k) := acc in (v' :: t, n + k)) ([], 0) l.
Definition upd_vals (f : Value.value -> Value.value * nat) (m : entries) : entries * nat :=
  fold_right (fun kv acc => let '(v', n) := f (snd kv) in let '(t, k) := acc in
                            ((fst kv, v') :: t, n + k)) ([], 0) m.

Fixpoint update_kp (key : str) (value : Value.value) (keys : list str) (subkeys : entries)
         (m : Value.value) : Value.value * nat :=
  match keys with
  | [] => (m, 0)                                   (* unreachable: Split never returns [] *)
  | [k0] => update_value key value m k0 subkeys
  | k0 :: rest =>
      let rec := update_kp key value rest subkeys in
      if str_eqb k0 star then
        match m with
        | VMap mm => let '(mm', n) := upd_vals rec mm in (VMap mm', n)
        | VList l =>
            let '(l', n) := upd_list (fun v => match v with
                                               | VMap mm => let '(mm', n) := upd_vals rec mm in (VMap mm', n)
                                               | _ => rec v
                                               end) l in (VList l', n)
        | _ => (m, 0)
        end
      else
        match m with
        | VMap mm => match lookup k0 mm with
                     | Some v => let '(v', n) := rec v in (VMap (set k0 v' mm), n)
                     | None => (m, 0)
                     end
        | VList l =>
            let '(l', n) := upd_list (fun v => match v with
                                               | VMap mm => match lookup k0 mm with
                                                            | Some vv => let '(vv', n) := rec vv in
                                                                         (VMap (set k0 vv' mm), n)
                                                            | None => (v, 0)
                                                            end
                                               | _ => (v, 0)
                                               end) l in (VList l', n)
        | _ => (m, 0)
        end
  end.

Definition update_values_for_path (m : Value.value) (nv : newval) (path : str) (subkeys : list str)
  : res (Value.value * nat) :=
  bind (get_sub_key_map pf fieldSep subkeys) (fun sk =>
  bind (parse_newval nv) (fun kv =>
    Ok (update_kp (fst kv) (snd kv) (split1 dot path) sk m))).
End Update.

(* ================= positions (for in-place writes through ValueForPath) ================= *)
Inductive step := SK (k : str) | SI (i : nat).
Definition pos := list step.

Fixpoint set_nth {A} (n : nat) (x : A) (l : list A) : list A :=
  match l, n with
  | [], _ => []
  | _ :: t, O => x :: t
  | y :: t, S n' => y :: set_nth n' x t
  end.
Fixpoint get_at (p : pos) (m : value) : option value :=
  match p with
  | [] => Some m
  | SK k :: p' => match m with VMap mm => match lookup k mm with Some v => get_at p' v | None => None end
                             | _ => None end
  | SI i :: p' => match m with VList l => match nth_error l i with Some v => get_at p' v | None => None end
                             | _ => None end
  end.
Fixpoint update_at (p : pos) (nv : value) (m : value) : value :=
  match p with
  | [] => nv
  | SK k :: p' => match m with
                  | VMap mm => match lookup k mm with
                               | Some v => VMap (set k (update_at p' nv v) mm)
                               | None => m end
                  | _ => m end
  | SI i :: p' => match m with
                  | VList l => match nth_error l i with
                               | Some v => VList (set_nth i (update_at p' nv v) l)
                               | None => m end
                  | _ => m end
  end.

Fixpoint flat_mapi {A B} (f : nat -> A -> list B) (l : list A) (i : nat) : list B :=
  match l with [] => [] | x :: t => f i x ++ flat_mapi f t (S i) end.

(* located valuesForKeyPath without sub-keys: the values together with where they live *)
Fixpoint vfkp_loc (keys : list str) (m : value) (p : pos) : list (pos * value) :=
  match keys with
  | [] => match m with
          | VList l => flat_mapi (fun i v => [(p ++ [SI i], v)]) l 0
          | _ => [(p, m)]
          end
  | key :: rest =>
      if str_eqb key star then
        match m with
        | VMap mm => flat_map (fun kv => vfkp_loc rest (snd kv) (p ++ [SK (fst kv)])) mm
        | VList l => flat_mapi (fun i v => match v with
                       | VMap mm => flat_map (fun kv => vfkp_loc rest (snd kv) (p ++ [SI i; SK (fst kv)])) mm
                       | _ => vfkp_loc rest v (p ++ [SI i])
                       end) l 0
        | _ => []
        end
      else
        match m with
        | VMap mm => match lookup key mm with Some v => vfkp_loc rest v (p ++ [SK key]) | None => [] end
        | VList l => flat_mapi (fun i v => match v with
                       | VMap mm => match lookup key mm with
                                    | Some vv => vfkp_loc rest vv (p ++ [SI i; SK key])
                                    | None => [] end
                       | _ => [] end) l 0
        | _ => []
        end
  end.
Definition ovfp_loc (m : value) (path : str) (p : pos) : list (pos * value) :=
  vfkp_loc (path_keys path) m p.

Fixpoint vfa_loc (keys : list pkey) (m : value) (p : pos) (tmp : option str)
         (vals : list (pos * value)) : list (pos * value) :=
  match keys with
  | [] => vals
  | k :: rest =>
      let tp := tmp_path tmp (pk_name k) in
      let next_is_arr := match rest with k2 :: _ => pk_arr k2 | [] => false end in
      if negb (pk_arr k) && next_is_arr then
        flat_map (fun pv => match snd pv with
                            | VMap _ => vfa_loc rest (snd pv) (fst pv) None []
                            | _ => [] end) (ovfp_loc m tp p)
      else if pk_arr k || match rest with [] => true | _ => false end then
        let vals := ovfp_loc m tp p in
        match rest, pk_arr k with
        | [], false => vals
        | _, _ =>
            match nth_z vals (pk_pos k) with
            | None => []
            | Some x =>
                match rest with
                | [] => [x]
                | _ => match snd x with
                       | VMap _ => vfa_loc rest (snd x) (fst x) None vals
                       | _ => []
                       end
                end
            end
        end
      else vfa_loc rest m p (Some tp) vals
  end.

(* located ValuesForPath without sub-keys *)
Definition values_for_path_loc (m : value) (path : str) : res (list (pos * value)) :=
  if negb (mem_ascii lbr path) then Ok (ovfp_loc m path [])
  else bind (parse_path path) (fun ks => Ok (vfa_loc ks m [] None [])).

(* ================= set.go ================= *)
Definition set_value_for_path (m : value) (nv : value) (path : str) : res value :=
  let pathAry := split1 dot path in
  let parentPath := join sdot (removelast pathAry) in
  let key := last pathAry [] in
  bind (values_for_path_loc m parentPath) (fun vs =>
    match vs with
    | [] => Err EOther                                  (* PathNotExistError *)
    | (p, v) :: _ =>
        match v with
        | VNil => Ok m                                  (* request ignored *)
        | VMap c => Ok (update_at p (VMap (set key nv c)) m)
        | _ => Err EOther                               (* fix: parent is not a map (was a panic) *)
        end
    end).

(* ================= remove.go / rename.go ================= *)
(* prevValueByPath followed by a write to the map it returns *)
Fixpoint with_parent (keys : list str) (f : str -> entries -> entries) (m : value) : res value :=
  match m, keys with
  | VMap mm, [k] => if has_key k mm then Ok (VMap (f k mm)) else Err EOther
  | VMap mm, k :: rest =>
      match lookup k mm with
      | Some v => bind (with_parent rest f v) (fun v' => Ok (VMap (set k v' mm)))
      | None => Err EOther
      end
  | _, _ => Err EOther
  end.
Definition remove_path (m : value) (path : str) : res value :=
  with_parent (split1 dot path) (fun k mm => del k mm) m.

Definition rename_write (newName : str) (k : str) (mm : entries) : entries :=
  (* val[newName] = val[oldName]; delete(val, oldName) *)
  match lookup k mm with
  | Some v => del k (set newName v mm)
  | None => del k (set newName VNil mm)
  end.
Definition parent_path (path : str) : str := join sdot (removelast (split1 dot path)).
Definition sibling_path (path newName : str) : str :=
  (* fix: a top-level key has no parent path to prepend *)
  match parent_path path with [] => newName | pp => pp ++ sdot ++ newName end.
Definition rename_key (pf : str -> option flt) (fieldSep : str) (m : value) (path newName : str) : res value :=
  match exists_path pf fieldSep m path [] with
  | Ok false => Err EOther
  | Ok true =>
      match exists_path pf fieldSep m (sibling_path path newName) [] with
      | Ok true => Err EOther
      | Ok false => with_parent (split1 dot path) (rename_write newName) m
      | Err e => Err e
      | Panic => Panic
      end
  | Err e => Err e
  | Panic => Panic
  end.

(* ================= newmap.go ================= *)
(* addNewVal: [path] is non-empty; containers met on the way are copied
   before they are written (fix), so no write ever reaches a container the
   receiver owns. *)
Definition add_final (k : str) (newVal : value) (m : entries) : entries :=
  match lookup k m with
  | None | Some VNil => set k newVal m
  | Some (VList a) => set k (VList (a ++ [newVal])) m
  | Some v => set k (VList [v; newVal]) m
  end.
(* the list case of the walk: descend into the first map member (or first nil
   member, replaced by a new map); append a new map when there is none *)
Fixpoint list_first_map (f : entries -> entries) (l : list value) : list value * bool :=
  match l with
  | [] => ([], false)
  | VNil :: t => (VMap (f []) :: t, true)
  | VMap mm :: t => (VMap (f mm) :: t, true)
  | v :: t => let '(t', found) := list_first_map f t in (v :: t', found)
  end.
Fixpoint add_new_val (path : list str) (newVal : value) (m : entries) : entries :=
  match path with
  | [] => add_final [] newVal m                        (* unreachable: k stays "" *)
  | [k] => add_final k newVal m
  | k :: rest =>
      let down := add_new_val rest newVal in
      match lookup k m with
      | None | Some VNil => set k (VMap (down [])) m
      | Some (VMap mm) => set k (VMap (down mm)) m
      | Some (VList l) =>
          let '(l', found) := list_first_map down l in
          set k (VList (if found then l' else l' ++ [VMap (down [])])) m
      | Some v => set k (VList [v; VMap (down [])]) m
      end
  end.

Section NewMap.
Variable pf : str -> option flt.
Variable fieldSep : str.
Definition colon : ascii := ":"%char.
(* one key pair; None = skipped *)
Definition new_map_pair (mv : value) (n : entries) (v : str) : res entries :=
  match v with
  | [] => Ok n
  | _ =>
    let vv := split1 colon v in
    match vv with
    | _ :: _ :: _ :: _ => Err EOther
    | _ =>
      let oldKey := hd [] vv in
      let newKey := match vv with [_; b] => b | _ => oldKey end in
      if mem_ascii "*"%char newKey then Err EOther
      else if mem_ascii lbr newKey then Err EOther
      else match oldKey, newKey with
           | [], _ | _, [] => Err EOther
           | _, _ =>
             bind (values_for_path pf fieldSep mv oldKey []) (fun oldVal =>
               match oldVal with
               | [] => Ok n
               | _ =>
                 let path := split1 dot newKey in
                 let path := match last path [dot] with [] => removelast path | _ => path end in
                 let newVal := match oldVal with [x] => x | _ => VList oldVal end in
                 Ok (add_new_val path newVal n)
               end)
           end
    end
  end.
(* returns the Map built so far together with the error class, as the Go code does *)
Fixpoint new_map_pairs (mv : value) (n : entries) (pairs : list str) : entries * res unit :=
  match pairs with
  | [] => (n, Ok tt)
  | v :: t => match new_map_pair mv n v with
              | Ok n' => new_map_pairs mv n' t
              | Err e => (n, Err e)
              | Panic => (n, Panic)
              end
  end.
Definition new_map (mv : value) (pairs : list str) : entries * res unit := new_map_pairs mv [] pairs.
End NewMap.
