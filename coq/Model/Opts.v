(* The package-level option variables of mxj as one record; every model
   function takes the record explicitly.  NO proofs here. *)
From Mxj Require Export Base.Value.

Record opts := {
  attrPrefix : str;
  lenAttrPrefix : nat;
  includeTagSeqNum : bool;
  lowerCase : bool;
  snakeCaseKeys : bool;
  disableTrimWhiteSpace : bool;
  trimRunes : str;
  decodeSimpleValuesAsMap : bool;
  castToInt : bool;
  castToFloat : bool;
  castToBool : bool;
  castNanInf : bool;
  handleXMPPStreamTag : bool;
  useGoXmlEmptyElemSyntax : bool;
  xmlCheckIsValid : bool;
  xmlEscapeChars : bool;
  xmlEscapeCharsDecoder : bool;
  textK : str; seqK : str; commentK : str; attrK : str;
  directiveK : str; procinstK : str; targetK : str; instK : str;
  fieldSep : str;
  useDotNotation : bool;
  defaultArraySize : Z;
  jsonUseNumber : bool
}.

Definition trim_all : str := [ascii_of_nat 9; ascii_of_nat 13; ascii_of_nat 8; ascii_of_nat 10; " "%char].
Definition trim_keep_space : str := [ascii_of_nat 9; ascii_of_nat 13; ascii_of_nat 8; ascii_of_nat 10].

(* the state of a fresh process *)
Definition opts0 : opts := {|
  attrPrefix := s "-"; lenAttrPrefix := 1;
  includeTagSeqNum := false; lowerCase := false; snakeCaseKeys := false;
  disableTrimWhiteSpace := false; trimRunes := trim_all;
  decodeSimpleValuesAsMap := false;
  castToInt := false; castToFloat := true; castToBool := true; castNanInf := false;
  handleXMPPStreamTag := false; useGoXmlEmptyElemSyntax := false; xmlCheckIsValid := false;
  xmlEscapeChars := false; xmlEscapeCharsDecoder := false;
  textK := s "#text"; seqK := s "#seq"; commentK := s "#comment"; attrK := s "#attr";
  directiveK := s "#directive"; procinstK := s "#procinst"; targetK := s "#target"; instK := s "#inst";
  fieldSep := s ":"; useDotNotation := false; defaultArraySize := 32; jsonUseNumber := false
|}.
