(* Correspondence driver for C05: escapeChars on strings (through the verif hook), the two
   escaping setters (state read through VerifOptionState), the Map encoder with the validity
   check (RunXml.XEnc: bytes of Map.Xml) and the Map decoder under decoder-side escaping
   (RunXml.XDec).  The MapSeq encoders are not modelled here (C04): oracle only. *)
From Mxj Require Export Run.RunXml Spec.EscSpec.

Inductive ecase :=
| EX (c : xcase)
| EEsc (x out : str)                                    (* escapeChars(x) = out *)
| ESet (e0 d0 : bool) (h : list esc_call) (e d : bool). (* from state (e0,d0), the calls h leave (xmlEscapeChars, xmlEscapeCharsDecoder) = (e, d) *)

Definition opt_str_eqb (a : option str) (b : str) : bool :=
  match a with Some x => str_eqb x b | None => false end.

Definition check_ecase (c : ecase) : bool :=
  match c with
  | EX c => check_xcase c
  | EEsc x out =>
      str_eqb (escape_chars x) out           (* the model *)
      && str_eqb (flat_map esc1 x) out       (* the one-pass specification *)
      && opt_str_eqb (unescape out) x        (* the tokenizer's inverse recovers x *)
      && safe_raw out
  | ESet e0 d0 h e d =>
      let o := apply_calls h (with_esc e0 d0 opts0) in
      Bool.eqb (xmlEscapeChars o) e && Bool.eqb (xmlEscapeCharsDecoder o) d
  end.

Fixpoint emismatches_from (i : nat) (cs : list ecase) : list nat :=
  match cs with
  | [] => []
  | c :: t => if check_ecase c then emismatches_from (S i) t else i :: emismatches_from (S i) t
  end.
Definition mismatches (cs : list ecase) : list nat := emismatches_from 0 cs.
