(* Correspondence driver for files.go, gob.go, Map.Copy, Json() and the getJson scanner (C19). *)
From Mxj Require Export Model.Files Spec.FilesSpec.

(* one observed call of the real one-document reader on the open file:
   offset before the call, bytes consumed, Map (VNil = nil Map), raw, error class *)
Record step := mkStep { st_off : nat; st_len : nat; st_map : value; st_raw : bytes; st_err : rerr }.

Fixpoint lookup_step (tbl : list step) (off : nat) : option step :=
  match tbl with
  | [] => None
  | x :: t => if Nat.eqb (st_off x) off then Some x else lookup_step t off
  end.

(* the reader as an oracle table over file offsets; an offset the real run never reached
   is a panic marker, so that the model leaving the table can never agree silently *)
Definition tbl_take (tbl : list step) (off : nat) : taken nat mapraw :=
  match lookup_step tbl off with
  | Some x => mkTaken (st_map x, st_raw x) (st_err x) (off + st_len x)
  | None => mkTaken (VNil, []) RPanic off
  end.

Inductive fskind := FsStat | FsNotReg | FsOpen | FsOk.
Definition fs_state (k : fskind) : fstate nat :=
  match k with FsStat => StatFails | FsNotReg => NotRegular | FsOpen => OpenFails | FsOk => Opened 0 end.

Inductive fobs :=
| ORet (nil_slice : bool) (maps : list mapraw) (err : bool)
| OPanicked.

Inductive dres := DOk (v : value) | DErr | DPanic.

Inductive fcase :=
(* NewMapsFromXmlFile / ...Raw / NewMapsFromJsonFile / ...Raw on a file of flen bytes *)
| CRead (raw : bool) (fs : fskind) (flen : nat) (tbl : list step) (out : fobs)
(* the hypotheses of the round-trip theorems on this file: document i (length, value its own
   text decodes to, text the raw value must contain) is read by the call at its offset, and the
   call at the end reports EOF; claim = what the harness found for the same two questions *)
| CHyp (docs : list (nat * value * bytes)) (tbl : list step) (reads_claim raw_claim : bool)
(* XmlFile / XmlFileIndent / JsonFile (ij = false), JsonFileIndent (ij = true) *)
| CWrite (ij : bool) (encs : list (option bytes)) (creatable : bool) (content : option bytes) (err : bool)
(* Map.Json(safe): what a json.Encoder with SetEscapeHTML(safe) wrote for the Map, Json's bytes *)
| CJson (encout : bytes) (safe : bool) (out : bytes)
(* Map.Copy: the encoder's output (None = error), the bytes handed to the decoder and the first value it
   returned (any kind), Copy's result *)
| CCopy (encout : option bytes) (jarg : bytes) (dec : dres) (out : dres)
(* Map.Gob / NewMapGob: whether Gob succeeded, what NewMapGob returned for its bytes *)
| CGob (m : value) (enc_ok : bool) (dec : dres)
(* NewMapGob on the empty byte string *)
| CGobEmpty (out : dres)
(* NewMapJsonReaderRaw on these bytes: raw, error class, bytes consumed *)
| CScan (input raw : bytes) (err : rerr) (consumed : nat).

Fixpoint list_eqb {A} (eqb : A -> A -> bool) (l1 l2 : list A) : bool :=
  match l1, l2 with
  | [], [] => true
  | a :: t1, b :: t2 => eqb a b && list_eqb eqb t1 t2
  | _, _ => false
  end.

Definition mapraw_eqb (a b : mapraw) : bool := veqb (fst a) (fst b) && str_eqb (snd a) (snd b).

Definition obytes_eqb (a b : option bytes) : bool :=
  match a, b with Some x, Some y => str_eqb x y | None, None => true | _, _ => false end.

Definition dres_of (r : res value) : dres :=
  match r with Ok v => DOk v | Err _ => DErr | Panic => DPanic end.
Definition res_of (d : dres) : res value :=
  match d with DOk v => Ok v | DErr => Err EOther | DPanic => Panic end.
Definition dres_eqb (a b : dres) : bool :=
  match a, b with DOk v, DOk w => veqb v w | DErr, DErr | DPanic, DPanic => true | _, _ => false end.

(* the hypotheses of the round-trip theorem, evaluated on the table *)
Fixpoint reads_ok (docs : list (nat * value * bytes)) (tbl : list step) (off : nat) : bool :=
  match docs with
  | [] => match lookup_step tbl off with
          | Some x => rerr_eqb (st_err x) REOF && negb (map_not_nil (st_map x))
          | None => false
          end
  | (len, v, _) :: t =>
      match lookup_step tbl off with
      | Some x => rerr_eqb (st_err x) RNil && Nat.eqb (st_len x) len && veqb (st_map x) v && reads_ok t tbl (off + len)
      | None => false
      end
  end.

Fixpoint raws_ok (docs : list (nat * value * bytes)) (tbl : list step) (off : nat) : bool :=
  match docs with
  | [] => true
  | (len, _, text) :: t =>
      match lookup_step tbl off with
      | Some x => containsb text (st_raw x) && raws_ok t tbl (off + len)
      | None => false
      end
  end.

Definition scan_obs (input : bytes) : bytes * rerr * nat :=
  match scan_json input with
  | SDoc jb rest => (jb, RNil, length input - length rest)
  | SEof jb => (jb, REOF, length input)
  | SNoClose jb => (jb, ROther, length input)
  | SStray jb rest => (jb, ROther, length input - length rest)
  end.

Definition check_fcase (c : fcase) : bool :=
  match c with
  | CRead true fs flen tbl out =>
      match new_maps_from_file_raw (tbl_take tbl) (S flen) (fs_state fs), out with
      | FR n am e, ORet n' am' e' => Bool.eqb n n' && Bool.eqb e e' && list_eqb mapraw_eqb am am'
      | FRPanic, OPanicked => true
      | _, _ => false
      end
  | CRead false fs flen tbl out =>
      match new_maps_from_file (tbl_take tbl) (S flen) (fs_state fs), out with
      | FR n am e, ORet n' am' e' => Bool.eqb n n' && Bool.eqb e e' && list_eqb veqb am (map fst am')
      | FRPanic, OPanicked => true
      | _, _ => false
      end
  | CHyp docs tbl rc wc =>
      Bool.eqb (reads_ok docs tbl 0) rc && Bool.eqb (raws_ok docs tbl 0) wc
  | CWrite ij encs creatable content err =>
      let (c', e') := maps_file (fun x : option bytes => x) ij encs creatable in
      obytes_eqb c' content && Bool.eqb e' err
  | CJson encout safe out =>
      obytes_eqb (map_json (fun _ _ => Some encout) safe VNil) (Some out)
  | CCopy encout jarg dec out =>
      dres_eqb (dres_of (map_copy (fun _ _ => encout)
                                  (fun j => if str_eqb j jarg then res_of dec else Panic) VNil)) out
  | CGob m enc_ok dec =>
      Bool.eqb (gob_encodable m) enc_ok &&
      (if enc_ok then dres_eqb dec (DOk m) else true)
  | CGobEmpty out =>
      dres_eqb (dres_of (new_map_gob (fun _ => Panic) [])) out
  | CScan input raw err consumed =>
      let '(r, e, n) := scan_obs input in
      match e, err with
      | RNil, RNil | RNil, ROther => str_eqb r raw && Nat.eqb n consumed   (* the decode after the scan may fail *)
      | REOF, REOF | ROther, ROther => str_eqb r raw && Nat.eqb n consumed
      | RPanic, RPanic => true
      | _, _ => false
      end
  end.

Fixpoint mismatches_from (i : nat) (cs : list fcase) : list nat :=
  match cs with
  | [] => []
  | c :: t => if check_fcase c then mismatches_from (S i) t else i :: mismatches_from (S i) t
  end.
Definition mismatches (cs : list fcase) : list nat := mismatches_from 0 cs.
