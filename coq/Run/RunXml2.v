(* Correspondence driver for C02 / C03: the cases of Run/RunXml.v plus cases that tie
   [toks_of_items] (Spec/Items.v) and the encoders' item model to the REAL token
   stream of the implementation's REAL output, for the compact and the indented encoders. *)
From Mxj Require Export Run.RunXml Spec.Items.

Inductive enc_call :=
| CXml (m : value) (root : option str)           (* Map.Xml(rootTag...) *)
| CXmlIndent (m : value) (root : option str)     (* Map.XmlIndent(prefix, indent, rootTag...) *)
| CAny (v : value) (rt et : str)                 (* AnyXml(v, rt, et) *)
| CAnyIndent (v : value) (rt et : str).          (* AnyXmlIndent(v, prefix, indent, rt, et) *)

Definition model_items (o : opts) (c : enc_call) : res (list item) :=
  match c with
  | CXml (VMap mm) root => map_xml_items o mm root
  | CXmlIndent (VMap mm) root => map_xml_indent_items o mm root
  | CAny v rt et | CAnyIndent v rt et => any_xml_items o v rt et
  | _ => Panic
  end.
Definition is_indent (c : enc_call) : bool :=
  match c with CXmlIndent _ _ | CAnyIndent _ _ _ => true | _ => false end.

Inductive xcase2 :=
| X1 (c : xcase)
(* the encoder call returned err != nil (errd) or bytes whose real token stream is ts, ended by tm *)
| XToks (o : opts) (c : enc_call) (errd : bool) (ts : list tok) (tm : term).

(* tokens compared on local names (the decoder reads nothing else) *)
Definition attr_eqb (a b : xattr) : bool :=
  str_eqb (xlocal (aname a)) (xlocal (aname b)) && str_eqb (avalue a) (avalue b).
Fixpoint list_eqb {A} (eqb : A -> A -> bool) (a b : list A) : bool :=
  match a, b with
  | [], [] => true
  | x :: a', y :: b' => eqb x y && list_eqb eqb a' b'
  | _, _ => false
  end.
Definition tok_eqb (a b : tok) : bool :=
  match a, b with
  | TStart n x, TStart m y => str_eqb (xlocal n) (xlocal m) && list_eqb attr_eqb x y
  | TEnd n, TEnd m => str_eqb (xlocal n) (xlocal m)
  | TChar x, TChar y => str_eqb x y
  | _, _ => false
  end.

Definition all_ws (x : str) : bool := forallb (fun c => mem_ascii c ws_chars) x.
(* x = w1 ++ y ++ w2 with w1, w2 whitespace *)
Fixpoint infix_ws (y x : str) : bool :=
  (prefixb y x && all_ws (skipn (length y) x)) ||
  match x with c :: x' => mem_ascii c ws_chars && infix_ws y x' | [] => false end.
(* real = toks_of_items (insert_ws ws its) for some whitespace ws, given model = toks_of_items its *)
Fixpoint match_ws (real model : list tok) : bool :=
  match real with
  | [] => match model with [] => true | _ => false end
  | TChar x :: r' =>
      match model with
      | TChar y :: m' => infix_ws y x && match_ws r' m'
      | _ => all_ws x && match_ws r' model
      end
  | t :: r' =>
      match model with
      | t' :: m' => tok_eqb t t' && match_ws r' m'
      | [] => false
      end
  end.

Definition check_xcase2 (c : xcase2) : bool :=
  match c with
  | X1 c1 => check_xcase c1
  | XToks o call errd ts tm =>
      match model_items o call with
      | Ok its =>
          negb errd &&
          match scan [] 0 its with
          | Some _ =>
              (* well-formed items: the real tokenizer accepts the real bytes and returns toks_of_items *)
              (match tm with TermEOF => true | TermErr => false end) &&
              (if is_indent call then match_ws ts (toks_of_items its)
               else list_eqb tok_eqb ts (toks_of_items its))
          | None => true
          end
      | Err _ => errd
      | Panic => false
      end
  end.

Fixpoint mismatches2_from (i : nat) (cs : list xcase2) : list nat :=
  match cs with
  | [] => []
  | c :: t => if check_xcase2 c then mismatches2_from (S i) t else i :: mismatches2_from (S i) t
  end.
Definition mismatches (cs : list xcase2) : list nat := mismatches2_from 0 cs.
