(* Correspondence driver for C14: whole-decoder cases (RunXml.XDec), direct leaf cases
   (cast through the verif hook VerifCast) and the validation of the ParseFloat facts
   H1 / H0 and of the Gallina [special] against the real strconv.ParseFloat. *)
From Mxj Require Export Run.RunXml Spec.CastSpec.

Inductive ccase :=
| CX (c : xcase)
| CLeaf (o : opts) (pf : list (str * option flt)) (skip : list str)
        (x : str) (r : bool) (t : str) (out : value)          (* cast(x, r, t) = out *)
| CPf (x : str) (res : option flt).                           (* ParseFloat(x, 64): Some (%v text) iff err == nil *)

Definition check_ccase (c : ccase) : bool :=
  match c with
  | CX c => check_xcase c
  | CLeaf o pf skip x r t out =>
      let sk := fun t => existsb (str_eqb t) skip in
      value_eqb (cast (tbl_pf pf) sk o x r t) out && value_eqb (cast_table (tbl_pf pf) sk o x r t) out
  | CPf x res =>
      match special x with
      | Some k => match res with Some f => str_eqb f (special_text k) | None => false end
      | None => match res with
                | Some f => negb (is_naninf f) && nonempty x          (* H1 (=>) and H0 *)
                | None => true
                end
      end
  end.

Fixpoint cmismatches_from (i : nat) (cs : list ccase) : list nat :=
  match cs with
  | [] => []
  | c :: t => if check_ccase c then cmismatches_from (S i) t else i :: cmismatches_from (S i) t
  end.
Definition mismatches (cs : list ccase) : list nat := cmismatches_from 0 cs.
