(* Correspondence driver for the stream readers (C13).

   The harness drives the exported reader functions of /repo with scripted io.Readers and prints,
   per case, the schedule, the observed results, and the decode tables:
   - `dent` entries describe encoding/xml + xmlToMapParser (the environment) on the byte strings the
     decoder was given in this case: the harness obtained them by running NewMapXmlReader /
     NewMapXmlSeqReader over a bytes.Reader (an io.ByteReader, so none of mxj's adaptors is involved);
   - `jtab` entries are NewMapJson on the byte strings getJson produced.
   The model (Model/Reader.v) is evaluated on the same schedule with the machine read off the table. *)
From Mxj Require Export Model.Reader.

Inductive dent :=
| DDone (x : str) (r : res value)   (* having read exactly x the decoder returned r *)
| DEof (x : str) (r : res value)    (* having read x and then io.EOF the decoder returned r *)
| DNoProg (x : str) (r : res value). (* having read x and then io.ErrNoProgress the decoder returned r *)

Definition unknown : res value := Ok (VStr (s "<<no table entry>>")).

Fixpoint lookup_done (x : str) (tab : list dent) : option (res value) :=
  match tab with
  | [] => None
  | DDone y r :: t => if str_eqb x y then Some r else lookup_done x t
  | _ :: t => lookup_done x t
  end.
Fixpoint lookup_eof (x : str) (tab : list dent) : option (res value) :=
  match tab with
  | [] => None
  | DEof y r :: t => if str_eqb x y then Some r else lookup_eof x t
  | _ :: t => lookup_eof x t
  end.

Fixpoint lookup_np (x : str) (tab : list dent) : option (res value) :=
  match tab with
  | [] => None
  | DNoProg y r :: t => if str_eqb x y then Some r else lookup_np x t
  | _ :: t => lookup_np x t
  end.

(* state = the bytes seen so far *)
Definition tab_machine (tab : list dent) : xmachine :=
  {| m_st := str; m_init := [];
     m_step := fun seen b => let seen' := seen ++ [b] in
                             match lookup_done seen' tab with Some r => inr r | None => inl seen' end;
     m_eof := fun seen => match lookup_eof seen tab with Some r => r | None => unknown end;
     m_noprog := fun seen => match lookup_np seen tab with Some r => r | None => unknown end |}.

Fixpoint tab_nmj (jtab : list (str * res value)) (b : str) : res value :=
  match jtab with
  | [] => unknown
  | (k, r) :: t => if str_eqb k b then r else tab_nmj t b
  end.

(* one observed call: result, raw bytes ([] for the non-Raw functions), Read calls made so far *)
Inductive obs1 := Obs (r : res value) (raw : str) (pos : nat).

Inductive rcase :=
| RXml (raw : bool) (S : list rev) (tab : list dent) (obs : list obs1)
    (* NewMapXmlReader / NewMapXmlReaderRaw (or the Seq variants, with the Seq table) called until an error *)
| RJson (raw : bool) (S : list rev) (jtab : list (str * res value)) (obs : list obs1)
    (* NewMapJsonReader / NewMapJsonReaderRaw called until an error or a panic *)
| RHXml (raw : bool) (S : list rev) (tab : list dent) (stop : option nat) (ehret : bool)
        (calls : list (value * str)) (nerr : nat) (ret : res unit) (pos : nat)
    (* HandleXmlReader[Raw]: mapHandler returns false on call number stop, errHandler returns ehret *)
| RHJson (raw : bool) (S : list rev) (jtab : list (str * res value)) (stop : option nat) (ehret : bool)
         (calls : list (value * str)) (nerr : nat) (ret : res unit) (pos : nat)
| RFXml (raw : bool) (X : str) (tab : list dent) (am : list (value * str)) (ret : res unit)
    (* NewMapsFromXmlFileRaw / NewMapsFromXmlFile (raw = false: the Maps only) *)
| RFJson (raw : bool) (X : str) (jtab : list (str * res value)) (am : list (value * str)) (ret : res unit)
| RBad.   (* the harness saw a Read call with a buffer that is not one byte long: the schedule model does not apply *)

Definition res_eqb (a b : res value) : bool :=
  match a, b with
  | Ok x, Ok y => veqb x y
  | Err e, Err e' => err_eqb e e'
  | Panic, Panic => true
  | _, _ => false
  end.
Definition resu_eqb (a b : res unit) : bool :=
  match a, b with
  | Ok _, Ok _ => true
  | Err e, Err e' => err_eqb e e'
  | Panic, Panic => true
  | _, _ => false
  end.

(* the calls a client makes, with the position of the reader after each *)
Fixpoint reads (next : list rev -> option (res value * str * list rev)) (fuel total : nat) (S : list rev) : list obs1 :=
  match fuel with
  | O => []
  | Datatypes.S f =>
      match next S with
      | None => []
      | Some (r, raw, S') =>
          let o := Obs r raw (total - length S') in
          match r with Ok _ => o :: reads next f total S' | _ => [o] end
      end
  end.

Fixpoint obs_eqb (a b : list obs1) : bool :=
  match a, b with
  | [], [] => true
  | Obs r1 w1 p1 :: a', Obs r2 w2 p2 :: b' => res_eqb r1 r2 && str_eqb w1 w2 && Nat.eqb p1 p2 && obs_eqb a' b'
  | _, _ => false
  end.
Fixpoint calls_eqb (a b : list (value * str)) : bool :=
  match a, b with
  | [], [] => true
  | (v1, w1) :: a', (v2, w2) :: b' => veqb v1 v2 && str_eqb w1 w2 && calls_eqb a' b'
  | _, _ => false
  end.

(* read_docs (the function the theorems speak about) gives the same results as `reads` *)
Fixpoint proj_eqb (a : list (res value * str)) (b : list obs1) : bool :=
  match a, b with
  | [], [] => true
  | (r1, w1) :: a', Obs r2 w2 _ :: b' => res_eqb r1 r2 && str_eqb w1 w2 && proj_eqb a' b'
  | _, _ => false
  end.

Definition mh_of (stop : option nat) (k : nat) (_ : value) : bool :=
  match stop with Some j => negb (Nat.eqb k j) | None => true end.

Definition hout_ok (o : option hout) (total : nat) calls nerr ret pos : bool :=
  match o with
  | Some h => calls_eqb (h_calls h) calls && Nat.eqb (h_errs h) nerr && resu_eqb (h_ret h) ret
              && Nat.eqb (total - length (h_rest h)) pos
  | None => false
  end.
Definition file_ok (raw : bool) (o : option (list (value * str) * res unit)) am ret : bool :=
  match o with
  | Some (am', ret') =>
      match ret' with
      | Panic => resu_eqb ret' ret          (* a panic leaves the caller without the slice built so far *)
      | _ => calls_eqb (if raw then am' else map (fun p => (fst p, [])) am') am && resu_eqb ret' ret
      end
  | None => false
  end.

Definition check_rcase (c : rcase) : bool :=
  match c with
  | RXml raw sc tab obs =>
      let M := tab_machine tab in
      let next := if raw then new_map_xml_reader_raw M else with_unit_raw (new_map_xml_reader M) in
      obs_eqb (reads next (Datatypes.S (length sc)) (length sc) sc) obs
      && proj_eqb (read_docs next (Datatypes.S (length sc)) sc) obs
  | RJson raw sc jtab obs =>
      let nmj := tab_nmj jtab in
      let next := if raw then new_map_json_reader_raw nmj else with_unit_raw (new_map_json_reader nmj) in
      obs_eqb (reads next (Datatypes.S (length sc)) (length sc) sc) obs
      && proj_eqb (read_docs next (Datatypes.S (length sc)) sc) obs
  | RHXml raw sc tab stop ehret calls nerr ret pos =>
      let M := tab_machine tab in
      hout_ok ((if raw then handle_xml_reader_raw M else handle_xml_reader M) (mh_of stop) (fun _ => ehret) sc)
              (length sc) calls nerr ret pos
  | RHJson raw sc jtab stop ehret calls nerr ret pos =>
      let nmj := tab_nmj jtab in
      hout_ok ((if raw then handle_json_reader_raw nmj else handle_json_reader nmj) (mh_of stop) (fun _ => ehret) sc)
              (length sc) calls nerr ret pos
  | RFXml raw X tab am ret => file_ok raw (new_maps_from_xml_file_raw (tab_machine tab) X) am ret
  | RFJson raw X jtab am ret => file_ok raw (new_maps_from_json_file_raw (tab_nmj jtab) X) am ret
  | RBad => false
  end.

Fixpoint mismatches_from (i : nat) (cs : list rcase) : list nat :=
  match cs with
  | [] => []
  | c :: t => if check_rcase c then mismatches_from (Datatypes.S i) t else i :: mismatches_from (Datatypes.S i) t
  end.
Definition mismatches (cs : list rcase) : list nat := mismatches_from 0 cs.

(* compact schedule notation for the case files: a chunk of data, optionally ending with io.EOF *)
Definition dat (x : str) : list rev := map Data x.
Definition zeros (n : nat) : list rev := repeat Zero n.
Definition dat_eof (x : str) : list rev :=
  match List.rev x with
  | [] => [Eof]
  | l :: r => map Data (List.rev r) ++ [DataEOF l]
  end.
