(* Correspondence driver for the re-implemented walkers of x2j-wrapper (C20):
   a case = Map + one call of an exported x2j-wrapper function + what the
   implementation returned.  [check_case] runs Model/X2jWrap.v on the same
   input and compares the projected observables (nil slice = empty list;
   results filled in map-iteration order are compared as multisets). *)
From Mxj Require Export Model.X2jWrap Run.RunKV.

Inductive xwop :=
| XwPaths (key : str)                        (* x2j-wrapper.PathsForKey(m, key) *)
| XwShortest (key : str)                     (* x2j-wrapper.PathForKeyShortest(m, key) *)
| XwVfk (key : str)                          (* x2j-wrapper.ValuesForKey(m, key) *)
| XwFrom (path : str) (getAttrs : bool)      (* x2j-wrapper.ValuesFromKeyPath(m, path, getAttrs) *)
| XwAt (path : str) (getAttrs : bool).       (* x2j-wrapper.ValuesAtKeyPath(m, path, getAttrs) *)

Record xwcase := {
  xw_m : value;             (* the argument Map *)
  xw_op : xwop;
  xw_ordered : bool;        (* no map iteration decides the order of the result *)
  xw_unchanged : bool;      (* the harness found the argument Map deeply equal after the call *)
  xw_out : outcome
}.

Definition check_list (ordered : bool) (vs : list value) (o : outcome) : bool :=
  match o with
  | Ret (VList got) => vlist_eqb ordered vs got
  | _ => false                                  (* no walker of the model can panic or fail *)
  end.

Definition check_xw (c : xwcase) : bool :=
  let m := xw_m c in
  xw_unchanged c &&
  match xw_op c, xw_out c with
  | XwPaths key, Ret (VList r) => perm_eqb veqb (vstrs (xw_paths_for_key m key)) r
  | XwShortest key, Ret (VStr r) =>
      let ps := xw_paths_for_key m key in
      match ps with
      | [] => str_eqb r []
      | _ => existsb (str_eqb r) ps && forallb (fun p => path_len r <=? path_len p) ps
      end
  | XwVfk key, o => check_list (xw_ordered c) (xw_values_for_key m key) o
  | XwFrom path ga, o => check_list (xw_ordered c) (xw_values_from m path ga) o
  | XwAt path ga, o => check_list (xw_ordered c) (xw_values_at m path ga) o
  | _, _ => false
  end.

Fixpoint xw_mismatches_from (i : nat) (cs : list xwcase) : list nat :=
  match cs with
  | [] => []
  | c :: t => if check_xw c then xw_mismatches_from (S i) t else i :: xw_mismatches_from (S i) t
  end.
(* the name the case files call *)
Definition mismatches (cs : list xwcase) : list nat := xw_mismatches_from 0 cs.
