(* Correspondence driver for the tree walkers (C07-C12, parts of C15/C17).
   A case = receiver Map + one API call + what the implementation returned
   (result, error class or panic, and the receiver afterwards).  [check_case]
   runs the model on the same input and compares the projected observables. *)
From Mxj Require Export Model.TreeOps.

Inductive kvop :=
| OpVfp (path : str) (sk : list str)          (* Map.ValuesForPath *)
| OpVal (path : str)                          (* Map.ValueForPath *)
| OpExists (path : str) (sk : list str)       (* Map.Exists *)
| OpVfk (key : str) (sk : list str)           (* Map.ValuesForKey *)
| OpPaths (key : str)                         (* Map.PathsForKey *)
| OpShortest (key : str)                      (* Map.PathForKeyShortest *)
| OpLeaf (noattr : bool) (attrPrefix textK : str) (dotn : bool)   (* Map.LeafNodes *)
| OpLeafPaths (noattr : bool) (attrPrefix textK : str) (dotn : bool)   (* Map.LeafPaths *)
| OpLeafValues (noattr : bool) (attrPrefix textK : str) (dotn : bool)  (* Map.LeafValues *)
| OpUpdate (nv : newval) (path : str) (sk : list str)             (* Map.UpdateValuesForPath *)
| OpSet (v : value) (path : str)              (* Map.SetValueForPath *)
| OpRemove (path : str)                       (* Map.Remove *)
| OpRename (path newName : str)               (* Map.RenameKey *)
| OpNewMap (pairs : list str).                (* Map.NewMap *)

(* what the implementation did *)
Inductive outcome :=
| Ret (r : value)          (* nil error; r encodes the result *)
| Fail (e : err) (r : value)   (* error class, and whatever came back with it *)
| Panicked.

Record case := {
  c_sep : str;                              (* fieldSep at the time of the call *)
  c_pf : list (str * option flt);           (* strconv.ParseFloat on the strings this case may parse *)
  c_m : value;                              (* receiver before the call *)
  c_op : kvop;
  c_ordered : bool;                         (* no map iteration decides the result order *)
  c_out : outcome;
  c_after : option value                    (* receiver after the call; None = deeply equal to c_m *)
}.

Fixpoint tbl_pf (t : list (str * option flt)) (x : str) : option flt :=
  match t with [] => None | (k, v) :: t' => if str_eqb k x then v else tbl_pf t' x end.

(* equality that also ignores the order of list members, at every depth; used
   where a list was filled in map-iteration order (wildcard old paths of NewMap) *)
Fixpoint vequ (a b : value) : bool :=
  match a, b with
  | VMap m1, VMap m2 =>
      Nat.eqb (length m1) (length m2) &&
      (fix go (m1 : entries) : bool :=
         match m1 with
         | [] => true
         | (k1, v1) :: t1 => match lookup k1 m2 with Some v2 => vequ v1 v2 && go t1 | None => false end
         end) m1
  | VList l1, VList l2 =>
      Nat.eqb (length l1) (length l2) &&
      (fix go (l1 : list value) (l2 : list value) : bool :=
         match l1 with
         | [] => match l2 with [] => true | _ => false end
         | v1 :: t1 =>
             (* greedy: vequ is an equivalence, so the first match is as good as any *)
             (fix pick (pre l2 : list value) : bool :=
                match l2 with
                | [] => false
                | v2 :: t2 => if vequ v1 v2 then go t1 (rev_append pre t2) else pick (v2 :: pre) t2
                end) [] l2
         end) l1 l2
  | _, _ => veqb a b
  end.

Definition vlist_eqb (ordered : bool) (a b : list value) : bool :=
  if ordered then veqb (VList a) (VList b) else perm_eqb veqb a b.
Definition vstrs (l : list str) : list value := map VStr l.
Definition leaf_val (pv : str * value) : value := VList [VStr (fst pv); snd pv].

(* the model's verdict on one case *)
Definition check_case (c : case) : bool :=
  let pf := tbl_pf (c_pf c) in
  let sep := c_sep c in
  let m := c_m c in
  let after := match c_after c with Some a => a | None => m end in
  let unchanged := match c_after c with Some a => veqb a m | None => true end in
  match c_op c with
  | OpVfp path sk =>
      unchanged &&
      match values_for_path pf sep m path sk, c_out c with
      | Ok vs, Ret (VList r) => vlist_eqb (c_ordered c) vs r
      | Err _, Fail _ _ => true
      | _, _ => false
      end
  | OpVal path =>
      unchanged &&
      match values_for_path pf sep m path [], c_out c with
      | Ok [], Fail _ _ => true
      | Ok (v :: vs), Ret r => if c_ordered c then veqb v r else existsb (veqb r) (v :: vs)
      | Err _, Fail _ _ => true
      | _, _ => false
      end
  | OpExists path sk =>
      unchanged &&
      match exists_path pf sep m path sk, c_out c with
      | Ok b, Ret (VBool b') => Bool.eqb b b'
      | Err _, Fail _ (VBool false) => true
      | _, _ => false
      end
  | OpVfk key sk =>
      unchanged &&
      match values_for_key pf sep m key sk, c_out c with
      | Ok vs, Ret (VList r) => vlist_eqb (c_ordered c) vs r
      | Err _, Fail _ _ => true
      | _, _ => false
      end
  | OpPaths key =>
      unchanged &&
      match c_out c with
      | Ret (VList r) => perm_eqb veqb (vstrs (paths_for_key m key)) r
      | _ => false
      end
  | OpShortest key =>
      unchanged &&
      match c_out c with
      | Ret (VStr r) =>
          let ps := paths_for_key m key in
          match ps with
          | [] => str_eqb r []
          | _ => existsb (str_eqb r) ps &&
                 forallb (fun p => path_len r <=? path_len p) ps
          end
      | _ => false
      end
  | OpLeaf noattr ap tk dotn =>
      unchanged &&
      match c_out c with
      | Ret (VList r) => vlist_eqb (c_ordered c) (map leaf_val (leaf_nodes ap tk dotn m noattr)) r
      | _ => false
      end
  | OpLeafPaths noattr ap tk dotn =>
      unchanged &&
      match c_out c with
      | Ret (VList r) => vlist_eqb (c_ordered c) (map (fun pv => VStr (fst pv)) (leaf_nodes ap tk dotn m noattr)) r
      | _ => false
      end
  | OpLeafValues noattr ap tk dotn =>
      unchanged &&
      match c_out c with
      | Ret (VList r) => vlist_eqb (c_ordered c) (map snd (leaf_nodes ap tk dotn m noattr)) r
      | _ => false
      end
  | OpUpdate nv path sk =>
      match update_values_for_path pf sep m nv path sk, c_out c with
      | Ok (m', n), Ret (VInt z) => Z.eqb z (Z.of_nat n) && veqb after m'
      | Err _, Fail _ (VInt 0) => unchanged
      | _, _ => false
      end
  | OpSet v path =>
      match set_value_for_path m v path, c_out c with
      | Ok m', Ret _ => veqb after m'
      | Err _, Fail _ _ => unchanged
      | _, _ => false
      end
  | OpRemove path =>
      match remove_path m path, c_out c with
      | Ok m', Ret _ => veqb after m'
      | Err _, Fail _ _ => unchanged
      | _, _ => false
      end
  | OpRename path nn =>
      match rename_key pf sep m path nn, c_out c with
      | Ok m', Ret _ => veqb after m'
      | Err _, Fail _ _ => unchanged
      | _, _ => false
      end
  | OpNewMap pairs =>
      unchanged &&
      match new_map pf sep m pairs, c_out c with
      | (n, Ok _), Ret r => if c_ordered c then veqb r (VMap n) else vequ r (VMap n)
      | (n, Err _), Fail _ r => if c_ordered c then veqb r (VMap n) else vequ r (VMap n)
      | _, _ => false
      end
  end.

Fixpoint mismatches_from (i : nat) (cs : list case) : list nat :=
  match cs with
  | [] => []
  | c :: t => if check_case c then mismatches_from (S i) t else i :: mismatches_from (S i) t
  end.
Definition mismatches (cs : list case) : list nat := mismatches_from 0 cs.
