(* Correspondence driver for the sequence-preserving codec (C04; parts of C15/C16). *)
From Mxj Require Export Run.RunXml Spec.SeqSpec.

Inductive scase :=
(* NewMapXmlSeq(doc, cast) on the document whose RawToken stream is ts / tm *)
| SDec (o : opts) (cast : bool) (pf : list (str * option flt)) (ts : list tok) (tm : term) (out : xout)
(* MapSeq.Xml(rootTag...): bytes *)
| SEnc (o : opts) (m : value) (root : option str) (out : xout)
(* MapSeq.XmlIndent(prefix, indent, rootTag...): [toks] is the real RawToken stream of the output
   (valid = the tokenizer accepted it to the end); out is XBytes [] when err == nil *)
| SEncI (o : opts) (m : value) (root : option str) (valid : bool) (toks : list tok) (out : xout)
(* BeautifyXml(doc, prefix, indent) on the document whose RawToken stream is ts / tm *)
| SBeau (o : opts) (pf : list (str * option flt)) (ts : list tok) (tm : term)
        (valid : bool) (toks : list tok) (out : xout).

Fixpoint str_pairs_eqb (a b : list (str * str)) : bool :=
  match a, b with
  | [], [] => true
  | (k, v) :: a', (k', v') :: b' => str_eqb k k' && str_eqb v v' && str_pairs_eqb a' b'
  | _, _ => false
  end.
Definition rtok_eqb (a b : rtok) : bool :=
  match a, b with
  | RStart n x, RStart n' x' => str_eqb n n' && str_pairs_eqb x x'
  | REnd n, REnd n' => str_eqb n n'
  | RChar x, RChar x' | RComment x, RComment x' | RDirective x, RDirective x' => str_eqb x x'
  | RProcInst t i, RProcInst t' i' => str_eqb t t' && str_eqb i i'
  | _, _ => false
  end.
Fixpoint rtoks_eqb (a b : list rtok) : bool :=
  match a, b with
  | [], [] => true
  | x :: a', y :: b' => rtok_eqb x y && rtoks_eqb a' b'
  | _, _ => false
  end.

Definition has_raw (its : list sitem) : bool :=
  existsb (fun i => match i with SRaw _ => true | _ => false end) its.

Definition sbytes_match (r : res (list sitem)) (out : xout) : bool :=
  match r, out with
  | Ok its, XBytes b => str_eqb (semit its) b
  | Err _, XFail _ => true
  | Panic, XPanicked => true
  | _, _ => false
  end.

(* indented output: the real RawToken stream against rawtoks_of_items of the model's items, both
   normalised (whitespace-only text dropped, text trimmed: a text run that precedes child elements
   is followed by the line break and padding of the first child) *)
Definition stoks_match (o : opts) (r : res (list sitem)) (valid : bool) (toks : list tok) (out : xout) : bool :=
  match r, out with
  | Ok its, XBytes _ =>
      if valid then rtoks_eqb (normalize (map rt_of_tok toks)) (normalize (rawtoks_of_items its))
      else true   (* output the tokenizer rejects (keys that are no XML names, unescaped values, raw
                     fragments): no token stream to compare; the bytes are compared by SEnc *)
  | Err _, XFail _ => true
  | Panic, XPanicked => true
  | _, _ => false
  end.

Definition check_scase (c : scase) : bool :=
  match c with
  | SDec o cast pf ts tm out =>
      match seq_decode (tbl_pf pf) (fun _ => false) o cast ts tm, out with
      | Ok v, XRet w => veqb v w
      | Err e, XFail e' => err_eqb e e'
      | Panic, XPanicked => true
      | _, _ => false
      end
  | SEnc o m root out =>
      match m with VMap mm => sbytes_match (seq_xml_items o mm root) out | _ => false end
  | SEncI o m root valid toks out =>
      match m with VMap mm => stoks_match o (seq_xml_indent_items o mm root) valid toks out | _ => false end
  | SBeau o pf ts tm valid toks out =>
      stoks_match o (beautify_items (tbl_pf pf) (fun _ => false) o ts tm) valid toks out
  end.

Fixpoint smismatches_from (i : nat) (cs : list scase) : list nat :=
  match cs with
  | [] => []
  | c :: t => if check_scase c then smismatches_from (S i) t else i :: smismatches_from (S i) t
  end.
Definition mismatches (cs : list scase) : list nat := smismatches_from 0 cs.
