(* Correspondence driver for C16: the Map encoder model on Maps rebuilt with different insertion
   orders (entries printed in the order the rebuilt Go map handed them out), the indented root rule,
   Map.Json / JsonIndent on top of the encoder's bytes, the Writer forms and the Maps string / file forms. *)
From Mxj Require Export Run.RunXml Model.EncForms.

Inductive c16case :=
| CX (c : xcase)                                   (* XEnc / XAny of Run/RunXml.v *)
| CXI (o : opts) (m : value) (root : option str) (accept : bool) (out : xout)
      (* Map.XmlIndent("", "", root...) with the "\n" bytes removed (no string of m contains one) *)
| CPerm (o : opts) (m m' : value) (root : option str)
      (* two rebuilt variants of one Map, each in its own iteration order *)
| CJson (encoded : xout) (out : xout)
      (* encoded = what json.Encoder.Encode wrote for m under SetEscapeHTML(safe); out = m.Json(safe) *)
| CJsonI (encoded : xout) (ind_in : str) (ind_out : xout) (out : xout)
      (* json.Indent(ind_in, p, i) = ind_out (the environment, applied by the harness to the encoder's bytes
         without the final newline); out = m.JsonIndent(p, i, safe) *)
| CWriter (raw : bool) (enc : xout) (written : str) (ret : xout)
      (* enc = the byte-returning form; written = what reached the io.Writer; ret = XBytes returned by a Raw
         form (XBytes [] for the other forms) or XFail *)
| CMaps (kind : nat) (safe : bool) (encs_false encs_true : list xout) (out : str) (failed : bool) (file : option str).
      (* kind 0: XmlString / XmlStringIndent over the per-Map Xml / XmlIndent results (both lists the same);
         1: JsonString(safe) over the per-Map Json(false) and Json(true) results; 2: JsonStringIndent(p, i, safe)
         over the per-Map JsonIndent(p, i, false / true) results.  file = content written by the File form
         (None: not written) *)

Definition res_of (x : xout) : res str :=
  match x with XBytes b => Ok b | XFail e => Err e | _ => Panic end.

Definition res_str_eqb (a b : res str) : bool :=
  match a, b with
  | Ok x, Ok y => str_eqb x y
  | Err _, Err _ => true
  | Panic, Panic => true
  | _, _ => false
  end.

Definition items_bytes (r : res (list item)) : res str :=
  match r with Ok its => Ok (emit its) | Err e => Err e | Panic => Panic end.

Definition opt_str_eqb (a b : option str) : bool :=
  match a, b with Some x, Some y => str_eqb x y | None, None => true | _, _ => false end.

Definition check_c16 (c : c16case) : bool :=
  match c with
  | CX x => check_xcase x
  | CXI o m root accept out =>
      match m with
      | VMap mm => bytes_match (checked o accept (map_xml_indent_items o mm root)) out
      | _ => false
      end
  | CPerm o m m' root =>
      match m, m' with
      | VMap mm, VMap mm' =>
          wfb m && wfb m' && veqb m m' && veqb m' m &&
          res_str_eqb (items_bytes (map_xml_items o mm root)) (items_bytes (map_xml_items o mm' root)) &&
          res_str_eqb (items_bytes (map_xml_indent_items o mm root)) (items_bytes (map_xml_indent_items o mm' root))
      | _, _ => false
      end
  | CJson encoded out => res_str_eqb (map_json (res_of encoded)) (res_of out)
  | CJsonI encoded ind_in ind_out out =>
      res_str_eqb (map_json_indent (fun x => if str_eqb x ind_in then res_of ind_out else Panic) (res_of encoded)) (res_of out)
  | CWriter raw enc written ret =>
      if raw then
        let '(r, w) := writer_raw_form (res_of enc) [] in
        res_str_eqb r (res_of ret) && str_eqb w written
      else
        let '(r, w) := writer_form (res_of enc) [] in
        match r, ret with
        | Ok _, XBytes [] => str_eqb w written
        | Err _, XFail _ => str_eqb w written
        | _, _ => false
        end
  | CMaps kind safe encs_false encs_true out failed file =>
      let per := fun flag : bool => map res_of (if flag then encs_true else encs_false) in
      let r := match kind with
               | 0 => maps_xml_string (per safe)
               | 1 => maps_json_string safe per
               | _ => maps_json_string_indent safe per
               end in
      str_eqb (fst r) out &&
      Bool.eqb (match snd r with Some _ => true | None => false end) failed &&
      opt_str_eqb (fst (maps_file r)) file
  end.

Fixpoint c16_mismatches_from (i : nat) (cs : list c16case) : list nat :=
  match cs with
  | [] => []
  | c :: t => if check_c16 c then c16_mismatches_from (S i) t else i :: c16_mismatches_from (S i) t
  end.
Definition mismatches (cs : list c16case) : list nat := c16_mismatches_from 0 cs.
