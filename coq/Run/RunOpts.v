(* Correspondence driver for the package options (C18): a case is a history of setter calls
   together with the complete option state the implementation was in after every call
   (None = the call panicked).  The model is the REGENERATED Gen/Setters_gen.v. *)
From Mxj Require Export Gen.GenSupport Gen.Setters_gen.
Local Open Scope string_scope.

Record ocase := {
  oc_init : list (string * fval);                       (* the complete option state before the first call *)
  oc_hist : list call;
  oc_obs : list (option (list (string * fval)))         (* after each call: the variables whose value changed, with the new value *)
}.

Definition fval_eqb (a b : fval) : bool :=
  match a, b with
  | FB x, FB y => Bool.eqb x y
  | FS x, FS y => str_eqb x y
  | FZ x, FZ y => Z.eqb x y
  | FT None, FT None => true
  | FT (Some _), FT (Some _) => true           (* a function / pointer value: only nil-ness is observable *)
  | _, _ => false
  end.

Fixpoint flookup (k : string) (l : list (string * fval)) : option fval :=
  match l with [] => None | (k', v) :: t => if String.eqb k k' then Some v else flookup k t end.

(* poll intervals are not options: the hook does not report them *)
Definition unreported (k : string) : bool := String.eqb k "jhandlerPollInterval" || String.eqb k "xhandlerPollInterval".

(* every variable the implementation reported has the model's value, and every variable of the model's record is reported *)
Definition state_matches (st : gstate) (obs : list (string * fval)) : bool :=
  forallb (fun kv => match flookup (fst kv) (fields st) with Some v => fval_eqb v (snd kv) | None => false end) obs
  && forallb (fun kv => match flookup (fst kv) obs with Some _ => true | None => unreported (fst kv) end) (fields st).

(* the model's step changed exactly the reported variables, to the reported values *)
Definition step_matches (st st' : gstate) (diff : list (string * fval)) : bool :=
  forallb (fun kv => match flookup (fst kv) (fields st') with Some _ => true | None => false end) diff
  && forallb (fun kv' =>
       match flookup (fst kv') diff with
       | Some v => fval_eqb (snd kv') v
       | None => match flookup (fst kv') (fields st) with Some old => fval_eqb (snd kv') old | None => false end
       end) (fields st').

Fixpoint check_hist (st : gstate) (h : list call) (obs : list (option (list (string * fval)))) : bool :=
  match h, obs with
  | [], [] => true
  | c :: h', o :: obs' =>
      match apply_call st c, o with
      | Some st', Some diff => step_matches st st' diff && check_hist st' h' obs'
      | None, None => match obs' with [] => true | _ => false end     (* the implementation stopped at the panic *)
      | _, _ => false
      end
  | _, _ => false
  end.

(* every history starts from the restored defaults, which must be the model's initial state *)
Definition check_ocase (c : ocase) : bool := state_matches gstate0 (oc_init c) && check_hist gstate0 (oc_hist c) (oc_obs c).

Fixpoint mismatches_from (i : nat) (cs : list ocase) : list nat :=
  match cs with
  | [] => []
  | c :: t => if check_ocase c then mismatches_from (S i) t else i :: mismatches_from (S i) t
  end.
Definition mismatches (cs : list ocase) : list nat := mismatches_from 0 cs.
