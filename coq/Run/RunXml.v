(* Correspondence driver for the Map XML codec (C01-C03, C05, C14, parts of C15/C16/C18). *)
From Mxj Require Export Model.XmlEnc.

(* option record from the values the harness set through the exported setters *)
Definition mko (ap : str)
  (tseq lower snake keepsp simplemap cint cfloat cbool cnaninf xmpp goempty chk esc escdec : bool)
  (kp : str) : opts := {|
  attrPrefix := ap; lenAttrPrefix := length ap;
  includeTagSeqNum := tseq; lowerCase := lower; snakeCaseKeys := snake;
  disableTrimWhiteSpace := keepsp; trimRunes := if keepsp then trim_keep_space else trim_all;
  decodeSimpleValuesAsMap := simplemap;
  castToInt := cint; castToFloat := cfloat; castToBool := cbool; castNanInf := cnaninf;
  handleXMPPStreamTag := xmpp; useGoXmlEmptyElemSyntax := goempty; xmlCheckIsValid := chk;
  xmlEscapeChars := esc; xmlEscapeCharsDecoder := escdec;
  textK := kp ++ s "text"; seqK := kp ++ s "seq"; commentK := kp ++ s "comment"; attrK := kp ++ s "attr";
  directiveK := kp ++ s "directive"; procinstK := kp ++ s "procinst"; targetK := kp ++ s "target"; instK := kp ++ s "inst";
  fieldSep := s ":"; useDotNotation := false; defaultArraySize := 32; jsonUseNumber := false
|}.

Definition st (sp lo : str) (a : list (str * str * str)) : tok :=
  TStart {| xspace := sp; xlocal := lo |}
         (map (fun x => {| aname := {| xspace := fst (fst x); xlocal := snd (fst x) |}; avalue := snd x |}) a).
Definition en (sp lo : str) : tok := TEnd {| xspace := sp; xlocal := lo |}.

Inductive xout :=
| XRet (v : value)        (* nil error: the Map / value returned *)
| XBytes (b : str)        (* nil error: the bytes returned *)
| XFail (e : err)
| XPanicked.

Inductive xcase :=
| XDec (o : opts) (cast : bool) (pf : list (str * option flt)) (skip : list str)
       (ts : list tok) (tm : term) (out : xout)                     (* NewMapXml(doc, cast) *)
| XEnc (o : opts) (m : value) (root : option str) (accept : bool) (out : xout)   (* Map.Xml(rootTag...); accept = the
       real tokenizer accepts the unchecked output (the oracle the validity check consults) *)
| XAny (o : opts) (v : value) (rt et : str) (accept : bool) (out : xout).        (* AnyXml(v, rt, et) *)

Fixpoint tbl_pf (t : list (str * option flt)) (x : str) : option flt :=
  match t with [] => None | (k, v) :: t' => if str_eqb k x then v else tbl_pf t' x end.

(* if xmlCheckIsValid { decode the output; an error replaces the result } *)
Definition checked (o : opts) (accept : bool) (r : res (list item)) : res (list item) :=
  match r with
  | Ok its => if xmlCheckIsValid o && negb accept then Err EOther else Ok its
  | _ => r
  end.

Definition bytes_match (r : res (list item)) (out : xout) : bool :=
  match r, out with
  | Ok its, XBytes b => str_eqb (emit its) b
  | Err _, XFail _ => true
  | _, _ => false
  end.

Definition check_xcase (c : xcase) : bool :=
  match c with
  | XDec o cast pf skip ts tm out =>
      match xml_decode (tbl_pf pf) (fun t => existsb (str_eqb t) skip) o cast ts tm, out with
      | Ok v, XRet w => veqb v w
      | Err e, XFail e' => err_eqb e e'
      | _, _ => false
      end
  | XEnc o m root accept out =>
      match m with
      | VMap mm => bytes_match (checked o accept (map_xml_items o mm root)) out
      | _ => false
      end
  | XAny o v rt et accept out =>
      bytes_match (match v with VMap _ => checked o accept (any_xml_items o v rt et) | _ => any_xml_items o v rt et end) out
  end.

Fixpoint mismatches_from (i : nat) (cs : list xcase) : list nat :=
  match cs with
  | [] => []
  | c :: t => if check_xcase c then mismatches_from (S i) t else i :: mismatches_from (S i) t
  end.
Definition mismatches (cs : list xcase) : list nat := mismatches_from 0 cs.
