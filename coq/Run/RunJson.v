(* Correspondence driver for the JSON codec (C06).

   The harness calls json.Marshal / an Encoder with SetEscapeHTML(false) on single strings (the string
   encoder of encoding/json, the environment), json.Unmarshal on single literals (its string decoder),
   and the exported mxj functions Map.Json, Map.JsonIndent, NewMapJson, Map.Copy; the model
   (Model/Json.v) is evaluated on the same inputs. Numbers travel as text: a float64 is the text
   encoding/json prints for it. *)
From Mxj Require Export Model.Json.

Inductive jout := JBytes (b : str) | JVal (v : value) | JFail | JPanicked.

(* NewMapJson (json.go:128-147) as a function of the stdlib decoder oracle dec (Decode into a
   map[string]interface{} of the first value of the text):
     if len(jsonVal) == 0 { return empty Map, nil }
     if jsonVal[0] == '[' { jsonVal = {"object": + jsonVal + } }
     m, err = dec(jsonVal) *)
Definition object_wrap (b : str) : str := s "{""object"":" ++ b ++ s "}".
Definition new_map_json (dec : str -> res value) (b : str) : res value :=
  match b with
  | [] => Ok (VMap [])
  | c :: _ => if (byte c =? 91)%N then dec (object_wrap b) else dec b
  end.

Fixpoint tab_dec (tab : list (str * res value)) (b : str) : res value :=
  match tab with
  | [] => Ok (VStr (s "<<no table entry>>"))
  | (k, r) :: t => if str_eqb k b then r else tab_dec t b
  end.

Inductive jcase :=
| JQuote (eh : bool) (x : str) (out : str)
    (* json.Marshal(x) (eh = true) / Encoder.SetEscapeHTML(false).Encode(x) (eh = false) of a Go string *)
| JUnq (lit : str) (out : option str)
    (* json.Unmarshal of the literal "lit" (quotes added by the harness) into a string *)
| JJson (safe : bool) (v : value) (out : jout)                  (* Map.Json(safe) *)
| JIndent (prefix indent : str) (safe : bool) (v : value) (out : jout)   (* Map.JsonIndent(prefix, indent, safe) *)
| JRound (safe usenum : bool) (v : value) (out : jout)          (* NewMapJson(Map.Json(safe)) with JsonUseNumber = usenum; Map.Copy for safe = false *)
| JDec (b : str) (tab : list (str * res value)) (out : jout).   (* NewMapJson(b), the decoder oracle as a table *)

Definition opt_str_eqb (a b : option str) : bool :=
  match a, b with Some x, Some y => str_eqb x y | None, None => true | _, _ => false end.

Definition check_jcase (c : jcase) : bool :=
  match c with
  | JQuote eh x out => str_eqb (quote eh x) out
  | JUnq lit out => opt_str_eqb (unquote_body lit) out
  | JJson safe v out => match out with JBytes b => str_eqb (map_json safe v) b | _ => false end
  | JIndent p i safe v out => match out with JBytes b => str_eqb (map_json_indent p i safe v) b | _ => false end
  | JRound safe usenum v out =>
      match decode_segs usenum (map_quoted (post safe) (segments v)), out with
      | Some w, JVal w' => veqb w w'
      | None, JFail => true
      | _, _ => false
      end
  | JDec b tab out =>
      match new_map_json (tab_dec tab) b, out with
      | Ok w, JVal w' => veqb w w'
      | Err _, JFail => true
      | Panic, JPanicked => true
      | _, _ => false
      end
  end.

Fixpoint mismatches_from (i : nat) (cs : list jcase) : list nat :=
  match cs with
  | [] => []
  | c :: t => if check_jcase c then mismatches_from (S i) t else i :: mismatches_from (S i) t
  end.
Definition mismatches (cs : list jcase) : list nat := mismatches_from 0 cs.
