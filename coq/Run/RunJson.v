(* Correspondence driver for the JSON codec (C06).

   The harness calls json.Marshal / an Encoder with SetEscapeHTML(false) on single strings (the string
   encoder of encoding/json, the environment), json.Unmarshal on single literals (its string decoder),
   and the exported mxj functions Map.Json, Map.JsonIndent, NewMapJson, Map.Copy; the model
   (Model/Json.v) is evaluated on the same inputs. Numbers travel as text: a float64 is the text
   encoding/json prints for it. *)
From Mxj Require Export Spec.JsonSpec.

Inductive jout := JBytes (b : str) | JVal (v : value) | JFail | JPanicked.

Fixpoint tab_dec (tab : list (str * res value)) (b : str) : res value :=
  match tab with
  | [] => Ok (VStr (s "<<no table entry>>"))
  | (k, r) :: t => if str_eqb k b then r else tab_dec t b
  end.

Inductive jcase :=
| JQuote (eh : bool) (x : str) (out : str)
    (* json.Marshal(x) (eh = true) / Encoder.SetEscapeHTML(false).Encode(x) (eh = false) of a Go string *)
| JUnq (lit : str) (out : option str)
    (* json.Unmarshal of the literal "lit" (quotes added by the harness) into a string *)
| JJson (safe : bool) (v : value) (out : jout)                  (* Map.Json(safe) *)
| JIndent (prefix indent : str) (safe : bool) (v : value) (out : jout)   (* Map.JsonIndent(prefix, indent, safe) *)
| JRound (safe usenum : bool) (v : value) (out : jout)          (* NewMapJson(Map.Json(safe)) with JsonUseNumber = usenum; Map.Copy for safe = false *)
| JDec (b : str) (tab : list (str * res value)) (out : jout)    (* NewMapJson(b), the decoder oracle (first value into an interface{}) as a table *)
| JLegacy (x : str) (out : str).
    (* the former default encoding on one string: bytes.Replace x3 over json.Marshal(x), computed by the harness with the
       real bytes.Replace - ties Spec/JsonSpec.v `rewrite` (used by the compatibility theorem) to what that code did *)

Definition opt_str_eqb (a b : option str) : bool :=
  match a, b with Some x, Some y => str_eqb x y | None, None => true | _, _ => false end.

Definition check_jcase (c : jcase) : bool :=
  match c with
  | JQuote eh x out => str_eqb (quote eh x) out
  | JUnq lit out => opt_str_eqb (unquote_body lit) out
  | JJson safe v out => match out with JBytes b => str_eqb (map_json safe v) b | _ => false end
  | JIndent p i safe v out => match out with JBytes b => str_eqb (map_json_indent p i safe v) b | _ => false end
  | JRound safe usenum v out =>
      match decode_segs usenum (segments safe v), out with
      | Some w, JVal w' => veqb w w'
      | None, JFail => true
      | _, _ => false
      end
  | JLegacy x out => str_eqb (rewrite (quote true x)) out
  | JDec b tab out =>
      match new_map_json (tab_dec tab) b, out with
      | Ok w, JVal w' => veqb w w'
      | Err _, JFail => true
      | Panic, JPanicked => true
      | _, _ => false
      end
  end.

Fixpoint mismatches_from (i : nat) (cs : list jcase) : list nat :=
  match cs with
  | [] => []
  | c :: t => if check_jcase c then mismatches_from (S i) t else i :: mismatches_from (S i) t
  end.
Definition mismatches (cs : list jcase) : list nat := mismatches_from 0 cs.
