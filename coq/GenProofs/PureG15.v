(* xmlSeqToMapParser (xmlseq.go:220-437, the core of NewMapXmlSeq / NewMapXmlSeqReader / BeautifyXml), as go2v translated it
   from /repo's CURRENT sources (Gen/Pure_gen.v: fn_xmlSeqToMapParser - snake-casing of the key, the #attr map with #text / #seq
   per attribute, the XMPP early return, the RawToken loop with its six token cases, the nil-map flags of the top-level
   activation) IS the model's sequence decoder (Model/SeqDec.v: sloop / seq_decode_rest), on every token list, for every option
   record the package state agrees with, for every fuel above the length of the token list.

   Method (GenProofs/PureG6.v, PureG9.v): the loop body is taken out of the translated function itself (sq_body, the recursive
   occurrence abstracted as [rec]); one lemma per token case computes an iteration (one destruct per test of the code);
   [sq_loop] is the induction on the loop fuel; the outer induction is on the recursion fuel.

   Theorems: seq_parser_call_is_model (every activation, any key / attributes / callees computing the model's escape_chars and
   cast), seq_parser_code_is_model(_fuel, _ex), seq_parser_code_eq, seq_parser_code_abs (the top-level call against
   seq_decode_rest), seq_parser_code_is_model_translated / seq_parser_code_eq_translated / seq_parser_code_abs_translated (with
   the translated cast and escapeChars as callees), seq_parser_code_no_panic / seq_parser_code_returns (no Crash, always a Ret,
   in every package state).
   Model/SeqDec.v keeps only the CLASS of an error; what the Go code returns beside it (nil, or the partial NoRoot map, and the
   tokens left in the decoder) is defined here ([serr], same recursion as sloop) so that the statement is an equation. *)
From Coq Require Import Lia.
From Mxj Require Import Gen.GenSupport Gen.Setters_gen Gen.PureSupport Gen.Pure_gen Model.XmlDec Model.SeqDec.
From Mxj Require Import Proofs.C15XSeq GenProofs.PureG.

Definition sq_res : Type := ((entries * option err) * xdecoder)%type.
Definition sq_state : Type := (xdecoder * Z * entries * bool * entries * bool)%type.
Definition sq_rec : Type := gstate -> str -> list xattr -> xdecoder -> bool -> ctl unit sq_res.

(* ------------------------------------------------------------------ the pieces of the translated function *)

(* the body of the token loop, with the function's own fixpoint inside *)
Definition sq_body_f (esc : str -> str) (cst : str -> bool -> str -> value) (f : nat) (st : gstate) (skey : str) (r : bool)
  : sq_state -> ctl sq_state sq_res :=
  ltac:(let t := eval cbv beta iota zeta delta [fn_xmlSeqToMapParser] in (fn_xmlSeqToMapParser cst esc (S f) st skey [] ([], TermEOF) r) in
        match t with bindc _ ?k1 =>
          let t2 := eval cbv beta in (k1 skey) in
          match t2 with bindc _ ?k2 =>
            let t3 := eval cbv beta iota in (k2 (@nil (str * value), false, @nil (str * value), false)) in
            match t3 with bindc _ ?k3 =>
              let t4 := eval cbv beta in (k3 tt) in
              match t4 with context [for_loop _ ?b _] => exact b end
            end
          end
        end).

(* the same with the recursive occurrence abstracted *)
Definition sq_body (esc : str -> str) (cst : str -> bool -> str -> value) (rec : sq_rec) (st : gstate) (skey : str) (r : bool)
  : sq_state -> ctl sq_state sq_res :=
  ltac:(let F := eval cbv beta iota zeta delta [fn_xmlSeqToMapParser] in (fn_xmlSeqToMapParser cst esc) in
        let b := eval cbv beta iota zeta delta [sq_body_f fn_xmlSeqToMapParser] in (fun f => sq_body_f esc cst f st skey r) in
        let b' := eval pattern F in b in
        match b' with ?g _ => let r := eval cbv beta in (g (fun _ : nat => rec) O) in exact r end).

(* the body of the attribute loop *)
Definition sq_attr_body (esc : str -> str) (cst : str -> bool -> str -> value) (st : gstate) (r : bool)
  : entries -> (Z * xattr) -> ctl entries sq_res :=
  ltac:(let t := eval cbv beta iota zeta delta [fn_xmlSeqToMapParser] in (fn_xmlSeqToMapParser cst esc (S O) st [] [] ([], TermEOF) r) in
        match t with context [range_loop ?b _ _] => exact b end).

(* "Allocate maps and load attributes, if any": (n, n_made, na, na_made) *)
Definition sq_prologue (esc : str -> str) (cst : str -> bool -> str -> value) (st : gstate) (skey : str) (a : list xattr) (r : bool)
  : ctl (entries * bool * entries * bool) sq_res :=
  if negb (str_eqb skey [])
  then if Z.gtb (Z.of_nat (length a)) 0
       then bindc (range_loop (sq_attr_body esc cst st r) (enumerate a) [])
                  (fun l_aa => Next ([], true, set (g_attrK st) (VMap l_aa) [], true))
       else Next ([], true, [], true)
  else Next ([], false, [], false).

Definition sq_after : sq_state -> ctl unit sq_res :=
  fun '(p_p, l_seq, l_na, l_na_made, l_n, l_n_made) => Fall.

Lemma fn_xmlSeqToMapParser_unfold esc cst f st skey a p r :
  fn_xmlSeqToMapParser cst esc (S f) st skey a p r =
  bindc (if g_snakeCaseKeys st then Next (go_replace skey (s "-") (s "_") (-1)%Z) else Next skey)
    (fun skey' =>
     bindc (sq_prologue esc cst st skey' a r)
       (fun '(n, n_made, na, na_made) =>
        bindc (S := unit)
          (if g_handleXMPPStreamTag st
           then if str_eqb skey' (s "stream:stream")
                then (if negb n_made then Crash else Ret ((set skey' (VMap na) n, None), p))
                else Next tt
           else Next tt)
          (fun _ =>
           bindc (for_loop (S (length (fst p))) (sq_body esc cst (fn_xmlSeqToMapParser cst esc f) st skey' r)
                           (p, 0%Z, na, na_made, n, n_made))
                 sq_after))).
Proof. reflexivity. Qed.

Lemma for_loop_S {S A} f (body : S -> ctl S A) s0 :
  for_loop (Datatypes.S f) body s0 =
  match body s0 with Next s' => for_loop f body s' | Brk s' => Next s' | r => r end.
Proof. reflexivity. Qed.

(* ------------------------------------------------------------------ library calls *)

(* len(x) > 0 *)
Lemma len_gtb {A} (l : list A) : Z.gtb (Z.of_nat (length l)) 0 = match l with [] => false | _ => true end.
Proof. destruct l; reflexivity. Qed.
Lemma len_eqb0 {A} (l : list A) : Z.eqb (Z.of_nat (length l)) 0 = match l with [] => true | _ => false end.
Proof. destruct l; reflexivity. Qed.

(* strings.Replace(x, "-", "_", -1) *)
Lemma repl_all_neg c d x : forall n, (n < 0)%Z -> repl_aux [c] [d] x n 0 = replace_char c d x.
Proof.
  induction x as [|a x IH]; intros n Hn; [reflexivity|].
  cbn [repl_aux prefixb length Nat.sub replace_char map].
  replace (Z.eqb n 0) with false by (symmetry; apply Z.eqb_neq; lia). cbn [negb andb].
  rewrite (Ascii.eqb_sym a c). rewrite Bool.andb_true_r.
  destruct (Ascii.eqb c a); cbn [app]; f_equal; apply IH; lia.
Qed.

Lemma go_replace_snake x : go_replace x (s "-") (s "_") (-1)%Z = replace_char "-"%char "_"%char x.
Proof. unfold go_replace, bytes_replace. cbn [s list_ascii_of_string]. apply repl_all_neg. lia. Qed.

(* tt.Name.Space + ":" + tt.Name.Local *)
Lemma full_name_code sp lo :
  (if Z.gtb (Z.of_nat (length sp)) 0 then (sp ++ s ":") ++ lo else lo) = full_name sp lo.
Proof. rewrite len_gtb. destruct sp as [|c sp]; [reflexivity|]. unfold full_name. rewrite app_assoc. reflexivity. Qed.

(* ------------------------------------------------------------------ the correspondence *)

(* the package state agrees with the model's option record on what xmlSeqToMapParser reads *)
Definition seq_view (st : gstate) (o : opts) : Prop :=
  snakeCaseKeys o = g_snakeCaseKeys st /\ xmlEscapeCharsDecoder o = g_xmlEscapeCharsDecoder st /\
  handleXMPPStreamTag o = g_handleXMPPStreamTag st /\ trimRunes o = g_trimRunes st /\
  textK o = g_textK st /\ seqK o = g_seqK st /\ attrK o = g_attrK st /\ commentK o = g_commentK st /\
  directiveK o = g_directiveK st /\ procinstK o = g_procinstK st /\ targetK o = g_targetK st /\ instK o = g_instK st.

(* what the translated parser returns against what the model returns: the singleton Map and the unconsumed tokens; an error
   of the same class, with the Map returned beside it and the tokens left in the decoder at that point (d: they are not in
   Model/SeqDec.v, see [serr] below); a panic *)
Definition sq_conv (tm : term) (x : res ((str * value) * list tok)) (d : entries * list tok) (c : ctl unit sq_res) : Prop :=
  match x with
  | Ok ((k, v), rest) => c = Ret (([(k, v)], None), (rest, tm))
  | Err e => c = Ret ((fst d, Some e), (snd d, tm))
  | Panic => c = Crash
  end.

Section Seq.
Variable pf : str -> option flt.
Variable skip : str -> bool.
Variable o : opts.
Variable r : bool.
Variable st : gstate.
Variable tm : term.
Hypothesis Hview : seq_view st o.

(* the two callees: any functions that compute the model's escape_chars and cast *)
Variable esc : str -> str.
Variable cst : str -> bool -> str -> value.
Hypothesis Hesc : forall x, esc x = escape_chars x.
Hypothesis Hcst : forall x r' t, cst x r' t = cast pf skip o x r' t.

Ltac view :=
  destruct Hview as (Vsn & Vesc & Vxm & Vtrim & Vtext & Vseq & Vattr & Vcomm & Vdir & Vproc & Vtarg & Vinst);
  rewrite <- ?Vsn, <- ?Vesc, <- ?Vxm, <- ?Vtrim, <- ?Vtext, <- ?Vseq, <- ?Vattr, <- ?Vcomm, <- ?Vdir, <- ?Vproc, <- ?Vtarg, <- ?Vinst.

(* the recursive call xmlSeqToMapParser(name, attrs, p, r) in the model: prologue, XMPP return, loop *)
Definition mcall (mf : nat) (name : str) (a : list xattr) (ts : list tok) : res ((str * value) * list tok) :=
  let ck := snake o name in
  let cna := if nonempty ck then seq_init_na pf skip o r a else [] in
  if handleXMPPStreamTag o && str_eqb ck stream_stream
  then Ok ((ck, VMap cna), ts)
  else sloop pf skip o r mf ck cna 0%Z ts tm.

(* what the Go code returns BESIDE an error (the model keeps the error class only): the Map - nil, except for the partial
   maps that go with NoRoot - and the tokens the decoder still holds; same recursion as sloop.  Meaningful when sloop
   returns Err. *)
Fixpoint serr (fuel : nat) (skey : str) (na : entries) (seq : Z) (ts : list tok) {struct fuel} : entries * list tok :=
  match fuel with
  | O => ([], ts)
  | S fuel' =>
      let cdetail (name : str) (a : list xattr) (ts' : list tok) :=
        let ck := snake o name in
        let cna := if nonempty ck then seq_init_na pf skip o r a else [] in
        if handleXMPPStreamTag o && str_eqb ck stream_stream then ([], ts') else serr fuel' ck cna 0%Z ts' in
      match ts with
      | [] => ([], [])                                   (* return nil, err *)
      | TStart nm a :: ts' =>
          match skey with
          | [] => cdetail (xfull nm) a ts'                (* return xmlSeqToMapParser(...) *)
          | _ =>
              match mcall fuel' (xfull nm) a ts' with
              | Ok ((key, val), rest) =>
                  let '(val', seq') := seq_inject o val seq in
                  serr fuel' skey (add_child key val' na) seq' rest
              | _ => ([], snd (cdetail (xfull nm) a ts'))  (* return nil, err: the decoder where the child left it *)
              end
          end
      | TEnd nm :: ts' => ([], ts')                       (* return nil, fmt.Errorf(...) *)
      | TChar x :: ts' =>
          let tt := trim (trimRunes o) x in
          let tt := if xmlEscapeCharsDecoder o then escape_chars tt else tt in
          match skey with
          | [] => serr fuel' skey na seq ts'
          | _ =>
              if nonempty tt
              then serr fuel' skey (set (seqK o) (VInt seq) (set (textK o) (cast pf skip o tt r []) na)) (seq + 1)%Z ts'
              else serr fuel' skey na seq ts'
          end
      | TComment x :: ts' =>
          match skey with
          | [] => ([(commentK o, VStr x)], ts')           (* return n, NoRoot *)
          | _ => serr fuel' skey (set (commentK o) (text_seq_map o (VStr x) seq) na) (seq + 1)%Z ts'
          end
      | TDirective x :: ts' =>
          match skey with
          | [] => ([(directiveK o, VStr x)], ts')
          | _ => serr fuel' skey (set (directiveK o) (text_seq_map o (VStr x) seq) na) (seq + 1)%Z ts'
          end
      | TProcInst t i :: ts' =>
          match skey with
          | [] => ([(procinstK o, VMap (set (instK o) (VStr i) (set (targetK o) (VStr t) [])))], ts')
          | _ =>
              let pm := set (seqK o) (VInt seq) (set (instK o) (VStr i) (set (targetK o) (VStr t) [])) in
              serr fuel' skey (set (procinstK o) (VMap pm) na) (seq + 1)%Z ts'
          end
      end
  end.

Definition mdetail (mf : nat) (name : str) (a : list xattr) (ts : list tok) : entries * list tok :=
  let ck := snake o name in
  let cna := if nonempty ck then seq_init_na pf skip o r a else [] in
  if handleXMPPStreamTag o && str_eqb ck stream_stream then ([], ts) else serr mf ck cna 0%Z ts.

Lemma serr_start mf skey na seq nm a ts' :
  serr (S mf) skey na seq (TStart nm a :: ts') =
  match skey with
  | [] => mdetail mf (xfull nm) a ts'
  | _ => match mcall mf (xfull nm) a ts' with
         | Ok ((key, val), rest) =>
             let '(val', seq') := seq_inject o val seq in
             serr mf skey (add_child key val' na) seq' rest
         | _ => ([], snd (mdetail mf (xfull nm) a ts'))
         end
  end.
Proof. reflexivity. Qed.

Lemma sloop_start mf skey na seq nm a ts' :
  sloop pf skip o r (S mf) skey na seq (TStart nm a :: ts') tm =
  match skey with
  | [] => mcall mf (xfull nm) a ts'
  | _ => match mcall mf (xfull nm) a ts' with
         | Ok ((key, val), rest) =>
             let '(val', seq') := seq_inject o val seq in
             sloop pf skip o r mf skey (add_child key val' na) seq' rest tm
         | Err e => Err e
         | Panic => Panic
         end
  end.
Proof. reflexivity. Qed.

(* ---- the attribute loop *)
Lemma attr_step aa i at_ :
  sq_attr_body esc cst st r aa (i, at_) = Next (snd (seq_attr_step pf skip o r (i, aa) at_)).
Proof.
  destruct at_ as [[sp lo] v]. unfold sq_attr_body, seq_attr_step, snake, text_seq_map.
  cbn [aname avalue xspace xlocal snd]. view. rewrite go_replace_snake.
  destruct (snakeCaseKeys o); cbn [bindc]; destruct (xmlEscapeCharsDecoder o); cbn [bindc];
    rewrite ?Hesc, Hcst, len_gtb; destruct sp as [|c sp]; unfold full_name; rewrite <- ?app_assoc; reflexivity.
Qed.

Lemma attr_loop a : forall i aa,
  range_loop (sq_attr_body esc cst st r) (enumerate_from i a) aa
  = Next (snd (fold_left (seq_attr_step pf skip o r) a (i, aa))).
Proof.
  induction a as [|at_ a IH]; intros i aa; [reflexivity|].
  cbn [enumerate_from range_loop fold_left]. rewrite attr_step.
  assert (E : seq_attr_step pf skip o r (i, aa) at_ = ((i + 1)%Z, snd (seq_attr_step pf skip o r (i, aa) at_))).
  { unfold seq_attr_step. reflexivity. }
  rewrite E at 2. apply IH.
Qed.

Lemma prologue_is_model skey a :
  sq_prologue esc cst st skey a r =
  Next ([], nonempty skey, (if nonempty skey then seq_init_na pf skip o r a else []), nonempty skey).
Proof.
  unfold sq_prologue. destruct skey as [|c k]; [reflexivity|].
  cbn [str_eqb negb nonempty]. rewrite len_gtb. destruct a as [|at_ a]; [reflexivity|].
  unfold enumerate. rewrite attr_loop. cbn [bindc]. unfold seq_init_na, seq_attr_entries. view. reflexivity.
Qed.

(* ---- one iteration of the token loop, per token *)
Section Step.
Variable rec : sq_rec.
Notation body := (sq_body esc cst rec st).

Lemma step_eof skey seq na nam n nm :
  body skey r (([], tm), seq, na, nam, n, nm)
  = Ret (([], Some (match tm with TermEOF => EEOF | TermErr => EOther end)), ([], tm)).
Proof. destruct tm; reflexivity. Qed.

Lemma step_start_top nm a ts' seq na nam n nmd :
  body [] r ((TStart nm a :: ts', tm), seq, na, nam, n, nmd)
  = match rec st (xfull nm) a (ts', tm) r with Ret x => Ret x | _ => Crash end.
Proof.
  unfold sq_body. cbn [go_token fst snd bindc negb str_eqb].
  destruct nm as [sp lo]. unfold xfull, full_name. cbn [xspace xlocal]. rewrite len_gtb.
  destruct sp as [|c sp].
  - destruct (rec st lo a (ts', tm) r); reflexivity.
  - rewrite <- app_assoc. destruct (rec st ((c :: sp) ++ s ":" ++ lo) a (ts', tm) r); reflexivity.
Qed.

Lemma step_start_in c k nm a ts' seq na n :
  body (c :: k) r ((TStart nm a :: ts', tm), seq, na, true, n, true)
  = match rec st (xfull nm) a (ts', tm) r with
    | Ret ((nn, Some e), p') => Ret (([], Some e), p')
    | Ret ((nn, None), p') =>
        let '(key, val) := match nn with (k_, v_) :: _ => (k_, v_) | [] => ([], VNil) end in
        let '(val', seq') := seq_inject o val seq in
        Next (p', seq', add_child key val' na, true, n, true)
    | _ => Crash
    end.
Proof.
  unfold sq_body. cbn [go_token fst snd bindc negb str_eqb].
  destruct nm as [sp lo]. unfold xfull, full_name. cbn [xspace xlocal]. rewrite len_gtb.
  destruct sp as [|c0 sp]; [|rewrite <- !app_assoc];
    match goal with |- context [rec st ?nme a (ts', tm) r] => destruct (rec st nme a (ts', tm) r) as [[[nn [e|]] p']| | | |] end;
    cbn [bindr bindc negb]; try reflexivity;
    (destruct nn as [|[key val] nn']; unfold seq_inject, add_child, text_seq_map; view;
     [|destruct val]; cbn [bindc]; destruct (lookup _ na) as [[]|]; reflexivity).
Qed.

Lemma step_end_top nm ts' seq na nam n nmd :
  body [] r ((TEnd nm :: ts', tm), seq, na, nam, n, nmd) = Ret (([], Some EOther), (ts', tm)).
Proof. reflexivity. Qed.

Lemma step_end_in c k nm ts' seq na :
  body (c :: k) r ((TEnd nm :: ts', tm), seq, na, true, [], true)
  = if negb (str_eqb (c :: k) (full_name (xspace nm) (snake o (xlocal nm))))
    then Ret (([], Some EOther), (ts', tm))
    else Ret (([(c :: k, match na with [] => VStr [] | _ => VMap na end)], None), (ts', tm)).
Proof.
  unfold sq_body. cbn [go_token fst snd bindc negb str_eqb].
  destruct nm as [sp lo]. cbn [xspace xlocal]. unfold snake. view. rewrite go_replace_snake.
  rewrite !len_gtb. unfold full_name.
  destruct (snakeCaseKeys o); cbn [bindc]; destruct sp as [|c0 sp]; cbn [bindc]; rewrite <- ?app_assoc;
    match goal with |- context [negb ?b] => destruct b end; cbn [negb bindc];
    destruct na; reflexivity.
Qed.

Lemma step_char_top x ts' seq na nam n nmd :
  body [] r ((TChar x :: ts', tm), seq, na, nam, n, nmd) = Next ((ts', tm), seq, na, nam, n, nmd).
Proof.
  unfold sq_body. cbn [go_token fst snd bindc negb str_eqb].
  destruct (g_xmlEscapeCharsDecoder st); reflexivity.
Qed.

Lemma step_char_in c k x ts' seq na n :
  body (c :: k) r ((TChar x :: ts', tm), seq, na, true, n, true)
  = let tt := trim (trimRunes o) x in
    let tt := if xmlEscapeCharsDecoder o then escape_chars tt else tt in
    if nonempty tt
    then Next ((ts', tm), (seq + 1)%Z, set (seqK o) (VInt seq) (set (textK o) (cast pf skip o tt r []) na), true, n, true)
    else Next ((ts', tm), seq, na, true, n, true).
Proof.
  unfold sq_body. cbn [go_token fst snd bindc negb str_eqb]. unfold go_trim. view. cbv zeta.
  destruct (xmlEscapeCharsDecoder o); cbn [bindc]; rewrite ?Hesc, ?Hcst, len_gtb;
    match goal with |- context [nonempty ?b] => destruct b end; reflexivity.
Qed.

Lemma step_comment_top x ts' seq na nam n :
  body [] r ((TComment x :: ts', tm), seq, na, nam, n, false)
  = Ret (([(commentK o, VStr x)], Some ENoRoot), (ts', tm)).
Proof. unfold sq_body. cbn [go_token fst snd bindc negb]. view. reflexivity. Qed.

Lemma step_comment_in skey x ts' seq na n :
  body skey r ((TComment x :: ts', tm), seq, na, true, n, true)
  = Next ((ts', tm), (seq + 1)%Z, set (commentK o) (text_seq_map o (VStr x) seq) na, true, n, true).
Proof. unfold sq_body, text_seq_map. cbn [go_token fst snd bindc negb]. view. reflexivity. Qed.

Lemma step_directive_top x ts' seq na nam n :
  body [] r ((TDirective x :: ts', tm), seq, na, nam, n, false)
  = Ret (([(directiveK o, VStr x)], Some ENoRoot), (ts', tm)).
Proof. unfold sq_body. cbn [go_token fst snd bindc negb]. view. reflexivity. Qed.

Lemma step_directive_in skey x ts' seq na n :
  body skey r ((TDirective x :: ts', tm), seq, na, true, n, true)
  = Next ((ts', tm), (seq + 1)%Z, set (directiveK o) (text_seq_map o (VStr x) seq) na, true, n, true).
Proof. unfold sq_body, text_seq_map. cbn [go_token fst snd bindc negb]. view. reflexivity. Qed.

Lemma step_procinst_top t i ts' seq na nam n :
  body [] r ((TProcInst t i :: ts', tm), seq, na, nam, n, false)
  = Ret (([(procinstK o, VMap (set (instK o) (VStr i) (set (targetK o) (VStr t) [])))], Some ENoRoot), (ts', tm)).
Proof. unfold sq_body. cbn [go_token fst snd bindc negb]. view. reflexivity. Qed.

Lemma step_procinst_in skey t i ts' seq na n :
  body skey r ((TProcInst t i :: ts', tm), seq, na, true, n, true)
  = Next ((ts', tm), (seq + 1)%Z,
          set (procinstK o) (VMap (set (seqK o) (VInt seq) (set (instK o) (VStr i) (set (targetK o) (VStr t) [])))) na,
          true, n, true).
Proof. unfold sq_body. cbn [go_token fst snd bindc negb]. view. reflexivity. Qed.
End Step.

(* ---- the token loop *)
Lemma mcall_len mf name a ts kv rest :
  length ts < mf -> mcall mf name a ts = Ok (kv, rest) -> length rest <= length ts.
Proof.
  intros Hm. unfold mcall. cbv zeta.
  destruct (handleXMPPStreamTag o && str_eqb (snake o name) stream_stream).
  - intros H. injection H as _ <-. lia.
  - intros H.
    pose proof (sloop_total pf skip o r tm mf (snake o name)
                  (if nonempty (snake o name) then seq_init_na pf skip o r a else []) 0%Z ts Hm) as HP.
    rewrite H in HP. cbn [spost] in HP. lia.
Qed.

Section Loop.
Variable rec : sq_rec.
Variable f : nat.
Hypothesis Hrec : forall name a ts mf, length ts < f -> length ts < mf ->
  sq_conv tm (mcall mf name a ts) (mdetail mf name a ts) (rec st name a (ts, tm) r).

Lemma sq_loop skey b : b = nonempty skey -> forall lf ts na seq mf,
  length ts < lf -> length ts <= f -> length ts < mf ->
  sq_conv tm (sloop pf skip o r mf skey na seq ts tm) (serr mf skey na seq ts)
    (bindc (for_loop lf (sq_body esc cst rec st skey r) ((ts, tm), seq, na, b, [], b)) sq_after).
Proof.
  intros Hb. induction lf as [|lf IH]; intros ts na seq mf Hl Hf Hm; [lia|].
  destruct mf as [|mf]; [lia|].
  rewrite for_loop_S.
  destruct ts as [|t ts'].
  - rewrite step_eof. cbn [sloop serr bindc sq_conv]. destruct tm; reflexivity.
  - cbn [length] in Hl, Hf, Hm.
    destruct t as [nm a|nm|x|x|tg i|x].
    + (* StartElement *)
      rewrite sloop_start, serr_start.
      pose proof (Hrec (xfull nm) a ts' mf ltac:(lia) ltac:(lia)) as HR.
      pose proof (mcall_len mf (xfull nm) a ts') as HL.
      destruct skey as [|c k]; cbn [nonempty] in Hb; subst b.
      * rewrite step_start_top.
        destruct (mcall mf (xfull nm) a ts') as [[[key val] rest]|e|]; cbn [sq_conv] in HR |- *.
        -- rewrite HR. reflexivity.
        -- rewrite HR. reflexivity.
        -- rewrite HR. reflexivity.
      * rewrite step_start_in.
        destruct (mcall mf (xfull nm) a ts') as [[[key val] rest]|e|]; cbn [sq_conv] in HR |- *.
        -- rewrite HR. specialize (HL (key, val) rest ltac:(lia) eq_refl).
           destruct (seq_inject o val seq) as [val' seq']. apply IH; lia.
        -- rewrite HR. reflexivity.
        -- rewrite HR. reflexivity.
    + (* EndElement *)
      cbn [sloop serr]. destruct skey as [|c k]; cbn [nonempty] in Hb; subst b.
      * rewrite step_end_top. cbn [bindc sq_conv]. reflexivity.
      * rewrite step_end_in.
        destruct (negb (str_eqb (c :: k) (full_name (xspace nm) (snake o (xlocal nm))))); cbn [bindc sq_conv].
        -- reflexivity.
        -- reflexivity.
    + (* CharData *)
      cbn [sloop serr]. destruct skey as [|c k]; cbn [nonempty] in Hb; subst b.
      * rewrite step_char_top. apply IH; lia.
      * rewrite step_char_in. cbv zeta.
        destruct (nonempty (if xmlEscapeCharsDecoder o then escape_chars (trim (trimRunes o) x) else trim (trimRunes o) x));
          apply IH; lia.
    + (* Comment *)
      cbn [sloop serr]. destruct skey as [|c k]; cbn [nonempty] in Hb; subst b.
      * rewrite step_comment_top.
        cbn [bindc sq_conv]. reflexivity.
      * rewrite step_comment_in. apply IH; lia.
    + (* ProcInst *)
      cbn [sloop serr]. destruct skey as [|c k]; cbn [nonempty] in Hb; subst b.
      * rewrite step_procinst_top.
        cbn [bindc sq_conv]. reflexivity.
      * rewrite step_procinst_in. apply IH; lia.
    + (* Directive *)
      cbn [sloop serr]. destruct skey as [|c k]; cbn [nonempty] in Hb; subst b.
      * rewrite step_directive_top.
        cbn [bindc sq_conv]. reflexivity.
      * rewrite step_directive_in. apply IH; lia.
Qed.
End Loop.

(* ---- the function: every activation, for every fuel above the number of tokens *)
Lemma snake_code name :
  (if g_snakeCaseKeys st then Next (go_replace name (s "-") (s "_") (-1)%Z) else Next name : ctl str sq_res)
  = Next (snake o name).
Proof. unfold snake. view. rewrite go_replace_snake. destruct (snakeCaseKeys o); reflexivity. Qed.

Lemma seq_parser_is_mcall : forall f name a ts mf,
  length ts < f -> length ts < mf ->
  sq_conv tm (mcall mf name a ts) (mdetail mf name a ts) (fn_xmlSeqToMapParser cst esc f st name a (ts, tm) r).
Proof.
  induction f as [|f IH]; intros name a ts mf Hf Hm; [lia|].
  rewrite fn_xmlSeqToMapParser_unfold, snake_code. cbn [bindc].
  rewrite prologue_is_model. cbn [bindc fst].
  unfold mcall, mdetail. cbv zeta. unfold stream_stream.
  assert (Vxm : handleXMPPStreamTag o = g_handleXMPPStreamTag st) by (destruct Hview as (_ & _ & V & _); exact V).
  rewrite <- Vxm. clear Vxm.
  destruct (handleXMPPStreamTag o); cbn [andb].
  - destruct (str_eqb (snake o name) (s "stream:stream")) eqn:E.
    + destruct (snake o name) as [|c k]; [discriminate E|]. reflexivity.
    + cbn [bindc]. apply (sq_loop _ f IH); [reflexivity|lia..].
  - cbn [bindc]. apply (sq_loop _ f IH); [reflexivity|lia..].
Qed.
End Seq.

(* ------------------------------------------------------------------ the theorems *)

(* every activation xmlSeqToMapParser(name, attrs, p, r) - the recursive calls included - against the model's activation *)
Theorem seq_parser_call_is_model : forall pf skip o r st tm, seq_view st o ->
  forall esc cst, (forall x, esc x = escape_chars x) -> (forall x r' t, cst x r' t = cast pf skip o x r' t) ->
  forall f name a ts mf, length ts < f -> length ts < mf ->
  sq_conv tm (mcall pf skip o r tm mf name a ts) (mdetail pf skip o r tm mf name a ts)
    (fn_xmlSeqToMapParser cst esc f st name a (ts, tm) r).
Proof. exact seq_parser_is_mcall. Qed.

(* the conversion as a function: sq_conv tm x d c says c = sq_ret tm x d *)
Definition sq_ret (tm : term) (x : res ((str * value) * list tok)) (d : entries * list tok) : ctl unit sq_res :=
  match x with
  | Ok ((k, v), rest) => Ret (([(k, v)], None), (rest, tm))
  | Err e => Ret ((fst d, Some e), (snd d, tm))
  | Panic => Crash
  end.
Lemma sq_conv_eq tm x d c : sq_conv tm x d c <-> c = sq_ret tm x d.
Proof. destruct x as [[[k v] rest]|e|]; cbn [sq_conv sq_ret]; tauto. Qed.

(* beside an error of the top-level call: the Map (nil or the partial NoRoot map) and the tokens left in the decoder *)
Definition seq_decode_err pf skip o r (ts : list tok) (tm : term) : entries * list tok :=
  serr pf skip o r tm (S (length ts)) [] [] 0%Z ts.

Lemma mcall_top pf skip o r tm mf ts : mcall pf skip o r tm mf [] [] ts = sloop pf skip o r mf [] [] 0%Z ts tm.
Proof.
  unfold mcall, snake. cbv zeta.
  assert (E : (if snakeCaseKeys o then replace_char "-"%char "_"%char [] else []) = ([] : str)) by (destruct (snakeCaseKeys o); reflexivity).
  rewrite E. cbn [nonempty str_eqb stream_stream]. rewrite Bool.andb_false_r. reflexivity.
Qed.
Lemma mdetail_top pf skip o r tm mf ts : mdetail pf skip o r tm mf [] [] ts = serr pf skip o r tm mf [] [] 0%Z ts.
Proof.
  unfold mdetail, snake. cbv zeta.
  assert (E : (if snakeCaseKeys o then replace_char "-"%char "_"%char [] else []) = ([] : str)) by (destruct (snakeCaseKeys o); reflexivity).
  rewrite E. cbn [nonempty str_eqb stream_stream]. rewrite Bool.andb_false_r. reflexivity.
Qed.

(* the top-level call xmlSeqToMapParser("", nil, p, r), as xmlSeqToMap makes it (NewMapXmlSeq, NewMapXmlSeqReader, BeautifyXml),
   with the fuel go2v supplies or any larger one *)
Theorem seq_parser_code_is_model_fuel : forall pf skip o r st ts tm f, seq_view st o -> length ts < f ->
  sq_conv tm (seq_decode_rest pf skip o r ts tm) (seq_decode_err pf skip o r ts tm)
    (fn_xmlSeqToMapParser (fun x r' t => cast pf skip o x r' t) escape_chars f st [] [] (ts, tm) r).
Proof.
  intros pf skip o r st ts tm f Hv Hf. unfold seq_decode_rest, seq_decode_err. rewrite <- mcall_top, <- mdetail_top.
  apply (seq_parser_is_mcall pf skip o r st tm Hv); [reflexivity|reflexivity|exact Hf|lia].
Qed.

Theorem seq_parser_code_is_model : forall pf skip o r st ts tm, seq_view st o ->
  sq_conv tm (seq_decode_rest pf skip o r ts tm) (seq_decode_err pf skip o r ts tm)
    (fn_xmlSeqToMapParser (fun x r' t => cast pf skip o x r' t) escape_chars (S (length ts)) st [] [] (ts, tm) r).
Proof. intros. apply seq_parser_code_is_model_fuel; [assumption|lia]. Qed.

(* as an equation *)
Theorem seq_parser_code_eq : forall pf skip o r st ts tm, seq_view st o ->
  fn_xmlSeqToMapParser (fun x r' t => cast pf skip o x r' t) escape_chars (S (length ts)) st [] [] (ts, tm) r
  = sq_ret tm (seq_decode_rest pf skip o r ts tm) (seq_decode_err pf skip o r ts tm).
Proof. intros. apply sq_conv_eq. apply seq_parser_code_is_model. assumption. Qed.

Lemma seq_decode_rest_total pf skip o r tm ts : seq_decode_rest pf skip o r ts tm <> Panic.
Proof.
  unfold seq_decode_rest. intros E.
  pose proof (sloop_total pf skip o r tm (S (length ts)) [] [] 0%Z ts ltac:(lia)) as HP.
  rewrite E in HP. exact HP.
Qed.

(* the same, spelled out: the translated parser returns; value, error class and unconsumed tokens are the model's *)
Theorem seq_parser_code_is_model_ex : forall pf skip o r st ts tm, seq_view st o ->
  exists m e rest,
    fn_xmlSeqToMapParser (fun x r' t => cast pf skip o x r' t) escape_chars (S (length ts)) st [] [] (ts, tm) r
    = Ret ((m, e), (rest, tm)) /\
    match seq_decode_rest pf skip o r ts tm with
    | Ok ((k, v), rest') => e = None /\ m = [(k, v)] /\ rest = rest'
    | Err c => e = Some c /\ (m, rest) = seq_decode_err pf skip o r ts tm
    | Panic => False
    end.
Proof.
  intros pf skip o r st ts tm Hv.
  pose proof (seq_parser_code_is_model pf skip o r st ts tm Hv) as H.
  pose proof (seq_decode_rest_total pf skip o r tm ts) as HT.
  destruct (seq_decode_rest pf skip o r ts tm) as [[[k v] rest]|e|]; cbn [sq_conv] in H.
  - exists [(k, v)], None, rest. split; [exact H|]. repeat split.
  - exists (fst (seq_decode_err pf skip o r ts tm)), (Some e), (snd (seq_decode_err pf skip o r ts tm)).
    split; [exact H|]. split; [reflexivity|]. destruct (seq_decode_err pf skip o r ts tm); reflexivity.
  - exfalso. apply HT. reflexivity.
Qed.

(* the same as an equation: what the translated parser returns, read back in the model's vocabulary *)
Definition sq_abs (c : ctl unit sq_res) : res ((str * value) * list tok) :=
  match c with
  | Ret ((m, None), (rest, _)) => match m with [(k, v)] => Ok ((k, v), rest) | _ => Panic end
  | Ret ((_, Some e), _) => Err e
  | _ => Panic
  end.

Lemma sq_conv_abs tm x d c : x <> Panic -> sq_conv tm x d c -> sq_abs c = x.
Proof.
  intros Hx H. destruct x as [[[k v] rest]|e|]; cbn [sq_conv] in H.
  - rewrite H. reflexivity.
  - rewrite H. reflexivity.
  - congruence.
Qed.

Theorem seq_parser_code_abs : forall pf skip o r st ts tm, seq_view st o ->
  sq_abs (fn_xmlSeqToMapParser (fun x r' t => cast pf skip o x r' t) escape_chars (S (length ts)) st [] [] (ts, tm) r)
  = seq_decode_rest pf skip o r ts tm.
Proof.
  intros. apply (sq_conv_abs tm _ (seq_decode_err pf skip o r ts tm)); [apply seq_decode_rest_total|apply seq_parser_code_is_model; assumption].
Qed.

(* ------------------------------------------------------------------ with the translated callees *)

Definition run_cast pf callskip (st : gstate) (x : str) (r : bool) (t : str) : value :=
  match fn_cast pf callskip st x r t with Ret v => v | _ => VNil end.
Definition run_escapeChars (st : gstate) (x : str) : str :=
  match fn_escapeChars st x with Ret v => v | _ => x end.

Lemma run_cast_eq pf callskip st o x r t : cast_view st o ->
  run_cast pf callskip st x r t = cast pf (skip_of st callskip) o x r t.
Proof. intros H. unfold run_cast. rewrite (cast_code_is_model pf callskip st o x r t H). reflexivity. Qed.
Lemma run_escapeChars_eq st x : run_escapeChars st x = escape_chars x.
Proof. unfold run_escapeChars. rewrite escape_code_is_model. reflexivity. Qed.

(* xmlSeqToMapParser with cast and escapeChars as go2v translated them: translated code only *)
Theorem seq_parser_code_is_model_translated : forall pf callskip o r st ts tm f,
  seq_view st o -> cast_view st o -> length ts < f ->
  sq_conv tm (seq_decode_rest pf (skip_of st callskip) o r ts tm) (seq_decode_err pf (skip_of st callskip) o r ts tm)
    (fn_xmlSeqToMapParser (run_cast pf callskip st) (run_escapeChars st) f st [] [] (ts, tm) r).
Proof.
  intros pf callskip o r st ts tm f Hv Hc Hf. unfold seq_decode_rest, seq_decode_err. rewrite <- mcall_top, <- mdetail_top.
  apply (seq_parser_is_mcall pf (skip_of st callskip) o r st tm Hv).
  - apply run_escapeChars_eq.
  - intros x r' t. apply run_cast_eq. exact Hc.
  - exact Hf.
  - lia.
Qed.

Theorem seq_parser_code_eq_translated : forall pf callskip o r st ts tm,
  seq_view st o -> cast_view st o ->
  fn_xmlSeqToMapParser (run_cast pf callskip st) (run_escapeChars st) (S (length ts)) st [] [] (ts, tm) r
  = sq_ret tm (seq_decode_rest pf (skip_of st callskip) o r ts tm) (seq_decode_err pf (skip_of st callskip) o r ts tm).
Proof. intros. apply sq_conv_eq. apply seq_parser_code_is_model_translated; try assumption. lia. Qed.

Theorem seq_parser_code_abs_translated : forall pf callskip o r st ts tm,
  seq_view st o -> cast_view st o ->
  sq_abs (fn_xmlSeqToMapParser (run_cast pf callskip st) (run_escapeChars st) (S (length ts)) st [] [] (ts, tm) r)
  = seq_decode_rest pf (skip_of st callskip) o r ts tm.
Proof.
  intros. apply (sq_conv_abs tm _ (seq_decode_err pf (skip_of st callskip) o r ts tm));
    [apply seq_decode_rest_total|apply seq_parser_code_is_model_translated; try assumption; lia].
Qed.

(* ------------------------------------------------------------------ no panic *)

(* the option record of a package state *)
Definition state_opts (st : gstate) : opts :=
  {| attrPrefix := g_attrPrefix st; lenAttrPrefix := Z.to_nat (g_lenAttrPrefix st); includeTagSeqNum := g_includeTagSeqNum st;
     lowerCase := g_lowerCase st; snakeCaseKeys := g_snakeCaseKeys st; disableTrimWhiteSpace := g_disableTrimWhiteSpace st;
     trimRunes := g_trimRunes st; decodeSimpleValuesAsMap := g_decodeSimpleValuesAsMap st;
     castToInt := g_castToInt st; castToFloat := g_castToFloat st; castToBool := g_castToBool st; castNanInf := g_castNanInf st;
     handleXMPPStreamTag := g_handleXMPPStreamTag st; useGoXmlEmptyElemSyntax := g_useGoXmlEmptyElemSyntax st;
     xmlCheckIsValid := g_xmlCheckIsValid st; xmlEscapeChars := g_xmlEscapeChars st;
     xmlEscapeCharsDecoder := g_xmlEscapeCharsDecoder st;
     textK := g_textK st; seqK := g_seqK st; commentK := g_commentK st; attrK := g_attrK st;
     directiveK := g_directiveK st; procinstK := g_procinstK st; targetK := g_targetK st; instK := g_instK st;
     fieldSep := g_fieldSep st; useDotNotation := g_useDotNotation st; defaultArraySize := g_defaultArraySize st;
     jsonUseNumber := g_JsonUseNumber st |}.

Lemma state_opts_seq_view st : seq_view st (state_opts st).
Proof. repeat split. Qed.
Lemma state_opts_cast_view st : cast_view st (state_opts st).
Proof. repeat split. Qed.

Lemma mcall_total pf skip o r tm mf name a ts : length ts < mf -> mcall pf skip o r tm mf name a ts <> Panic.
Proof.
  intros Hm. unfold mcall. cbv zeta.
  destruct (handleXMPPStreamTag o && str_eqb (snake o name) stream_stream); [discriminate|].
  intros E.
  pose proof (sloop_total pf skip o r tm mf (snake o name)
                (if nonempty (snake o name) then seq_init_na pf skip o r a else []) 0%Z ts Hm) as HP.
  rewrite E in HP. exact HP.
Qed.

(* in every package state, on every token list (well nested or not) and both terminators, for every key and attribute list
   (the recursive activations included), the translated parser running the translated cast and escapeChars never panics:
   the stores into the nil maps n / na of the top-level activation, the type assertions and the type switches are all guarded,
   a stray end tag is an error value, and the fuel above the number of tokens is never exhausted *)
Theorem seq_parser_code_no_panic : forall pf callskip r st name a ts tm f, length ts < f ->
  fn_xmlSeqToMapParser (run_cast pf callskip st) (run_escapeChars st) f st name a (ts, tm) r <> Crash.
Proof.
  intros pf callskip r st name a ts tm f Hf.
  pose proof (seq_parser_is_mcall pf (skip_of st callskip) (state_opts st) r st tm (state_opts_seq_view st)
                (run_escapeChars st) (run_cast pf callskip st) (run_escapeChars_eq st)
                (fun x r' t => run_cast_eq pf callskip st (state_opts st) x r' t (state_opts_cast_view st))
                f name a ts f Hf Hf) as H.
  pose proof (mcall_total pf (skip_of st callskip) (state_opts st) r tm f name a ts Hf) as HT.
  destruct (mcall pf (skip_of st callskip) (state_opts st) r tm f name a ts) as [[[k v] rest]|e|]; cbn [sq_conv] in H.
  - rewrite H. discriminate.
  - rewrite H. discriminate.
  - congruence.
Qed.

(* and it always returns (never falls off the end of the function), leaving the decoder's terminator alone *)
Theorem seq_parser_code_returns : forall pf callskip r st name a ts tm f, length ts < f ->
  exists m e rest,
    fn_xmlSeqToMapParser (run_cast pf callskip st) (run_escapeChars st) f st name a (ts, tm) r = Ret ((m, e), (rest, tm)).
Proof.
  intros pf callskip r st name a ts tm f Hf.
  pose proof (seq_parser_is_mcall pf (skip_of st callskip) (state_opts st) r st tm (state_opts_seq_view st)
                (run_escapeChars st) (run_cast pf callskip st) (run_escapeChars_eq st)
                (fun x r' t => run_cast_eq pf callskip st (state_opts st) x r' t (state_opts_cast_view st))
                f name a ts f Hf Hf) as H.
  pose proof (mcall_total pf (skip_of st callskip) (state_opts st) r tm f name a ts Hf) as HT.
  destruct (mcall pf (skip_of st callskip) (state_opts st) r tm f name a ts) as [[[k v] rest]|e|]; cbn [sq_conv] in H.
  - eexists. eexists. eexists. exact H.
  - eexists. eexists. eexists. exact H.
  - congruence.
Qed.

(* the fuel bound is needed: without fuel the translation reports Crash (fuel exhaustion, not a Go panic) *)
Lemma seq_parser_code_fuel_exhausted esc cst st name a p r : fn_xmlSeqToMapParser cst esc 0 st name a p r = Crash.
Proof. reflexivity. Qed.

(* ------------------------------------------------------------------ the hypotheses are met *)

Example seq_view_fresh : seq_view gstate0 opts0 /\ cast_view gstate0 opts0.
Proof. repeat split. Qed.

Local Open Scope string_scope.
(* <ns:a x="1.5" p:Y-z="q"> hi <b>1.5</b><!--cm--><b/><?t i?><c-d k="v">t</c-d><!D></ns:a>z with snake_case keys:
   attributes, repeated child -> list, #seq numbering, comment / procinst / directive, trailing text left in the decoder *)
Example seq_parser_code_example :
  let nm x := {| xspace := []; xlocal := s x |} in
  let st := with_snakeCaseKeys true gstate0 in
  let ts := [TChar (s " "); TStart {| xspace := s "ns"; xlocal := s "a" |}
               [ {| aname := nm "x"; avalue := s "1.5" |}; {| aname := {| xspace := s "p"; xlocal := s "Y-z" |}; avalue := s "q" |} ];
             TChar (s " hi "); TStart (nm "b") []; TChar (s "1.5"); TEnd (nm "b"); TComment (s "cm"); TStart (nm "b") []; TEnd (nm "b");
             TProcInst (s "t") (s "i"); TStart (nm "c-d") [ {| aname := nm "k"; avalue := s "v" |} ]; TChar (s "t"); TEnd (nm "c-d");
             TDirective (s "D"); TEnd {| xspace := s "ns"; xlocal := s "a" |}; TChar (s "z")] in
  seq_view st (state_opts st) /\ cast_view st (state_opts st) /\
  fn_xmlSeqToMapParser (run_cast (fun _ => None) (fun _ => false) st) (run_escapeChars st) (S (length ts)) st [] [] (ts, TermEOF) true
  = Ret (([(s "ns:a",
            VMap [(s "#attr", VMap [(s "x", VMap [(s "#text", VStr (s "1.5")); (s "#seq", VInt 0)]);
                                    (s "p:Y_z", VMap [(s "#text", VStr (s "q")); (s "#seq", VInt 1)])]);
                  (s "#text", VStr (s "hi")); (s "#seq", VInt 0);
                  (s "b", VList [VMap [(s "#text", VStr (s "1.5")); (s "#seq", VInt 1)];
                                 VMap [(s "#text", VStr []); (s "#seq", VInt 3)]]);
                  (s "#comment", VMap [(s "#text", VStr (s "cm")); (s "#seq", VInt 2)]);
                  (s "#procinst", VMap [(s "#target", VStr (s "t")); (s "#inst", VStr (s "i")); (s "#seq", VInt 4)]);
                  (s "c_d", VMap [(s "#attr", VMap [(s "k", VMap [(s "#text", VStr (s "v")); (s "#seq", VInt 0)])]);
                                  (s "#text", VBool true); (s "#seq", VInt 5)]);
                  (s "#directive", VMap [(s "#text", VStr (s "D")); (s "#seq", VInt 6)])])], None),
         ([TChar (s "z")], TermEOF)).
Proof. cbv zeta. split; [repeat split|]. split; [repeat split|]. vm_compute. reflexivity. Qed.

(* errors: the Map and the decoder position beside them.  <a><b></c>x : mismatched end tag inside a child;
   <!--c--><a> : NoRoot with the partial map; <a> then a syntax error of the decoder *)
Example seq_parser_code_error_examples :
  let nm x := {| xspace := []; xlocal := s x |} in
  let run ts tm := fn_xmlSeqToMapParser (run_cast (fun _ => None) (fun _ => false) gstate0) (run_escapeChars gstate0)
                     (S (length ts)) gstate0 [] [] (ts, tm) false in
  run [TStart (nm "a") []; TStart (nm "b") []; TEnd (nm "c"); TChar (s "x")] TermEOF = Ret (([], Some EOther), ([TChar (s "x")], TermEOF)) /\
  run [TComment (s "c"); TStart (nm "a") []] TermEOF = Ret (([(s "#comment", VStr (s "c"))], Some ENoRoot), ([TStart (nm "a") []], TermEOF)) /\
  run [TStart (nm "a") []] TermErr = Ret (([], Some EOther), ([], TermErr)) /\
  run [TEnd (nm "a"); TChar (s "x")] TermEOF = Ret (([], Some EOther), ([TChar (s "x")], TermEOF)).
Proof. cbv zeta. repeat split; vm_compute; reflexivity. Qed.

Print Assumptions seq_parser_call_is_model.
Print Assumptions seq_parser_code_is_model_fuel.
Print Assumptions seq_parser_code_is_model.
Print Assumptions seq_parser_code_is_model_ex.
Print Assumptions seq_parser_code_eq.
Print Assumptions seq_parser_code_eq_translated.
Print Assumptions seq_parser_code_abs.
Print Assumptions seq_parser_code_is_model_translated.
Print Assumptions seq_parser_code_abs_translated.
Print Assumptions seq_parser_code_no_panic.
Print Assumptions seq_parser_code_returns.
Print Assumptions seq_parser_code_example.
