(* The document-level glue between the byte-slice entry points and the two parsers, and the string forms of ValueForPath,
   as go2v translated them from /repo's CURRENT sources (Gen/Pure_gen.v):

     fn_xmlToMap / fn_xmlSeqToMap   xml.go:166-175 / xmlseq.go:205-214 - `b := bytes.NewReader(doc); p := xml.NewDecoder(b);
                                    if CustomDecoder != nil { useCustomDecoder(p) } else { p.CharsetReader = XmlCharsetReader };
                                    return xml[Seq]ToMapParser("", nil, p, r)`
     fn_ValueForPathString          keyvalues.go:657-667
     fn_ValueOrEmptyForPathString   keyvalues.go:671-674

   The decoder is the token stream of the bytes (Gen/PureSupport.v: xdecoder).  Three environment functions stand for
   encoding/xml: ext_xml_NewDecoder (the stream of a fresh decoder over the bytes), ext_useCustomDecoder (what the stream
   becomes when the public attributes of CustomDecoder are copied in), ext_xml_set_CharsetReader (the same for the package's
   XmlCharsetReader).  The theorems hold for EVERY such three functions: what is proved is that the code hands exactly the
   configured stream, the empty key, no attributes and the caller's cast flag to the parser, and returns what the parser
   returns - and, composed with the parser theorems (PureG14, PureG15), that NewMapXml(doc, cast...) / NewMapXmlSeq(doc, cast...)
   IS the model decoder on the configured token stream of doc, with the translated cast / escapeChars as callees. *)
From Coq Require Import Lia.
From Mxj Require Import Gen.GenSupport Gen.Setters_gen Gen.PureSupport Gen.Pure_gen Base.Fmt Model.XmlDec Model.SeqDec Model.KeyValues.
From Mxj Require Import Spec.ConvClauses GenProofs.PureG GenProofs.PureG5 GenProofs.PureG7 GenProofs.PureG13 GenProofs.PureG14 GenProofs.PureG15.

(* the token stream the parser is started on: the decoder of the bytes, configured from the package state *)
Definition configured_decoder (newdec : str -> xdecoder) (usecd : option nat -> xdecoder -> xdecoder)
    (setcr : xdecoder -> option nat -> xdecoder) (st : gstate) (doc : str) : xdecoder :=
  match g_CustomDecoder st with
  | Some c => usecd (Some c) (newdec doc)
  | None => setcr (newdec doc) (g_XmlCharsetReader st)
  end.

(* ------------------------------------------------------------------ xmlToMap / xmlSeqToMap: the glue, for any parser *)

Theorem xml_to_map_code : forall (parser : str -> list xattr -> xdecoder -> bool -> res entries) newdec usecd setcr st doc r,
  fn_xmlToMap usecd parser newdec setcr st doc r = of_res (parser [] [] (configured_decoder newdec usecd setcr st doc) r).
Proof.
  intros parser newdec usecd setcr st doc r. unfold fn_xmlToMap, configured_decoder. cbv zeta.
  destruct (g_CustomDecoder st) as [c|]; cbn [negb]; apply of_res_match.
Qed.

Theorem xml_seq_to_map_code : forall (parser : str -> list xattr -> xdecoder -> bool -> res entries) newdec usecd setcr st doc r,
  fn_xmlSeqToMap usecd parser newdec setcr st doc r = of_res (parser [] [] (configured_decoder newdec usecd setcr st doc) r).
Proof.
  intros parser newdec usecd setcr st doc r. unfold fn_xmlSeqToMap, configured_decoder. cbv zeta.
  destruct (g_CustomDecoder st) as [c|]; cbn [negb]; apply of_res_match.
Qed.

(* without a CustomDecoder the stream is the fresh decoder's with the package's XmlCharsetReader installed; with one, the
   XmlCharsetReader variable is not read at all (xml.go:53 "if CustomDecoder != nil, then XmlCharsetReader is ignored") *)
Corollary xml_to_map_ignores_charset_reader_with_custom_decoder :
  forall parser newdec usecd setcr st st' doc r c,
  g_CustomDecoder st = Some c -> g_CustomDecoder st' = Some c ->
  fn_xmlToMap usecd parser newdec setcr st doc r = fn_xmlToMap usecd parser newdec setcr st' doc r.
Proof.
  intros parser newdec usecd setcr st st' doc r c H H'. rewrite !xml_to_map_code. unfold configured_decoder. rewrite H, H'. reflexivity.
Qed.

(* ------------------------------------------------------------------ the translated parsers as the callee *)

(* what a caller that drops the decoder sees of the translated parsers *)
Definition run_xmlToMapParser pf callskip (st : gstate) (k : str) (a : list xattr) (p : xdecoder) (r : bool) : res entries :=
  match fn_xmlToMapParser (PureG14.run_cast pf callskip st) (PureG14.run_escapeChars st) (S (length (fst p))) st k a p r with
  | Ret (x, _) => x
  | _ => Panic
  end.
Definition run_xmlSeqToMapParser pf callskip (st : gstate) (k : str) (a : list xattr) (p : xdecoder) (r : bool) : res entries :=
  match fn_xmlSeqToMapParser (PureG15.run_cast pf callskip st) (PureG15.run_escapeChars st) (S (length (fst p))) st k a p r with
  | Ret ((m, None), _) => Ok m
  | Ret ((_, Some e), _) => Err e
  | _ => Panic
  end.

(* the Map of the model's document decoders, as the entries the Go functions return *)
Definition xml_decode_entries pf skip o r (p : xdecoder) : res entries :=
  match xml_decode_rest pf skip o r (fst p) (snd p) with
  | Ok (m, _) => Ok m
  | Err e => Err e
  | Panic => Panic
  end.
Definition seq_decode_entries pf skip o r (p : xdecoder) : res entries :=
  match seq_decode_rest pf skip o r (fst p) (snd p) with
  | Ok (kv, _) => Ok [kv]
  | Err e => Err e
  | Panic => Panic
  end.

Lemma xml_decode_entries_value pf skip o r p :
  xml_decode pf skip o r (fst p) (snd p) = match xml_decode_entries pf skip o r p with Ok m => Ok (VMap m) | Err e => Err e | Panic => Panic end.
Proof. unfold xml_decode, xml_decode_entries. destruct (xml_decode_rest pf skip o r (fst p) (snd p)) as [[m rest]|e|]; reflexivity. Qed.

Lemma seq_decode_entries_value pf skip o r p :
  seq_decode pf skip o r (fst p) (snd p) = match seq_decode_entries pf skip o r p with Ok m => Ok (VMap m) | Err e => Err e | Panic => Panic end.
Proof. unfold seq_decode, seq_decode_entries. destruct (seq_decode_rest pf skip o r (fst p) (snd p)) as [[kv rest]|e|]; reflexivity. Qed.

Lemma run_xmlToMapParser_eq pf callskip o st p r :
  dec_view st o -> cast_view st o -> forallb start_ok (fst p) = true ->
  run_xmlToMapParser pf callskip st [] [] p r = xml_decode_entries pf (skip_of st callskip) o r p.
Proof.
  intros Hv Hc Hs. destruct p as [ts tm]. unfold run_xmlToMapParser, xml_decode_entries. cbn [fst snd] in *.
  rewrite (xml_parser_code_is_model_translated pf callskip o r st (S (length ts)) ts tm Hv Hc) by (try lia; exact Hs).
  destruct (xml_decode_rest pf (skip_of st callskip) o r ts tm) as [[m rest]|e|]; reflexivity.
Qed.

Lemma run_xmlSeqToMapParser_eq pf callskip o st p r :
  seq_view st o -> cast_view st o ->
  run_xmlSeqToMapParser pf callskip st [] [] p r = seq_decode_entries pf (skip_of st callskip) o r p.
Proof.
  intros Hv Hc. destruct p as [ts tm]. unfold run_xmlSeqToMapParser, seq_decode_entries. cbn [fst snd] in *.
  pose proof (seq_parser_code_is_model_translated pf callskip o r st ts tm (S (length ts)) Hv Hc ltac:(lia)) as H.
  apply sq_conv_eq in H. rewrite H.
  destruct (seq_decode_rest pf (skip_of st callskip) o r ts tm) as [[[k v] rest]|e|]; reflexivity.
Qed.

(* ------------------------------------------------------------------ xmlToMap / xmlSeqToMap = the model decoders *)

Theorem xml_to_map_code_is_model : forall pf callskip o newdec usecd setcr st doc r,
  dec_view st o -> cast_view st o ->
  forallb start_ok (fst (configured_decoder newdec usecd setcr st doc)) = true ->
  fn_xmlToMap usecd (run_xmlToMapParser pf callskip st) newdec setcr st doc r
  = of_res (xml_decode_entries pf (skip_of st callskip) o r (configured_decoder newdec usecd setcr st doc)).
Proof.
  intros pf callskip o newdec usecd setcr st doc r Hv Hc Hs. rewrite xml_to_map_code.
  rewrite (run_xmlToMapParser_eq pf callskip o st _ r Hv Hc Hs). reflexivity.
Qed.

Theorem xml_seq_to_map_code_is_model : forall pf callskip o newdec usecd setcr st doc r,
  seq_view st o -> cast_view st o ->
  fn_xmlSeqToMap usecd (run_xmlSeqToMapParser pf callskip st) newdec setcr st doc r
  = of_res (seq_decode_entries pf (skip_of st callskip) o r (configured_decoder newdec usecd setcr st doc)).
Proof.
  intros pf callskip o newdec usecd setcr st doc r Hv Hc. rewrite xml_seq_to_map_code.
  rewrite (run_xmlSeqToMapParser_eq pf callskip o st _ r Hv Hc). reflexivity.
Qed.

(* ------------------------------------------------------------------ NewMapXml / NewMapXmlSeq, the whole chain below them *)

Definition run_xmlToMap pf callskip newdec usecd setcr (st : gstate) (doc : str) (r : bool) : res entries :=
  match fn_xmlToMap usecd (run_xmlToMapParser pf callskip st) newdec setcr st doc r with Ret x => x | _ => Panic end.
Definition run_xmlSeqToMap pf callskip newdec usecd setcr (st : gstate) (doc : str) (r : bool) : res entries :=
  match fn_xmlSeqToMap usecd (run_xmlSeqToMapParser pf callskip st) newdec setcr st doc r with Ret x => x | _ => Panic end.

Lemma of_res_run {A} (x : res A) : match of_res x with Ret y => y | _ => Panic end = x.
Proof. destruct x; reflexivity. Qed.

Theorem new_map_xml_code_is_model : forall pf callskip o newdec usecd setcr st doc cast,
  dec_view st o -> cast_view st o ->
  forallb start_ok (fst (configured_decoder newdec usecd setcr st doc)) = true ->
  fn_NewMapXml (run_xmlToMap pf callskip newdec usecd setcr st) st doc cast
  = of_res (xml_decode_entries pf (skip_of st callskip) o (opt_flag cast) (configured_decoder newdec usecd setcr st doc)).
Proof.
  intros pf callskip o newdec usecd setcr st doc cast Hv Hc Hs. rewrite new_map_xml_code. unfold run_xmlToMap.
  rewrite (xml_to_map_code_is_model pf callskip o newdec usecd setcr st doc (opt_flag cast) Hv Hc Hs).
  rewrite of_res_run. reflexivity.
Qed.

Theorem new_map_xml_seq_code_is_model : forall pf callskip o newdec usecd setcr st doc cast,
  seq_view st o -> cast_view st o ->
  fn_NewMapXmlSeq (run_xmlSeqToMap pf callskip newdec usecd setcr st) st doc cast
  = of_res (seq_decode_entries pf (skip_of st callskip) o (opt_flag cast) (configured_decoder newdec usecd setcr st doc)).
Proof.
  intros pf callskip o newdec usecd setcr st doc cast Hv Hc. rewrite new_map_xml_seq_code. unfold run_xmlSeqToMap.
  rewrite (xml_seq_to_map_code_is_model pf callskip o newdec usecd setcr st doc (opt_flag cast) Hv Hc).
  rewrite of_res_run. reflexivity.
Qed.

(* NewMapXmlSeq never panics, whatever bytes, options and decoder configuration *)
Corollary new_map_xml_seq_code_no_panic : forall pf callskip o newdec usecd setcr st doc cast,
  seq_view st o -> cast_view st o ->
  fn_NewMapXmlSeq (run_xmlSeqToMap pf callskip newdec usecd setcr st) st doc cast <> Crash.
Proof.
  intros pf callskip o newdec usecd setcr st doc cast Hv Hc.
  rewrite (new_map_xml_seq_code_is_model pf callskip o newdec usecd setcr st doc cast Hv Hc).
  unfold seq_decode_entries.
  pose proof (seq_decode_rest_total pf (skip_of st callskip) o (opt_flag cast) (snd (configured_decoder newdec usecd setcr st doc))
                (fst (configured_decoder newdec usecd setcr st doc))) as HT.
  destruct (seq_decode_rest pf (skip_of st callskip) o (opt_flag cast) _ _) as [[kv rest]|e|]; cbn [of_res]; congruence.
Qed.

(* ------------------------------------------------------------------ ValueForPathString / ValueOrEmptyForPathString *)

Definition is_scalar (v : value) : bool := match v with VMap _ | VList _ => false | _ => true end.

(* against ValueForPath's model: the same error, and for a scalar first value its %v text.  (The %v text of a map or a list
   is outside the value universe's fmt model: the translation stands as Crash there, and nothing is claimed.) *)
Theorem value_for_path_string_code_is_model : forall pf st m path, g_fieldSep st <> [] ->
  match value_for_path pf (g_fieldSep st) (VMap m) path with
  | Ok v => is_scalar v = true -> fn_ValueForPathString (run_ValuesForPath pf st) st m path = Ret (Ok (fmt_v v))
  | Err e => fn_ValueForPathString (run_ValuesForPath pf st) st m path = Ret (Err e)
  | Panic => fn_ValueForPathString (run_ValuesForPath pf st) st m path = Crash
  end.
Proof.
  intros pf st m path H. unfold fn_ValueForPathString, value_for_path. rewrite run_ValuesForPath_eq by exact H.
  destruct (values_for_path pf (g_fieldSep st) (VMap m) path []) as [vs|e|]; cbn [bind of_res negb bindc]; try reflexivity.
  destruct vs as [|v vs]; [reflexivity|].
  cbn [length Z.of_nat Z.eqb bindc nth_error]. intros Hsc.
  destruct v; cbn [is_scalar] in Hsc; try discriminate; reflexivity.
Qed.

Definition run_ValueForPathString pf (st : gstate) (m : entries) (path : str) : res str :=
  match fn_ValueForPathString (run_ValuesForPath pf st) st m path with Ret x => x | _ => Panic end.

(* ValueOrEmptyForPathString: the string of ValueForPathString, "" beside any error *)
Theorem value_or_empty_for_path_string_code : forall (vfps : entries -> str -> res str) st m path,
  fn_ValueOrEmptyForPathString vfps st m path
  = match vfps m path with Ok x => Ret x | Err _ => Ret [] | Panic => Crash end.
Proof. intros vfps st m path. unfold fn_ValueOrEmptyForPathString. destruct (vfps m path); reflexivity. Qed.

Theorem value_or_empty_for_path_string_code_is_model : forall pf st m path, g_fieldSep st <> [] ->
  match value_for_path pf (g_fieldSep st) (VMap m) path with
  | Ok v => is_scalar v = true -> fn_ValueOrEmptyForPathString (run_ValueForPathString pf st) st m path = Ret (fmt_v v)
  | Err e => fn_ValueOrEmptyForPathString (run_ValueForPathString pf st) st m path = Ret []
  | Panic => fn_ValueOrEmptyForPathString (run_ValueForPathString pf st) st m path = Crash
  end.
Proof.
  intros pf st m path H. pose proof (value_for_path_string_code_is_model pf st m path H) as HS.
  rewrite value_or_empty_for_path_string_code. unfold run_ValueForPathString.
  destruct (value_for_path pf (g_fieldSep st) (VMap m) path) as [v|e|].
  - intros Hsc. rewrite (HS Hsc). reflexivity.
  - rewrite HS. reflexivity.
  - rewrite HS. reflexivity.
Qed.

(* non-vacuity: a concrete Map, path and package state *)
Example value_for_path_string_example :
  fn_ValueForPathString (run_ValuesForPath (fun _ => None) gstate0) gstate0 [(s"a", VMap [(s"b", VStr (s"x"))])] (s"a.b")
  = Ret (Ok (s"x")).
Proof. vm_compute. reflexivity. Qed.

Print Assumptions xml_to_map_code.
Print Assumptions xml_seq_to_map_code.
Print Assumptions xml_to_map_ignores_charset_reader_with_custom_decoder.
Print Assumptions xml_to_map_code_is_model.
Print Assumptions xml_seq_to_map_code_is_model.
Print Assumptions new_map_xml_code_is_model.
Print Assumptions new_map_xml_seq_code_is_model.
Print Assumptions new_map_xml_seq_code_no_panic.
Print Assumptions value_for_path_string_code_is_model.
Print Assumptions value_or_empty_for_path_string_code.
Print Assumptions value_or_empty_for_path_string_code_is_model.

(* ------------------------------------------------------------------ NewMapFormattedXmlSeq (xmlseq.go:111-123) *)

(* the glue: the cast flag, then xmlSeqToMap on what regexp `>[\n\t\r ]*<` -> `><` leaves of the bytes.  Package regexp is
   the environment function ext_regexp_ReplaceAll, applied to the pattern's SOURCE TEXT, which is therefore part of the
   statement: another pattern or replacement in the code is another term here. *)
Theorem new_map_formatted_xml_seq_code : forall (re : str -> str -> str -> str) (xmlSeqToMap : str -> bool -> res entries) st doc cast,
  fn_NewMapFormattedXmlSeq re xmlSeqToMap st doc cast
  = of_res (xmlSeqToMap (re (s">[\n\t\r ]*<") doc (s"><")) (opt_flag cast)).
Proof. intros re M st doc c. unfold fn_NewMapFormattedXmlSeq. cbv zeta. rewrite flag_select. apply of_res_match. Qed.

(* = NewMapXmlSeq on the rewritten bytes *)
Corollary new_map_formatted_xml_seq_is_new_map_xml_seq : forall re xmlSeqToMap st doc cast,
  fn_NewMapFormattedXmlSeq re xmlSeqToMap st doc cast
  = fn_NewMapXmlSeq xmlSeqToMap st (re (s">[\n\t\r ]*<") doc (s"><")) cast.
Proof. intros. rewrite new_map_formatted_xml_seq_code, new_map_xml_seq_code. reflexivity. Qed.

(* the whole chain: the model's sequence decoder on the configured token stream of the rewritten bytes *)
Theorem new_map_formatted_xml_seq_code_is_model : forall pf callskip o re newdec usecd setcr st doc cast,
  seq_view st o -> cast_view st o ->
  fn_NewMapFormattedXmlSeq re (run_xmlSeqToMap pf callskip newdec usecd setcr st) st doc cast
  = of_res (seq_decode_entries pf (skip_of st callskip) o (opt_flag cast)
              (configured_decoder newdec usecd setcr st (re (s">[\n\t\r ]*<") doc (s"><")))).
Proof.
  intros pf callskip o re newdec usecd setcr st doc cast Hv Hc.
  rewrite new_map_formatted_xml_seq_is_new_map_xml_seq.
  apply (new_map_xml_seq_code_is_model pf callskip o newdec usecd setcr st _ cast Hv Hc).
Qed.

Print Assumptions new_map_formatted_xml_seq_code.
Print Assumptions new_map_formatted_xml_seq_is_new_map_xml_seq.
Print Assumptions new_map_formatted_xml_seq_code_is_model.
