(* valuesForArray (keyvalues.go:203-290, the indexed-path loop behind Map.ValuesForPath), as go2v translated it from
   /repo's CURRENT sources (Gen/Pure_gen.v: fn_valuesForArray - the counting loop `for i := 0; i <= lastkey; i++` with its
   break / continue, the look-ahead branch that calls m.oldValuesForPath and recurses into valuesForArray(keys[i+1:], am)
   for every map member, the slice expressions vals[pos:pos+1]) IS the model's values_for_array (Model/KeyValues.v: vfa),
   for every fuel above the length of the key list and every key list whose positions are non-negative (what parsePath
   produces; with a negative position the Go code panics on the slice expression and the model does not:
   vfa_code_is_model_negative_position_refuted).  With it every callee of Map.ValuesForPath is translated code
   (values_for_path_code_is_model_full).

   Method: the loop body is taken out of the translated function itself (vfa_body, the recursive occurrence abstracted as
   [rec]); [iter] computes one iteration from state (i, tmppath, haveFirst, vals, verr, m) by one destruct per test of the
   code; [vfa_loop] is the induction on the remaining keys skipn i keys; the outer induction is on the fuel. *)
From Coq Require Import Lia.
From Mxj Require Import Gen.GenSupport Gen.Setters_gen Gen.PureSupport Gen.Pure_gen Model.KeyValues Spec.KeySearch.
From Mxj Require Import Proofs.StrLemmas Proofs.C07P GenProofs.PureG GenProofs.PureG2 GenProofs.PureG3 GenProofs.PureG5.

Definition vfa_state : Type := (Z * str * bool * list value * option err * entries)%type.
Definition vfa_rec : Type := gstate -> list t_key -> entries -> ctl unit (res (list value)).

Definition vfa_body_f (ovp : entries -> str -> list str -> res (list value)) (f : nat) (st : gstate) (keys : list t_key)
  : vfa_state -> ctl vfa_state (res (list value)) :=
  ltac:(let t := eval cbv beta iota zeta delta [fn_valuesForArray] in (fn_valuesForArray ovp (S f) st keys []) in
        match t with context [for_loop _ ?b _] => exact b end).

Definition vfa_body (ovp : entries -> str -> list str -> res (list value)) (rec : vfa_rec) (st : gstate) (keys : list t_key)
  : vfa_state -> ctl vfa_state (res (list value)) :=
  ltac:(let F := eval cbv beta iota zeta delta [fn_valuesForArray] in (fn_valuesForArray ovp) in
        let b := eval cbv beta iota zeta delta [vfa_body_f fn_valuesForArray] in (fun f => vfa_body_f ovp f st keys) in
        let b' := eval pattern F in b in
        match b' with ?g _ => let r := eval cbv beta in (g (fun _ : nat => rec) O) in exact r end).

Definition vfa_after : vfa_state -> ctl unit (res (list value)) :=
  fun '(l_i, l_tmppath, l_haveFirst, l_vals, l_verr, p_m) => Ret (Ok l_vals).

Lemma fn_valuesForArray_unfold ovp f st keys m :
  fn_valuesForArray ovp (S f) st keys m =
  bindc (for_loop (S (S (Z.to_nat (Z.of_nat (length keys) - 1 - 0 + 1)))) (vfa_body ovp (fn_valuesForArray ovp f) st keys)
           (0%Z, [], false, [], None, m)) vfa_after.
Proof. reflexivity. Qed.

Local Arguments Z.add : simpl never.
Local Arguments Z.sub : simpl never.
Local Arguments Z.eqb : simpl never.
Local Arguments Z.ltb : simpl never.
Local Arguments Z.leb : simpl never.
Local Arguments Z.of_nat : simpl never.
Local Arguments Z.to_nat : simpl never.

Definition nonneg_key (k : t_key) : Prop := (0 <= key_position k)%Z.

Section Loop.
Variable ovp : entries -> str -> list str -> res (list value).
Variable rec : vfa_rec.
Variable st : gstate.
Variable keys : list t_key.
Hypothesis Hovp : forall m p, ovp m p [] = Ok (ovfp (VMap m) p).
Hypothesis Hpos : Forall nonneg_key keys.
Hypothesis Hrec : forall ks am, length ks < length keys -> Forall nonneg_key ks ->
  rec st ks am = Ret (Ok (values_for_array (map of_key ks) (VMap am))).

Lemma body_end i tmp hf vals verr m :
  (Z.of_nat (length keys) - 1 < i)%Z ->
  vfa_body ovp rec st keys (i, tmp, hf, vals, verr, m) = Brk (i, tmp, hf, vals, verr, m).
Proof.
  intros Hi. unfold vfa_body.
  replace (Z.leb i (Z.of_nat (length keys) - 1)) with false by (symmetry; apply Z.leb_gt; lia).
  reflexivity.
Qed.

Definition step_clean (k : t_key) (nxt : option t_key) (i : nat) (tmp : str) (hf : bool) (vals : list value)
    (verr : option err) (m : entries) : vfa_state + list value :=
  let tp := if hf then tmp ++ s "." ++ key_name k else key_name k in
  let vs := ovfp (VMap m) tp in
  if key_isArray k then
    if Z.leb (Z.of_nat (length vs)) (key_position k) then inr []
    else match nth_error vs (Z.to_nat (key_position k)) with
         | None => inr []
         | Some x => match nxt with
                     | None => inr [x]
                     | Some _ => match x with
                                 | VMap amm => inl ((Z.of_nat i + 1)%Z, tp, false, vs, None, amm)
                                 | _ => inr []
                                 end
                     end
         end
  else match nxt with
       | None => inr vs
       | Some k2 =>
           if key_isArray k2
           then inr (flat_map (fun v => match v with
                                        | VMap am => values_for_array (map of_key (skipn (S i) keys)) (VMap am)
                                        | _ => []
                                        end) vs)
           else inl ((Z.of_nat i + 1)%Z, tp, true, vals, verr, m)
       end.

Lemma for_loop_S {S A} f (body : S -> ctl S A) s0 :
  for_loop (Datatypes.S f) body s0 =
  match body s0 with Next s' => for_loop f body s' | Brk s' => Next s' | r => r end.
Proof. reflexivity. Qed.

Lemma loop_app (g : value -> list value) (body : list value -> value -> ctl (list value) (res (list value))) l :
  (forall acc v, body acc v = Next (acc ++ g v)) ->
  forall acc, range_loop body l acc = Next (acc ++ flat_map g l).
Proof.
  intros Hb. induction l as [|v l IH]; intros acc; cbn [range_loop flat_map]; [rewrite app_nil_r; reflexivity|].
  rewrite Hb, IH, <- app_assoc. reflexivity.
Qed.

Lemma firstn1_skipn {A} (l : list A) : forall n,
  firstn 1 (skipn n l) = match nth_error l n with Some x => [x] | None => [] end.
Proof.
  induction l as [|a l IH]; intros [|n]; try reflexivity. cbn [skipn nth_error]. apply IH.
Qed.

Lemma Forall_skipn' {A} (P : A -> Prop) (l : list A) : forall n, Forall P l -> Forall P (skipn n l).
Proof.
  induction l as [|a l IH]; intros [|n] H; cbn [skipn]; try exact H. inversion H; subst. apply IH. assumption.
Qed.

Lemma iter f i k tmp hf vals verr m :
  nth_error keys i = Some k ->
  bindc (for_loop (S f) (vfa_body ovp rec st keys) (Z.of_nat i, tmp, hf, vals, verr, m)) vfa_after =
  match step_clean k (nth_error keys (S i)) i tmp hf vals verr m with
  | inl s' => bindc (for_loop f (vfa_body ovp rec st keys) s') vfa_after
  | inr v => Ret (Ok v)
  end.
Proof.
  intros Hk. rewrite for_loop_S. set (L := for_loop f (vfa_body ovp rec st keys)).
  unfold vfa_body, step_clean.
  assert (Hlen : i < length keys) by (apply nth_error_Some; congruence).
  assert (Hp : (0 <= key_position k)%Z).
  { rewrite Forall_forall in Hpos. apply Hpos. eapply nth_error_In; exact Hk. }
  replace (Z.leb (Z.of_nat i) (Z.of_nat (length keys) - 1)) with true by (symmetry; apply Z.leb_le; lia).
  replace (Z.ltb (Z.of_nat i) 0) with false by (symmetry; apply Z.ltb_ge; lia).
  rewrite Nat2Z.id. rewrite Hk.
  assert (Hto : Z.to_nat (Z.of_nat i + 1) = S i) by lia.
  assert (Hg0 : Z.ltb (Z.of_nat i + 1) 0 = false) by (apply Z.ltb_ge; lia).
  assert (Hone : Z.to_nat (key_position k + 1 - key_position k) = 1) by lia.
  assert (Hp0 : Z.ltb (key_position k) 0 = false) by (apply Z.ltb_ge; lia).
  assert (Hp1 : Z.ltb (key_position k + 1) (key_position k) = false) by (apply Z.ltb_ge; lia).
  destruct hf; cbv beta iota delta [bindc negb]; rewrite !Hovp; cbv beta iota delta [bindc negb];
    rewrite ?Hto, ?Hg0, ?Hone, ?Hp0, ?Hp1; cbv beta iota delta [bindc negb orb].
  all: match goal with |- context [ovfp ?mm ?tp] => set (vs := ovfp mm tp) end.
  all: destruct (nth_error keys (S i)) as [k2|] eqn:Ek2.
  all: try (assert (Hl2 : S i < length keys) by (apply nth_error_Some; congruence);
            assert (E1 : Z.eqb (Z.of_nat i) (Z.of_nat (length keys) - 1) = false) by (apply Z.eqb_neq; lia);
            assert (E2 : Z.ltb (Z.of_nat i) (Z.of_nat (length keys) - 1) = true) by (apply Z.ltb_lt; lia);
            assert (E3 : Z.ltb (Z.of_nat (length keys)) (Z.of_nat i + 1) = false) by (apply Z.ltb_ge; lia)).
  all: try (assert (Hl2 : length keys <= S i) by (apply nth_error_None; exact Ek2);
            assert (E1 : Z.eqb (Z.of_nat i) (Z.of_nat (length keys) - 1) = true) by (apply Z.eqb_eq; lia);
            assert (E2 : Z.ltb (Z.of_nat i) (Z.of_nat (length keys) - 1) = false) by (apply Z.ltb_ge; lia)).
  all: rewrite ?E1, ?E2, ?E3; cbv beta iota delta [bindc negb orb].
  all: destruct (key_isArray k) eqn:Ea; cbv beta iota delta [bindc negb orb].
  all: try reflexivity.
  all: try (destruct (Z.leb_spec (Z.of_nat (length vs)) (key_position k)) as [Hle|Hgt]; [reflexivity|];
            assert (E4 : Z.ltb (Z.of_nat (length vs)) (key_position k + 1) = false) by (apply Z.ltb_ge; lia);
            rewrite E4, firstn1_skipn;
            destruct (nth_error vs (Z.to_nat (key_position k))) as [x|] eqn:En;
            [cbn [nth_error]; destruct x; reflexivity | apply nth_error_None in En; lia]).
  all: destruct (key_isArray k2); [|reflexivity].
  all: match goal with |- context [range_loop ?body _ _] =>
         rewrite (loop_app (fun v => match v with
                                     | VMap am => values_for_array (map of_key (skipn (S i) keys)) (VMap am)
                                     | _ => [] end) body) end; [reflexivity|].
  all: intros acc v; destruct v; try (rewrite app_nil_r; reflexivity).
  all: rewrite Hrec by (first [rewrite skipn_length; lia | apply Forall_skipn'; exact Hpos]); reflexivity.
Qed.

Lemma skipn_cons_inv {A} (l : list A) : forall i x rest,
  skipn i l = x :: rest -> nth_error l i = Some x /\ skipn (S i) l = rest.
Proof.
  induction l as [|a l IH]; intros [|i] x rest H; cbn [skipn] in H; try discriminate.
  - injection H as -> ->. split; reflexivity.
  - cbn [nth_error]. apply IH in H. exact H.
Qed.

Lemma skipn_hd {A} (l : list A) : forall j, nth_error l j = hd_error (skipn j l).
Proof. induction l as [|a l IH]; intros [|j]; try reflexivity. cbn [nth_error skipn]. apply IH. Qed.

Lemma vfa_loop : forall rest i fuel tmp hf vals verr m,
  skipn i keys = rest -> length rest < fuel ->
  bindc (for_loop fuel (vfa_body ovp rec st keys) (Z.of_nat i, tmp, hf, vals, verr, m)) vfa_after
  = Ret (Ok (vfa (map of_key rest) (VMap m) (if hf then Some tmp else None) vals)).
Proof.
  induction rest as [|k rest IH]; intros i fuel tmp hf vals verr m Hs Hf; (destruct fuel as [|f]; [lia|]).
  - rewrite for_loop_S, body_end; [reflexivity|].
    pose proof (skipn_length i keys) as Hl. rewrite Hs in Hl. cbn [length] in Hl. lia.
  - destruct (skipn_cons_inv keys i k rest Hs) as [Hk Hs'].
    rewrite (iter f i k) by exact Hk.
    rewrite (skipn_hd keys (S i)), Hs'. unfold step_clean. rewrite Hs'.
    replace (Z.of_nat i + 1)%Z with (Z.of_nat (S i)) by lia.
    cbn [map vfa of_key pk_name pk_arr pk_pos hd_error].
    assert (Htp : tmp_path (if hf then Some tmp else None) (key_name k) = (if hf then tmp ++ s "." ++ key_name k else key_name k))
      by (destruct hf; reflexivity).
    rewrite Htp. set (tp := if hf then _ else _). clearbody tp. clear Htp.
    set (vs := ovfp (VMap m) tp).
    assert (IH1 : forall hf' vals' verr' m',
      bindc (for_loop f (vfa_body ovp rec st keys) (Z.of_nat (S i), tp, hf', vals', verr', m')) vfa_after
      = Ret (Ok (vfa (map of_key rest) (VMap m') (if hf' then Some tp else None) vals'))).
    { intros. apply IH; [exact Hs'|cbn [length] in Hf; lia]. }
    clear IH. unfold nth_z.
    destruct (key_isArray k) eqn:Ea; cbn [negb andb orb].
    + destruct (Z.leb_spec (Z.of_nat (length vs)) (key_position k)) as [Hle|Hgt];
        destruct (Z.ltb_spec (key_position k) (Z.of_nat (length vs))) as [Hlt|Hge]; try lia.
      * destruct rest; reflexivity.
      * destruct (nth_error vs (Z.to_nat (key_position k))) as [x|]; [|destruct rest; reflexivity].
        destruct rest as [|k2 rest']; [reflexivity|]. cbn [map hd_error].
        destruct x; try reflexivity. apply (IH1 false).
    + destruct rest as [|k2 rest']; [reflexivity|]. cbn [map hd_error of_key pk_arr].
      destruct (key_isArray k2).
      * do 2 f_equal. apply flat_map_ext. intros [ | | | | | | | | |]; reflexivity.
      * apply (IH1 true).
Qed.
End Loop.

(* ------------------------------------------------------------------ valuesForArray = the model's values_for_array *)

Theorem vfa_code_is_model_gen : forall ovp, (forall m p, ovp m p [] = Ok (ovfp (VMap m) p)) ->
  forall fuel st keys m,
  length keys < fuel -> Forall nonneg_key keys ->
  fn_valuesForArray ovp fuel st keys m = Ret (Ok (values_for_array (map of_key keys) (VMap m))).
Proof.
  intros ovp Hovp. induction fuel as [|f IHf]; intros st keys m Hf Hpos; [lia|].
  rewrite fn_valuesForArray_unfold.
  apply (vfa_loop ovp (fn_valuesForArray ovp f) st keys Hovp Hpos) with (i := 0) (hf := false).
  - intros ks am Hl Hp. apply IHf; [lia|exact Hp].
  - reflexivity.
  - lia.
Qed.

Definition nonneg_pkey (k : pkey) : Prop := (0 <= pk_pos k)%Z.

Lemma nonneg_to_key ks : Forall nonneg_pkey ks -> Forall nonneg_key (map to_key ks).
Proof. intros H. induction H as [|k ks Hk _ IH]; constructor; [exact Hk|exact IH]. Qed.

Lemma parse_path_nonneg path ks : parse_path path = Ok ks -> Forall nonneg_pkey ks.
Proof.
  intros Ep. eapply Forall_impl; [|apply (parse_path_shape path ks Ep)]. intros k [_ Hk]. exact Hk.
Qed.

(* the legacy walk oldValuesForPath given by the model *)
Theorem vfa_code_is_model : forall pf st ks m fuel,
  length ks < fuel -> Forall nonneg_pkey ks ->
  fn_valuesForArray (fun m path sk => old_values_for_path pf (g_fieldSep st) (VMap m) path sk) fuel st (map to_key ks) m
  = Ret (Ok (values_for_array ks (VMap m))).
Proof.
  intros pf st ks m fuel Hf Hp.
  rewrite vfa_code_is_model_gen.
  - rewrite of_to_key. reflexivity.
  - intros m' p. reflexivity.
  - rewrite map_length. exact Hf.
  - apply nonneg_to_key. exact Hp.
Qed.

(* the side condition on the positions cannot be dropped: with a negative position the Go code panics
   (vals[-1:0]: slice bounds out of range) while the model's nth_z returns the first member.  parsePath never
   produces such a key (parse_path_shape). *)
Lemma vfa_code_is_model_negative_position_refuted :
  exists pf st ks m fuel, length ks < fuel /\
    fn_valuesForArray (fun m path sk => old_values_for_path pf (g_fieldSep st) (VMap m) path sk) fuel st (map to_key ks) m
    <> Ret (Ok (values_for_array ks (VMap m))).
Proof.
  exists (fun _ => None), gstate0, [{| pk_name := s "a"; pk_arr := true; pk_pos := (-1)%Z |}], [(s "a", VNil)], 2.
  split; [cbn; lia|]. vm_compute. discriminate.
Qed.

(* the same with the TRANSLATED oldValuesForPath as the callee *)
Lemma run_oldValuesForPath_nil pf st m p : g_fieldSep st <> [] ->
  run_oldValuesForPath pf st m p [] = Ok (ovfp (VMap m) p).
Proof.
  intros Hs. unfold run_oldValuesForPath. rewrite old_values_for_path_code_is_model by exact Hs. reflexivity.
Qed.

Theorem vfa_code_is_model_translated : forall pf st ks m fuel,
  g_fieldSep st <> [] -> length ks < fuel -> Forall nonneg_pkey ks ->
  fn_valuesForArray (run_oldValuesForPath pf st) fuel st (map to_key ks) m = Ret (Ok (values_for_array ks (VMap m))).
Proof.
  intros pf st ks m fuel Hs Hf Hp.
  rewrite vfa_code_is_model_gen.
  - rewrite of_to_key. reflexivity.
  - intros m' p. apply run_oldValuesForPath_nil. exact Hs.
  - rewrite map_length. exact Hf.
  - apply nonneg_to_key. exact Hp.
Qed.

(* ------------------------------------------------------------------ Map.ValuesForPath with every callee translated *)

Definition run_valuesForArray pf (st : gstate) (ks : list t_key) (m : entries) : res (list value) :=
  match fn_valuesForArray (run_oldValuesForPath pf st) (S (length ks)) st ks m with Ret r => r | _ => Panic end.

Lemma run_valuesForArray_eq pf st ks m : g_fieldSep st <> [] -> Forall nonneg_key ks ->
  run_valuesForArray pf st ks m = model_valuesForArray ks m.
Proof.
  intros Hs Hp. unfold run_valuesForArray, model_valuesForArray.
  rewrite vfa_code_is_model_gen; [reflexivity| |lia|exact Hp].
  intros m' p. apply run_oldValuesForPath_nil. exact Hs.
Qed.

Lemma fn_ValuesForPath_ext gsk hsk ovp pp (vfa1 vfa2 : list t_key -> entries -> res (list value)) st m path subkeys :
  (forall ks, pp path = Ok ks -> vfa1 ks m = vfa2 ks m) ->
  fn_ValuesForPath ovp gsk hsk pp vfa1 st m path subkeys = fn_ValuesForPath ovp gsk hsk pp vfa2 st m path subkeys.
Proof.
  intros H. unfold fn_ValuesForPath. cbv zeta.
  destruct (pp path) as [ks|e|] eqn:E; [rewrite (H ks eq_refl)|..]; reflexivity.
Qed.

Theorem values_for_path_code_is_model_full : forall pf st m path subkeys,
  g_fieldSep st <> [] ->
  fn_ValuesForPath (run_oldValuesForPath pf st) (run_getSubKeyMap pf st) (run_hasSubKeys st) (run_parsePath st) (run_valuesForArray pf st)
    st m path subkeys
  = of_res (values_for_path pf (g_fieldSep st) (VMap m) path subkeys).
Proof.
  intros pf st m path subkeys Hs.
  rewrite (fn_ValuesForPath_ext _ _ _ _ (run_valuesForArray pf st) model_valuesForArray).
  - apply values_for_path_code_is_model. exact Hs.
  - intros ks Hk. apply run_valuesForArray_eq; [exact Hs|].
    rewrite run_parsePath_eq in Hk.
    destruct (parse_path path) as [ks0|e|] eqn:Ep; try discriminate.
    injection Hk as <-. apply nonneg_to_key. exact (parse_path_nonneg path ks0 Ep).
Qed.

(* ------------------------------------------------------------------ no panic *)

Corollary vfa_code_no_panic : forall pf st ks m fuel,
  g_fieldSep st <> [] -> length ks < fuel -> Forall nonneg_pkey ks ->
  fn_valuesForArray (run_oldValuesForPath pf st) fuel st (map to_key ks) m <> Crash.
Proof.
  intros pf st ks m fuel Hs Hf Hp. rewrite vfa_code_is_model_translated by assumption. discriminate.
Qed.

(* the hypotheses are met by a non-trivial input: the path "a.b[0]" (look-ahead + recursion + index) *)
Example vfa_code_example :
  let m := [(s "a", VList [VMap [(s "b", VList [VStr (s "x"); VStr (s "y")])]; VMap [(s "b", VList [VStr (s "z")])]; VStr (s "q")])] in
  exists ks, parse_path (s "a.b[0]") = Ok ks /\ Forall nonneg_pkey ks /\ length ks < 3 /\
    fn_valuesForArray (run_oldValuesForPath (fun _ => None) gstate0) 3 gstate0 (map to_key ks) m = Ret (Ok [VStr (s "x"); VStr (s "z")]).
Proof.
  cbv zeta. eexists. split; [vm_compute; reflexivity|]. split; [|split].
  - repeat constructor; unfold nonneg_pkey; cbn; lia.
  - cbn; lia.
  - vm_compute. reflexivity.
Qed.

Print Assumptions vfa_code_is_model.
Print Assumptions vfa_code_is_model_translated.
Print Assumptions values_for_path_code_is_model_full.
Print Assumptions vfa_code_no_panic.
Print Assumptions vfa_code_is_model_negative_position_refuted.
