(* files.go as go2v translated it from /repo's CURRENT sources (Gen/Pure_gen.v), the RAW file readers:
     NewMapsFromJsonFileRaw (files.go:53) and NewMapsFromXmlFileRaw (files.go:120)
   - os.Stat / fi.Mode().IsRegular() / os.Open, then the loop
       for { mr := new(MapRaw); mr.M, mr.R, err = NewMap...ReaderRaw(fh); ...; if mr.M != nil { am = append(am, *mr) }; ... }
   ARE the model of Model/Reader.v WITHOUT drop_raw (maps_loop; new_maps_from_json_file_raw / new_maps_from_xml_file_raw
   over the schedule of an *os.File), for ANY reader function and ANY behaviour of os.Stat / os.Open.

   Environment of the translation, conversions conv_next / maps_of and the non-raw functions: GenProofs/PureG35.v.
   Result here: ctl unit (list t_MapRaw * option err): the MapRaw{M, R} structs collected TOGETHER with the error. *)
From Mxj Require Import Gen.GenSupport Gen.Setters_gen Gen.PureSupport Gen.Pure_gen Model.Reader.
From Mxj Require Import Spec.StreamSpec Proofs.C13P Proofs.C13H Proofs.C13Top Proofs.C15XApi GenProofs.PureG35.
Import ListNotations.

(* ------------------------------------------------------------------ conversions *)

(* the MapRaw structs among the (value, raw) pairs the model collected (the model keeps every pair whose value is not nil;
   a reader returns Maps only: next_maps of PureG35 and raws_of_exact below) *)
Fixpoint raws_of (am : list (value * str)) : list t_MapRaw :=
  match am with
  | [] => []
  | (VMap m, raw) :: t => mk_MapRaw m raw :: raws_of t
  | _ :: t => raws_of t
  end.

(* the model's result as the translation's: None (fuel / the reader gave no answer) and Panic are a Crash *)
Definition conv_out_raw (r : option (list (value * str) * res unit)) : ctl unit (list t_MapRaw * option err) :=
  match r with
  | None => Crash
  | Some (_, Panic) => Crash
  | Some (am, Ok _) => Ret (raws_of am, None)
  | Some (am, Err e) => Ret (raws_of am, Some e)
  end.

Lemma raws_of_app : forall a b, raws_of (a ++ b) = raws_of a ++ raws_of b.
Proof.
  induction a as [|[v raw] a IH]; intro b; [reflexivity|].
  cbn [app raws_of]. destruct v; rewrite ?IH; reflexivity.
Qed.

(* the Maps of the structs are the Maps of PureG35 *)
Lemma raws_of_maps : forall am, map MapRaw_M (raws_of am) = maps_of (map fst am).
Proof.
  induction am as [|[v raw] am IH]; [reflexivity|].
  cbn [raws_of map fst maps_of]. destruct v; cbn [map MapRaw_M]; rewrite ?IH; reflexivity.
Qed.

(* the structs of (Map, raw) pairs *)
Lemma raws_of_vmaps {A} (f : A -> entries) (g : A -> str) : forall l,
  raws_of (map (fun x => (VMap (f x), g x)) l) = map (fun x => mk_MapRaw (f x) (g x)) l.
Proof. induction l as [|x l IH]; [reflexivity|]. cbn [map raws_of]. now rewrite IH. Qed.

(* a struct as the model's pair *)
Definition pair_of (mr : t_MapRaw) : value * str := (VMap (MapRaw_M mr), MapRaw_R mr).

Lemma raws_of_pairs : forall l, raws_of (map pair_of l) = l.
Proof. induction l as [|[m r] l IH]; [reflexivity|]. cbn [map pair_of raws_of MapRaw_M MapRaw_R]. now rewrite IH. Qed.

Lemma raws_of_exact : forall am, all_maps (map fst am) -> map pair_of (raws_of am) = am.
Proof.
  induction am as [|[v raw] am IH]; intro H; [reflexivity|].
  cbn [map fst] in H. inversion H as [|v' vs [m Hm] Hall]; subst.
  cbn [raws_of map pair_of MapRaw_M MapRaw_R]. now rewrite (IH Hall).
Qed.

(* ------------------------------------------------------------------ the loop *)

(* the body of the translated loop, for a callee c (JSON: the callee itself; XML: the callee applied to no cast argument).
   The state carries the function's err (mr.M, mr.R, err = ... assigns it), the reader and am; mr is declared afresh. *)
Definition file_body_raw (c : list rev -> option ((option entries * str * option err) * list rev))
  : (option err * list rev * list t_MapRaw) -> ctl (option err * list rev * list t_MapRaw) (list t_MapRaw * option err) :=
  fun (st_ : ((option err) * (list rev) * (list t_MapRaw))) => let '(l_err, l_fh, l_am) := st_ in
    (let l_mr_M : (option entries) := None in let l_mr_R : str := ([] : str) in
  match (c l_fh) with None => Crash | Some ((l_mr_M, l_mr_R, l_err), l_fh) =>
  bindc (S := unit) (if (negb (match l_err with None => true | Some _ => false end))
    then (if (negb (match l_err with Some EEOF => true | _ => false end))
    then (Ret (l_am, (Some EOther)))
    else (Next tt))
    else (Next tt))
  (fun _ => bindc (S := (list t_MapRaw)) (if (match l_mr_M with Some _ => true | None => false end)
    then (let l_am := (app l_am [(mk_MapRaw (match l_mr_M with Some m_ => m_ | None => [] end) l_mr_R)]) in
  Next l_am)
    else (Next l_am))
  (fun l_am => if (match l_err with Some EEOF => true | _ => false end)
    then (Brk (l_err, l_fh, l_am))
    else (Next (l_err, l_fh, l_am)))) end : ctl ((option err) * (list rev) * (list t_MapRaw)) ((list t_MapRaw) * (option err))).

(* the translated loop followed by `return am, nil`, from the reader state sc with the structs of amv collected so far and
   any value e0 of err: what the model's loop returns from sc with the (Map, raw) pairs amv collected so far - for every
   fuel, the same on both sides *)
Lemma file_loop_raw_is_model : forall next c, (forall sc, c sc = conv_next next sc) ->
  forall fuel e0 sc amv,
  bindc (for_loop fuel (file_body_raw c) (e0, sc, raws_of amv))
        (fun '(l_err, l_fh, l_am) => Ret (l_am, None) : ctl unit (list t_MapRaw * option err))
  = conv_out_raw (maps_loop next fuel amv sc).
Proof.
  intros next c Hc. induction fuel as [|f IH]; intros e0 sc amv; [reflexivity|].
  cbn [for_loop maps_loop]. unfold file_body_raw at 1. rewrite Hc. unfold conv_next.
  destruct (next sc) as [[[r raw] sc']|]; [|reflexivity].
  destruct r as [v|e|]; [| |reflexivity].
  - assert (Hnext : forall amv', raws_of amv' = raws_of amv ++ match v with VMap m => [mk_MapRaw m raw] | _ => [] end ->
        bindc (for_loop f (file_body_raw c) (None, sc', raws_of amv ++ match v with VMap m => [mk_MapRaw m raw] | _ => [] end))
              (fun '(l_err, l_fh, l_am) => Ret (l_am, None) : ctl unit (list t_MapRaw * option err))
        = conv_out_raw (maps_loop next f amv' sc')).
    { intros amv' E. rewrite <- E. apply IH. }
    destruct v; cbn [bindc negb non_nil];
      try (rewrite <- (Hnext (amv ++ [(_, raw)])); [rewrite ?app_nil_r; reflexivity|
           rewrite raws_of_app; reflexivity]).
    rewrite <- (Hnext amv); [rewrite ?app_nil_r; reflexivity|now rewrite app_nil_r].
  - destruct e; reflexivity.
Qed.

(* ------------------------------------------------------------------ the functions *)

(* what the two functions return, in terms of the model's loop: by cases on os.Stat and os.Open
   (files_model of PureG35 with the (Map, raw) pairs kept) *)
Definition files_model_raw (next : list rev -> option (res value * str * list rev))
    (open : str -> res (list rev)) (stat : str -> res bool) (name : str) : ctl unit (list t_MapRaw * option err) :=
  match stat name with
  | Panic => Crash
  | Err e => Ret ([], Some e)                       (* return nil, err *)
  | Ok false => Ret ([], Some EOther)               (* return nil, fmt.Errorf("file %s is not a regular file", name) *)
  | Ok true =>
      match open name with
      | Panic => Crash
      | Err e => Ret ([], Some e)                   (* return nil, err *)
      | Ok sc => conv_out_raw (maps_loop next (2 + length sc) [] sc)
      end
  end.

Theorem new_maps_from_json_file_raw_code_is_model : forall next callee open stat st name,
  (forall sc, callee sc = conv_next next sc) ->
  fn_NewMapsFromJsonFileRaw callee open stat st name = files_model_raw next open stat name.
Proof.
  intros next callee open stat st name Hc. unfold fn_NewMapsFromJsonFileRaw, files_model_raw.
  destruct (stat name) as [[|]|e|]; try reflexivity.
  destruct (open name) as [sc|e|]; try reflexivity.
  exact (file_loop_raw_is_model next callee Hc (2 + length sc) None sc []).
Qed.
Print Assumptions new_maps_from_json_file_raw_code_is_model.

Theorem new_maps_from_xml_file_raw_code_is_model : forall next callee open stat st name,
  (forall sc, callee sc [] = conv_next next sc) ->
  fn_NewMapsFromXmlFileRaw callee open stat st name = files_model_raw next open stat name.
Proof.
  intros next callee open stat st name Hc. unfold fn_NewMapsFromXmlFileRaw, files_model_raw.
  destruct (stat name) as [[|]|e|]; try reflexivity.
  destruct (open name) as [sc|e|]; try reflexivity.
  exact (file_loop_raw_is_model next (fun sc => callee sc []) Hc (2 + length sc) None sc []).
Qed.
Print Assumptions new_maps_from_xml_file_raw_code_is_model.

(* the two translated functions are the same function of their reader callee *)
Theorem xml_file_raw_code_is_json_file_raw_code : forall callee open stat st name,
  fn_NewMapsFromXmlFileRaw callee open stat st name = fn_NewMapsFromJsonFileRaw (fun sc => callee sc []) open stat st name.
Proof. reflexivity. Qed.
Print Assumptions xml_file_raw_code_is_json_file_raw_code.

(* ------------------------------------------------------------------ the model's readers over an *os.File *)

(* on a regular file that opens and holds the bytes X, the translated functions return what the model's
   new_maps_from_json_file_raw / new_maps_from_xml_file_raw return on X *)
Theorem new_maps_from_json_file_raw_code_on_file : forall nmj callee open stat st name X,
  (forall sc, callee sc = conv_next (new_map_json_reader_raw nmj) sc) ->
  stat name = Ok true -> open name = Ok (file_schedule X) ->
  fn_NewMapsFromJsonFileRaw callee open stat st name = conv_out_raw (new_maps_from_json_file_raw nmj X).
Proof.
  intros nmj callee open stat st name X Hc Hs Ho.
  rewrite (new_maps_from_json_file_raw_code_is_model _ callee open stat st name Hc).
  unfold files_model_raw. rewrite Hs, Ho, file_schedule_length. reflexivity.
Qed.
Print Assumptions new_maps_from_json_file_raw_code_on_file.

Theorem new_maps_from_xml_file_raw_code_on_file : forall (M : xmachine) callee open stat st name X,
  (forall sc, callee sc [] = conv_next (new_map_xml_reader_raw M) sc) ->
  stat name = Ok true -> open name = Ok (file_schedule X) ->
  fn_NewMapsFromXmlFileRaw callee open stat st name = conv_out_raw (new_maps_from_xml_file_raw M X).
Proof.
  intros M callee open stat st name X Hc Hs Ho.
  rewrite (new_maps_from_xml_file_raw_code_is_model _ callee open stat st name Hc).
  unfold files_model_raw. rewrite Hs, Ho, file_schedule_length. reflexivity.
Qed.
Print Assumptions new_maps_from_xml_file_raw_code_on_file.

(* ------------------------------------------------------------------ the non-raw functions: the Maps of the raw result *)

(* the result of a raw function with the raws dropped: the M fields of the structs, the same error *)
Definition strip_raw (x : ctl unit (list t_MapRaw * option err)) : ctl unit (list entries * option err) :=
  match x with
  | Ret (am, e) => Ret (map MapRaw_M am, e)
  | Next u => Next u
  | Fall => Fall
  | Crash => Crash
  | Brk u => Brk u
  end.

Lemma strip_conv_out_raw : forall r, strip_raw (conv_out_raw r) = conv_out (drop_raw r).
Proof.
  intros [[am [u|e|]]|]; cbn [conv_out_raw drop_raw conv_out strip_raw]; rewrite ?raws_of_maps; reflexivity.
Qed.

Theorem files_model_is_strip_raw : forall next open stat name,
  files_model next open stat name = strip_raw (files_model_raw next open stat name).
Proof.
  intros next open stat name. unfold files_model, files_model_raw.
  destruct (stat name) as [[|]|e|]; try reflexivity.
  destruct (open name) as [sc|e|]; try reflexivity.
  symmetry. apply strip_conv_out_raw.
Qed.
Print Assumptions files_model_is_strip_raw.

(* the loops, for ANY callee (no model involved): the non-raw loop collects the M fields of what the raw loop collects *)
Lemma file_loop_strip : forall c fuel e0 sc amr,
  bindc (for_loop fuel (file_body c) (sc, map MapRaw_M amr))
        (fun '(l_fh, l_am) => Ret (l_am, None) : ctl unit (list entries * option err))
  = strip_raw (bindc (for_loop fuel (file_body_raw c) (e0, sc, amr))
        (fun '(l_err, l_fh, l_am) => Ret (l_am, None) : ctl unit (list t_MapRaw * option err))).
Proof.
  intro c. induction fuel as [|f IH]; intros e0 sc amr; [reflexivity|].
  cbn [for_loop]. unfold file_body at 1, file_body_raw at 1.
  destruct (c sc) as [[[[m raw] e] sc']|]; [|reflexivity].
  destruct e as [e|].
  - destruct e; destruct m as [m|]; cbn [bindc negb strip_raw]; try reflexivity;
      rewrite ?map_app; reflexivity.
  - destruct m as [m|]; cbn [bindc negb].
    + rewrite <- (IH None sc' (amr ++ [mk_MapRaw m raw])). rewrite map_app. reflexivity.
    + apply IH.
Qed.

(* NewMapsFromJsonFile returns the Maps of what NewMapsFromJsonFileRaw returns, with the same error - for ANY reader
   callee and ANY behaviour of os.Stat / os.Open *)
Theorem json_file_code_is_strip_raw_code : forall callee open stat st name,
  fn_NewMapsFromJsonFile callee open stat st name = strip_raw (fn_NewMapsFromJsonFileRaw callee open stat st name).
Proof.
  intros callee open stat st name. unfold fn_NewMapsFromJsonFile, fn_NewMapsFromJsonFileRaw.
  destruct (stat name) as [[|]|e|]; try reflexivity.
  destruct (open name) as [sc|e|]; try reflexivity.
  exact (file_loop_strip callee (2 + length sc) None sc []).
Qed.
Print Assumptions json_file_code_is_strip_raw_code.

Theorem xml_file_code_is_strip_raw_code : forall callee open stat st name,
  fn_NewMapsFromXmlFile callee open stat st name = strip_raw (fn_NewMapsFromXmlFileRaw callee open stat st name).
Proof.
  intros callee open stat st name. unfold fn_NewMapsFromXmlFile, fn_NewMapsFromXmlFileRaw.
  destruct (stat name) as [[|]|e|]; try reflexivity.
  destruct (open name) as [sc|e|]; try reflexivity.
  exact (file_loop_strip (fun sc => callee sc []) (2 + length sc) None sc []).
Qed.
Print Assumptions xml_file_code_is_strip_raw_code.

(* in the form of a returned pair *)
Corollary json_file_raw_code_maps : forall callee open stat st name amr e,
  fn_NewMapsFromJsonFileRaw callee open stat st name = Ret (amr, e) ->
  fn_NewMapsFromJsonFile callee open stat st name = Ret (map MapRaw_M amr, e).
Proof. intros callee open stat st name amr e H. rewrite json_file_code_is_strip_raw_code, H. reflexivity. Qed.
Corollary xml_file_raw_code_maps : forall callee open stat st name amr e,
  fn_NewMapsFromXmlFileRaw callee open stat st name = Ret (amr, e) ->
  fn_NewMapsFromXmlFile callee open stat st name = Ret (map MapRaw_M amr, e).
Proof. intros callee open stat st name amr e H. rewrite xml_file_code_is_strip_raw_code, H. reflexivity. Qed.

(* ------------------------------------------------------------------ no Crash *)

Theorem files_model_raw_no_crash : forall next open stat name,
  next_total next -> next_safe next -> next_progress next ->
  stat name <> Panic -> open name <> Panic ->
  exists am e, files_model_raw next open stat name = Ret (am, e).
Proof.
  intros next open stat name Ht Hs Hp Hst Hop. unfold files_model_raw.
  destruct (stat name) as [[|]|e|]; [| |eexists; eexists; reflexivity|contradiction Hst; reflexivity];
    [|eexists; eexists; reflexivity].
  destruct (open name) as [sc|e|]; [|eexists; eexists; reflexivity|contradiction Hop; reflexivity].
  destruct (maps_loop next (2 + length sc) [] sc) as [[vs r]|] eqn:E;
    [|exfalso; revert E; apply (maps_loop_total next Ht Hp); lia].
  pose proof (maps_loop_no_panic next Hs _ _ _ _ E) as Hr. cbn [snd] in Hr.
  cbn [conv_out_raw]. destruct r as [u|e|]; [| |contradiction Hr; reflexivity]; eexists; eexists; reflexivity.
Qed.
Print Assumptions files_model_raw_no_crash.

(* the translated functions return (a slice, an error) - no panic, and the loop ends - whenever the reader function
   always answers without a panic and consumes input when it reports no error, and os.Stat / os.Open do not panic *)
Theorem new_maps_from_json_file_raw_code_no_crash : forall next callee open stat st name,
  (forall sc, callee sc = conv_next next sc) ->
  next_total next -> next_safe next -> next_progress next ->
  stat name <> Panic -> open name <> Panic ->
  exists am e, fn_NewMapsFromJsonFileRaw callee open stat st name = Ret (am, e).
Proof.
  intros next callee open stat st name Hc Ht Hs Hp Hst Hop.
  rewrite (new_maps_from_json_file_raw_code_is_model next callee open stat st name Hc).
  now apply files_model_raw_no_crash.
Qed.
Print Assumptions new_maps_from_json_file_raw_code_no_crash.

Theorem new_maps_from_xml_file_raw_code_no_crash : forall next callee open stat st name,
  (forall sc, callee sc [] = conv_next next sc) ->
  next_total next -> next_safe next -> next_progress next ->
  stat name <> Panic -> open name <> Panic ->
  exists am e, fn_NewMapsFromXmlFileRaw callee open stat st name = Ret (am, e).
Proof.
  intros next callee open stat st name Hc Ht Hs Hp Hst Hop.
  rewrite (new_maps_from_xml_file_raw_code_is_model next callee open stat st name Hc).
  now apply files_model_raw_no_crash.
Qed.
Print Assumptions new_maps_from_xml_file_raw_code_no_crash.

(* NewMapsFromJsonFileRaw with the model's NewMapJsonReaderRaw (getJson of json.go over the file, then NewMapJson = nmj):
   a result for every file name, file content and behaviour of os.Stat / os.Open, provided NewMapJson does not panic *)
Theorem json_file_raw_code_no_crash : forall nmj callee open stat st name,
  (forall sc, callee sc = conv_next (new_map_json_reader_raw nmj) sc) ->
  (forall b, nmj b <> Panic) -> stat name <> Panic -> open name <> Panic ->
  exists am e, fn_NewMapsFromJsonFileRaw callee open stat st name = Ret (am, e).
Proof.
  intros nmj callee open stat st name Hc Hn Hst Hop.
  apply (new_maps_from_json_file_raw_code_no_crash (new_map_json_reader_raw nmj)); try assumption.
  - apply json_next_total.
  - intros sc r raw sc' E. apply (json_reader_raw_no_panic nmj sc r raw sc' Hn E).
  - apply json_next_progress.
Qed.
Print Assumptions json_file_raw_code_no_crash.

(* NewMapsFromXmlFileRaw with the model's NewMapXmlReaderRaw over a decoder M that never answers Panic and answers a
   ReadByte error with an error (encoding/xml: io.EOF / a syntax error) *)
Theorem xml_file_raw_code_no_crash : forall (M : xmachine) callee open stat st name,
  (forall sc, callee sc [] = conv_next (new_map_xml_reader_raw M) sc) ->
  machine_safe M -> eof_is_error M -> stat name <> Panic -> open name <> Panic ->
  exists am e, fn_NewMapsFromXmlFileRaw callee open stat st name = Ret (am, e).
Proof.
  intros M callee open stat st name Hc Hm He Hst Hop.
  apply (new_maps_from_xml_file_raw_code_no_crash (new_map_xml_reader_raw M)); try assumption.
  - apply xml_next_total.
  - apply xml_next_raw_safe, Hm.
  - apply xml_next_progress, He.
Qed.
Print Assumptions xml_file_raw_code_no_crash.

(* ------------------------------------------------------------------ files of documents (C13's streams), on the translated code *)

Lemma raws_of_doc_val (M : xmachine) d raw l : is_okmap (decode_doc M d) = true ->
  raws_of ((doc_val M d, raw) :: l) = mk_MapRaw (doc_map M d) raw :: raws_of l.
Proof. intro H. unfold doc_val, doc_map. destruct (okmap_ok _ H) as [m ->]. reflexivity. Qed.
Lemma raws_of_jdoc_val eh nmj m raw l : is_okmap (nmj (Json.marshal eh (VMap m))) = true ->
  raws_of ((jdoc_val eh nmj m, raw) :: l) = mk_MapRaw (jdoc_map nmj (Json.marshal eh (VMap m))) raw :: raws_of l.
Proof. intro H. unfold jdoc_val, jdoc_map. destruct (okmap_ok _ H) as [mm ->]. reflexivity. Qed.

(* an XML file of documents, blanks before each and after the last one: for every document its Map and, as raw, the
   blanks before it followed by its text - in order - and a nil error *)
Theorem xml_file_raw_code_stream : forall (M : xmachine) ds tail callee open stat st name,
  (forall sc, callee sc [] = conv_next (new_map_xml_reader_raw M) sc) ->
  docs_ok M ds -> eof_on_blanks M -> blank tail = true ->
  stat name = Ok true -> open name = Ok (file_schedule (stream ds tail)) ->
  fn_NewMapsFromXmlFileRaw callee open stat st name
  = Ret (map (fun wd => mk_MapRaw (doc_map M (snd wd)) (fst wd ++ snd wd)) ds, None).
Proof.
  intros M ds tail callee open stat st name Hc Hd He Ht Hs Ho.
  rewrite (new_maps_from_xml_file_raw_code_on_file M callee open stat st name _ Hc Hs Ho).
  rewrite (maps_from_xml_file_raw_stream M ds tail Hd He Ht).
  cbn [conv_out_raw]. unfold xml_docs. f_equal. f_equal.
  clear Ho. induction Hd as [|[w d] ds (_ & _ & Hok) _ IH]; [reflexivity|].
  cbn [map snd fst] in *. rewrite (raws_of_doc_val M d _ _ Hok). now rewrite IH.
Qed.
Print Assumptions xml_file_raw_code_stream.

(* a JSON file of the texts encoding/json writes for ANY Maps of JSON types, blanks before each and after the last one:
   for every document its Map and, as raw, its text (getJson skips the blanks before it) *)
Theorem json_file_raw_code_stream : forall eh nmj ds tail callee open stat st name,
  (forall sc, callee sc = conv_next (new_map_json_reader_raw nmj) sc) ->
  jdocs_ok eh nmj ds -> blank tail = true ->
  stat name = Ok true -> open name = Ok (file_schedule (jstream eh ds tail)) ->
  fn_NewMapsFromJsonFileRaw callee open stat st name
  = Ret (map (fun wm => mk_MapRaw (jdoc_map nmj (Json.marshal eh (VMap (snd wm)))) (Json.marshal eh (VMap (snd wm)))) ds, None).
Proof.
  intros eh nmj ds tail callee open stat st name Hc Hd Ht Hs Ho.
  rewrite (new_maps_from_json_file_raw_code_on_file nmj callee open stat st name _ Hc Hs Ho).
  rewrite (maps_from_json_file_raw_stream eh nmj ds tail Hd Ht).
  cbn [conv_out_raw]. unfold json_docs. f_equal. f_equal.
  clear Ho. induction Hd as [|[w m] ds (_ & _ & Hok) _ IH]; [reflexivity|].
  cbn [map snd] in *. rewrite (raws_of_jdoc_val eh nmj m _ _ Hok). now rewrite IH.
Qed.
Print Assumptions json_file_raw_code_stream.

(* ------------------------------------------------------------------ nothing is lost in raws_of *)

(* for a reader function that returns Maps (next_maps of PureG35) the result of the translated code determines the
   model's: the structs are the model's (value, raw) pairs *)
Theorem files_model_raw_exact : forall next open stat name sc am e,
  next_maps next -> stat name = Ok true -> open name = Ok sc ->
  files_model_raw next open stat name = Ret (am, e) ->
  maps_loop next (2 + length sc) [] sc = Some (map pair_of am, match e with None => Ok tt | Some e' => Err e' end).
Proof.
  intros next open stat name sc am e Hm Hs Ho. unfold files_model_raw. rewrite Hs, Ho.
  destruct (maps_loop next (2 + length sc) [] sc) as [[vs r]|] eqn:E; [|discriminate].
  pose proof (maps_loop_all_maps next Hm _ [] _ _ (Forall_nil _) E) as Ha. cbn [fst] in Ha.
  cbn [conv_out_raw]. destruct r as [[]|e'|]; intro H; [| |discriminate H];
    injection H as <- <-; now rewrite (raws_of_exact _ Ha).
Qed.
Print Assumptions files_model_raw_exact.

(* ------------------------------------------------------------------ non-vacuity: the translated code run on small files *)

(* two JSON documents and a blank between them (the raw of a document is its text, without the blank); a stray closing
   brace after the first document: the struct read so far together with the error; Stat fails / not a regular file /
   Open fails: a nil slice and the error *)
Example json_file_raw_code_runs :
  fn_NewMapsFromJsonFileRaw (conv_next (new_map_json_reader_raw ex_nmj)) (ex_env (s "{""a"":1} {""b"":2}")) ex_regular gstate0 (s "f")
    = Ret ([mk_MapRaw [(s "json", VStr (s "{""a"":1}"))] (s "{""a"":1}");
            mk_MapRaw [(s "json", VStr (s "{""b"":2}"))] (s "{""b"":2}")], None) /\
  fn_NewMapsFromJsonFileRaw (conv_next (new_map_json_reader_raw ex_nmj)) (ex_env (s "{""a"":1}} {""b"":2}")) ex_regular gstate0 (s "f")
    = Ret ([mk_MapRaw [(s "json", VStr (s "{""a"":1}"))] (s "{""a"":1}")], Some EOther) /\
  fn_NewMapsFromJsonFileRaw (conv_next (new_map_json_reader_raw ex_nmj)) (ex_env (s "{""a"":")) ex_regular gstate0 (s "f")
    = Ret ([], Some EOther) /\
  fn_NewMapsFromJsonFileRaw (conv_next (new_map_json_reader_raw ex_nmj)) (ex_env []) (fun _ => Err ENoRoot) gstate0 (s "f")
    = Ret ([], Some ENoRoot) /\
  fn_NewMapsFromJsonFileRaw (conv_next (new_map_json_reader_raw ex_nmj)) (ex_env []) (fun _ => Ok false) gstate0 (s "f")
    = Ret ([], Some EOther) /\
  fn_NewMapsFromJsonFileRaw (conv_next (new_map_json_reader_raw ex_nmj)) (fun _ => Err ENoRoot) ex_regular gstate0 (s "f")
    = Ret ([], Some ENoRoot).
Proof. repeat split; vm_compute; reflexivity. Qed.

(* the toy decoder of Proofs/C13Top.v: <name> is a document; the raw of the second document has the blank before it *)
Example xml_file_raw_code_runs :
  fn_NewMapsFromXmlFileRaw (fun sc _ => conv_next (new_map_xml_reader_raw toy) sc) (ex_env (s "<a> <b>")) ex_regular gstate0 (s "f")
    = Ret ([mk_MapRaw [(s "a", VStr [])] (s "<a>"); mk_MapRaw [(s "b", VStr [])] (s " <b>")], None) /\
  fn_NewMapsFromXmlFileRaw (fun sc _ => conv_next (new_map_xml_reader_raw toy) sc) (ex_env (s "<a> <b")) ex_regular gstate0 (s "f")
    = Ret ([mk_MapRaw [(s "a", VStr [])] (s "<a>")], Some EOther).
Proof. repeat split; vm_compute; reflexivity. Qed.

(* the hypothesis eof_is_error of xml_file_raw_code_no_crash is needed (never_eof of PureG35: the Go loop never ends) *)
Example xml_file_raw_code_needs_eof_error :
  machine_safe never_eof /\
  fn_NewMapsFromXmlFileRaw (fun sc _ => conv_next (new_map_xml_reader_raw never_eof) sc) (ex_env (s "<a>")) ex_regular gstate0 (s "f") = Crash /\
  new_maps_from_xml_file_raw never_eof (s "<a>") = None.
Proof. split; [repeat split; intros; discriminate|]. split; vm_compute; reflexivity. Qed.

(* ------------------------------------------------------------------ tie to Model/Files.v, the model of the C19 theorems *)

From Mxj Require Import Spec.JsonFilesSpec Model.Json Proofs.C13Json Proofs.C19P Proofs.C19ReadsAgree Proofs.C19ReadsDoc.

Definition ctl_class_raw (x : ctl unit (list t_MapRaw * option err)) : option (list t_MapRaw * bool) :=
  match x with
  | Ret (am, e) => Some (am, match e with Some _ => true | None => false end)
  | _ => None
  end.
Definition fr_class_raw (r : file_res mapraw) : option (list t_MapRaw * bool) :=
  match r with FR _ am e => Some (raws_of am, e) | _ => None end.

(* NewMapsFromJsonFileRaw as translated, around the model's NewMapJsonReaderRaw (getJson, then NewMapJson over a decoder
   json_dec), on a regular file that opens and holds the bytes b: the structs and whether there is an error are what the
   C19 theorems' read_all ... keep_raw returns on b (Model/Files.v).  The proviso is that of C19_reader_models_agree. *)
Theorem json_file_raw_code_is_files_model : forall json_dec callee open stat st name b,
  (forall j, json_dec j <> Err EEOF) ->
  (forall sc, callee sc = conv_next (Reader.new_map_json_reader_raw (Files.new_map_json json_dec)) sc) ->
  stat name = Ok true -> open name = Ok (file_schedule b) ->
  ctl_class_raw (fn_NewMapsFromJsonFileRaw callee open stat st name)
  = fr_class_raw (read_all (json_reader_raw json_dec) keep_raw b).
Proof.
  intros dec callee open stat st name b Hd Hc Hs Ho.
  rewrite (new_maps_from_json_file_raw_code_on_file _ callee open stat st name b Hc Hs Ho).
  unfold new_maps_from_json_file_raw, Reader.maps_from_file.
  set (next := Reader.new_map_json_reader_raw (Files.new_map_json dec)).
  assert (Hsim : simulates next (json_reader_raw dec)) by (intro b0; apply (readers_agree dec b0 Hd)).
  destruct (maps_loop next (S (length b)) [] (file_schedule b)) as [out|] eqn:E.
  2:{ exfalso. revert E. apply (maps_loop_total next (json_next_total _) (json_next_progress _)).
      rewrite file_schedule_length. lia. }
  change (2 + length b) with (S (S (length b))). rewrite (maps_loop_mono next _ _ _ _ E).
  unfold read_all, Files.maps_from_file, file_fuel.
  pose proof (read_loop_is_maps_loop next (json_reader_raw dec) Hsim (S (length b)) b []) as L.
  unfold mapraw, bytes in *. rewrite E in L.
  destruct out as [vs r].
  match type of L with loop_class ?x = _ => destruct x as [am|am| |] end;
    destruct r as [u|e|]; cbn [loop_class model_class] in L; try discriminate L; try (injection L as <-); reflexivity.
Qed.
Print Assumptions json_file_raw_code_is_files_model.

(* ... and so the round trip of C19 holds of the translated raw reader: on the file that is the concatenation of the
   texts of ANY Maps of JSON types (Model/Json.v marshal) it returns, in order, their decodings with their texts as raw,
   and a nil error *)
Theorem json_file_raw_code_roundtrip : forall json_dec eh (dec : entries -> entries) ms callee open stat st name,
  (forall j, json_dec j <> Err EEOF) ->
  (forall sc, callee sc = conv_next (Reader.new_map_json_reader_raw (Files.new_map_json json_dec)) sc) ->
  Forall (fun m => scan_safe (VMap m) = true /\ json_dec (marshal eh (VMap m)) = Ok (VMap (dec m))) ms ->
  stat name = Ok true -> open name = Ok (file_schedule (concat (map (fun m => marshal eh (VMap m)) ms))) ->
  fn_NewMapsFromJsonFileRaw callee open stat st name
  = Ret (map (fun m => mk_MapRaw (dec m) (marshal eh (VMap m))) ms, None).
Proof.
  intros json_dec eh dec ms callee open stat st name Hd Hc Hms Hs Ho.
  pose proof (json_file_raw_code_is_files_model json_dec callee open stat st name _ Hd Hc Hs Ho) as H.
  destruct (json_file_roundtrip json_dec eh dec ms Hms) as [R _]. rewrite R in H. cbn [fr_class_raw] in H.
  rewrite (raws_of_vmaps dec (fun m => jtext eh m)) in H.
  destruct (fn_NewMapsFromJsonFileRaw callee open stat st name) as [[am [e|]]| | | |]; try discriminate H.
  injection H as ->. reflexivity.
Qed.
Print Assumptions json_file_raw_code_roundtrip.
