(* mapToXmlSeqIndent (xmlseq.go:609-905, the encoder behind MapSeq.Xml / XmlIndent / BeautifyXml), elemListSeq.Less
   (xmlseq.go:926-950) and pretty.Indent / Outdent (xml.go:1018-1028) as go2v translated them from /repo's CURRENT sources
   (Gen/Pure_gen.v: fn_mapToXmlSeqIndent, fn_elemListSeq_Less, fn_Indent, fn_Outdent) against the model of Model/SeqEnc.v
   (senc / semit, seq_num, isort), COMPACT mode (doIndent = false) only.

   Method (GenProofs/PureG6.v, PureG9.v, PureG15.v): the three parts of the translated function (the start-tag prefix, the
   type switch, the closing switch) are taken out of the translated function itself by Ltac, the recursive occurrence
   abstracted as [rec]; loops are computed by generic lemmas on range_loop whose hypotheses describe one iteration; the
   outer induction is on the fuel, which is above the depth of the value (vd of GenProofs/PureG3.v).

   Theorems: less_code_is_model / less_code_out_of_range (fn_elemListSeq_Less), indent_code / outdent_code / outdent_after_indent /
   outdent_no_panic (fn_Indent, fn_Outdent); senc_code_conv (every outcome of the model against the translated encoder),
   senc_code_is_model (Ok: the bytes of semit appended, nil error, pp untouched), senc_code_error (Err: an error is returned),
   senc_code_panic (Panic: Crash), senc_code_marshal_arm (what the xml.Marshal arm, outside the model, does);
   run_sort_is_model (insertion sort over the translated Less = the model's isort), senc_code_is_model_translated /
   senc_code_error_translated / senc_code_no_panic (with the translated escapeChars and Less as callees);
   senc_code_is_model_without_text_ok_refuted (the side condition text_ok is needed).
   Side conditions: text_ok (no map has a map / list as its #text member: %v of a container is modelled by neither side) and,
   for the error case only, no_marshal (no uint64 / json.Number: the xml.Marshal arm is outside Model/SeqEnc.v). *)
From Coq Require Import Lia.
From Mxj Require Import Gen.GenSupport Gen.Setters_gen Gen.PureSupport Gen.Pure_gen Model.SeqEnc.
From Mxj Require Import GenProofs.PureG GenProofs.PureG3 GenProofs.PureG14 GenProofs.PureG15.

(* ------------------------------------------------------------------ 1. elemListSeq.Less, pretty.Indent / Outdent *)

(* iseq of Less as the code computes it *)
Lemma less_iseq o st v : seqK o = g_seqK st ->
  (let '(l_im, _) := match v with VMap m => (m, true) | _ => (([] : entries), false) end in
   let '(l_iseq, l_ok) := match (match lookup (g_seqK st) l_im with Some v_ => v_ | None => VNil end) with VInt z => (z, true) | _ => (0%Z, false) end in
   if l_ok then l_iseq
   else let '(l_f, l_ok) := match (match lookup (g_seqK st) l_im with Some v_ => v_ | None => VNil end) with VFlt f => (f, true) | _ => ((s "0"), false) end in
        if l_ok then go_flt_to_int l_f else 9999999%Z) = seq_num o v.
Proof.
  intros Hs. unfold seq_num. rewrite Hs.
  destruct v as [x|b| |z|z|z|f|x|m|l]; try reflexivity.
  destruct (lookup (g_seqK st) m) as [[x|b| |z|z|z|f|x|m'|l]|]; reflexivity.
Qed.

(* Less(i, j) = iseq <= jseq with the model's sequence numbers; an index out of range is the only panic *)
Theorem less_code_is_model : forall o st e i j ei ej, seqK o = g_seqK st ->
  (0 <= i)%Z -> (0 <= j)%Z -> nth_error e (Z.to_nat i) = Some ei -> nth_error e (Z.to_nat j) = Some ej ->
  fn_elemListSeq_Less st e i j = Ret (Z.leb (seq_num o (keyval_v ei)) (seq_num o (keyval_v ej))).
Proof.
  intros o st e i j ei ej Hs Hi Hj Ei Ej. unfold fn_elemListSeq_Less. cbv zeta.
  replace (Z.ltb i 0) with false by (symmetry; apply Z.ltb_ge; lia).
  replace (Z.ltb j 0) with false by (symmetry; apply Z.ltb_ge; lia).
  rewrite Ei, Ej.
  rewrite <- (less_iseq o st (keyval_v ei) Hs), <- (less_iseq o st (keyval_v ej) Hs).
  destruct (keyval_v ei) as [x|b| |z|z|z|f|x|m|l]; destruct (keyval_v ej) as [x'|b'| |z'|z'|z'|f'|x'|m'|l']; try reflexivity;
    try (destruct (lookup (g_seqK st) m') as [[x2|b2| |z2|z2|z2|f2|x2|m2|l2]|]; reflexivity);
    try (destruct (lookup (g_seqK st) m) as [[x2|b2| |z2|z2|z2|f2|x2|m2|l2]|]; reflexivity).
  destruct (lookup (g_seqK st) m) as [[x2|b2| |z2|z2|z2|f2|x2|m2|l2]|];
    destruct (lookup (g_seqK st) m') as [[x3|b3| |z3|z3|z3|f3|x3|m3|l3]|]; reflexivity.
Qed.

Theorem less_code_out_of_range : forall st e i j,
  (i < 0 \/ Z.of_nat (length e) <= i \/ j < 0 \/ Z.of_nat (length e) <= j)%Z -> fn_elemListSeq_Less st e i j = Crash.
Proof.
  intros st e i j H. unfold fn_elemListSeq_Less. cbv zeta.
  destruct (Z.ltb_spec i 0) as [Hi|Hi]; [reflexivity|].
  destruct (nth_error e (Z.to_nat i)) as [ei|] eqn:Ei; [|reflexivity].
  assert (Hli : (i < Z.of_nat (length e))%Z) by (assert (Z.to_nat i < length e) by (apply nth_error_Some; congruence); lia).
  destruct (keyval_v ei) as [x|b| |z|z|z|f|x|m|l];
    (destruct (Z.ltb_spec j 0) as [Hj|Hj]; [reflexivity|]);
    (destruct (nth_error e (Z.to_nat j)) as [ej|] eqn:Ej; [|reflexivity]);
    (assert (Z.to_nat j < length e) by (apply nth_error_Some; congruence); lia).
Qed.

(* p.Indent(): the padding grows by one indent, the count by one *)
Theorem indent_code : forall st i c p d e, fn_Indent st i c p d e = Ret (i, (c + 1)%Z, p ++ i, d, e).
Proof. reflexivity. Qed.

(* p.Outdent(): nothing when cnt <= 0; otherwise the last len(indent) bytes of the padding go and the count drops; the slice
   expression p.padding[:len(p.padding)-len(p.indent)] panics exactly when the padding is shorter than the indent *)
Theorem outdent_code : forall st i c p d e,
  fn_Outdent st i c p d e =
  if Z.gtb c 0
  then if Nat.ltb (length p) (length i) then Crash
       else Ret (i, (c - 1)%Z, firstn (length p - length i) p, d, e)
  else Ret (i, c, p, d, e).
Proof.
  intros st i c p d e. unfold fn_Outdent. destruct (Z.gtb c 0); [|reflexivity].
  cbn [orb Z.ltb Z.compare skipn Z.to_nat]. rewrite Z.sub_0_r.
  destruct (Nat.ltb_spec (length p) (length i)) as [H|H].
  - replace (Z.ltb (Z.of_nat (length p) - Z.of_nat (length i)) 0) with true by (symmetry; apply Z.ltb_lt; lia). reflexivity.
  - replace (Z.ltb (Z.of_nat (length p) - Z.of_nat (length i)) 0) with false by (symmetry; apply Z.ltb_ge; lia).
    replace (Z.ltb (Z.of_nat (length p)) (Z.of_nat (length p) - Z.of_nat (length i))) with false by (symmetry; apply Z.ltb_ge; lia).
    cbn [orb]. replace (Z.to_nat (Z.of_nat (length p) - Z.of_nat (length i))) with (length p - length i) by lia. reflexivity.
Qed.

(* after a matching Indent, Outdent restores the padding and the count and never panics *)
Theorem outdent_after_indent : forall st i c p d e, (0 <= c)%Z ->
  bindr (fn_Indent st i c p d e) (fun '(i', c', p', d', e') => fn_Outdent st i' c' p' d' e') = Ret (S := unit) (i, c, p, d, e).
Proof.
  intros st i c p d e Hc. rewrite indent_code. cbn [bindr]. rewrite outdent_code.
  replace (Z.gtb (c + 1) 0) with true by (symmetry; apply Z.gtb_lt; lia).
  rewrite app_length. replace (Nat.ltb (length p + length i) (length i)) with false by (symmetry; apply Nat.ltb_ge; lia).
  replace (length p + length i - length i) with (length p) by lia.
  rewrite firstn_app, firstn_all, Nat.sub_diag. cbn [firstn]. rewrite app_nil_r.
  replace (c + 1 - 1)%Z with c by lia. reflexivity.
Qed.

(* Outdent never panics when the padding ends with the indent *)
Theorem outdent_no_panic : forall st i c p0 d e, fn_Outdent st i c (p0 ++ i) d e <> Crash.
Proof.
  intros st i c p0 d e. rewrite outdent_code. destruct (Z.gtb c 0); [|discriminate].
  rewrite app_length. replace (Nat.ltb (length p0 + length i) (length i)) with false by (symmetry; apply Nat.ltb_ge; lia).
  discriminate.
Qed.

(* ------------------------------------------------------------------ 2. the pieces of fn_mapToXmlSeqIndent *)

Notation pty := (str * Z * str * Z * Z)%type.
Notation me_res := (option err * (str * str * Z * str * Z * Z))%type.
(* sb, noEndTag, ss, endTag, elen, isSimple, p.mapDepth, p.indent, p.cnt, p.padding, p.start, the five fields of pp *)
Notation me_state := (str * bool * str * bool * Z * bool * Z * str * Z * str * Z * str * Z * str * Z * Z)%type.
Notation me_rec := (gstate -> bool -> str -> str -> value -> str -> Z -> str -> Z -> Z -> ctl unit me_res).

Section Parts.
Variable esc : str -> str.
Variable ind outd : str -> Z -> str -> Z -> Z -> pty.
Variable srt : list t_keyval -> list t_keyval.
Variable mar : value -> res str.
Variable mari : value -> str -> str -> res str.

(* the first type switch: "<key" unless the key is one of the three special keys *)
Definition me_head (st : gstate) (sb key : str) (v : value) : ctl str me_res :=
  ltac:(let t := eval cbv beta iota zeta delta [fn_mapToXmlSeqIndent] in
                 (fn_mapToXmlSeqIndent esc ind outd srt mar mari (S O) st false sb key v [] 0%Z [] 0%Z 0%Z) in
        match t with bindc ?h _ => exact h end).

(* the second type switch, with the function's own fixpoint inside *)
Definition me_mid_f (f : nat) (st : gstate) (key : str) (v : value) (i : str) (c : Z) (p : str) (d e : Z) (sb : str)
  : ctl me_state me_res :=
  ltac:(let t := eval cbv beta iota zeta delta [fn_mapToXmlSeqIndent] in
                 (fn_mapToXmlSeqIndent esc ind outd srt mar mari (S f) st false [] key v i c p d e) in
        match t with bindc _ ?k1 =>
          let t2 := eval cbv beta in (k1 sb) in
          match t2 with bindc ?m _ => exact m end
        end).

(* the closing switch and the return *)
Definition me_close (st : gstate) (key : str) (v : value) : me_state -> ctl unit me_res :=
  ltac:(let t := eval cbv beta iota zeta delta [fn_mapToXmlSeqIndent] in
                 (fn_mapToXmlSeqIndent esc ind outd srt mar mari (S O) st false [] key v [] 0%Z [] 0%Z 0%Z) in
        match t with bindc _ ?k1 =>
          let t2 := eval cbv beta in (k1 (@nil ascii)) in
          match t2 with bindc _ ?k => exact k end
        end).

(* the second type switch with the recursive occurrence abstracted *)
Definition me_mid (rec : me_rec) (st : gstate) (key : str) (v : value) (i : str) (c : Z) (p : str) (d e : Z) (sb : str)
  : ctl me_state me_res :=
  ltac:(let F := eval cbv beta iota zeta delta [fn_mapToXmlSeqIndent] in (fn_mapToXmlSeqIndent esc ind outd srt mar mari) in
        let b := eval cbv beta iota zeta delta [me_mid_f fn_mapToXmlSeqIndent] in (fun f => me_mid_f f st key v i c p d e sb) in
        let b' := eval pattern F in b in
        match b' with ?g _ => let r := eval cbv beta in (g (fun _ : nat => rec) O) in exact r end).

(* the case of a map *)
Definition me_map (rec : me_rec) (st : gstate) (key : str) (val : entries) (i : str) (c : Z) (p : str) (d e : Z) (sb : str)
  : ctl me_state me_res :=
  ltac:(let t := eval cbv beta iota delta [me_mid] in (me_mid rec st key (VMap val) i c p d e sb) in exact t).

(* the case of a list *)
Definition me_list (rec : me_rec) (st : gstate) (key : str) (l : list value) (i : str) (c : Z) (p : str) (d e : Z) (sb : str)
  : ctl me_state me_res :=
  ltac:(let t := eval cbv beta iota delta [me_mid] in (me_mid rec st key (VList l) i c p d e sb) in exact t).

Lemma me_unfold f st sb key v i c p d e :
  fn_mapToXmlSeqIndent esc ind outd srt mar mari (S f) st false sb key v i c p d e =
  bindc (me_head st sb key v)
    (fun sb' => bindc (me_mid (fn_mapToXmlSeqIndent esc ind outd srt mar mari f) st key v i c p d e sb') (me_close st key v)).
Proof. reflexivity. Qed.

Lemma me_mid_map rec st key val i c p d e sb : me_mid rec st key (VMap val) i c p d e sb = me_map rec st key val i c p d e sb.
Proof. reflexivity. Qed.
Lemma me_mid_list rec st key l i c p d e sb : me_mid rec st key (VList l) i c p d e sb = me_list rec st key l i c p d e sb.
Proof. reflexivity. Qed.

(* the case of a map whose key is none of the three special keys: the join after the three tests *)
Definition me_elem (rec : me_rec) (st : gstate) (key : str) (val : entries) (i : str) (c : Z) (p : str) (d e : Z)
  : (str * bool + ctl me_state me_res) -> ctl me_state me_res :=
  ltac:(let t := eval cbv beta iota delta [me_map] in (me_map rec st key val i c p d e []) in
        match t with bindc _ ?k1 =>
          let t2 := eval cbv beta iota in (k1 (inl (@nil ascii, false))) in
          match t2 with bindc _ ?k2 =>
            let t3 := eval cbv beta iota in (k2 (inl (@nil ascii, false))) in
            match t3 with bindc _ ?k3 => exact k3 end
          end
        end).

Definition str_of (v : option value) : option str := match v with Some (VStr x) => Some x | _ => None end.

Lemma me_map_eq rec st key val i c p d e sb :
  me_map rec st key val i c p d e sb =
  if str_eqb key (g_commentK st)
  then match str_of (lookup (g_textK st) val) with
       | Some x => Next (((sb ++ s "<!--") ++ x) ++ s "-->", true, [], false, 0%Z, false, d, i, c, p, e, i, c, p, d, e)
       | None => Crash
       end
  else if str_eqb key (g_directiveK st)
  then match str_of (lookup (g_textK st) val) with
       | Some x => Next (((sb ++ s "<!") ++ x) ++ s ">", true, [], false, 0%Z, false, d, i, c, p, e, i, c, p, d, e)
       | None => Crash
       end
  else if str_eqb key (g_procinstK st)
  then match str_of (lookup (g_targetK st) val), str_of (lookup (g_instK st) val) with
       | Some x, Some y => Next (((((sb ++ s "<?") ++ x) ++ s " ") ++ y) ++ s "?>", true, [], false, 0%Z, false, d, i, c, p, e, i, c, p, d, e)
       | _, _ => Crash
       end
  else me_elem rec st key val i c p d e (inl (sb, false)).
Proof.
  unfold me_map, me_elem.
  destruct (str_eqb key (g_commentK st)).
  { destruct (lookup (g_textK st) val) as [[]|]; reflexivity. }
  destruct (str_eqb key (g_directiveK st)).
  { destruct (lookup (g_textK st) val) as [[]|]; reflexivity. }
  destruct (str_eqb key (g_procinstK st)).
  { destruct (lookup (g_targetK st) val) as [[]|]; try reflexivity; destruct (lookup (g_instK st) val) as [[]|]; reflexivity. }
  reflexivity.
Qed.

Lemma me_unfold_list f st sb key l i c p d e :
  fn_mapToXmlSeqIndent esc ind outd srt mar mari (S f) st false sb key (VList l) i c p d e =
  bindc (me_list (fn_mapToXmlSeqIndent esc ind outd srt mar mari f) st key l i c p d e sb) (me_close st key (VList l)).
Proof. reflexivity. Qed.

Lemma me_unfold_map f st sb key val i c p d e :
  fn_mapToXmlSeqIndent esc ind outd srt mar mari (S f) st false sb key (VMap val) i c p d e =
  bindc (me_map (fn_mapToXmlSeqIndent esc ind outd srt mar mari f) st key val i c p d e
           (if negb (str_eqb key (g_commentK st)) && negb (str_eqb key (g_directiveK st)) && negb (str_eqb key (g_procinstK st))
            then (sb ++ s "<") ++ key else sb))
        (me_close st key (VMap val)).
Proof.
  rewrite me_unfold. unfold me_head. cbn [bindc].
  destruct (str_eqb key (g_commentK st)), (str_eqb key (g_directiveK st)), (str_eqb key (g_procinstK st)); reflexivity.
Qed.

(* what the closing switch writes *)
Definition is_tagged (v : value) : bool :=
  match v with VNil | VU64 _ | VJNum _ | VList _ => false | _ => true end.
Definition close_text (st : gstate) (key : str) (v : value) (noEndTag endTag : bool) (elen : Z) : str :=
  if noEndTag then []
  else if endTag
       then if is_tagged v
            then if Z.gtb elen 0 then s "</" ++ key ++ s ">"
                 else if g_useGoXmlEmptyElemSyntax st then s "></" ++ key ++ s ">" else s "/>"
            else []
       else if g_useGoXmlEmptyElemSyntax st then s "></" ++ key ++ s ">" else s "/>".

Lemma me_close_eq st key v sb noEnd ss endTag elen isSimple d' i' c' p' e' i c p d e : (0 <= elen)%Z ->
  me_close st key v (sb, noEnd, ss, endTag, elen, isSimple, d', i', c', p', e', i, c, p, d, e)
  = Ret (None, (sb ++ close_text st key v noEnd endTag elen, i, c, p, d, e)).
Proof.
  intros Hel. unfold me_close, close_text. cbv beta iota.
  destruct noEnd, endTag; cbn [bindc]; rewrite ?app_nil_r; try reflexivity.
  - destruct v; cbn [is_tagged bindc]; rewrite ?app_nil_r; try reflexivity;
      (destruct (Z.gtb_spec elen 0) as [Hg|Hg];
       [ replace (Z.eqb elen 0) with false by (symmetry; apply Z.eqb_neq; lia); cbn [bindc]; rewrite <- !app_assoc; reflexivity
       | destruct (g_useGoXmlEmptyElemSyntax st); [|reflexivity];
         replace (Z.eqb elen 0) with true by (symmetry; apply Z.eqb_eq; lia); cbn [bindc]; rewrite <- !app_assoc; reflexivity ]).
  - destruct (g_useGoXmlEmptyElemSyntax st); cbn [bindc]; rewrite <- ?app_assoc; reflexivity.
Qed.
End Parts.

(* ------------------------------------------------------------------ 3. the correspondence with Model/SeqEnc.v *)

(* the package state agrees with the model's option record on what mapToXmlSeqIndent reads *)
Definition senc_view (st : gstate) (o : opts) : Prop :=
  xmlEscapeChars o = g_xmlEscapeChars st /\ useGoXmlEmptyElemSyntax o = g_useGoXmlEmptyElemSyntax st /\
  textK o = g_textK st /\ seqK o = g_seqK st /\ attrK o = g_attrK st /\ commentK o = g_commentK st /\
  directiveK o = g_directiveK st /\ procinstK o = g_procinstK st /\ targetK o = g_targetK st /\ instK o = g_instK st.

Definition me_conv (nm : Prop) (sb : str) (i : str) (c : Z) (p : str) (d e : Z) (r : res (list sitem)) (x : ctl unit me_res) : Prop :=
  match r with
  | Ok its => x = Ret (None, (sb ++ semit its, i, c, p, d, e))
  | Err _ => nm -> exists sb', x = Ret (Some EOther, (sb', i, c, p, d, e))
  | Panic => x = Crash
  end.

(* no map in the value has a map or a list as its #text member (fmt.Sprintf("%v") of a container is modelled by neither side:
   the translation guards it with Crash, Base/Fmt.v prints "?"); the decoder never produces one *)
Fixpoint text_ok (o : opts) (v : value) : bool :=
  match v with
  | VMap m => (match lookup (textK o) m with Some (VMap _) | Some (VList _) => false | _ => true end)
              && forallb (fun kv => text_ok o (snd kv)) m
  | VList l => forallb (text_ok o) l
  | _ => true
  end.
(* no uint64 / json.Number anywhere (the xml.Marshal arm, outside Model/SeqEnc.v) *)
Fixpoint no_marshal (v : value) : bool :=
  match v with
  | VU64 _ | VJNum _ => false
  | VMap m => forallb (fun kv => no_marshal (snd kv)) m
  | VList l => forallb no_marshal l
  | _ => true
  end.

Section Main.
Variable o : opts.
Variable st : gstate.
Hypothesis Hview : senc_view st o.
Variable esc : str -> str.
Variable ind outd : str -> Z -> str -> Z -> Z -> pty.
Variable srt : list t_keyval -> list t_keyval.
Variable mar : value -> res str.
Variable mari : value -> str -> str -> res str.
Hypothesis Hesc : forall x, esc x = escape_chars x.
Hypothesis Hsrt : forall l, srt l = isort (fun a => seq_num o (keyval_v a)) l.

Notation F := (fn_mapToXmlSeqIndent esc ind outd srt mar mari).

Ltac view :=
  destruct Hview as (Vesc & Vgo & Vtext & Vseq & Vattr & Vcomm & Vdir & Vproc & Vtarg & Vinst);
  rewrite <- ?Vesc, <- ?Vgo, <- ?Vtext, <- ?Vseq, <- ?Vattr, <- ?Vcomm, <- ?Vdir, <- ?Vproc, <- ?Vtarg, <- ?Vinst.

Lemma esc_code x : (if g_xmlEscapeChars st then esc x else x) = Model.XmlEnc.esc o x.
Proof. unfold Model.XmlEnc.esc. view. rewrite Hesc. reflexivity. Qed.

Lemma if_next {S A} (b : bool) (x y : S) : (if b then Next (S := S) (A := A) x else Next y) = Next (if b then x else y).
Proof. destruct b; reflexivity. Qed.

Lemma special_code key :
  (negb (str_eqb key (g_commentK st)), negb (str_eqb key (g_directiveK st)), negb (str_eqb key (g_procinstK st)))
  = (negb (str_eqb key (commentK o)), negb (str_eqb key (directiveK o)), negb (str_eqb key (procinstK o))).
Proof. view. reflexivity. Qed.

Ltac scalar_tac t :=
  rewrite ?if_next; cbn [bindc];
  rewrite len_gtb;
  unfold scalar_items, is_special_key;
  destruct Hview as (Vesc & Vgo & Vtext & Vseq & Vattr & Vcomm & Vdir & Vproc & Vtarg & Vinst);
  rewrite Vcomm, Vdir, Vproc; unfold close_or_empty; rewrite Vgo;
  destruct (str_eqb _ (g_commentK st)); [|destruct (str_eqb _ (g_directiveK st)); [|destruct (str_eqb _ (g_procinstK st))]];
  cbn [negb orb bindc]; (destruct t as [|a t']; cbn [bindc]; (rewrite me_close_eq by (cbn [length]; lia));
  unfold close_text; cbn [is_tagged length]; rewrite ?len_gtb; cbn [Z.gtb Z.of_nat Z.compare];
  destruct (g_useGoXmlEmptyElemSyntax st); cbn [semit flat_map semit1 emit1 map emit_attrs];
  rewrite <- ?app_assoc, ?app_nil_r; cbn [app]; reflexivity).

Lemma scalar_str f sb key x i c p d e :
  F (S f) st false sb key (VStr x) i c p d e = Ret (None, (sb ++ semit (scalar_items o key (Model.XmlEnc.esc o x)), i, c, p, d, e)).
Proof.
  rewrite me_unfold. unfold me_head, me_mid. cbv beta iota zeta.
  rewrite <- esc_code.
  rewrite if_next. generalize (if g_xmlEscapeChars st then esc x else x) as t; intro t. scalar_tac t.
Qed.

Lemma scalar_fmt f sb key v i c p d e :
  match v with VBool _ | VInt _ | VI64 _ | VFlt _ => True | _ => False end ->
  F (S f) st false sb key v i c p d e = Ret (None, (sb ++ semit (scalar_items o key (fmt_v v)), i, c, p, d, e)).
Proof.
  intros Hv. rewrite me_unfold. unfold me_head, me_mid.
  destruct v; try destruct Hv; cbv beta iota zeta; unfold go_fmt_v;
    match goal with |- context [fmt_v ?v] => generalize (fmt_v v) as t; intro t end; scalar_tac t.
Qed.

Lemma nil_case f sb key i c p d e :
  F (S f) st false sb key VNil i c p d e = Ret (None, (sb ++ s "<" ++ key, i, c, p, d, e)).
Proof.
  rewrite me_unfold. unfold me_head, me_mid. cbv beta iota zeta. cbn [bindc].
  rewrite me_close_eq by lia. unfold close_text. cbn [is_tagged]. rewrite app_nil_r, <- app_assoc. reflexivity.
Qed.

(* the xml.Marshal arm (uint64, json.Number: outside Model/SeqEnc.v): no tag at all, the bytes xml.Marshal returns, or
   ">UNKNOWN" when it fails; never an error *)
Lemma marshal_arm f sb key v i c p d e :
  match v with VU64 _ | VJNum _ => True | _ => False end ->
  F (S f) st false sb key v i c p d e =
  match mar v with
  | Ok x => Ret (None, (sb ++ x, i, c, p, d, e))
  | Err _ => Ret (None, (sb ++ s ">UNKNOWN", i, c, p, d, e))
  | Panic => Crash
  end.
Proof.
  intros Hv. rewrite me_unfold. unfold me_head, me_mid.
  destruct v; try destruct Hv; cbv beta iota zeta; cbn [bindc];
    (destruct (mar _) as [y|e0|]; cbn [bindc negb]; [|rewrite me_close_eq by lia; unfold close_text; cbn [is_tagged]; rewrite app_nil_r; reflexivity|reflexivity];
     rewrite len_gtb; destruct y as [|a y]; cbn [bindc]; rewrite me_close_eq by (cbn [length]; lia); unfold close_text; cbn [is_tagged];
     rewrite ?app_nil_r; reflexivity).
Qed.

(* a loop over sub-elements: every iteration appends the encoding of its element to the builder, returns the element's
   error, or panics; [mk] is the loop state as a function of the builder *)
Lemma loop_children {S T} (mk : str -> S) (enc1 : T -> res (list sitem)) (nm1 : T -> Prop)
      (body : S -> T -> ctl S me_res) (i : str) (c : Z) (p : str) (d e : Z) (l : list T) :
  (forall sb x, In x l ->
     match enc1 x with
     | Ok its => body (mk sb) x = Next (mk (sb ++ semit its))
     | Err _ => nm1 x -> exists sb', body (mk sb) x = Ret (Some EOther, (sb', i, c, p, d, e))
     | Panic => body (mk sb) x = Crash
     end) ->
  forall sb,
  match sconcat (map enc1 l) with
  | Ok its => range_loop body l (mk sb) = Next (mk (sb ++ semit its))
  | Err _ => (forall x, In x l -> nm1 x) -> exists sb', range_loop body l (mk sb) = Ret (Some EOther, (sb', i, c, p, d, e))
  | Panic => range_loop body l (mk sb) = Crash
  end.
Proof.
  induction l as [|x l IH]; intros Hb sb.
  - cbn. rewrite app_nil_r. reflexivity.
  - cbn [map sconcat range_loop].
    pose proof (Hb sb x (or_introl eq_refl)) as Hx.
    assert (Hb' : forall sb1 y, In y l ->
       match enc1 y with
       | Ok its => body (mk sb1) y = Next (mk (sb1 ++ semit its))
       | Err _ => nm1 y -> exists sb', body (mk sb1) y = Ret (Some EOther, (sb', i, c, p, d, e))
       | Panic => body (mk sb1) y = Crash
       end) by (intros sb1 y Hy; apply Hb; right; exact Hy).
    specialize (IH Hb').
    destruct (enc1 x) as [its|e0|]; cbn [bind].
    + rewrite Hx. specialize (IH (sb ++ semit its)).
      destruct (sconcat (map enc1 l)) as [its'|e1|]; cbn [bind].
      * rewrite IH, <- app_assoc. unfold semit. rewrite flat_map_app. reflexivity.
      * intros Hn. apply IH. intros y Hy. apply Hn. right. exact Hy.
      * exact IH.
    + intros Hn. destruct (Hx (Hn x (or_introl eq_refl))) as [sb' E]. rewrite E. exists sb'. reflexivity.
    + rewrite Hx. reflexivity.
Qed.

Lemma list_case f (nm : value -> Prop) l sb key i c p d e :
  (forall x, In x l -> forall sb' i' c' p' d' e',
     me_conv (nm x) sb' i' c' p' d' e' (senc o x key) (F f st false sb' key x i' c' p' d' e')) ->
  me_conv (forall x, In x l -> nm x) sb i c p d e (sconcat (map (fun v => senc o v key) l))
    (F (S f) st false sb key (VList l) i c p d e).
Proof.
  intros Hrec.
  rewrite me_unfold_list.
  set (rec := F f) in *. unfold me_list. cbv beta iota.
  set (mk := fun b : str => (i, c, p, d, e, b, i, c, p, d, e)).
  match goal with |- context [range_loop ?body l ?s0] =>
    set (B := body); change s0 with (mk sb);
    pose proof (loop_children mk (fun v => senc o v key) nm B i c p d e l) as HL end.
  assert (Hb : forall (b : str) (x : value), In x l -> me_conv (nm x) b i c p d e (senc o x key) (rec st false b key x i c p d e))
    by (intros b x Hx; apply Hrec; exact Hx).
  lapply HL; [clear HL; intro HL|].
  - specialize (HL sb). unfold me_conv.
    destruct (sconcat (map (fun v => senc o v key) l)) as [its|e0|].
    + rewrite HL. reflexivity.
    + intros Hn. destruct (HL Hn) as [sb' E]. rewrite E. exists sb'. reflexivity.
    + rewrite HL. reflexivity.
  - intros b x Hx. specialize (Hb b x Hx). unfold me_conv in Hb. unfold B, mk. cbn [bindc].
    destruct (senc o x key) as [its|e0|].
    + rewrite Hb. reflexivity.
    + intros Hn. destruct (Hb Hn) as [sb' E]. rewrite E. exists sb'. reflexivity.
    + rewrite Hb. reflexivity.
Qed.

(* ---- the model's sort commutes with a map that respects the keys *)
Lemma ins_desc_map {A B} (f : A -> B) (k1 : A -> Z) (k2 : B -> Z) : (forall x, k2 (f x) = k1 x) ->
  forall x racc, ins_desc k2 (f x) (map f racc) = map f (ins_desc k1 x racc).
Proof.
  intros Hk x racc. induction racc as [|y t IH]; [reflexivity|].
  cbn [map ins_desc]. rewrite !Hk. destruct (Z.leb (k1 x) (k1 y)); cbn [map]; [rewrite IH|]; reflexivity.
Qed.
Lemma isort_map {A B} (f : A -> B) (k1 : A -> Z) (k2 : B -> Z) : (forall x, k2 (f x) = k1 x) ->
  forall l, isort k2 (map f l) = map f (isort k1 l).
Proof.
  intros Hk l. unfold isort. rewrite map_rev. f_equal.
  change (@nil B) with (map f []). generalize (@nil A) as acc.
  induction l as [|x l IH]; intros acc; [reflexivity|].
  cbn [map fold_left]. rewrite (ins_desc_map f k1 k2 Hk). apply IH.
Qed.
Lemma ins_desc_in {A} (k : A -> Z) x y racc : In y (ins_desc k x racc) -> y = x \/ In y racc.
Proof.
  induction racc as [|z t IH]; cbn [ins_desc].
  - intros [H|[]]; left; congruence.
  - destruct (Z.leb (k x) (k z)).
    + intros [H|H]; [right; left; exact H|]. destruct (IH H) as [E|E]; [left; exact E|right; right; exact E].
    + intros [H|H]; [left; congruence|right; exact H].
Qed.
Lemma isort_in {A} (k : A -> Z) l y : In y (isort k l) -> In y l.
Proof.
  unfold isort. rewrite <- in_rev.
  assert (H : forall acc, In y (fold_left (fun racc x => ins_desc k x racc) l acc) -> In y acc \/ In y l).
  { induction l as [|x l IH]; intros acc; cbn [fold_left]; [intro H; left; exact H|].
    intros H. destruct (IH _ H) as [H1|H1].
    - destruct (ins_desc_in k x y acc H1) as [E|E]; [right; left; congruence|left; exact E].
    - right; right; exact H1. }
  intros Hy. destruct (H [] Hy) as [[]|Hl]. exact Hl.
Qed.

(* the members the general branch writes, lists unrolled *)
Definition kid_list (val : entries) : list t_keyval :=
  flat_map (fun kv : str * value =>
              if str_eqb (fst kv) (attrK o) || str_eqb (fst kv) (seqK o) || str_eqb (fst kv) (textK o) then []
              else match snd kv with
                   | VList l => map (mk_keyval (fst kv)) l
                   | _ => [mk_keyval (fst kv) (snd kv)]
                   end) val.
Definition kid_enc (a : t_keyval) : res (list sitem) := senc o (keyval_v a) (keyval_k a).

Lemma senc_map_eq val key :
  senc o (VMap val) key =
      if str_eqb key (commentK o) then
        match lookup (textK o) val with Some (VStr x) => Ok [SComment x] | _ => Panic end
      else if str_eqb key (directiveK o) then
        match lookup (textK o) val with Some (VStr x) => Ok [SDirective x] | _ => Panic end
      else if str_eqb key (procinstK o) then
        match lookup (targetK o) val with
        | Some (VStr t) => match lookup (instK o) val with Some (VStr i) => Ok [SProcInst t i] | _ => Panic end
        | _ => Panic
        end
      else
        bind (sattrs o val) (fun ha =>
          let haveAttrs := fst ha in
          let attrs := snd ha in
          let n := length val in
          let seqOK := has_key (seqK o) val in
          let general :=
            bind (sconcat (map kid_enc (isort (fun a => seq_num o (keyval_v a)) (kid_list val)))) (fun body =>
              Ok (SI (IOpen key attrs) :: lead_text o val ++ body ++ [SI (IClose key)])) in
          match lookup (textK o) val with
          | Some v =>
              if Nat.eqb n (if haveAttrs then 3 else 2) && seqOK then
                match v with
                | VStr (c :: x) => Ok [SI (IOpen key attrs); SI (IText (Model.XmlEnc.esc o (c :: x))); SI (IClose key)]
                | _ => Ok (empty_or_broken o key attrs)
                end
              else general
          | None =>
              if Nat.eqb n (if haveAttrs then 2 else 1) && seqOK then Ok (empty_or_broken o key attrs)
              else general
          end).
Proof.
  cbn [senc]. unfold seq_sort. cbn [bind].
  set (kids := flat_map _ val).
  assert (Hk : kids = map (fun a => (keyval_k a, keyval_v a, kid_enc a)) (kid_list val)).
  { unfold kids, kid_list. clear kids. induction val as [|[k v] t IH]; [reflexivity|].
    cbn [flat_map fst snd]. rewrite map_app, <- IH. f_equal.
    destruct (str_eqb k (attrK o) || str_eqb k (seqK o) || str_eqb k (textK o)); [reflexivity|].
    destruct v; try reflexivity. rewrite map_map. reflexivity. }
  rewrite Hk.
  rewrite (isort_map (fun a => (keyval_k a, keyval_v a, kid_enc a)) (fun a => seq_num o (keyval_v a))) by reflexivity.
  rewrite map_map. cbn [snd]. reflexivity.
Qed.

(* kv := make([]keyval, len(v)); n := 0; for ak, av := range v { kv[n] = keyval{ak, av}; n++ } *)
Lemma lset_app {A} (done : list A) d0 rest x : lset (done ++ d0 :: rest) (length done) x = done ++ x :: rest.
Proof. induction done as [|h t IH]; [reflexivity|]. cbn [app length lset]. rewrite IH. reflexivity. Qed.

Lemma loop_build (body : list t_keyval * Z -> str * value -> ctl (list t_keyval * Z) me_res) d0 :
  (forall kv n x, body (kv, n) x =
     if (Z.ltb n 0 || Z.leb (Z.of_nat (length kv)) n) then Crash
     else Next (lset kv (Z.to_nat n) (mk_keyval (fst x) (snd x)), (n + 1)%Z)) ->
  forall l done, range_loop body l (done ++ repeat d0 (length l), Z.of_nat (length done))
               = Next (done ++ map (fun x => mk_keyval (fst x) (snd x)) l, Z.of_nat (length done + length l)).
Proof.
  intros Hb. induction l as [|x l IH]; intros done.
  - cbn. rewrite !app_nil_r, Nat.add_0_r. reflexivity.
  - cbn [range_loop length repeat map]. rewrite Hb.
    replace (Z.ltb (Z.of_nat (length done)) 0) with false by (symmetry; apply Z.ltb_ge; lia).
    replace (Z.leb (Z.of_nat (length (done ++ d0 :: repeat d0 (length l)))) (Z.of_nat (length done))) with false
      by (symmetry; apply Z.leb_gt; rewrite app_length; cbn [length]; lia).
    cbn [orb]. rewrite Nat2Z.id, lset_app.
    specialize (IH (done ++ [mk_keyval (fst x) (snd x)])).
    rewrite <- !app_assoc, app_length in IH. cbn [app length] in IH.
    replace (Z.of_nat (length done) + 1)%Z with (Z.of_nat (length done + 1)) by lia.
    rewrite IH. f_equal. f_equal. lia.
Qed.

Lemma loop_app {T} (g : T -> list t_keyval) (body : list t_keyval -> T -> ctl (list t_keyval) me_res) :
  (forall acc x, body acc x = Next (acc ++ g x)) ->
  forall l acc, range_loop body l acc = Next (acc ++ flat_map g l).
Proof.
  intros Hb. induction l as [|x l IH]; intros acc; cbn [range_loop flat_map]; [rewrite app_nil_r; reflexivity|].
  rewrite Hb, IH, app_assoc. reflexivity.
Qed.

(* the attribute loop *)
Lemma loop_attrs (body : str * str -> t_keyval -> ctl (str * str) me_res) i c p d e :
  (forall ss sb a,
     match keyval_v a with
     | VMap vv => match sattr_text o (lookup (textK o) vv) with
                  | Some x => exists ss', body (ss, sb) a = Next (ss', sb ++ s " " ++ keyval_k a ++ s "=""" ++ x ++ s """")
                  | None => body (ss, sb) a = Ret (Some EOther, (sb, i, c, p, d, e))
                  end
     | _ => body (ss, sb) a = Crash
     end) ->
  forall l ss sb,
  match sattrs_loop o (map (fun a => (keyval_k a, keyval_v a)) l) with
  | Ok attrs => exists ss', range_loop body l (ss, sb) = Next (ss', sb ++ emit_attrs attrs)
  | Err _ => exists sb', range_loop body l (ss, sb) = Ret (Some EOther, (sb', i, c, p, d, e))
  | Panic => range_loop body l (ss, sb) = Crash
  end.
Proof.
  intros Hb. induction l as [|a l IH]; intros ss sb.
  - cbn. exists ss. rewrite app_nil_r. reflexivity.
  - cbn [map sattrs_loop range_loop]. specialize (Hb ss sb a).
    destruct (keyval_v a) as [x|b| |z|z|z|fl|x|vv|lv]; try (rewrite Hb; reflexivity).
    destruct (sattr_text o (lookup (textK o) vv)) as [x|].
    + destruct Hb as [ss' Hb]. rewrite Hb. specialize (IH ss' (sb ++ s " " ++ keyval_k a ++ s "=""" ++ x ++ s """")).
      destruct (sattrs_loop o (map (fun a0 => (keyval_k a0, keyval_v a0)) l)) as [attrs|e0|]; cbn [bind].
      * destruct IH as [ss2 IH]. exists ss2. cbv iota beta. refine (eq_trans IH _). cbn [emit_attrs flat_map fst snd]. rewrite <- !app_assoc. reflexivity.
      * exact IH.
      * exact IH.
    + rewrite Hb. exists sb. reflexivity.
Qed.

Lemma loop_snoc k l : forall acc,
  range_loop (fun (st_ : list t_keyval) (el_ : value) => Next (S := list t_keyval) (A := me_res) (st_ ++ [mk_keyval k el_])) l acc
  = Next (acc ++ map (mk_keyval k) l).
Proof.
  induction l as [|x l IH]; intros acc; cbn [range_loop map]; [rewrite app_nil_r; reflexivity|].
  rewrite IH, <- app_assoc. reflexivity.
Qed.

Lemma map_case f (nm : value -> Prop) val sb key i c p d e :
  (forall a, In a (kid_list val) -> forall sb' i' c' p' d' e',
     me_conv (nm (keyval_v a)) sb' i' c' p' d' e' (kid_enc a) (F f st false sb' (keyval_k a) (keyval_v a) i' c' p' d' e')) ->
  match lookup (textK o) val with Some (VMap _) | Some (VList _) => False | _ => True end ->
  me_conv (forall a, In a (kid_list val) -> nm (keyval_v a)) sb i c p d e (senc o (VMap val) key)
    (F (S f) st false sb key (VMap val) i c p d e).
Proof.
  intros Hrec Htext. rewrite me_unfold_map, me_map_eq, senc_map_eq.
  pose proof Hview as (Vesc & Vgo & Vtext & Vseq & Vattr & Vcomm & Vdir & Vproc & Vtarg & Vinst).
  rewrite <- Vcomm, <- Vdir, <- Vproc, <- Vtext, <- Vtarg, <- Vinst.
  destruct (str_eqb key (commentK o)).
  { cbn [negb andb]. destruct (lookup (textK o) val) as [[]|]; cbn [str_of me_conv bindc]; try reflexivity.
    rewrite me_close_eq by lia. unfold close_text. cbn [semit flat_map semit1]. rewrite <- !app_assoc, !app_nil_r. reflexivity. }
  destruct (str_eqb key (directiveK o)).
  { cbn [negb andb]. destruct (lookup (textK o) val) as [[]|]; cbn [str_of me_conv bindc]; try reflexivity.
    rewrite me_close_eq by lia. unfold close_text. cbn [semit flat_map semit1]. rewrite <- !app_assoc, !app_nil_r. reflexivity. }
  destruct (str_eqb key (procinstK o)).
  { cbn [negb andb]. destruct (lookup (targetK o) val) as [[]|]; cbn [str_of me_conv bindc]; try reflexivity;
      destruct (lookup (instK o) val) as [[]|]; cbn [str_of me_conv bindc]; try reflexivity.
    rewrite me_close_eq by lia. unfold close_text. cbn [semit flat_map semit1]. rewrite <- !app_assoc, !app_nil_r. reflexivity. }
  cbn [negb andb]. unfold me_elem. cbv beta iota.
  rewrite <- ?Vtext, <- ?Vseq, <- ?Vattr, <- ?Vgo.
  set (sb1 := (sb ++ s "<") ++ key).
  set (NM := forall a : t_keyval, In a (kid_list val) -> nm (keyval_v a)).
  match goal with |- me_conv _ _ _ _ _ _ _ (bind _ ?R) (bindc (let '(l_v, l_ok) := ?M in bindc (@?A l_v l_ok) ?K) ?CL) =>
    set (R0 := R); set (K0 := K) end.
  assert (Hrest : forall ha attrs ss', me_conv NM sb i c p d e (R0 (ha, attrs)) (bindc (K0 (ss', sb1 ++ emit_attrs attrs, ha)) (me_close st key (VMap val)))).
  { intros ha attrs ss'. subst R0 K0. cbv beta iota. cbn [fst snd].
    set (sb2 := sb1 ++ emit_attrs attrs).
    match goal with |- me_conv _ _ _ _ _ _ _ _ (bindc (let '(x0, l_seqOK) := ?M1 in let '(l_v_1, l_ok_1) := ?M2 in bindc (@?B x0 l_seqOK l_v_1 l_ok_1) ?KG) _) =>
      set (KG0 := KG) end.
    assert (Hgen : me_conv NM sb i c p d e
              (bind (sconcat (map kid_enc (isort (fun a : t_keyval => seq_num o (keyval_v a)) (kid_list val))))
                 (fun body : list sitem => Ok (SI (IOpen key attrs) :: lead_text o val ++ body ++ [SI (IClose key)])))
              (bindc (KG0 (inl (sb2, false, 0%Z, false))) (me_close st key (VMap val)))).
    { unfold KG0. cbv beta iota.
      match goal with |- context [range_loop ?B val []] =>
        replace (range_loop B val []) with (Next (S := list t_keyval) (A := me_res) (kid_list val))
          by (symmetry;
              refine (eq_trans (loop_app (fun kv : str * value =>
                                   if str_eqb (fst kv) (attrK o) || str_eqb (fst kv) (seqK o) || str_eqb (fst kv) (textK o) then []
                                   else match snd kv with
                                        | VList l => map (mk_keyval (fst kv)) l
                                        | _ => [mk_keyval (fst kv) (snd kv)]
                                        end) B _ val []) _);
              [ intros acc [k v]; cbn [fst snd];
                destruct (str_eqb k (attrK o)); [cbn [orb bindc]; rewrite app_nil_r; reflexivity|];
                destruct (str_eqb k (seqK o)); [cbn [orb bindc]; rewrite app_nil_r; reflexivity|];
                destruct (str_eqb k (textK o)); [cbn [orb bindc]; rewrite app_nil_r; reflexivity|];
                cbn [orb bindc]; destruct v; try reflexivity; rewrite loop_snoc; reflexivity
              | reflexivity ]) end.
      cbn [bindc]. cbv beta iota.
      set (sorted := isort (fun a : t_keyval => seq_num o (keyval_v a)) (kid_list val)).
      match goal with |- me_conv _ _ _ _ _ _ _ _ (bindc (let '(l_tv, l_ok_3) := ?M in bindc (@?LT l_tv l_ok_3) ?K) _) => set (K1 := K) end.
      assert (Hkids : forall sb3,
                match sconcat (map kid_enc sorted) with
                | Ok body => bindc (K1 sb3) (me_close st key (VMap val)) = Ret (None, (sb3 ++ semit body ++ s "</" ++ key ++ s ">", i, c, p, d, e))
                | Err _ => NM -> exists sb', bindc (K1 sb3) (me_close st key (VMap val)) = Ret (Some EOther, (sb', i, c, p, d, e))
                | Panic => bindc (K1 sb3) (me_close st key (VMap val)) = Crash
                end).
      { intros sb3. unfold K1. cbv beta iota. cbn [bindc]. rewrite Hsrt. fold sorted.
        set (mk := fun b : str => (i, c, p, (d + 1)%Z, e, 0%Z, b, i, c, p, d, e)).
        match goal with |- context [range_loop ?B sorted ?s0] =>
          set (CB := B); change s0 with (mk sb3);
          pose proof (loop_children mk kid_enc (fun a => nm (keyval_v a)) CB i c p d e sorted) as HL end.
        lapply HL; [clear HL; intro HL|].
        2:{ intros sbx a Ha. apply isort_in in Ha.
            pose proof (Hrec a Ha sbx i c p (d + 1)%Z e) as Hr.
            unfold CB, mk. cbv beta iota.
            unfold me_conv in Hr.
            destruct (keyval_v a) eqn:Ev; cbv beta iota; cbn [bindc Z.eqb];
              (destruct (kid_enc a) as [its|e0|];
               [ rewrite Hr; reflexivity
               | intros Hn; destruct (Hr Hn) as [sb' E]; rewrite E; exists sb'; reflexivity
               | rewrite Hr; reflexivity ]). }
        specialize (HL sb3).
        destruct (sconcat (map kid_enc sorted)) as [body|e0|].
        - rewrite HL. unfold mk. cbn [bindc]. rewrite me_close_eq by lia. unfold close_text. cbn [is_tagged Z.gtb Z.compare].
          rewrite <- !app_assoc. reflexivity.
        - intros Hn. destruct HL as [sb' HL]; [intros a Ha; apply Hn; apply isort_in in Ha; exact Ha|].
          rewrite HL. exists sb'. reflexivity.
        - rewrite HL. reflexivity. }
      assert (Hfin : forall lt,
                me_conv NM sb i c p d e
                  (bind (sconcat (map kid_enc sorted)) (fun body : list sitem => Ok (SI (IOpen key attrs) :: lt ++ body ++ [SI (IClose key)])))
                  (bindc (K1 ((sb2 ++ s ">") ++ semit lt)) (me_close st key (VMap val)))).
      { intros lt. specialize (Hkids ((sb2 ++ s ">") ++ semit lt)).
        destruct (sconcat (map kid_enc sorted)) as [body|e0|]; cbn [bind me_conv]; [|exact Hkids|exact Hkids].
        rewrite Hkids. unfold semit. cbn [flat_map]. rewrite !flat_map_app. cbn [flat_map semit1 emit1]. unfold sb2, sb1.
        rewrite <- !app_assoc, ?app_nil_r. reflexivity. }
      unfold lead_text.
      destruct (lookup (textK o) val) as [[x|b| |z|z|z|fl|x|m'|l']|]; try contradiction; cbv beta iota; cbn [negb bindc];
        rewrite ?if_next; cbn [bindc]; rewrite ?esc_code; unfold go_fmt_v;
        match goal with |- me_conv _ _ _ _ _ _ _ (bind _ (fun body => Ok (_ :: ?lt ++ _))) _ =>
          pose proof (Hfin lt) as H; cbn [semit flat_map semit1 emit1] in H; rewrite ?app_nil_r in H; exact H end. }
    assert (E3 : Z.eqb (Z.of_nat (length val)) 3 = Nat.eqb (length val) 3)
      by (destruct (Nat.eqb_spec (length val) 3); [apply Z.eqb_eq|apply Z.eqb_neq]; lia).
    assert (E2 : Z.eqb (Z.of_nat (length val)) 2 = Nat.eqb (length val) 2)
      by (destruct (Nat.eqb_spec (length val) 2); [apply Z.eqb_eq|apply Z.eqb_neq]; lia).
    assert (E1 : Z.eqb (Z.of_nat (length val)) 1 = Nat.eqb (length val) 1)
      by (destruct (Nat.eqb_spec (length val) 1); [apply Z.eqb_eq|apply Z.eqb_neq]; lia).
    rewrite E3, E2, E1. clear E3 E2 E1. unfold has_key.
    destruct ha; cbv iota;
      generalize (Nat.eqb (length val) 3) as b3; generalize (Nat.eqb (length val) 2) as b2; generalize (Nat.eqb (length val) 1) as b1;
      intros b1 b2 b3.
    all: destruct (lookup (seqK o) val) as [sv|]; destruct (lookup (textK o) val) as [tv|]; destruct b3, b2, b1; cbv beta iota; cbn [andb];
      try exact Hgen.
    all: try (destruct tv as [x|b| |z|z|z|fl|x|m'|l']; [destruct x as [|a x]|..]); cbv beta iota; cbn [negb str_eqb]; rewrite ?if_next; cbn [bindc]; unfold KG0; cbv beta iota;
      cbn [bindc me_conv]; (rewrite me_close_eq by lia); unfold close_text, empty_or_broken, close_or_empty; cbn [is_tagged Z.gtb Z.compare];
      rewrite ?Vgo, ?esc_code; try destruct (g_useGoXmlEmptyElemSyntax st); cbn [map semit flat_map semit1 emit1]; unfold sb2, sb1;
      rewrite <- ?app_assoc, ?app_nil_r; cbn [app]; reflexivity. }
  assert (Hno : me_conv NM sb i c p d e (R0 (false, [])) (bindc (K0 ([], sb1, false)) (me_close st key (VMap val)))).
  { pose proof (Hrest false [] []) as H0. cbn [emit_attrs flat_map] in H0. rewrite app_nil_r in H0. exact H0. }
  unfold sattrs, seq_sort.
  destruct (lookup (attrK o) val) as [[x|b| |z|z|z|fl|x|av|lv]|]; cbv beta iota; cbn [bind bindc]; try exact Hno.
  replace (Z.ltb (Z.of_nat (length av)) 0) with false by (symmetry; apply Z.ltb_ge; lia).
  rewrite Nat2Z.id.
  match goal with |- context [range_loop ?B av ?s0] =>
    replace (range_loop B av s0) with (Next (S := list t_keyval * Z) (A := me_res) (map (fun x : str * value => mk_keyval (fst x) (snd x)) av, Z.of_nat (length av)))
      by (symmetry; refine (eq_trans (loop_build B (mk_keyval [] VNil) _ av []) _); [intros kv n [k v]; reflexivity|reflexivity]) end.
  cbn [bindc]. cbv beta iota. rewrite Hsrt.
  rewrite (isort_map (fun x : str * value => mk_keyval (fst x) (snd x)) (fun kv : str * value => seq_num o (snd kv))) by reflexivity.
  set (L := isort (fun kv : str * value => seq_num o (snd kv)) av).
  match goal with |- context [range_loop ?B (map ?mkf L) ?s0] =>
    pose proof (loop_attrs B i c p d e) as HA; set (B2 := B) in *; set (s2 := s0) in * end.
  lapply HA; [clear HA; intro HA|].
  2:{ intros ss sb' a. unfold B2. cbv beta iota.
      destruct (keyval_v a) as [x|b| |z|z|z|fl|x|vv|lv]; try reflexivity.
      destruct (lookup (textK o) vv) as [[x|b| |z|z|z|fl|x|m'|l']|]; cbn [sattr_text]; try reflexivity;
        try (eexists; unfold go_fmt_v; rewrite <- !app_assoc; reflexivity).
      exists (Model.XmlEnc.esc o x). rewrite <- esc_code. destruct (g_xmlEscapeChars st); cbn [bindc]; rewrite <- !app_assoc; reflexivity. }
  specialize (HA (map (fun x : str * value => mk_keyval (fst x) (snd x)) L) [] sb1).
  rewrite map_map in HA. cbn [keyval_k keyval_v] in HA.
  replace (map (fun x : str * value => (fst x, snd x)) L) with L in HA
    by (clear; induction L as [|[k v] t IH]; [reflexivity|cbn [map fst snd]; rewrite <- IH; reflexivity]).
  fold s2 in HA.
  destruct (sattrs_loop o L) as [attrs|e0|]; cbn [bind].
  - destruct HA as [ss' HA]. rewrite HA. cbn [bindc]. cbv beta iota. apply Hrest.
  - destruct HA as [sb' HA]. rewrite HA. cbn [bindc me_conv]. intros _. exists sb'. reflexivity.
  - rewrite HA. reflexivity.
Qed.

Lemma me_conv_weaken (nm nm' : Prop) sb i c p d e r x : (nm' -> nm) -> me_conv nm sb i c p d e r x -> me_conv nm' sb i c p d e r x.
Proof. intros H. destruct r; cbn [me_conv]; auto. Qed.

(* a property of every member of the map that passes from a list to its members holds of every sub-element written *)
Lemma kid_list_prop (Q : value -> Prop) val :
  (forall kv, In kv val -> Q (snd kv)) -> (forall l x, Q (VList l) -> In x l -> Q x) ->
  forall a, In a (kid_list val) -> Q (keyval_v a).
Proof.
  intros Hm Hl a Ha. unfold kid_list in Ha. apply in_flat_map in Ha. destruct Ha as [[k v] [Hkv Ha]].
  cbn [fst snd] in Ha. destruct (str_eqb k (attrK o) || str_eqb k (seqK o) || str_eqb k (textK o)); [destruct Ha|].
  pose proof (Hm (k, v) Hkv) as Hv. cbn [snd] in Hv.
  destruct v; try (destruct Ha as [<-|[]]; exact Hv).
  apply in_map_iff in Ha. destruct Ha as [x [<- Hx]]. cbn [keyval_v]. exact (Hl l x Hv Hx).
Qed.

(* the translated encoder against the model, every outcome *)
Theorem senc_code_conv : forall f v sb key i c p d e, vd v < f -> text_ok o v = true ->
  me_conv (no_marshal v = true) sb i c p d e (senc o v key) (F f st false sb key v i c p d e).
Proof.
  induction f as [|f IH]; intros v sb key i c p d e Hf Ht; [lia|].
  destruct v as [x|b| |z|z|z|fl|x|m|l].
  - cbn [senc me_conv]. apply scalar_str.
  - cbn [senc me_conv]. apply scalar_fmt. exact I.
  - cbn [senc me_conv semit flat_map semit1]. rewrite app_nil_r. apply nil_case.
  - cbn [senc me_conv]. apply scalar_fmt. exact I.
  - cbn [senc me_conv]. apply scalar_fmt. exact I.
  - cbn [senc me_conv no_marshal]. discriminate.
  - cbn [senc me_conv]. apply scalar_fmt. exact I.
  - cbn [senc me_conv no_marshal]. discriminate.
  - cbn [text_ok] in Ht. apply andb_prop in Ht. destruct Ht as [Ht1 Ht2]. rewrite forallb_forall in Ht2.
    apply (me_conv_weaken (forall a, In a (kid_list m) -> no_marshal (keyval_v a) = true)).
    + intros Hn. cbn [no_marshal] in Hn. rewrite forallb_forall in Hn.
      apply (kid_list_prop (fun x => no_marshal x = true)).
      * intros kv Hkv. apply Hn. exact Hkv.
      * intros l x Hl Hx. cbn [no_marshal] in Hl. rewrite forallb_forall in Hl. apply Hl. exact Hx.
    + apply (map_case f (fun x => no_marshal x = true)).
      * intros a Ha sb' i' c' p' d' e'. apply IH.
        -- apply (kid_list_prop (fun x => vd x < f) m); [| |exact Ha].
           ++ intros kv Hkv. pose proof (vd_entry kv m Hkv). lia.
           ++ intros l x Hl Hx. pose proof (vd_member x l Hx). lia.
        -- apply (kid_list_prop (fun x => text_ok o x = true) m); [| |exact Ha].
           ++ intros kv Hkv. apply Ht2. exact Hkv.
           ++ intros l x Hl Hx. cbn [text_ok] in Hl. rewrite forallb_forall in Hl. apply Hl. exact Hx.
      * destruct (lookup (textK o) m) as [[]|]; try exact I; discriminate Ht1.
  - cbn [text_ok] in Ht. rewrite forallb_forall in Ht.
    apply (me_conv_weaken (forall x, In x l -> no_marshal x = true)).
    + intros Hn. cbn [no_marshal] in Hn. rewrite forallb_forall in Hn. exact Hn.
    + change (senc o (VList l) key) with (sconcat (map (fun v => senc o v key) l)).
      apply (list_case f (fun x => no_marshal x = true)).
      intros x Hx sb' i' c' p' d' e'. apply IH; [pose proof (vd_member x l Hx); lia|apply Ht; exact Hx].
Qed.
End Main.

(* ------------------------------------------------------------------ 4. the theorems *)

(* compact mode, the model returns items: the translated encoder appends exactly their bytes to the builder, returns a nil
   error and leaves the five fields of *pp alone; for every fuel above the depth of the value, any Indent / Outdent /
   xml.Marshal / xml.MarshalIndent, an escapeChars that computes the model's, a sort that computes the model's *)
Theorem senc_code_is_model : forall o st esc ind outd srt mar mari,
  senc_view st o -> (forall x, esc x = escape_chars x) ->
  (forall l, srt l = isort (fun a => seq_num o (keyval_v a)) l) ->
  forall f v sb key i c p d e its, vd v < f -> text_ok o v = true ->
  senc o v key = Ok its ->
  fn_mapToXmlSeqIndent esc ind outd srt mar mari f st false sb key v i c p d e = Ret (None, (sb ++ semit its, i, c, p, d, e)).
Proof.
  intros o st esc ind outd srt mar mari Hv He Hs f v sb key i c p d e its Hf Ht E.
  pose proof (senc_code_conv o st Hv esc ind outd srt mar mari He Hs f v sb key i c p d e Hf Ht) as H.
  rewrite E in H. exact H.
Qed.

(* the model returns an error (an attribute whose value is not a scalar) and the value has no uint64 / json.Number: the
   translated encoder returns an error too, with *pp untouched (the builder holds what was written up to that point) *)
Theorem senc_code_error : forall o st esc ind outd srt mar mari,
  senc_view st o -> (forall x, esc x = escape_chars x) ->
  (forall l, srt l = isort (fun a => seq_num o (keyval_v a)) l) ->
  forall f v sb key i c p d e e0, vd v < f -> text_ok o v = true -> no_marshal v = true ->
  senc o v key = Err e0 ->
  exists sb', fn_mapToXmlSeqIndent esc ind outd srt mar mari f st false sb key v i c p d e = Ret (Some EOther, (sb', i, c, p, d, e)).
Proof.
  intros o st esc ind outd srt mar mari Hv He Hs f v sb key i c p d e e0 Hf Ht Hn E.
  pose proof (senc_code_conv o st Hv esc ind outd srt mar mari He Hs f v sb key i c p d e Hf Ht) as H.
  rewrite E in H. exact (H Hn).
Qed.

(* the model panics (a failed type assertion: val[textK].(string) under a special key, a.v.(map[string]interface{}) of an
   attribute): so does the translated encoder *)
Theorem senc_code_panic : forall o st esc ind outd srt mar mari,
  senc_view st o -> (forall x, esc x = escape_chars x) ->
  (forall l, srt l = isort (fun a => seq_num o (keyval_v a)) l) ->
  forall f v sb key i c p d e, vd v < f -> text_ok o v = true ->
  senc o v key = Panic ->
  fn_mapToXmlSeqIndent esc ind outd srt mar mari f st false sb key v i c p d e = Crash.
Proof.
  intros o st esc ind outd srt mar mari Hv He Hs f v sb key i c p d e Hf Ht E.
  pose proof (senc_code_conv o st Hv esc ind outd srt mar mari He Hs f v sb key i c p d e Hf Ht) as H.
  rewrite E in H. exact H.
Qed.

(* the xml.Marshal arm, which Model/SeqEnc.v leaves out (Err EOther stands for it): no tag is written, only the bytes
   xml.Marshal returns, or ">UNKNOWN" when it fails, and the error is nil *)
Theorem senc_code_marshal_arm : forall st esc ind outd srt mar mari f sb key v i c p d e,
  match v with VU64 _ | VJNum _ => True | _ => False end ->
  fn_mapToXmlSeqIndent esc ind outd srt mar mari (S f) st false sb key v i c p d e =
  match mar v with
  | Ok x => Ret (None, (sb ++ x, i, c, p, d, e))
  | Err _ => Ret (None, (sb ++ s ">UNKNOWN", i, c, p, d, e))
  | Panic => Crash
  end.
Proof. intros. apply marshal_arm. assumption. Qed.

(* ------------------------------------------------------------------ 5. with the translated callees *)

(* sort.Sort's insertion sort (Model/SeqEnc.v: isort) driven by a Less function on two elements *)
Fixpoint ins_by {A} (le : A -> A -> bool) (x : A) (racc : list A) : list A :=
  match racc with
  | [] => [x]
  | y :: t => if le x y then y :: ins_by le x t else x :: racc
  end.
Definition isort_by {A} (le : A -> A -> bool) (l : list A) : list A :=
  rev (fold_left (fun racc x => ins_by le x racc) l []).

(* Less(i, j) of the translated code on the two-element slice [a; b] *)
Definition run_Less (st : gstate) (a b : t_keyval) : bool :=
  match fn_elemListSeq_Less st [a; b] 0 1 with Ret r => r | _ => false end.
Definition run_sort (st : gstate) (l : list t_keyval) : list t_keyval := isort_by (run_Less st) l.

Lemma run_Less_eq o st a b : seqK o = g_seqK st ->
  run_Less st a b = Z.leb (seq_num o (keyval_v a)) (seq_num o (keyval_v b)).
Proof.
  intros Hs. unfold run_Less.
  rewrite (less_code_is_model o st [a; b] 0 1 a b Hs) by (reflexivity || lia). reflexivity.
Qed.

Lemma isort_by_key {A} (le : A -> A -> bool) (key : A -> Z) : (forall x y, le x y = Z.leb (key x) (key y)) ->
  forall l, isort_by le l = isort key l.
Proof.
  intros Hle l. unfold isort_by, isort. f_equal. generalize (@nil A) as acc.
  induction l as [|x l IH]; intros acc; [reflexivity|]. cbn [fold_left].
  assert (E : ins_by le x acc = ins_desc key x acc).
  { clear IH. induction acc as [|y t IHa]; [reflexivity|]. cbn [ins_by ins_desc]. rewrite Hle, IHa. reflexivity. }
  rewrite E. apply IH.
Qed.

(* the insertion sort that calls the translated Less is the model's sort *)
Theorem run_sort_is_model : forall o st l, seqK o = g_seqK st ->
  run_sort st l = isort (fun a => seq_num o (keyval_v a)) l.
Proof.
  intros o st l Hs. unfold run_sort. apply isort_by_key. intros x y. apply run_Less_eq. exact Hs.
Qed.

(* the encoder running the translated escapeChars and the insertion sort over the translated Less *)
Corollary senc_code_is_model_translated : forall o st ind outd mar mari,
  senc_view st o ->
  forall f v sb key i c p d e its, vd v < f -> text_ok o v = true ->
  senc o v key = Ok its ->
  fn_mapToXmlSeqIndent (run_escapeChars st) ind outd (run_sort st) mar mari f st false sb key v i c p d e
  = Ret (None, (sb ++ semit its, i, c, p, d, e)).
Proof.
  intros o st ind outd mar mari Hv. apply senc_code_is_model; [exact Hv|apply run_escapeChars_eq|].
  intros l. apply run_sort_is_model. destruct Hv as (_ & _ & _ & Vseq & _). exact Vseq.
Qed.

Corollary senc_code_error_translated : forall o st ind outd mar mari,
  senc_view st o ->
  forall f v sb key i c p d e e0, vd v < f -> text_ok o v = true -> no_marshal v = true ->
  senc o v key = Err e0 ->
  exists sb', fn_mapToXmlSeqIndent (run_escapeChars st) ind outd (run_sort st) mar mari f st false sb key v i c p d e
              = Ret (Some EOther, (sb', i, c, p, d, e)).
Proof.
  intros o st ind outd mar mari Hv. apply senc_code_error; [exact Hv|apply run_escapeChars_eq|].
  intros l. apply run_sort_is_model. destruct Hv as (_ & _ & _ & Vseq & _). exact Vseq.
Qed.

(* in every package state: the option record of the state (GenProofs/PureG15.v: state_opts) is in view *)
Lemma state_opts_senc_view st : senc_view st (state_opts st).
Proof. repeat split. Qed.

(* in every package state, on every value within the model's domain on which the model does not panic, the translated encoder
   running the translated escapeChars and Less does not panic either *)
Corollary senc_code_no_panic : forall st ind outd mar mari f v sb key i c p d e,
  vd v < f -> text_ok (state_opts st) v = true -> no_marshal v = true -> senc (state_opts st) v key <> Panic ->
  fn_mapToXmlSeqIndent (run_escapeChars st) ind outd (run_sort st) mar mari f st false sb key v i c p d e <> Crash.
Proof.
  intros st ind outd mar mari f v sb key i c p d e Hf Ht Hn Hp.
  pose proof (senc_code_conv (state_opts st) st (state_opts_senc_view st) (run_escapeChars st) ind outd (run_sort st) mar mari
                (run_escapeChars_eq st) (fun l => run_sort_is_model (state_opts st) st l eq_refl) f v sb key i c p d e Hf Ht) as H.
  destruct (senc (state_opts st) v key) as [its|e0|]; cbn [me_conv] in H.
  - rewrite H. discriminate.
  - destruct (H Hn) as [sb' E]. rewrite E. discriminate.
  - congruence.
Qed.

(* the hypothesis text_ok cannot be dropped: for a map whose #text member is itself a map, written by the general branch
   (fmt.Sprintf("%v", tv) of a container), the translation stops (go2v guards go_fmt_v with Crash on containers) while
   Model/SeqEnc.v goes on with the placeholder "?" of Base/Fmt.v - NEITHER reproduces Go's "map[]"; such values are outside
   both (the decoder never produces them) *)
Theorem senc_code_is_model_without_text_ok_refuted :
  exists v key its,
    vd v < 5 /\ senc (state_opts gstate0) v key = Ok its /\
    fn_mapToXmlSeqIndent (run_escapeChars gstate0) (fun a b c d e => (a, b, c, d, e)) (fun a b c d e => (a, b, c, d, e)) (run_sort gstate0)
      (fun _ => Err EOther) (fun _ _ _ => Err EOther) 5 gstate0 false [] key v [] 0%Z [] 0%Z 0%Z = Crash.
Proof.
  exists (VMap [(s "#text", VMap [])]), (s "a"), [SI (IOpen (s "a") []); SI (IText (s "?")); SI (IClose (s "a"))].
  split; [vm_compute; lia|]. split; vm_compute; reflexivity.
Qed.

(* ------------------------------------------------------------------ 6. the hypotheses are satisfiable *)

Definition ex_tx (x : str) (n : Z) : value := VMap [(s "#text", VStr x); (s "#seq", VInt n)].
Definition ex_doc : value :=
  VMap [(s "#attr", VMap [(s "k", ex_tx (s "v") 1); (s "j", ex_tx (s "w&") 0)]);
        (s "b", VList [ex_tx (s "x") 1; ex_tx (s "z") 3]); (s "c", ex_tx (s "y") 2);
        (s "#comment", ex_tx (s "cm") 0);
        (s "#procinst", VMap [(s "#target", VStr (s "t")); (s "#inst", VStr (s "i")); (s "#seq", VInt 4)]);
        (s "#text", VStr (s "lead")); (s "e", VMap [(s "#seq", VInt 5)]); (s "#seq", VInt 0)].

Example ex_doc_hyps :
  vd ex_doc < 5 /\ text_ok (state_opts gstate0) ex_doc = true /\ no_marshal ex_doc = true /\
  (match senc (state_opts gstate0) ex_doc (s "doc") with
   | Ok its => semit its
   | _ => []
   end) = s "<doc j=""w&"" k=""v"">lead<!--cm--><b>x</b><c>y</c><b>z</b><?t i?><e/></doc>".
Proof. split; [vm_compute; lia|]. vm_compute. repeat split. Qed.

Example ex_err_hyps :
  let v := VMap [(s "#attr", VMap [(s "k", VMap [(s "#text", VNil)])]); (s "#seq", VInt 0)] in
  vd v < 5 /\ text_ok (state_opts gstate0) v = true /\ no_marshal v = true /\ senc (state_opts gstate0) v (s "a") = Err EOther.
Proof. split; [vm_compute; lia|]. vm_compute. repeat split. Qed.

Print Assumptions less_code_is_model.
Print Assumptions outdent_after_indent.
Print Assumptions senc_code_conv.
Print Assumptions senc_code_is_model.
Print Assumptions senc_code_error.
Print Assumptions senc_code_panic.
Print Assumptions senc_code_marshal_arm.
Print Assumptions senc_code_is_model_translated.
Print Assumptions senc_code_error_translated.
Print Assumptions senc_code_no_panic.
Print Assumptions senc_code_is_model_without_text_ok_refuted.
Print Assumptions run_sort_is_model.
