(* go2v's translation of func hasKeyPath (keyvalues.go; the walker behind PathsForKey: recursion on fuel, the basket
   map[string]bool threaded as state) puts exactly the model's has_key_path trails into the basket, in order; the keys of
   the final basket are distinct and are a permutation of the model's paths_for_key. *)
From Coq Require Import Lia Permutation.
From Mxj Require Import Gen.GenSupport Gen.Setters_gen Gen.PureSupport Model.KeyValues.
From Mxj Require Import Proofs.StrLemmas Proofs.C08P.
From Mxj Require Import Gen.Pure_gen GenProofs.PureG3.

(* ------------------------------------------------------------------ hasKeyPath (the walker behind PathsForKey) *)

(* the basket after the paths ks have been put into it, in order *)
Definition bins (ks : list str) (b : list (str * bool)) : list (str * bool) :=
  fold_left (fun b k => bset k true b) ks b.

Lemma bins_app a c b : bins (a ++ c) b = bins c (bins a b).
Proof. unfold bins. apply fold_left_app. Qed.

Lemma loop_bins {T} (g : T -> list str) (body : list (str * bool) -> T -> ctl (list (str * bool)) (list (str * bool))) l :
  (forall b x, In x l -> body b x = Next (bins (g x) b)) ->
  forall b, range_loop body l b = Next (bins (flat_map g l) b).
Proof.
  induction l as [|x l IH]; intros Hb b; [reflexivity|].
  cbn [range_loop flat_map]. rewrite Hb by (left; reflexivity).
  rewrite IH by (intros; apply Hb; right; assumption). rewrite bins_app. reflexivity.
Qed.

Theorem has_key_path_code_is_model : forall iv fuel st crumbs key basket,
  vd iv < fuel ->
  fn_hasKeyPath fuel st crumbs iv key basket = Ret (bins (has_key_path crumbs iv key) basket).
Proof.
  induction iv as [x|b| |z|z|z|fl|x|mv IHm|l IHl] using value_ind2; intros fuel st crumbs key basket Hf;
    (destruct fuel as [|f]; [lia|]); cbn [fn_hasKeyPath has_key_path]; cbv zeta; try reflexivity.
  - (* a map *)
    assert (Hc : forall k, (bindc (S := str) (if str_eqb crumbs [] then Next k else Next ((crumbs ++ s ".") ++ k))
                              (fun l_nbc : str => (Next l_nbc : ctl str (list (str * bool))))) = Next (crumb crumbs k)).
    { intros k. unfold crumb. change (s ".") with sdot. destruct crumbs; cbn [str_eqb bindc]; [reflexivity|].
      rewrite <- app_assoc. reflexivity. }
    unfold has_key. rewrite bins_app.
    assert (Hwalk : forall b0 (body : list (str * bool) -> str * value -> ctl (list (str * bool)) (list (str * bool))),
       (forall b1 kv, In kv mv -> body b1 kv = bindr (fn_hasKeyPath f st (crumb crumbs (fst kv)) (snd kv) key b1) (fun p_basket => Next p_basket)) ->
       range_loop body mv b0 = Next (bins (flat_map (fun kv : str * value => has_key_path (crumb crumbs (fst kv)) (snd kv) key) mv) b0)).
    { intros b0 body Hb. apply loop_bins. intros b1 kv Hin. rewrite Hb by exact Hin.
      rewrite Forall_forall in IHm. rewrite (IHm kv Hin) by (pose proof (vd_entry kv mv Hin); lia). reflexivity. }
    assert (Hbody : forall b1 (kv : str * value),
       (let '(l_k, l_v) := kv in
        bindc (S := str) (if str_eqb crumbs [] then Next l_k else Next ((crumbs ++ s ".") ++ l_k))
          (fun l_nbc_1 : str => bindr (fn_hasKeyPath f st l_nbc_1 l_v key b1) (fun p_basket => (Next p_basket : ctl (list (str * bool)) (list (str * bool))))))
       = bindr (fn_hasKeyPath f st (crumb crumbs (fst kv)) (snd kv) key b1) (fun p_basket => Next p_basket)).
    { intros b1 [k v]. cbn [fst snd]. unfold crumb. change (s ".") with sdot.
      destruct crumbs; cbn [str_eqb bindc]; [reflexivity|]. rewrite <- app_assoc. reflexivity. }
    destruct (lookup key mv) as [v|]; cbn [bindc bins fold_left].
    + unfold crumb. change (s ".") with sdot.
      destruct crumbs as [|c0 cr]; cbn [str_eqb bindc];
        (rewrite Hwalk by (intros b1 kv _; apply Hbody)); cbn [bindc]; rewrite <- ?app_assoc; reflexivity.
    + rewrite Hwalk by (intros b1 kv _; apply Hbody). reflexivity.
  - (* a list *)
    rewrite (loop_bins (fun v => has_key_path crumbs v key)).
    2:{ intros b1 v Hin. rewrite Forall_forall in IHl.
        rewrite (IHl v Hin) by (pose proof (vd_member v l Hin); lia). reflexivity. }
    reflexivity.
Qed.

(* the basket is a set of paths: its keys are distinct and are exactly the walk's paths, i.e. a permutation of the
   model's paths_for_key (Go then copies the keys out in hash order) *)
Lemma bset_keys_in k b k' : In k' (map fst (bset k true b)) <-> k' = k \/ In k' (map fst b).
Proof.
  induction b as [|[k0 b0] b IH]; cbn [bset map fst In].
  - split; [intros [H|[]]; left; congruence|intros [H|[]]; left; congruence].
  - destruct (str_eqb k k0) eqn:E; cbn [map fst In].
    + apply str_eqb_eq in E. subst k0. split; [intros [H|H]; [left; congruence|right; right; exact H]|intros [H|[H|H]]; [left; congruence|left; exact H|right; exact H]].
    + rewrite IH. split; [intros [H|[H|H]]; [right; left; exact H|left; exact H|right; right; exact H]|intros [H|[H|H]]; [right; left; exact H|left; exact H|right; right; exact H]].
Qed.
Lemma bset_keys_nodup k b : NoDup (map fst b) -> NoDup (map fst (bset k true b)).
Proof.
  induction b as [|[k0 b0] b IH]; intros H; cbn [bset map fst].
  - constructor; [intros []|constructor].
  - destruct (str_eqb k k0) eqn:E; cbn [map fst]; [exact H|].
    inversion H as [|? ? Hn Hd]; subst. constructor; [|apply IH; exact Hd].
    rewrite bset_keys_in. intros [Hk|Hk]; [|exact (Hn Hk)].
    apply str_eqb_neq in E. congruence.
Qed.
Lemma bins_keys_in ks : forall b k', In k' (map fst (bins ks b)) <-> In k' ks \/ In k' (map fst b).
Proof.
  induction ks as [|k ks IH]; intros b k'; cbn [bins fold_left In]; [tauto|].
  change (fold_left (fun b0 k0 => bset k0 true b0) ks (bset k true b)) with (bins ks (bset k true b)).
  rewrite IH, bset_keys_in. split; [intros [H|[H|H]]|intros [[H|H]|H]]; auto.
Qed.
Lemma bins_keys_nodup ks : forall b, NoDup (map fst b) -> NoDup (map fst (bins ks b)).
Proof.
  induction ks as [|k ks IH]; intros b H; cbn [bins fold_left]; [exact H|].
  apply IH. apply bset_keys_nodup. exact H.
Qed.

Theorem paths_for_key_code_perm : forall m fuel st key,
  vd m < fuel ->
  exists basket, fn_hasKeyPath fuel st [] m key [] = Ret basket /\
                 Permutation (map fst basket) (paths_for_key m key).
Proof.
  intros m fuel st key Hf. exists (bins (has_key_path [] m key) []). split; [apply has_key_path_code_is_model; exact Hf|].
  apply NoDup_Permutation.
  - apply bins_keys_nodup. constructor.
  - apply dedup_nodup.
  - intros k. unfold paths_for_key. rewrite bins_keys_in, dedup_in. cbn [map In]. tauto.
Qed.
