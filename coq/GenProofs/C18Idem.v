(* C18 - tightness of the generated write sets and idempotence of the explicit forms (T3, all states;
   the key prefix, which needs the invariant, is in C18Inv.v). *)
From Coq Require Import Lia.
From Mxj Require Import Gen.GenSupport Gen.Setters_gen GenProofs.C18G.
Local Open Scope string_scope.

(* the write sets are tight: for every (setter, variable) pair of the generated table there is a state
   and a call of that setter that changes that variable *)
Definition fval_eqb (a b : fval) : bool :=
  match a, b with
  | FB x, FB y => Bool.eqb x y
  | FS x, FS y => str_eqb x y
  | FZ x, FZ y => Z.eqb x y
  | FT None, FT None => true
  | FT (Some x), FT (Some y) => Nat.eqb x y
  | _, _ => false
  end.

Lemma str_eqb_refl : forall x : str, str_eqb x x = true.
Proof. intros x. induction x as [|c x IH]; [reflexivity|]. cbn. rewrite Ascii.eqb_refl. exact IH. Qed.

Lemma fval_eqb_refl : forall a, fval_eqb a a = true.
Proof.
  intros a. destruct a as [b|x|z|t]; cbn.
  - destruct b; reflexivity.
  - apply str_eqb_refl.
  - apply Z.eqb_refl.
  - destruct t as [k|]; [apply Nat.eqb_refl | reflexivity].
Qed.

Definition oval_eqb (a b : option fval) : bool :=
  match a, b with Some x, Some y => fval_eqb x y | None, None => true | _, _ => false end.

Lemma oval_eqb_false : forall a b, oval_eqb a b = false -> a <> b.
Proof.
  intros a b H E. subst b. destruct a as [x|]; cbn in H; [rewrite fval_eqb_refl in H|]; discriminate H.
Qed.

Definition changes (v : string) (w : call * gstate) : bool :=
  match apply_call (snd w) (fst w) with
  | Some st' => negb (oval_eqb (lookup v (fields st')) (lookup v (fields (snd w))))
  | None => false
  end.

Definition witnesses : list (call * gstate) := [
  (C_XMLEscapeChars [true], gstate0);
  (C_XMLEscapeCharsDecoder [true], with_xmlEscapeChars true gstate0);
  (C_SetArraySize 100, gstate0);
  (C_LeafUseDotNotation [], gstate0);
  (C_SetFieldSeparator [s"|"], gstate0);
  (C_SetGlobalKeyMapPrefix (s"_"), gstate0);
  (C_PrependAttrWithHyphen false, gstate0);
  (C_IncludeTagSeqNum [], gstate0);
  (C_CoerceKeysToLower [true], gstate0);
  (C_DisableTrimWhiteSpace [], gstate0);
  (C_SetAttrPrefix (s"@@"), gstate0);
  (C_CoerceKeysToSnakeCase [], gstate0);
  (C_CastValuesToInt [], gstate0);
  (C_HandleXMPPStreamTag [], gstate0);
  (C_DecodeSimpleValuesAsMap [true], gstate0);
  (C_CastNanInf [], gstate0);
  (C_CastValuesToFloat [], gstate0);
  (C_CastValuesToBool [false], gstate0);
  (C_SetCheckTagToSkipFunc (Some 0), gstate0);
  (C_XmlGoEmptyElemSyntax, gstate0);
  (C_XmlDefaultEmptyElemSyntax, with_useGoXmlEmptyElemSyntax true gstate0);
  (C_XmlCheckIsValid [], gstate0)
].

Lemma witnesses_cover :
  forallb (fun e => forallb (fun v => existsb (fun w => String.eqb (call_name (fst w)) (fst e) && changes v w) witnesses)
                            (snd e)) setter_writes = true.
Proof. vm_compute. reflexivity. Qed.

Theorem setter_writes_tight : forall nm vs v,
  In (nm, vs) setter_writes -> In v vs ->
  exists c st st', call_name c = nm /\ apply_call st c = Some st' /\ lookup v (fields st') <> lookup v (fields st).
Proof.
  intros nm vs v He Hv.
  pose proof witnesses_cover as Hc. rewrite forallb_forall in Hc. specialize (Hc _ He).
  cbn [fst snd] in Hc. rewrite forallb_forall in Hc. specialize (Hc _ Hv).
  apply existsb_exists in Hc. destruct Hc as [[c st] [_ Hw]].
  apply andb_true_iff in Hw. destruct Hw as [Hn Hch]. cbn [fst snd] in Hn. apply String.eqb_eq in Hn.
  unfold changes in Hch. cbn [fst snd] in Hch.
  destruct (apply_call st c) as [st'|] eqn:Ea; [|discriminate Hch].
  exists c, st, st'. split; [exact Hn|]. split; [exact Ea|].
  apply oval_eqb_false. apply negb_true_iff. exact Hch.
Qed.

(* and the three direct assignments change their variable *)
Example assign_changes :
  changes "JsonUseNumber" (C_assign_JsonUseNumber true, gstate0) = true /\
  changes "CustomDecoder" (C_assign_CustomDecoder (Some 0), gstate0) = true /\
  changes "XmlCharsetReader" (C_assign_XmlCharsetReader (Some 0), gstate0) = true.
Proof. vm_compute. repeat split. Qed.

(* ------------------------------------------------------------------ *)
(* T3 - idempotence of the explicit forms                               *)

(* the 32 ASCII punctuation characters: the property's domain for the key prefix *)
Definition puncts : list ascii :=
  map ascii_of_nat (seq 33 15 ++ seq 58 7 ++ seq 91 6 ++ seq 123 4).

Definition explicit (c : call) : bool :=
  match c with
  | C_XMLEscapeChars [_] | C_XMLEscapeCharsDecoder [_] | C_LeafUseDotNotation [_] | C_DisableTrimWhiteSpace [_]
  | C_IncludeTagSeqNum [_] | C_CoerceKeysToLower [_] | C_CoerceKeysToSnakeCase [_] | C_CastValuesToInt [_]
  | C_HandleXMPPStreamTag [_] | C_DecodeSimpleValuesAsMap [_] | C_CastNanInf [_] | C_CastValuesToFloat [_]
  | C_CastValuesToBool [_] | C_XmlCheckIsValid [_] | C_SetFieldSeparator [_] => true
  | C_SetArraySize _ | C_PrependAttrWithHyphen _ | C_SetAttrPrefix _ | C_SetCheckTagToSkipFunc _
  | C_XmlGoEmptyElemSyntax | C_XmlDefaultEmptyElemSyntax
  | C_assign_JsonUseNumber _ | C_assign_CustomDecoder _ | C_assign_XmlCharsetReader _ => true
  | C_SetGlobalKeyMapPrefix [p] => mem_ascii p puncts
  | _ => false
  end.

Definition is_keyprefix (c : call) : bool := match c with C_SetGlobalKeyMapPrefix _ => true | _ => false end.

(* every explicit form except the key prefix: in ANY state (the key prefix needs the invariant: C18Inv.v) *)
Lemma set_idempotent_any_state : forall st c st1,
  explicit c = true -> is_keyprefix c = false ->
  apply_call st c = Some st1 -> apply_call st1 c = Some st1.
Proof.
  intros st c st1 He Hk H.
  destruct c as [a|a|a|a|a|a|a|a|a|a|a|a|a|a|a|a|a|a|a| | |a|a|a|a]; try discriminate Hk;
    try (match type of a with
         | list bool => destruct a as [|x [|y r]]
         | list str => destruct a as [|x [|y r]]
         end; try discriminate He); cbn [apply_call] in *;
    rewrite ?XMLEscapeChars_char, ?XMLEscapeCharsDecoder_char, ?SetArraySize_char, ?LeafUseDotNotation_char,
            ?SetFieldSeparator_char, ?PrependAttrWithHyphen_char,
            ?IncludeTagSeqNum_char, ?CoerceKeysToLower_char, ?DisableTrimWhiteSpace_char, ?SetAttrPrefix_char,
            ?CoerceKeysToSnakeCase_char, ?CastValuesToInt_char, ?HandleXMPPStreamTag_char,
            ?DecodeSimpleValuesAsMap_char, ?CastNanInf_char, ?CastValuesToFloat_char, ?CastValuesToBool_char,
            ?SetCheckTagToSkipFunc_char, ?XmlGoEmptyElemSyntax_char, ?XmlDefaultEmptyElemSyntax_char,
            ?XmlCheckIsValid_char in *;
    unfold toggle_spec, arg_or in *; injection H as H; subst st1; try reflexivity.
  (* XMLEscapeCharsDecoder [x]: (e && !x) && !x = e && !x *)
  f_equal. apply st_ext. unfold fields. cbn. destruct (g_xmlEscapeChars st), x; reflexivity.
Qed.
