(* The small exported entry points go2v translated from /repo's CURRENT sources (Gen/Pure_gen.v):
     Map.Exists, Map.ValueForPath, Map.ValueForKey (exists.go, keyvalues.go)  - wrappers of ValuesForPath / ValuesForKey
     NewMapJsonReader, NewMapJsonReaderRaw (json.go)                          - getJson, then NewMapJson on its bytes
   ARE the model entry points.  The functions they call are Section variables of the translation; here they are
   instantiated with the TRANSLATED callees (run_ValuesForPath - every function below it, valuesForArray included, is
   translated code -, run_ValuesForKey, run_getJson), except NewMapJson
   (encoding/json: the environment of the reader model, an arbitrary function here as in Model/Reader.v). *)
From Coq Require Import Lia.
From Mxj Require Import Gen.GenSupport Gen.Setters_gen Gen.PureSupport Gen.Pure_gen Model.KeyValues Model.TreeOps Model.Reader.
From Mxj Require Import GenProofs.PureG GenProofs.PureG2 GenProofs.PureG3 GenProofs.PureG5 GenProofs.PureG6 GenProofs.PureG9.

(* ------------------------------------------------------------------ the translated callees as functions *)

Definition run_ValuesForPath pf (st : gstate) (m : entries) (path : str) (subkeys : list str) : res (list value) :=
  match fn_ValuesForPath (run_oldValuesForPath pf st) (run_getSubKeyMap pf st) (run_hasSubKeys st) (run_parsePath st)
          (run_valuesForArray pf st) st m path subkeys with Ret r => r | _ => Panic end.
Definition run_ValuesForKey pf (st : gstate) (m : entries) (key : str) (subkeys : list str) : res (list value) :=
  match fn_ValuesForKey (run_getSubKeyMap pf st) (run_hasKey st) st m key subkeys with Ret r => r | _ => Panic end.
Definition run_getJson (st : gstate) (S : list rev) : option ((str * option err) * list rev) :=
  match fn_getJson st S with Ret r => Some r | _ => None end.

Lemma of_res_run {A} (r : res A) : match of_res r with Ret x => x | _ => Panic end = r.
Proof. destruct r; reflexivity. Qed.

Lemma run_ValuesForPath_eq pf st m path sk : g_fieldSep st <> [] ->
  run_ValuesForPath pf st m path sk = values_for_path pf (g_fieldSep st) (VMap m) path sk.
Proof. intros H. unfold run_ValuesForPath. rewrite values_for_path_code_is_model_full by exact H. apply of_res_run. Qed.

Lemma run_ValuesForKey_eq pf st m key sk : g_fieldSep st <> [] ->
  run_ValuesForKey pf st m key sk = values_for_key pf (g_fieldSep st) (VMap m) key sk.
Proof. intros H. unfold run_ValuesForKey. rewrite values_for_key_code_is_model by exact H. apply of_res_run. Qed.

Lemma run_getJson_eq st S :
  run_getJson st S = match get_json S with
                     | Some (JOk b, S') => Some ((b, None), S')
                     | Some (JErr b e, S') => Some ((b, Some e), S')
                     | None => None
                     end.
Proof.
  unfold run_getJson. rewrite get_json_code_is_model.
  destruct (get_json S) as [[[b|b e] S']|]; reflexivity.
Qed.

(* ------------------------------------------------------------------ Map.Exists / ValueForPath / ValueForKey *)

Theorem exists_code_is_model : forall pf st m path subkeys, g_fieldSep st <> [] ->
  fn_Exists (run_ValuesForPath pf st) st m path subkeys
  = of_res (exists_path pf (g_fieldSep st) (VMap m) path subkeys).
Proof.
  intros pf st m path sk H. unfold fn_Exists, exists_path. rewrite run_ValuesForPath_eq by exact H.
  destruct (values_for_path pf (g_fieldSep st) (VMap m) path sk) as [vs|e|]; cbn [bind of_res]; try reflexivity.
  destruct vs; reflexivity.
Qed.

Theorem value_for_path_code_is_model : forall pf st m path, g_fieldSep st <> [] ->
  fn_ValueForPath (run_ValuesForPath pf st) st m path
  = of_res (value_for_path pf (g_fieldSep st) (VMap m) path).
Proof.
  intros pf st m path H. unfold fn_ValueForPath, value_for_path. rewrite run_ValuesForPath_eq by exact H.
  destruct (values_for_path pf (g_fieldSep st) (VMap m) path []) as [vs|e|]; cbn [bind of_res negb bindc]; try reflexivity.
  destruct vs; reflexivity.
Qed.

(* ValueForKey: the first value ValuesForKey returns, KeyNotExistError when there is none *)
Theorem value_for_key_code_is_model : forall pf st m key subkeys, g_fieldSep st <> [] ->
  fn_ValueForKey (run_ValuesForKey pf st) st m key subkeys
  = of_res (bind (values_for_key pf (g_fieldSep st) (VMap m) key subkeys)
                 (fun vs => match vs with [] => Err EOther | v :: _ => Ok v end)).
Proof.
  intros pf st m key sk H. unfold fn_ValueForKey. rewrite run_ValuesForKey_eq by exact H.
  destruct (values_for_key pf (g_fieldSep st) (VMap m) key sk) as [vs|e|]; cbn [bind of_res negb bindc]; try reflexivity.
  destruct vs; reflexivity.
Qed.

(* ------------------------------------------------------------------ NewMapJsonReader / NewMapJsonReaderRaw *)

(* the Go Map the translation carries for a model value: a nil Map and an empty Map are both the empty entry list *)
Definition entries_of (v : value) : entries := match v with VMap m => m | _ => [] end.
Definition nmj_of (f : str -> res entries) (b : str) : res value :=
  match f b with Ok m => Ok (VMap m) | Err e => Err e | Panic => Panic end.

Theorem new_map_json_reader_code_is_model : forall nmj st S,
  fn_NewMapJsonReader nmj (run_getJson st) st S
  = match new_map_json_reader (nmj_of nmj) S with
    | Some (Ok v, S') => Ret (Ok (entries_of v), S')
    | Some (Err e, S') => Ret (Err e, S')
    | Some (Panic, _) | None => Crash
    end.
Proof.
  intros nmj st S. unfold fn_NewMapJsonReader, new_map_json_reader. rewrite run_getJson_eq.
  destruct (get_json S) as [[[b|b e] S']|]; cbn [negb bindc]; try reflexivity.
  destruct b as [|c b]; cbn [length Z.of_nat Z.eqb bindc]; [reflexivity|].
  replace (Z.eqb (Z.of_nat (length (c :: b))) 0) with false by (symmetry; apply Z.eqb_neq; cbn [length]; lia).
  cbn [bindc]. unfold nmj_of. destruct (nmj (c :: b)); reflexivity.
Qed.

Theorem new_map_json_reader_raw_code_is_model : forall nmj st S,
  fn_NewMapJsonReaderRaw nmj (run_getJson st) st S
  = match new_map_json_reader_raw (nmj_of nmj) S with
    | Some (Ok v, b, S') => Ret ((entries_of v, b, None), S')
    | Some (Err e, b, S') => Ret (([], b, Some e), S')
    | Some (Panic, _, _) | None => Crash
    end.
Proof.
  intros nmj st S. unfold fn_NewMapJsonReaderRaw, new_map_json_reader_raw. rewrite run_getJson_eq.
  destruct (get_json S) as [[[b|b e] S']|]; cbn [negb bindc]; try reflexivity.
  destruct b as [|c b]; cbn [length Z.of_nat Z.eqb bindc]; [reflexivity|].
  replace (Z.eqb (Z.of_nat (length (c :: b))) 0) with false by (symmetry; apply Z.eqb_neq; cbn [length]; lia).
  cbn [bindc]. unfold nmj_of. destruct (nmj (c :: b)); reflexivity.
Qed.
