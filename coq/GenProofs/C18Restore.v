(* C18 - T6: the options can always be restored.  [restore] is a fixed list of explicit calls; after ANY
   history of the property's domain it brings the whole option state back to the initial one. *)
From Coq Require Import Lia.
From Mxj Require Import Gen.GenSupport Gen.Setters_gen GenProofs.C18G GenProofs.C18Idem GenProofs.C18Inv.
Local Open Scope string_scope.
Local Open Scope list_scope.

Definition restore : list call := [
  C_SetAttrPrefix (s"-");
  C_IncludeTagSeqNum [false]; C_CoerceKeysToLower [false]; C_CoerceKeysToSnakeCase [false];
  C_CastValuesToInt [false]; C_HandleXMPPStreamTag [false]; C_DecodeSimpleValuesAsMap [false];
  C_CastNanInf [false]; C_CastValuesToFloat [true]; C_CastValuesToBool [true];
  C_XMLEscapeCharsDecoder [false]; C_XMLEscapeChars [false];
  C_DisableTrimWhiteSpace [false];
  C_SetGlobalKeyMapPrefix (s"#");
  C_SetFieldSeparator [];
  C_SetArraySize 32;
  C_LeafUseDotNotation [false];
  C_SetCheckTagToSkipFunc None;
  C_XmlDefaultEmptyElemSyntax;
  C_XmlCheckIsValid [false];
  C_assign_JsonUseNumber false; C_assign_CustomDecoder None; C_assign_XmlCharsetReader None
].

Lemma restore_hist_ok : hist_ok restore.
Proof. reflexivity. Qed.

Lemma restore_explicit : forallb explicit (filter (fun c => negb (String.eqb (call_name c) "SetFieldSeparator")) restore) = true.
Proof. reflexivity. Qed.

(* ---- variables no call assigns keep their initial value ---- *)
Definition all_written : list string :=
  flat_map snd setter_writes ++ ["JsonUseNumber"; "CustomDecoder"; "XmlCharsetReader"].

Definition never_assigned : list string :=
  Eval vm_compute in filter (fun n => negb (existsb (String.eqb n) all_written)) option_vars.

Lemma assoc_s_in : forall n k t, In n (assoc_s k t) -> In n (flat_map snd t).
Proof.
  intros n k t. induction t as [|[k' v] t IH]; intros H; [contradiction H|].
  cbn [assoc_s] in H. cbn [flat_map snd]. apply in_or_app.
  destruct (String.eqb k k'); [left; exact H | right; exact (IH H)].
Qed.

Lemma call_writes_all : forall c n, In n (call_writes c) -> In n all_written.
Proof.
  intros c n H. unfold all_written. apply in_or_app.
  destruct c; try (left; exact (assoc_s_in _ _ _ H)); right; cbn in H |- *; tauto.
Qed.

Lemma run_frame : forall h st st',
  run h st = Some st' -> forall n, ~ In n all_written -> lookup n (fields st') = lookup n (fields st).
Proof.
  intros h. induction h as [|c t IH]; intros st st' Hr n Hn.
  - cbn in Hr. injection Hr as Hr. subst st'. reflexivity.
  - cbn [run] in Hr. destruct (apply_call st c) as [st1|] eqn:Ea; [|discriminate Hr].
    rewrite (IH st1 st' Hr n Hn).
    apply (set_frame st c st1 Ea). intro Hin. apply Hn. exact (call_writes_all c n Hin).
Qed.

Lemma never_assigned_check :
  forallb (fun n => negb (existsb (String.eqb n) all_written)) never_assigned = true.
Proof. vm_compute. reflexivity. Qed.

Lemma not_mem_from_check : forall (ws vars : list string),
  forallb (fun n => negb (existsb (String.eqb n) ws)) vars = true ->
  forall n, In n vars -> ~ In n ws.
Proof.
  intros ws vars Hc n H Hin. rewrite forallb_forall in Hc. specialize (Hc n H).
  apply negb_true_iff in Hc.
  assert (X : existsb (String.eqb n) ws = true).
  { apply existsb_exists. exists n. split; [exact Hin | apply String.eqb_refl]. }
  rewrite X in Hc. discriminate Hc.
Qed.

Lemma never_assigned_spec : forall n, In n never_assigned -> ~ In n all_written.
Proof. exact (not_mem_from_check all_written never_assigned never_assigned_check). Qed.

Theorem never_assigned_unchanged : forall h st,
  run h gstate0 = Some st ->
  Forall (fun n => lookup n (fields st) = lookup n (fields gstate0)) never_assigned.
Proof.
  intros h st Hr. apply Forall_forall. intros n Hn.
  exact (run_frame h gstate0 st Hr n (never_assigned_spec n Hn)).
Qed.

(* ---- symbolic execution of [restore] ---- *)
Lemma run_step : forall c t st st1 r,
  apply_call st c = Some st1 -> run t st1 = r -> run (c :: t) st = r.
Proof. intros c t st st1 r Ha Hr. cbn [run]. rewrite Ha. exact Hr. Qed.

Ltac use_char L := rewrite L; unfold toggle_spec, arg_or; cbv beta iota; reflexivity.
Ltac apply_char :=
  cbn [apply_call];
  lazymatch goal with
  | |- set_XMLEscapeChars _ _ = _ => use_char XMLEscapeChars_char
  | |- set_XMLEscapeCharsDecoder _ _ = _ => use_char XMLEscapeCharsDecoder_char
  | |- set_LeafUseDotNotation _ _ = _ => use_char LeafUseDotNotation_char
  | |- set_SetFieldSeparator _ _ = _ => use_char SetFieldSeparator_char
  | |- set_PrependAttrWithHyphen _ _ = _ => use_char PrependAttrWithHyphen_char
  | |- set_IncludeTagSeqNum _ _ = _ => use_char IncludeTagSeqNum_char
  | |- set_CoerceKeysToLower _ _ = _ => use_char CoerceKeysToLower_char
  | |- set_DisableTrimWhiteSpace _ _ = _ => use_char DisableTrimWhiteSpace_char
  | |- set_SetAttrPrefix _ _ = _ => use_char SetAttrPrefix_char
  | |- set_CoerceKeysToSnakeCase _ _ = _ => use_char CoerceKeysToSnakeCase_char
  | |- set_CastValuesToInt _ _ = _ => use_char CastValuesToInt_char
  | |- set_HandleXMPPStreamTag _ _ = _ => use_char HandleXMPPStreamTag_char
  | |- set_DecodeSimpleValuesAsMap _ _ = _ => use_char DecodeSimpleValuesAsMap_char
  | |- set_CastNanInf _ _ = _ => use_char CastNanInf_char
  | |- set_CastValuesToFloat _ _ = _ => use_char CastValuesToFloat_char
  | |- set_CastValuesToBool _ _ = _ => use_char CastValuesToBool_char
  | |- set_SetCheckTagToSkipFunc _ _ = _ => use_char SetCheckTagToSkipFunc_char
  | |- set_XmlGoEmptyElemSyntax _ = _ => use_char XmlGoEmptyElemSyntax_char
  | |- set_XmlDefaultEmptyElemSyntax _ = _ => use_char XmlDefaultEmptyElemSyntax_char
  | |- set_XmlCheckIsValid _ _ = _ => use_char XmlCheckIsValid_char
  | |- context [set_SetArraySize _ _] => rewrite SetArraySize_char; reflexivity
  | |- Some _ = _ => reflexivity
  end.
Ltac step := eapply run_step; [apply_char|].

Lemma restore_from_inv : forall st,
  Inv st ->
  Forall (fun n => lookup n (fields st) = lookup n (fields gstate0)) never_assigned ->
  run restore st = Some gstate0.
Proof.
  intros st HI HU.
  destruct HI as (_ & _ & _ & _ & _ & p0 & Hp0 & Hk).
  unfold restore.
  do 13 step.
  eapply run_step.
  { cbn [apply_call]. rewrite SetGlobalKeyMapPrefix_char.
    match goal with |- context [key_list ?cur] => rewrite (keys_nonempty p0 cur Hk) end.
    reflexivity. }
  do 9 step.
  cbn [run]. f_equal. apply st_ext.
  destruct Hk as (H1 & H2 & H3 & H4 & H5 & H6 & H7 & H8).
  unfold never_assigned in HU.
  destruct st. cbn in H1, H2, H3, H4, H5, H6, H7, H8. subst.
  lazy -[rekey] in HU.
  lazy -[rekey].
  rewrite !(rekey_punct p0) by (try exact Hp0; unfold key_suffixes; cbn; auto 10).
  repeat match goal with H : Forall _ (_ :: _) |- _ => inversion H; clear H; subst end.
  repeat f_equal; congruence.
Qed.

Theorem restore_run : forall h st,
  hist_ok h -> run h gstate0 = Some st -> run restore st = Some gstate0.
Proof.
  intros h st Hh Hr.
  exact (restore_from_inv st (inv_reachable h st Hh Hr) (never_assigned_unchanged h st Hr)).
Qed.

Theorem restore_defaults : forall h st st',
  hist_ok h -> run h gstate0 = Some st -> run restore st = Some st' -> st' = gstate0.
Proof.
  intros h st st' Hh Hr Hs. rewrite (restore_run h st Hh Hr) in Hs. injection Hs as Hs. symmetry. exact Hs.
Qed.

Theorem restore_fields : forall h st st',
  hist_ok h -> run h gstate0 = Some st -> run restore st = Some st' -> fields st' = fields gstate0.
Proof. intros h st st' Hh Hr Hs. rewrite (restore_defaults h st st' Hh Hr Hs). reflexivity. Qed.

Theorem restore_total : forall h st,
  hist_ok h -> run h gstate0 = Some st -> run restore st <> None.
Proof. intros h st Hh Hr. rewrite (restore_run h st Hh Hr). discriminate. Qed.

Lemma run_app : forall h1 h2 st,
  run (h1 ++ h2) st = match run h1 st with Some st1 => run h2 st1 | None => None end.
Proof.
  intros h1. induction h1 as [|c t IH]; intros h2 st; [reflexivity|].
  cbn [app run]. destruct (apply_call st c) as [st1|]; [apply IH | reflexivity].
Qed.

(* in one line: any admissible history followed by [restore] is the identity on a fresh process *)
Theorem history_then_restore : forall h, hist_ok h -> run (h ++ restore) gstate0 = Some gstate0.
Proof.
  intros h Hh. rewrite run_app.
  destruct (run h gstate0) as [st|] eqn:Hr.
  - exact (restore_run h st Hh Hr).
  - exfalso. exact (run_total h gstate0 Inv_init Hh Hr).
Qed.

(* ---- non-vacuity: a concrete history ---- *)
Definition sample_history : list call := [
  C_CoerceKeysToLower [];                       (* toggle on *)
  C_SetGlobalKeyMapPrefix (s"_");               (* key prefix change *)
  C_XMLEscapeChars [true];                      (* encoder-side escaping on ... *)
  C_XMLEscapeCharsDecoder [];                   (* ... switched off again by the decoder-side toggle *)
  C_XMLEscapeChars [true];                      (* ignored: the decoder-side switch is on *)
  C_SetAttrPrefix (s"@attr:");
  C_DisableTrimWhiteSpace [];
  C_CastValuesToFloat [];                       (* toggle off *)
  C_IncludeTagSeqNum [true; false];             (* two arguments: no effect *)
  C_XmlCheckIsValid [true; false];              (* two arguments: toggles *)
  C_SetFieldSeparator [s"|"];
  C_SetArraySize 5;                             (* clamps to 32 *)
  C_SetArraySize 100;
  C_SetGlobalKeyMapPrefix (s"$");
  C_XMLEscapeCharsDecoder [false];
  C_XMLEscapeChars [];                          (* now it toggles on *)
  C_assign_JsonUseNumber true;
  C_XmlGoEmptyElemSyntax
].

Example sample_history_ok : hist_ok sample_history.
Proof. reflexivity. Qed.

Example sample_history_long : (8 <= length sample_history)%nat.
Proof. cbn. lia. Qed.

Definition sample_state : gstate :=
  with_useGoXmlEmptyElemSyntax true (with_JsonUseNumber true (with_xmlEscapeChars true
  (with_defaultArraySize 100 (with_fieldSep (s"|") (with_xmlCheckIsValid true (with_castToFloat false
  (set_trim true (set_prefix (s"@attr:") (with_lowerCase true
  (with_textK (s"$text") (with_seqK (s"$seq") (with_commentK (s"$comment") (with_attrK (s"$attr")
  (with_directiveK (s"$directive") (with_procinstK (s"$procinst") (with_targetK (s"$target")
  (with_instK (s"$inst") gstate0))))))))))))))))).

Example sample_history_result : run sample_history gstate0 = Some sample_state.
Proof. vm_compute. reflexivity. Qed.

Example sample_state_differs : fields sample_state <> fields gstate0.
Proof. vm_compute. discriminate. Qed.

Example sample_restore : run restore sample_state = Some gstate0.
Proof. vm_compute. reflexivity. Qed.

(* the intermediate facts of the escaping interplay on this history *)
Example sample_escaping :
  (forall st, run (firstn 3 sample_history) gstate0 = Some st -> g_xmlEscapeChars st = true /\ g_xmlEscapeCharsDecoder st = false) /\
  (forall st, run (firstn 4 sample_history) gstate0 = Some st -> g_xmlEscapeChars st = false /\ g_xmlEscapeCharsDecoder st = true) /\
  (forall st, run (firstn 5 sample_history) gstate0 = Some st -> g_xmlEscapeChars st = false /\ g_xmlEscapeCharsDecoder st = true).
Proof.
  split; [|split]; intros st H; vm_compute in H; injection H as H; subst st; split; reflexivity.
Qed.
