(* Thin exported entry points go2v translated from /repo's CURRENT sources (Gen/Pure_gen.v), for ANY callees (Section
   variables of the translation):
     Map.Json        = marshalJSON(mv, flag)  with flag = the single optional argument, false otherwise          (json.go)
     Map.Copy        = Json() then NewMapJson                                                                    (mxj.go)
     NewMapXml       = xmlToMap(doc, flag),  NewMapXmlSeq = xmlSeqToMap(doc, flag)                                (xml.go, xmlseq.go)
     BeautifyXml     = NewMapXmlSeq(doc) then MapSeq.XmlIndent(prefix, indent)                                   (xmlseq.go)
     Map.Root        = the single key of a one-entry Map, an error otherwise                                      (misc.go)
     lastKey         = the last dot-separated segment of a path                                                   (rename.go / remove.go)
   The models of C01/C04/C06/C15/C19 are stated with exactly these compositions. *)
From Coq Require Import Lia.
From Mxj Require Import Gen.GenSupport Gen.Setters_gen Gen.PureSupport Gen.Pure_gen.
From Mxj Require Import Proofs.StrLemmas GenProofs.PureG2 GenProofs.PureG5.

Definition opt_flag (l : list bool) : bool := match l with [b] => b | _ => false end.

Lemma flag_select {A} (l : list bool) (K : bool -> ctl unit A) :
  bindc (S := bool)
    (if Z.eqb (Z.of_nat (length l)) 1
     then match nth_error l 0 with None => Crash | Some idx1 => Next idx1 end
     else Next false) K = K (opt_flag l).
Proof.
  destruct l as [|b [|b2 t]]; try reflexivity.
  replace (Z.eqb (Z.of_nat (length (b :: b2 :: t))) 1) with false by (symmetry; apply Z.eqb_neq; cbn [length]; lia).
  reflexivity.
Qed.

Lemma of_res_match {A} (r : res A) :
  match r with Ok v => Ret (Ok v) | Err e => Ret (Err e) | Panic => Crash end = (of_res r : ctl unit (res A)).
Proof. destruct r; reflexivity. Qed.

Theorem json_code : forall (marshalJSON : value -> bool -> res str) st mv safe,
  fn_Json marshalJSON st mv safe = of_res (marshalJSON (VMap mv) (opt_flag safe)).
Proof. intros M st mv safe. unfold fn_Json. cbv zeta. rewrite flag_select. apply of_res_match. Qed.

Theorem new_map_xml_code : forall (xmlToMap : str -> bool -> res entries) st doc cast,
  fn_NewMapXml xmlToMap st doc cast = of_res (xmlToMap doc (opt_flag cast)).
Proof. intros M st doc c. unfold fn_NewMapXml. cbv zeta. rewrite flag_select. apply of_res_match. Qed.

Theorem new_map_xml_seq_code : forall (xmlSeqToMap : str -> bool -> res entries) st doc cast,
  fn_NewMapXmlSeq xmlSeqToMap st doc cast = of_res (xmlSeqToMap doc (opt_flag cast)).
Proof. intros M st doc c. unfold fn_NewMapXmlSeq. cbv zeta. rewrite flag_select. apply of_res_match. Qed.

Theorem copy_code : forall (Json : entries -> list bool -> res str) (NewMapJson : str -> res entries) st mv,
  fn_Copy Json NewMapJson st mv = of_res (bind (Json mv []) NewMapJson).
Proof.
  intros J N st mv. unfold fn_Copy.
  destruct (J mv []) as [j|e|]; cbn [negb bindc bind of_res]; try reflexivity; try apply of_res_match.
Qed.

Theorem beautify_code : forall (NewMapXmlSeq : str -> list bool -> res entries)
    (XmlIndent : entries -> str -> str -> list str -> res str) st doc prefix indent,
  fn_BeautifyXml XmlIndent NewMapXmlSeq st doc prefix indent
  = of_res (bind (NewMapXmlSeq doc []) (fun x => XmlIndent x prefix indent [])).
Proof.
  intros N X st doc p i. unfold fn_BeautifyXml.
  destruct (N doc []) as [x|e|]; cbn [negb bindc bind of_res]; try reflexivity; try apply of_res_match.
Qed.

Theorem root_code : forall st mv,
  fn_Root st mv = Ret (match mv with [(k, _)] => Ok k | _ => Err EOther end).
Proof.
  intros st mv. unfold fn_Root. cbv zeta.
  destruct mv as [|[k v] [|e2 t]]; try reflexivity.
  replace (Z.eqb (Z.of_nat (length ((k, v) :: e2 :: t))) 1) with false by (symmetry; apply Z.eqb_neq; cbn [length]; lia).
  reflexivity.
Qed.

Theorem last_key_code : forall st path,
  fn_lastKey st path = Ret (last (split1 dot path) []).
Proof.
  intros st path. unfold fn_lastKey. cbv zeta. change (s ".") with [dot]. rewrite go_split_single.
  pose proof (split1_nonempty dot path) as Hne.
  destruct (split1 dot path) as [|h t] eqn:E; [exfalso; apply Hne; reflexivity|].
  rewrite <- E. clear Hne.
  assert (Hl : forall (l : list str), l <> [] -> nth_error l (length l - 1) = Some (last l [])).
  { induction l as [|a l IH]; intros Hn; [exfalso; apply Hn; reflexivity|].
    destruct l as [|b l]; [reflexivity|].
    cbn [length last]. replace (S (S (length l)) - 1) with (S (length (b :: l) - 1)) by (cbn [length]; lia).
    cbn [nth_error]. apply IH. discriminate. }
  rewrite Hl by (rewrite E; discriminate). reflexivity.
Qed.
