(* The comparison functions sort.Sort runs on the encoders' work lists, as go2v translated them from /repo's CURRENT
   sources (Gen/Pure_gen.v): attrList.Less (xml.go: attributes by name), elemList.Less (xml.go: sub-elements by key) -
   bytewise `<=` on the first cell of the two rows, a panic when an index is out of range (or, for elemList, when the
   first cell is not a string). *)
From Coq Require Import Lia.
From Mxj Require Import Gen.GenSupport Gen.Setters_gen Gen.PureSupport Gen.Pure_gen.

Theorem attr_list_less_code : forall st (a : list (list str)) i j ki ri kj rj,
  nth_error a i = Some (ki :: ri) -> nth_error a j = Some (kj :: rj) ->
  fn_attrList_Less st a (Z.of_nat i) (Z.of_nat j) = Ret (str_leb ki kj).
Proof.
  intros st a i j ki ri kj rj Hi Hj. unfold fn_attrList_Less.
  replace (Z.ltb (Z.of_nat i) 0) with false by (symmetry; apply Z.ltb_ge; lia).
  replace (Z.ltb (Z.of_nat j) 0) with false by (symmetry; apply Z.ltb_ge; lia).
  rewrite !Nat2Z.id, Hi, Hj. reflexivity.
Qed.

Theorem elem_list_less_code : forall st (e : list (list value)) i j ki ri kj rj,
  nth_error e i = Some (VStr ki :: ri) -> nth_error e j = Some (VStr kj :: rj) ->
  fn_elemList_Less st e (Z.of_nat i) (Z.of_nat j) = Ret (str_leb ki kj).
Proof.
  intros st e i j ki ri kj rj Hi Hj. unfold fn_elemList_Less.
  replace (Z.ltb (Z.of_nat i) 0) with false by (symmetry; apply Z.ltb_ge; lia).
  replace (Z.ltb (Z.of_nat j) 0) with false by (symmetry; apply Z.ltb_ge; lia).
  rewrite !Nat2Z.id, Hi, Hj. reflexivity.
Qed.
