(* remove.go / rename.go as go2v translated them from /repo's CURRENT sources (Gen/Pure_gen.v, write-back mode):
     parentPath, prevValueByPath (returns the map that holds the last key of the path TOGETHER WITH the function
     that stores a new version of that map back into the tree), remove, renameKey, Map.Remove, Map.RenameKey
   ARE the functional models of Model/TreeOps.v: parent_path, with_parent, remove_path, rename_write, rename_key.
   Every callee is translated code (run_ wrappers), Map.Exists included (PureG7.v). *)
From Coq Require Import Lia.
From Mxj Require Import Gen.GenSupport Gen.Setters_gen Gen.PureSupport Model.KeyValues Model.TreeOps.
From Mxj Require Import Proofs.StrLemmas Proofs.StrMore Proofs.KVTotal GenProofs.PureG GenProofs.PureG2 GenProofs.PureG5 GenProofs.PureG7 GenProofs.PureG13
  GenProofs.PureG21.
From Mxj Require Import Gen.Pure_gen.

(* ------------------------------------------------------------------ parentPath *)

Theorem parent_path_code : forall st path,
  fn_parentPath st path = Ret (parent_path path).
Proof.
  intros st path. unfold fn_parentPath, parent_path. cbv zeta. change (s ".") with [dot]. rewrite go_split_single.
  pose proof (split1_nonempty dot path) as Hne.
  set (l := split1 dot path) in *.
  assert (Hlen : 1 <= length l) by (destruct l; [congruence|cbn [length]; lia]).
  replace (Z.ltb 0 0) with false by reflexivity.
  rewrite (proj2 (Z.ltb_ge (Z.of_nat (length l) - 1) 0)) by lia.
  rewrite (proj2 (Z.ltb_ge (Z.of_nat (length l)) (Z.of_nat (length l) - 1))) by lia.
  cbn [orb]. change (Z.to_nat 0) with 0. cbn [skipn].
  replace (Z.to_nat (Z.of_nat (length l) - 1 - 0)) with (pred (length l)) by lia.
  unfold go_join. rewrite <- removelast_firstn_len. reflexivity.
Qed.

(* ------------------------------------------------------------------ prevValueByPath *)

(* the map that holds the last key of the path (model side; with_parent writes to exactly this map) *)
Fixpoint parent_map (keys : list str) (m : value) : option entries :=
  match m, keys with
  | VMap mm, [k] => if has_key k mm then Some mm else None
  | VMap mm, k :: rest =>
      match lookup k mm with
      | Some v => parent_map rest v
      | None => None
      end
  | _, _ => None
  end.

(* what prevValueByPath returns on (m, keys): an error exactly when with_parent fails (whatever is written); otherwise
   the parent map of the last key and a put-back function that builds the tree with_parent returns *)
Definition prev_spec (keys : list str) (m : value) (r : res (entries * (entries -> value))) : Prop :=
  match r with
  | Ok (mm, put) =>
      parent_map keys m = Some mm /\
      forall f, with_parent keys f m = Ok (put (f (last keys []) mm))
  | Err e => e = EOther /\ parent_map keys m = None /\ forall f, with_parent keys f m = Err EOther
  | Panic => False
  end.

Lemma with_parent_not_map keys f m : is_map m = false -> with_parent keys f m = Err EOther.
Proof. intros H. destruct m; try discriminate; destruct keys; reflexivity. Qed.

Lemma parent_map_not_map keys m : is_map m = false -> parent_map keys m = None.
Proof. intros H. destruct m; try discriminate; destruct keys; reflexivity. Qed.

Lemma with_parent_cons2 k k2 rest f mm :
  with_parent (k :: k2 :: rest) f (VMap mm)
  = match lookup k mm with
    | Some v => bind (with_parent (k2 :: rest) f v) (fun v' => Ok (VMap (set k v' mm)))
    | None => Err EOther
    end.
Proof. reflexivity. Qed.

Lemma parent_map_cons2 k k2 rest mm :
  parent_map (k :: k2 :: rest) (VMap mm)
  = match lookup k mm with Some v => parent_map (k2 :: rest) v | None => None end.
Proof. reflexivity. Qed.

Theorem prev_value_by_path_code_keys : forall st keys,
  keys <> [] -> Forall (fun x => mem_ascii dot x = false) keys ->
  forall fuel m, length keys <= fuel ->
  exists r, fn_prevValueByPath fuel st m (join sdot keys) = Ret r /\ prev_spec keys m r.
Proof.
  intros st keys. induction keys as [|k rest IH]; intros Hne HF fuel m Hfuel; [congruence|].
  destruct fuel as [|fuel_]; [cbn [length] in Hfuel; lia|].
  cbn [fn_prevValueByPath]. cbv zeta. change (s ".") with [dot]. rewrite go_split_single.
  unfold sdot. rewrite split1_join by assumption.
  destruct (is_map m) eqn:Em.
  2:{ exists (Err EOther). split.
      - destruct m; try discriminate; reflexivity.
      - cbn [prev_spec]. split; [reflexivity|]. split; [apply parent_map_not_map; exact Em|].
        intros f. apply with_parent_not_map. exact Em. }
  destruct m as [| | | | | | | |mm|]; try discriminate. clear Em.
  cbn [nth_error].
  match goal with |- context [range_loop ?b mm tt] => set (body := b) end.
  destruct rest as [|k2 rest'].
  - (* the last key: the map itself *)
    assert (Hloop : forall l, range_loop body l tt
                     = if has_key k l then Ret (Ok (mm, fun x_ : list (str * value) => VMap x_)) else Next tt).
    { induction l as [|[k' v] l IHl]; [reflexivity|].
      cbn [range_loop]. unfold has_key. cbn [lookup]. unfold body at 1. rewrite (str_eqb_sym k k').
      destruct (str_eqb k' k); [reflexivity|]. rewrite IHl. reflexivity. }
    rewrite Hloop.
    destruct (has_key k mm) eqn:Hk; cbn [bindc]; eexists; (split; [reflexivity|]);
      cbn [prev_spec parent_map with_parent last]; rewrite Hk; repeat split; reflexivity.
  - (* more keys: the sub-tree of the first entry with this key *)
    assert (Hloop : forall l, range_loop body l tt
                     = match lookup k l with
                       | Some v =>
                           match fn_prevValueByPath fuel_ st v (join sdot (k2 :: rest')) with
                           | Ret (Ok (sub_, put_)) => Ret (Ok (sub_, fun x_ : entries => VMap (set k (put_ x_) mm)))
                           | Ret (Err e_) => Ret (Err e_)
                           | _ => Crash
                           end
                       | None => Next tt
                       end).
    { induction l as [|[k' v] l IHl]; [reflexivity|].
      cbn [range_loop lookup]. unfold body at 1. rewrite (str_eqb_sym k k').
      destruct (str_eqb k' k) eqn:E; [|rewrite IHl; reflexivity].
      apply str_eqb_eq in E. subst k'.
      replace (Z.eqb (Z.of_nat (length (k :: k2 :: rest'))) 1) with false
        by (symmetry; apply Z.eqb_neq; cbn [length]; lia).
      cbn [length Nat.ltb Nat.leb skipn]. unfold go_join. change [dot] with sdot.
      destruct (fn_prevValueByPath fuel_ st v (join sdot (k2 :: rest'))) as [[[sub_ put_]|e_|]| | | |]; reflexivity. }
    rewrite Hloop.
    destruct (lookup k mm) as [v|] eqn:Hl.
    2:{ cbn [bindc]. eexists. split; [reflexivity|]. cbn [prev_spec]. rewrite parent_map_cons2, Hl. repeat split.
        intros f. rewrite with_parent_cons2, Hl. reflexivity. }
    inversion HF as [|? ? Hk HF']; subst.
    destruct (IH ltac:(discriminate) HF' fuel_ v ltac:(cbn [length] in *; lia)) as [r [Hr Hs]].
    rewrite Hr. destruct r as [[sub_ put_]|e_|]; cbn [prev_spec] in Hs; [| |contradiction].
    + destruct Hs as [Hp Hw]. cbn [bindc]. eexists. split; [reflexivity|]. cbn [prev_spec]. rewrite parent_map_cons2, Hl.
      split; [exact Hp|]. intros f. rewrite with_parent_cons2, Hl, Hw. reflexivity.
    + destruct Hs as [He [Hp Hw]]. subst e_. cbn [bindc]. eexists. split; [reflexivity|]. cbn [prev_spec].
      rewrite parent_map_cons2, Hl. split; [reflexivity|]. split; [exact Hp|].
      intros f. rewrite with_parent_cons2, Hl, Hw. reflexivity.
Qed.

(* the same for a path: the segments are those of strings.Split(path, ".") *)
Theorem prev_value_by_path_code : forall st fuel m path,
  length (split1 dot path) <= fuel ->
  exists r, fn_prevValueByPath fuel st m path = Ret r /\ prev_spec (split1 dot path) m r.
Proof.
  intros st fuel m path Hf.
  destruct (prev_value_by_path_code_keys st (split1 dot path) (split1_nonempty dot path) (split1_nosep_parts dot path)
              fuel m Hf) as [r [Hr Hs]].
  unfold sdot in Hr. rewrite join_split1 in Hr. exists r. split; assumption.
Qed.

(* ------------------------------------------------------------------ the translated callees as functions *)

Definition run_lastKey (st : gstate) (path : str) : str :=
  match fn_lastKey st path with Ret r => r | _ => [] end.
Definition run_parentPath (st : gstate) (path : str) : str :=
  match fn_parentPath st path with Ret r => r | _ => [] end.
(* fuel: one more than the number of segments of the path (any fuel >= that number gives the same result) *)
Definition run_prevValueByPath (st : gstate) (m : value) (path : str) : res (entries * (entries -> value)) :=
  match fn_prevValueByPath (S (length (split1 dot path))) st m path with Ret r => r | _ => Panic end.

Lemma run_lastKey_eq st path : run_lastKey st path = last (split1 dot path) [].
Proof. unfold run_lastKey. rewrite last_key_code. reflexivity. Qed.

Lemma run_parentPath_eq st path : run_parentPath st path = parent_path path.
Proof. unfold run_parentPath. rewrite parent_path_code. reflexivity. Qed.

Lemma run_prevValueByPath_spec st m path : prev_spec (split1 dot path) m (run_prevValueByPath st m path).
Proof.
  unfold run_prevValueByPath.
  destruct (prev_value_by_path_code st (S (length (split1 dot path))) m path ltac:(lia)) as [r [Hr Hs]].
  rewrite Hr. exact Hs.
Qed.

(* ------------------------------------------------------------------ remove / renameKey *)

(* result convention of a translated function with the in-out parameter m and an error result:
   Ok m' <-> (nil, m'), Err e <-> (e, m unchanged) *)
Definition tree_pair (m : value) (r : res value) : option err * value :=
  match r with Ok m' => (None, m') | Err e => (Some e, m) | Panic => (Some EOther, m) end.
Definition tree_result (m : value) (r : res value) : ctl unit (option err * value) :=
  match r with Panic => Crash | _ => Ret (tree_pair m r) end.

(* the common shape of remove and renameKey: prevValueByPath, then a write to the map it returned *)
Lemma prev_then_write (pv : value -> str -> res (entries * (entries -> value))) (f : str -> entries -> entries)
    (m : value) (path : str) (K : entries -> (entries -> value) -> ctl unit (option err * value)) :
  prev_spec (split1 dot path) m (pv m path) ->
  (forall mm put, K mm put = Ret (None, put (f (last (split1 dot path) []) mm))) ->
  match pv m path with
  | Panic => Crash
  | rr1 =>
      let '(l_val, l_val_put, l_err) :=
        match rr1 with
        | Ok (v_, p_) => (v_, p_, None)
        | Err e => (([] : entries), (fun _ => m), Some e)
        | Panic => (([] : entries), (fun _ => m), None)
        end in
      bindc (S := unit) (if negb (match l_err with None => true | Some _ => false end) then Ret (l_err, m) else Next tt)
        (fun _ => K l_val l_val_put)
  end = tree_result m (with_parent (split1 dot path) f m).
Proof.
  intros Hs HK.
  destruct (pv m path) as [[mm put]|e|]; cbn [prev_spec] in Hs; [| |contradiction].
  - destruct Hs as [_ Hw]. rewrite Hw. cbn [negb bindc tree_result tree_pair]. apply HK.
  - destruct Hs as [He [_ Hw]]. subst e. rewrite Hw. reflexivity.
Qed.

Theorem remove_code_is_model_gen : forall lk pv st m path,
  (forall p, lk p = last (split1 dot p) []) ->
  (forall m p, prev_spec (split1 dot p) m (pv m p)) ->
  fn_remove lk pv st m path = tree_result m (remove_path m path).
Proof.
  intros lk pv st m path Hlk Hpv. unfold fn_remove, remove_path.
  apply (prev_then_write pv (fun k mm => del k mm) m path); [apply Hpv|].
  intros mm put. cbv zeta. rewrite Hlk. reflexivity.
Qed.

Theorem remove_code_is_model : forall st m path,
  fn_remove (run_lastKey st) (run_prevValueByPath st) st m path = tree_result m (remove_path m path).
Proof.
  intros st m path. apply remove_code_is_model_gen; [apply run_lastKey_eq|apply run_prevValueByPath_spec].
Qed.

Theorem rename_key_inner_code_is_model_gen : forall lk pv st m path newName,
  (forall p, lk p = last (split1 dot p) []) ->
  (forall m p, prev_spec (split1 dot p) m (pv m p)) ->
  fn_renameKey lk pv st m path newName = tree_result m (with_parent (split1 dot path) (rename_write newName) m).
Proof.
  intros lk pv st m path newName Hlk Hpv. unfold fn_renameKey.
  apply (prev_then_write pv (rename_write newName) m path); [apply Hpv|].
  intros mm put. cbv zeta. rewrite Hlk. unfold rename_write.
  destruct (lookup (last (split1 dot path) []) mm); reflexivity.
Qed.

Theorem rename_key_inner_code_is_model : forall st m path newName,
  fn_renameKey (run_lastKey st) (run_prevValueByPath st) st m path newName
  = tree_result m (with_parent (split1 dot path) (rename_write newName) m).
Proof.
  intros st m path newName. apply rename_key_inner_code_is_model_gen; [apply run_lastKey_eq|apply run_prevValueByPath_spec].
Qed.

(* the translated remove / renameKey (translated lastKey and prevValueByPath plugged in) as functions *)
Definition run_remove (st : gstate) (m : value) (path : str) : option err * value :=
  match fn_remove (run_lastKey st) (run_prevValueByPath st) st m path with Ret r => r | _ => (Some EOther, m) end.
Definition run_renameKey (st : gstate) (m : value) (path newName : str) : option err * value :=
  match fn_renameKey (run_lastKey st) (run_prevValueByPath st) st m path newName with Ret r => r | _ => (Some EOther, m) end.

Lemma tree_result_run m r :
  match tree_result m r with Ret x => x | _ => (Some EOther, m) end = tree_pair m r.
Proof. destruct r; reflexivity. Qed.

Lemma run_remove_eq st m path : run_remove st m path = tree_pair m (remove_path m path).
Proof. unfold run_remove. rewrite remove_code_is_model. apply tree_result_run. Qed.

Lemma run_renameKey_eq st m path newName :
  run_renameKey st m path newName = tree_pair m (with_parent (split1 dot path) (rename_write newName) m).
Proof. unfold run_renameKey. rewrite rename_key_inner_code_is_model. apply tree_result_run. Qed.

(* ------------------------------------------------------------------ Map.Remove / Map.RenameKey *)

(* the result of an exported method with an error result: the error and the receiver afterwards *)
Definition map_result (mv : entries) (r : res value) : ctl unit (option err * entries) :=
  match r with
  | Ok m' => Ret (None, entries_or mv m')
  | Err e => Ret (Some e, mv)
  | Panic => Crash
  end.

(* a Map written through with_parent is a Map (entries_or above never takes its default) *)
Lemma with_parent_map keys f mm m' : with_parent keys f (VMap mm) = Ok m' -> exists mm', m' = VMap mm'.
Proof.
  destruct keys as [|k [|k2 rest]].
  - discriminate.
  - cbn [with_parent]. destruct (has_key k mm); [|discriminate]. intros H. injection H as H. eauto.
  - rewrite with_parent_cons2. destruct (lookup k mm) as [v|]; [|discriminate].
    destruct (with_parent (k2 :: rest) f v) as [v'| |]; cbn [bind]; try discriminate.
    intros H. injection H as H. eauto.
Qed.

(* a write below a Map, seen from the method: the pair the inner function returns becomes the method's result *)
Lemma map_write_back {A} (mv : entries) (r : res value) :
  r <> Panic ->
  (let '(re_, l_m_b) := tree_pair (VMap mv) r in
   let l_m := match l_m_b with VMap x_ => x_ | _ => mv end in Ret (re_, l_m) : ctl A (option err * entries))
  = match r with Ok m' => Ret (None, entries_or mv m') | Err e => Ret (Some e, mv) | Panic => Crash end.
Proof. intros Hnp. destruct r as [m'|e|]; [reflexivity|reflexivity|congruence]. Qed.

Theorem Remove_code_is_model_gen : forall rm st mv path,
  (forall m p, rm m p = tree_pair m (remove_path m p)) ->
  fn_Remove rm st mv path = map_result mv (remove_path (VMap mv) path).
Proof.
  intros rm st mv path Hrm. unfold fn_Remove. cbv zeta. rewrite Hrm.
  apply (map_write_back (A := unit)). apply remove_no_panic.
Qed.

Theorem Remove_code_is_model : forall st mv path,
  fn_Remove (run_remove st) st mv path = map_result mv (remove_path (VMap mv) path).
Proof. intros st mv path. apply Remove_code_is_model_gen. apply run_remove_eq. Qed.

(* newPath := newName; if pp := parentPath(path); pp != "" { newPath = pp + "." + newName } *)
Lemma sibling_select {A} (path newName : str) (K : str -> ctl unit A) :
  bindc (S := str)
    (if negb (str_eqb (parent_path path) [])
     then Next (app (app (parent_path path) (s ".")) newName)
     else Next newName) K = K (sibling_path path newName).
Proof.
  unfold sibling_path. destruct (parent_path path) as [|c pp]; [reflexivity|].
  cbn [str_eqb negb bindc]. change (s ".") with sdot. rewrite <- app_assoc. reflexivity.
Qed.

Theorem RenameKey_code_is_model_gen : forall pf sep ex pp rk st mv path newName,
  (forall mv p, ex mv p [] = exists_path pf sep (VMap mv) p []) ->
  (forall p, pp p = parent_path p) ->
  (forall m p n, rk m p n = tree_pair m (with_parent (split1 dot p) (rename_write n) m)) ->
  fn_RenameKey ex pp rk st mv path newName = map_result mv (rename_key pf sep (VMap mv) path newName).
Proof.
  intros pf sep ex pp rk st mv path newName Hex Hpp Hrk. unfold fn_RenameKey, rename_key. cbv zeta.
  rewrite Hex.
  destruct (exists_path pf sep (VMap mv) path []) as [[|]|e|]; cbn [negb bindc map_result]; try reflexivity.
  rewrite Hpp, sibling_select. rewrite Hex.
  destruct (exists_path pf sep (VMap mv) (sibling_path path newName) []) as [[|]|e|]; cbn [negb bindc map_result];
    try reflexivity.
  rewrite Hrk. apply (map_write_back (A := unit)). apply with_parent_no_panic.
Qed.

(* the translated Map.Exists (on the translated ValuesForPath, PureG7.v) as a function *)
Definition run_Exists pf (st : gstate) (mv : entries) (path : str) (subkeys : list str) : res bool :=
  match fn_Exists (run_ValuesForPath pf st) st mv path subkeys with Ret r => r | _ => Panic end.

Lemma run_Exists_eq pf st mv path sk : g_fieldSep st <> [] ->
  run_Exists pf st mv path sk = exists_path pf (g_fieldSep st) (VMap mv) path sk.
Proof. intros H. unfold run_Exists. rewrite exists_code_is_model by exact H. apply of_res_run. Qed.

Theorem RenameKey_code_is_model : forall pf st mv path newName,
  g_fieldSep st <> [] ->
  fn_RenameKey (run_Exists pf st) (run_parentPath st) (run_renameKey st) st mv path newName
  = map_result mv (rename_key pf (g_fieldSep st) (VMap mv) path newName).
Proof.
  intros pf st mv path newName Hs. apply RenameKey_code_is_model_gen.
  - intros mv' p. apply run_Exists_eq. exact Hs.
  - apply run_parentPath_eq.
  - apply run_renameKey_eq.
Qed.

(* ------------------------------------------------------------------ the same, read off case by case *)

(* prevValueByPath: an error exactly when with_parent fails whatever is written; otherwise the parent map of the last key
   and the put-back function: put (g mm) is the tree with_parent returns when it writes g mm *)
Corollary prev_value_by_path_code_cases : forall st fuel m path,
  length (split1 dot path) <= fuel ->
  (fn_prevValueByPath fuel st m path = Ret (Err EOther) /\
   parent_map (split1 dot path) m = None /\
   forall f, with_parent (split1 dot path) f m = Err EOther)
  \/ (exists mm put,
       fn_prevValueByPath fuel st m path = Ret (Ok (mm, put)) /\
       parent_map (split1 dot path) m = Some mm /\
       (forall f, with_parent (split1 dot path) f m = Ok (put (f (last (split1 dot path) []) mm))) /\
       (forall g, with_parent (split1 dot path) (fun _ mm => g mm) m = Ok (put (g mm)))).
Proof.
  intros st fuel m path Hf. destruct (prev_value_by_path_code st fuel m path Hf) as [r [Hr Hs]].
  destruct r as [[mm put]|e|]; cbn [prev_spec] in Hs; [| |contradiction].
  - right. exists mm, put. destruct Hs as [Hp Hw]. repeat split; try assumption. intros g. apply (Hw (fun _ mm => g mm)).
  - left. destruct Hs as [He [Hp Hw]]. subst e. repeat split; assumption.
Qed.

Corollary prev_value_by_path_code_err_iff : forall st fuel m path f,
  length (split1 dot path) <= fuel ->
  (fn_prevValueByPath fuel st m path = Ret (Err EOther) <-> exists e, with_parent (split1 dot path) f m = Err e).
Proof.
  intros st fuel m path f Hf.
  destruct (prev_value_by_path_code_cases st fuel m path Hf) as [[Hr [_ Hw]]|[mm [put [Hr [_ [Hw _]]]]]].
  - split; [intros _; exists EOther; apply Hw|intros _; exact Hr].
  - split; [rewrite Hr; discriminate|intros [e He]; rewrite Hw in He; discriminate].
Qed.

Corollary prev_value_by_path_code_no_panic : forall st fuel m path,
  length (split1 dot path) <= fuel -> fn_prevValueByPath fuel st m path <> Crash.
Proof.
  intros st fuel m path Hf. destruct (prev_value_by_path_code st fuel m path Hf) as [r [Hr _]]. rewrite Hr. discriminate.
Qed.

Corollary Remove_code_cases : forall st mv path,
  (exists e, remove_path (VMap mv) path = Err e /\ fn_Remove (run_remove st) st mv path = Ret (Some e, mv))
  \/ (exists mv', remove_path (VMap mv) path = Ok (VMap mv') /\ fn_Remove (run_remove st) st mv path = Ret (None, mv')).
Proof.
  intros st mv path. rewrite Remove_code_is_model.
  pose proof (remove_no_panic (VMap mv) path) as Hnp.
  destruct (remove_path (VMap mv) path) as [m'|e|] eqn:E; [| |congruence].
  - right. destruct (with_parent_map _ _ _ _ E) as [mv' ->]. exists mv'. split; reflexivity.
  - left. exists e. split; reflexivity.
Qed.

Lemma rename_key_map pf sep mv path newName m' :
  rename_key pf sep (VMap mv) path newName = Ok m' -> exists mv', m' = VMap mv'.
Proof.
  unfold rename_key.
  destruct (exists_path pf sep (VMap mv) path []) as [[|]| |]; try discriminate.
  destruct (exists_path pf sep (VMap mv) (sibling_path path newName) []) as [[|]| |]; try discriminate.
  apply with_parent_map.
Qed.

Corollary RenameKey_code_cases : forall pf st mv path newName,
  g_fieldSep st <> [] ->
  (exists e, rename_key pf (g_fieldSep st) (VMap mv) path newName = Err e /\
             fn_RenameKey (run_Exists pf st) (run_parentPath st) (run_renameKey st) st mv path newName = Ret (Some e, mv))
  \/ (exists mv', rename_key pf (g_fieldSep st) (VMap mv) path newName = Ok (VMap mv') /\
             fn_RenameKey (run_Exists pf st) (run_parentPath st) (run_renameKey st) st mv path newName = Ret (None, mv')).
Proof.
  intros pf st mv path newName Hs. rewrite RenameKey_code_is_model by exact Hs.
  pose proof (rename_no_panic pf (g_fieldSep st) (VMap mv) path newName) as Hnp.
  destruct (rename_key pf (g_fieldSep st) (VMap mv) path newName) as [m'|e|] eqn:E; [| |congruence].
  - right. destruct (rename_key_map _ _ _ _ _ _ E) as [mv' ->]. exists mv'. split; reflexivity.
  - left. exists e. split; reflexivity.
Qed.

Corollary Remove_code_no_panic : forall st mv path, fn_Remove (run_remove st) st mv path <> Crash.
Proof.
  intros st mv path. destruct (Remove_code_cases st mv path) as [[e [_ H]]|[mv' [_ H]]]; rewrite H; discriminate.
Qed.

Corollary RenameKey_code_no_panic : forall pf st mv path newName, g_fieldSep st <> [] ->
  fn_RenameKey (run_Exists pf st) (run_parentPath st) (run_renameKey st) st mv path newName <> Crash.
Proof.
  intros pf st mv path newName Hs.
  destruct (RenameKey_code_cases pf st mv path newName Hs) as [[e [_ H]]|[mv' [_ H]]]; rewrite H; discriminate.
Qed.

(* ------------------------------------------------------------------ non-vacuity: the translated code run on a concrete Map *)
Local Open Scope string_scope.
Definition ex_tree : entries :=
  [(s "a", VMap [(s "b", VMap [(s "c", VStr (s "x")); (s "d", VNil)]); (s "e", VList [VStr (s "q")])]);
   (s "f", VStr (s "w"))].

Example ex_fieldSep : g_fieldSep gstate0 <> [].
Proof. vm_compute. discriminate. Qed.

Example ex_parent_path : fn_parentPath gstate0 (s "a.b.c") = Ret (s "a.b").
Proof. vm_compute. reflexivity. Qed.

Example ex_prev :
  match fn_prevValueByPath 3 gstate0 (VMap ex_tree) (s "a.b.c") with
  | Ret (Ok (mm, put)) => (mm, put [(s "z", VNil)])
  | _ => ([], VNil)
  end
  = ([(s "c", VStr (s "x")); (s "d", VNil)],
     VMap [(s "a", VMap [(s "b", VMap [(s "z", VNil)]); (s "e", VList [VStr (s "q")])]); (s "f", VStr (s "w"))]).
Proof. vm_compute. reflexivity. Qed.

Example ex_remove :
  fn_Remove (run_remove gstate0) gstate0 ex_tree (s "a.b.c")
  = Ret (None, [(s "a", VMap [(s "b", VMap [(s "d", VNil)]); (s "e", VList [VStr (s "q")])]); (s "f", VStr (s "w"))]).
Proof. vm_compute. reflexivity. Qed.

Example ex_remove_error :
  fn_Remove (run_remove gstate0) gstate0 ex_tree (s "a.e.q") = Ret (Some EOther, ex_tree).
Proof. vm_compute. reflexivity. Qed.

Example ex_rename :
  fn_RenameKey (run_Exists (fun _ => None) gstate0) (run_parentPath gstate0) (run_renameKey gstate0) gstate0 ex_tree (s "a.b") (s "N")
  = Ret (None, [(s "a", VMap [(s "e", VList [VStr (s "q")]); (s "N", VMap [(s "c", VStr (s "x")); (s "d", VNil)])]);
                (s "f", VStr (s "w"))]).
Proof. vm_compute. reflexivity. Qed.

Example ex_rename_existing :
  fn_RenameKey (run_Exists (fun _ => None) gstate0) (run_parentPath gstate0) (run_renameKey gstate0) gstate0 ex_tree (s "a.b") (s "e")
  = Ret (Some EOther, ex_tree).
Proof. vm_compute. reflexivity. Qed.

Example ex_rename_top :
  fn_RenameKey (run_Exists (fun _ => None) gstate0) (run_parentPath gstate0) (run_renameKey gstate0) gstate0 ex_tree (s "f") (s "g")
  = Ret (None, [(s "a", VMap [(s "b", VMap [(s "c", VStr (s "x")); (s "d", VNil)]); (s "e", VList [VStr (s "q")])]);
                (s "g", VStr (s "w"))]).
Proof. vm_compute. reflexivity. Qed.

Print Assumptions parent_path_code.
Print Assumptions prev_value_by_path_code_keys.
Print Assumptions prev_value_by_path_code.
Print Assumptions prev_value_by_path_code_cases.
Print Assumptions prev_value_by_path_code_err_iff.
Print Assumptions prev_value_by_path_code_no_panic.
Print Assumptions run_prevValueByPath_spec.
Print Assumptions remove_code_is_model_gen.
Print Assumptions remove_code_is_model.
Print Assumptions rename_key_inner_code_is_model_gen.
Print Assumptions rename_key_inner_code_is_model.
Print Assumptions Remove_code_is_model_gen.
Print Assumptions Remove_code_is_model.
Print Assumptions RenameKey_code_is_model_gen.
Print Assumptions RenameKey_code_is_model.
Print Assumptions Remove_code_cases.
Print Assumptions RenameKey_code_cases.
Print Assumptions Remove_code_no_panic.
Print Assumptions RenameKey_code_no_panic.
