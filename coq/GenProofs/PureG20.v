(* NewMapJson (json.go), as go2v translated it from /repo's CURRENT sources (Gen/Pure_gen.v: empty input, the decoder with
   the UseNumber switch, the single Decode, the type switch on the decoded value with the "object" wrapper for a list, the
   error for anything else) IS the model [new_map_json] of Model/Json.v, for ANY decoding function (encoding/json is the
   environment: ext_json_Decode bytes usenum). *)
From Coq Require Import Lia.
From Mxj Require Import Gen.GenSupport Gen.Setters_gen Gen.PureSupport Gen.Pure_gen Model.Json.

Theorem new_map_json_code_is_model : forall (Decode : str -> bool -> res value) st b,
  fn_NewMapJson Decode st b
  = match new_map_json (fun x => Decode x (g_JsonUseNumber st)) b with
    | Ok (VMap m) => Ret (Ok m)
    | Ok _ => Crash                      (* never: new_map_json returns Maps only *)
    | Err e => Ret (Err e)
    | Panic => Crash
    end.
Proof.
  intros D st b. unfold fn_NewMapJson, new_map_json.
  destruct b as [|c b]; [reflexivity|].
  replace (Z.eqb (Z.of_nat (length (c :: b))) 0) with false by (symmetry; apply Z.eqb_neq; cbn [length]; lia).
  cbn [bindc]. cbv zeta.
  destruct (g_JsonUseNumber st); cbn [bindc];
    (match goal with |- context [D ?x ?u] => destruct (D x u) as [v|e|] end; cbn [negb bindc]; try reflexivity;
     destruct v; reflexivity).
Qed.

Corollary new_map_json_code_returns_maps : forall Decode st b m,
  fn_NewMapJson Decode st b = Ret (Ok m) -> new_map_json (fun x => Decode x (g_JsonUseNumber st)) b = Ok (VMap m).
Proof.
  intros D st b m H. rewrite new_map_json_code_is_model in H.
  destruct (new_map_json (fun x => D x (g_JsonUseNumber st)) b) as [v|e|]; try discriminate.
  destruct v; try discriminate. congruence.
Qed.
