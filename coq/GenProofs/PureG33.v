(* gob.go as go2v translated it from /repo's CURRENT sources (Gen/Pure_gen.v):
     Map.Gob      = gob.NewEncoder(&buf).Encode(map[string]interface{}(mv)), the bytes written
     NewMapGob    = an empty Map for empty input, otherwise gob.NewDecoder(bytes.NewReader(gobj)).Decode(&m) into a fresh map
   ARE the models map_gob / new_map_gob of Model/Files.v (C19), for ANY behaviour of encoding/gob (ext_gob_Encode: what Encode
   writes; ext_gob_Decode: the Map after Decode into the given - here empty - Map). *)
From Mxj Require Import Gen.GenSupport Gen.Setters_gen Gen.PureSupport Gen.Pure_gen Model.Files.
From Mxj Require Import GenProofs.PureG5.

(* the model's environment functions from the translation's *)
Definition gob_enc_of (encode : value -> res str) (v : value) : option bytes :=
  match encode v with Ok b => Some b | _ => None end.
Definition gob_dec_of (decode : str -> entries -> res entries) (b : bytes) : res value :=
  match decode b [] with Ok m => Ok (VMap m) | Err e => Err e | Panic => Panic end.

Definition res_map {A B} (f : A -> B) (r : res A) : res B :=
  match r with Ok a => Ok (f a) | Err e => Err e | Panic => Panic end.

Theorem gob_code_is_model : forall (encode : value -> res str) st mv, encode (VMap mv) <> Panic ->
  exists r, fn_Gob encode st mv = Ret r /\
    match r, map_gob (gob_enc_of encode) (VMap mv) with
    | Ok b, Ok b' => b = b'
    | Err _, Err _ => True
    | _, _ => False
    end.
Proof.
  intros E st mv Hn. unfold fn_Gob, map_gob, gob_enc_of. cbv zeta.
  destruct (E (VMap mv)) as [w|e|]; [| |contradiction Hn; reflexivity].
  - eexists. split; [reflexivity|]. reflexivity.
  - eexists. split; [reflexivity|]. exact I.
Qed.
Print Assumptions gob_code_is_model.

Theorem gob_code_panic : forall (encode : value -> res str) st mv, encode (VMap mv) = Panic -> fn_Gob encode st mv = Crash.
Proof. intros E st mv H. unfold fn_Gob. cbv zeta. rewrite H. reflexivity. Qed.

Theorem new_map_gob_code_is_model : forall (decode : str -> entries -> res entries) st gobj,
  fn_NewMapGob decode st gobj
  = of_res (res_map (fun v => match v with VMap m => m | _ => [] end) (new_map_gob (gob_dec_of decode) gobj)).
Proof.
  intros D st gobj. unfold fn_NewMapGob, new_map_gob, gob_dec_of. cbv zeta.
  destruct gobj as [|c g]; [reflexivity|].
  cbn [length Z.of_nat Z.eqb bindc].
  destruct (D (c :: g) []) as [m|e|]; reflexivity.
Qed.
Print Assumptions new_map_gob_code_is_model.

(* the round trip of C19 on the translated code: what Gob wrote, NewMapGob reads back, for a gob codec that inverts itself *)
Theorem gob_code_roundtrip : forall encode decode st mv b,
  encode (VMap mv) = Ok b -> b <> [] -> decode b [] = Ok mv ->
  fn_Gob encode st mv = Ret (Ok b) /\ fn_NewMapGob decode st b = Ret (Ok mv).
Proof.
  intros E D st mv b He Hb Hd. split.
  - unfold fn_Gob. cbv zeta. rewrite He. reflexivity.
  - rewrite new_map_gob_code_is_model. unfold new_map_gob, gob_dec_of.
    destruct b as [|c g]; [contradiction Hb; reflexivity|]. rewrite Hd. reflexivity.
Qed.
Print Assumptions gob_code_roundtrip.

Example gob_code_example :
  fn_NewMapGob (fun _ m => Ok (m ++ [(s "a", VInt 1)])) gstate0 [] = Ret (Ok []) /\
  fn_NewMapGob (fun _ m => Ok (m ++ [(s "a", VInt 1)])) gstate0 (s "x") = Ret (Ok [(s "a", VInt 1)]) /\
  fn_NewMapGob (fun _ _ => Err EOther) gstate0 (s "x") = Ret (Err EOther).
Proof. repeat split; reflexivity. Qed.
