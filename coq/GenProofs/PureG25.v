(* The four XML encoder ENTRY POINTS - Map.Xml (xml.go:702), Map.XmlIndent (xml.go:971), MapSeq.Xml (xmlseq.go:459),
   MapSeq.XmlIndent (xmlseq.go:565) - as go2v translated them from /repo's CURRENT sources (Gen/Pure_gen.v: fn_Map_Xml,
   fn_Map_XmlIndent, fn_MapSeq_Xml, fn_MapSeq_XmlIndent), properties C03 / C05 / C16.

   Part 1 (root selection, generic in the encoder).  For EVERY encoder function ext (any behaviour: any bytes, any error, a
   panic), every tokenizer dec, every package state: the entry point is ONE call of the encoder, on an empty buffer and a fresh
   pretty record, with the key / value chosen by root_sel / root_sel_indent, followed by [finish] (the validity scan).  The Go
   code ranges over the single-entry map; the translation ranges over the one-element entries list.  root_sel is tied to the
   hand-written models map_xml_items / map_xml_indent_items / seq_xml_items / seq_xml_indent_items (rootTag : option str) through
   rt_opt: no tag = None, one tag = Some tag, TWO OR MORE tags = Some "doc" (and NOT None: a single-key Map is then encoded under
   "doc", root_sel_many_tags_not_none).

   Part 2 (validity, for every encoder behaviour).  With xmlCheckIsValid on, a result (b, nil) has a token stream that ends with
   io.EOF; an output whose token stream ends in an error gives (nil, error).  The scan's verdict REPLACES the encoder's error:
   when the encoder failed and the tokenizer accepts the bytes written so far, the entry point returns those bytes and a NIL
   error (entry_check_on, check_swallows_encoder_error).  With the check off the result is exactly (buffer, encoder's error).

   Part 3 (compact mode = model) is GenProofs/PureG26.v. *)
From Coq Require Import Lia.
From Mxj Require Import Gen.GenSupport Gen.Setters_gen Gen.PureSupport Gen.Pure_gen Model.XmlEnc Model.SeqEnc Model.EscOpts.

(* what an encoder call hands back: its error, the buffer and the five fields of *pretty afterwards; None = it panicked *)
Definition enc_out : Type := (option err * (str * str * Z * str * Z * Z))%type.
Definition enc_fn : Type := bool -> str -> str -> value -> str -> Z -> str -> Z -> Z -> option enc_out.
Definition entry_res : Type := ctl unit (str * option err).

(* ------------------------------------------------------------------ 1. root selection *)

(* Map.Xml / MapSeq.Xml: the key and the value handed to the encoder *)
Definition root_sel (m : entries) (rt : list str) : str * value :=
  match rt with
  | [] =>
      match m with
      | [(k, v)] =>
          match v with
          | VList l => if all_maps l then (k, v) else (default_root, VMap m)
          | _ => (k, v)
          end
      | _ => (default_root, VMap m)
      end
  | [x] => (x, VMap m)
  | _ => (default_root, VMap m)
  end.

(* Map.XmlIndent / MapSeq.XmlIndent *)
Definition root_sel_indent (m : entries) (rt : list str) : str * value :=
  match rt with
  | [] =>
      match m with
      | [(k, v)] => match v with VList _ => (default_root, VMap m) | _ => (k, v) end
      | _ => (default_root, VMap m)
      end
  | [x] => (x, VMap m)
  | _ => (default_root, VMap m)
  end.

(* the token stream of b ends with io.EOF (no syntax error) *)
Definition accepts (dec : str -> xdecoder) (b : str) : Prop := snd (dec b) = TermEOF.
Definition acceptb (dec : str -> xdecoder) (b : str) : bool :=
  match snd (dec b) with TermEOF => true | TermErr => false end.
Lemma acceptb_accepts dec b : acceptb dec b = true <-> accepts dec b.
Proof. unfold acceptb, accepts. destruct (snd (dec b)); split; congruence. Qed.

(* for { _, err = d.Token(); if err == io.EOF { err = nil; break } else if err != nil { return nil, err } } ; return b, err *)
Definition scan (dec : str -> xdecoder) (b : str) : entry_res :=
  if acceptb dec b then Ret (b, None) else Ret ([], Some EOther).

(* after the encoder call (Map.Xml, Map.XmlIndent, MapSeq.Xml): a panic of the encoder is a panic; with xmlCheckIsValid the
   verdict of the scan is the result WHATEVER the encoder's error was; without it the buffer and the encoder's error *)
Definition finish (st : gstate) (dec : str -> xdecoder) (r : option enc_out) : entry_res :=
  match r with
  | None => Crash
  | Some (e, (b, _, _, _, _, _)) => if g_xmlCheckIsValid st then scan dec b else Ret (b, e)
  end.

(* MapSeq.XmlIndent: with xmlCheckIsValid the output is first decoded by NewMapXml, whose error (or panic) is the result *)
Definition finish_nmx (nmx : str -> list bool -> res entries) (st : gstate) (dec : str -> xdecoder) (r : option enc_out) : entry_res :=
  match r with
  | None => Crash
  | Some (e, (b, _, _, _, _, _)) =>
      if g_xmlCheckIsValid st then
        match nmx b [] with
        | Panic => Crash
        | Err e' => Ret ([], Some e')
        | Ok _ => scan dec b
        end
      else Ret (b, e)
  end.

(* ---- small facts *)
Lemma len_eqb0 {A} (l : list A) : (Z.of_nat (length l) =? 0)%Z = match l with [] => true | _ => false end.
Proof. destruct l; [reflexivity|]. cbn [length]. apply Z.eqb_neq. lia. Qed.
Lemma len_eqb1 {A} (l : list A) : (Z.of_nat (length l) =? 1)%Z = match l with [_] => true | _ => false end.
Proof. destruct l as [|a [|a' l]]; [reflexivity|reflexivity|]. cbn [length]. apply Z.eqb_neq. lia. Qed.

(* one iteration of the token loop *)
Definition scan_step (sd : option err * xdecoder) : ctl (option err * xdecoder) (str * option err) :=
  let '(_, d) := sd in
  let '(_, e, d') := go_token d in
  if (match e with Some EEOF => true | _ => false end) then Brk (None, d')
  else if negb (match e with None => true | Some _ => false end) then Ret ([], e) else Next (e, d').

(* the token loop: one more iteration than there are tokens; the end of the stream decides *)
Lemma scan_loop0 body : (forall sd, body sd = scan_step sd) ->
  forall ts tm e, for_loop (S (length ts)) body (e, (ts, tm)) =
    match tm with TermEOF => Next (None, ([], TermEOF)) | TermErr => Ret ([], Some EOther) end.
Proof.
  intros Hb. induction ts as [|t ts IH]; intros tm e.
  - cbn [length for_loop]. rewrite Hb. unfold scan_step, go_token. cbn [fst snd]. destruct tm; reflexivity.
  - cbn [length].
    change (for_loop (S (S (length ts))) body (e, (t :: ts, tm)))
      with (match body (e, (t :: ts, tm)) with
            | Next s' => for_loop (S (length ts)) body s' | Brk s' => Next s' | r => r end).
    rewrite Hb. unfold scan_step at 1, go_token. cbn [fst snd]. apply IH.
Qed.
Lemma scan_loop body : (forall sd, body sd = scan_step sd) ->
  forall d e, for_loop (S (length (fst d))) body (e, d) =
    match snd d with TermEOF => Next (None, ([], TermEOF)) | TermErr => Ret ([], Some EOther) end.
Proof. intros Hb [ts tm] e. cbn [fst snd]. apply scan_loop0. exact Hb. Qed.

(* for _, v := range list { switch v.(type) { case map: noop; default: ...; goto done } }: the state is not changed by a Map;
   the first member that is no Map ends the function with R *)
Lemma all_maps_loop {S A} (body : S -> value -> ctl S A) (s : S) (R : ctl S A) :
  (forall x, body s x = if is_map x then Next s else R) ->
  match R with Next _ | Brk _ => False | _ => True end ->
  forall l, range_loop body l s = if all_maps l then Next s else R.
Proof.
  intros Hb HR. induction l as [|x l IH]; [reflexivity|].
  cbn [range_loop]. rewrite Hb. unfold all_maps in *. cbn [forallb].
  destruct (is_map x); cbn [andb]; [exact IH|]. destruct R; try reflexivity; destruct HR.
Qed.

Ltac fin_tac st dec call :=
  let e := fresh "e" in let b := fresh "b" in let i := fresh "i" in let c := fresh "c" in
  let p := fresh "p" in let mm := fresh "mm" in let t := fresh "t" in
  destruct call as [[e [[[[[b i] c] p] mm] t]]|]; cbn [bindc finish go_jump range_loop]; [|reflexivity];
  destruct (g_xmlCheckIsValid st); cbn [bindc go_jump range_loop]; [|reflexivity];
  erewrite scan_loop by (intros [? ?]; reflexivity);
  unfold scan, acceptb; destruct (snd (dec b)); reflexivity.

Ltac fin st dec := match goal with |- _ = finish _ _ ?call => fin_tac st dec call end.

(* ---- Map.Xml *)
Theorem map_xml_is_root_sel : forall (ext : enc_fn) dec st m rt,
  fn_Map_Xml ext dec st m rt =
  finish st dec (ext false [] (fst (root_sel m rt)) (snd (root_sel m rt)) [] 0%Z [] 0%Z 0%Z).
Proof.
  intros ext dec st m rt. unfold fn_Map_Xml. cbv zeta. rewrite len_eqb0, !len_eqb1.
  destruct rt as [|x [|x' rt]].
  - destruct m as [|[k v] [|kv' m]].
    + cbn [root_sel fst snd]; unfold default_root. fin st dec.
    + cbn [range_loop].
      destruct v as [x0|b0| |z|z|z|f0|x0|m0|l]; cbn [root_sel fst snd bindc]; try (fin st dec).
      erewrite all_maps_loop; cycle 1.
      * intros x; destruct x; cbn beta iota; reflexivity.
      * cbn beta iota. destruct (ext false [] (s "doc") (VMap [(k, VList l)]) [] 0%Z [] 0%Z 0%Z) as [[e [[[[[b i] c] p] mm] t]]|]; [|exact I].
        unfold go_jump. destruct (bindc _ _); exact I.
      * destruct (all_maps l); cbn [fst snd bindc]; unfold default_root; fin st dec.
    + cbn [root_sel fst snd]; unfold default_root. fin st dec.
  - cbn [root_sel fst snd nth_error]. destruct m as [|kv [|kv' m]]; fin st dec.
  - cbn [root_sel fst snd nth_error]; unfold default_root. destruct m as [|kv [|kv' m]]; fin st dec.
Qed.

(* ---- MapSeq.Xml: the same statement list, with mapToXmlSeqIndent as the encoder *)
Theorem mapseq_xml_is_root_sel : forall (ext : enc_fn) dec st m rt,
  fn_MapSeq_Xml ext dec st m rt =
  finish st dec (ext false [] (fst (root_sel m rt)) (snd (root_sel m rt)) [] 0%Z [] 0%Z 0%Z).
Proof. exact map_xml_is_root_sel. Qed.

(* ---- Map.XmlIndent: p.indent = indent, p.padding = prefix *)
Theorem map_xmlindent_is_root_sel : forall (ext : enc_fn) dec st m prefix indent rt,
  fn_Map_XmlIndent ext dec st m prefix indent rt =
  finish st dec (ext true [] (fst (root_sel_indent m rt)) (snd (root_sel_indent m rt)) indent 0%Z prefix 0%Z 0%Z).
Proof.
  intros ext dec st m prefix indent rt. unfold fn_Map_XmlIndent. cbv zeta. rewrite len_eqb0, !len_eqb1.
  destruct rt as [|x [|x' rt]].
  - destruct m as [|[k v] [|kv' m]].
    + cbn [root_sel_indent fst snd]; unfold default_root. fin st dec.
    + cbn [range_loop].
      destruct v as [x0|b0| |z|z|z|f0|x0|m0|l]; cbn [root_sel_indent fst snd bindc]; unfold default_root; fin st dec.
    + cbn [root_sel_indent fst snd]; unfold default_root. fin st dec.
  - cbn [root_sel_indent fst snd nth_error]. destruct m as [|kv [|kv' m]]; fin st dec.
  - cbn [root_sel_indent fst snd nth_error]; unfold default_root. destruct m as [|kv [|kv' m]]; fin st dec.
Qed.

Ltac fin_nmx_tac nmx st dec call :=
  let e := fresh "e" in let b := fresh "b" in let i := fresh "i" in let c := fresh "c" in
  let p := fresh "p" in let mm := fresh "mm" in let t := fresh "t" in
  destruct call as [[e [[[[[b i] c] p] mm] t]]|]; cbn [bindc finish_nmx range_loop]; [|reflexivity];
  destruct (g_xmlCheckIsValid st); cbn [bindc range_loop]; [|reflexivity];
  destruct (nmx b []) as [x_|e_|]; cbn [bindc negb]; [|reflexivity|reflexivity];
  erewrite scan_loop by (intros [? ?]; reflexivity);
  unfold scan, acceptb; destruct (snd (dec b)); reflexivity.
Ltac finx nmx st dec := match goal with |- _ = finish_nmx _ _ _ ?call => fin_nmx_tac nmx st dec call end.

(* ---- MapSeq.XmlIndent: the NewMapXml check in front of the scan *)
Theorem mapseq_xmlindent_is_root_sel : forall nmx (ext : enc_fn) dec st m prefix indent rt,
  fn_MapSeq_XmlIndent nmx ext dec st m prefix indent rt =
  finish_nmx nmx st dec (ext true [] (fst (root_sel_indent m rt)) (snd (root_sel_indent m rt)) indent 0%Z prefix 0%Z 0%Z).
Proof.
  intros nmx ext dec st m prefix indent rt. unfold fn_MapSeq_XmlIndent. cbv zeta. rewrite len_eqb0, !len_eqb1.
  destruct rt as [|x [|x' rt]].
  - destruct m as [|[k v] [|kv' m]].
    + cbn [root_sel_indent fst snd]; unfold default_root. finx nmx st dec.
    + cbn [range_loop].
      destruct v as [x0|b0| |z|z|z|f0|x0|m0|l]; cbn [root_sel_indent fst snd bindc]; unfold default_root; finx nmx st dec.
    + cbn [root_sel_indent fst snd]; unfold default_root. finx nmx st dec.
  - cbn [root_sel_indent fst snd nth_error]. destruct m as [|kv [|kv' m]]; finx nmx st dec.
  - cbn [root_sel_indent fst snd nth_error]; unfold default_root. destruct m as [|kv [|kv' m]]; finx nmx st dec.
Qed.

(* ------------------------------------------------------------------ 1b. root_sel and the hand-written models *)

(* the rootTag argument of the models: no tag, the tag, and for TWO OR MORE tags the default root tag (the Go code falls into
   its last branch: DefaultRootTag around the whole Map) *)
Definition rt_opt (rt : list str) : option str :=
  match rt with [] => None | [x] => Some x | _ => Some default_root end.

Theorem root_sel_is_map_xml_items : forall o m rt,
  map_xml_items o m (rt_opt rt) = enc o (snd (root_sel m rt)) (fst (root_sel m rt)).
Proof.
  intros o m rt. destruct rt as [|x [|x' rt]]; cbn [rt_opt root_sel map_xml_items fst snd]; try reflexivity.
  destruct m as [|[k v] [|kv' m]]; try reflexivity.
  destruct v; try reflexivity. destruct (all_maps l); reflexivity.
Qed.
Theorem root_sel_indent_is_map_xml_indent_items : forall o m rt,
  map_xml_indent_items o m (rt_opt rt) = enc o (snd (root_sel_indent m rt)) (fst (root_sel_indent m rt)).
Proof.
  intros o m rt. destruct rt as [|x [|x' rt]]; cbn [rt_opt root_sel_indent map_xml_indent_items fst snd]; try reflexivity.
  destruct m as [|[k v] [|kv' m]]; try reflexivity. destruct v; reflexivity.
Qed.
Theorem root_sel_is_seq_xml_items : forall o m rt,
  seq_xml_items o m (rt_opt rt) = senc o (snd (root_sel m rt)) (fst (root_sel m rt)).
Proof.
  intros o m rt. destruct rt as [|x [|x' rt]]; cbn [rt_opt root_sel seq_xml_items fst snd]; try reflexivity.
  destruct m as [|[k v] [|kv' m]]; try reflexivity.
  destruct v; try reflexivity. destruct (all_maps l); reflexivity.
Qed.
Theorem root_sel_indent_is_seq_xml_indent_items : forall o m rt,
  seq_xml_indent_items o m (rt_opt rt) = senc o (snd (root_sel_indent m rt)) (fst (root_sel_indent m rt)).
Proof.
  intros o m rt. destruct rt as [|x [|x' rt]]; cbn [rt_opt root_sel_indent seq_xml_indent_items fst snd]; try reflexivity.
  destruct m as [|[k v] [|kv' m]]; try reflexivity. destruct v; reflexivity.
Qed.

(* the statements in the form "at most one tag: the models with None / Some tag" *)
Corollary root_sel_le1 : forall o m rt, length rt <= 1 ->
  map_xml_items o m (match rt with [x] => Some x | _ => None end) = enc o (snd (root_sel m rt)) (fst (root_sel m rt)) /\
  map_xml_indent_items o m (match rt with [x] => Some x | _ => None end)
    = enc o (snd (root_sel_indent m rt)) (fst (root_sel_indent m rt)) /\
  seq_xml_items o m (match rt with [x] => Some x | _ => None end) = senc o (snd (root_sel m rt)) (fst (root_sel m rt)) /\
  seq_xml_indent_items o m (match rt with [x] => Some x | _ => None end)
    = senc o (snd (root_sel_indent m rt)) (fst (root_sel_indent m rt)).
Proof.
  intros o m rt Hl.
  assert (E : (match rt with [x] => Some x | _ => None end) = rt_opt rt).
  { destruct rt as [|x [|x' rt]]; try reflexivity. cbn [length] in Hl. lia. }
  rewrite E. split; [apply root_sel_is_map_xml_items|]. split; [apply root_sel_indent_is_map_xml_indent_items|].
  split; [apply root_sel_is_seq_xml_items|apply root_sel_indent_is_seq_xml_indent_items].
Qed.
(* two or more tags: the whole Map under "doc", whatever its shape *)
Corollary root_sel_many_tags : forall m rt, 2 <= length rt ->
  root_sel m rt = (default_root, VMap m) /\ root_sel_indent m rt = (default_root, VMap m) /\ rt_opt rt = Some default_root.
Proof. intros m rt Hl. destruct rt as [|x [|x' rt]]; cbn [length] in Hl; try lia. repeat split. Qed.
(* ... which is NOT what the models say for None: a single-key Map is encoded under its key there *)
Theorem root_sel_many_tags_not_none :
  exists m rt, length rt = 2 /\
    map_xml_items opts0 m None <> enc opts0 (snd (root_sel m rt)) (fst (root_sel m rt)) /\
    map_xml_indent_items opts0 m None <> enc opts0 (snd (root_sel_indent m rt)) (fst (root_sel_indent m rt)) /\
    seq_xml_items opts0 m None <> senc opts0 (snd (root_sel m rt)) (fst (root_sel m rt)) /\
    seq_xml_indent_items opts0 m None <> senc opts0 (snd (root_sel_indent m rt)) (fst (root_sel_indent m rt)).
Proof. exists [(s "a", VInt 1)], [s "r1"; s "r2"]. split; [reflexivity|]. repeat split; vm_compute; discriminate. Qed.

(* ------------------------------------------------------------------ 2. validity, for every encoder behaviour *)

Section Finish.
Variables (st : gstate) (dec : str -> xdecoder).

Lemma finish_panic : finish st dec None = Crash.
Proof. reflexivity. Qed.
(* check off: exactly the buffer and the encoder's error *)
Lemma finish_check_off e b i c p mm t : g_xmlCheckIsValid st = false ->
  finish st dec (Some (e, (b, i, c, p, mm, t))) = Ret (b, e).
Proof. intros H. cbn [finish]. rewrite H. reflexivity. Qed.
(* check on: the verdict of the scan; the encoder's error e does not occur on the right *)
Lemma finish_check_on e b i c p mm t : g_xmlCheckIsValid st = true ->
  finish st dec (Some (e, (b, i, c, p, mm, t))) = if acceptb dec b then Ret (b, None) else Ret ([], Some EOther).
Proof. intros H. cbn [finish]. rewrite H. reflexivity. Qed.
Lemma finish_valid r b : g_xmlCheckIsValid st = true -> finish st dec r = Ret (b, None) -> accepts dec b.
Proof.
  intros H E. destruct r as [[e [[[[[b' i] c] p] mm] t]]|]; [|discriminate E].
  rewrite finish_check_on in E by exact H. apply acceptb_accepts.
  destruct (acceptb dec b') eqn:Ea; [|discriminate E]. injection E as <-. exact Ea.
Qed.
Lemma finish_invalid e b i c p mm t : g_xmlCheckIsValid st = true -> ~ accepts dec b ->
  finish st dec (Some (e, (b, i, c, p, mm, t))) = Ret ([], Some EOther).
Proof.
  intros H Hn. rewrite finish_check_on by exact H. destruct (acceptb dec b) eqn:Ea; [|reflexivity].
  exfalso. apply Hn. apply acceptb_accepts. exact Ea.
Qed.
(* the encoder failed, the tokenizer accepts what was written: the bytes and a NIL error *)
Lemma finish_swallow e b i c p mm t : g_xmlCheckIsValid st = true -> accepts dec b ->
  finish st dec (Some (Some e, (b, i, c, p, mm, t))) = Ret (b, None).
Proof. intros H Ha. rewrite finish_check_on by exact H. apply acceptb_accepts in Ha. rewrite Ha. reflexivity. Qed.

Variable nmx : str -> list bool -> res entries.
Lemma finish_nmx_panic : finish_nmx nmx st dec None = Crash.
Proof. reflexivity. Qed.
Lemma finish_nmx_check_off e b i c p mm t : g_xmlCheckIsValid st = false ->
  finish_nmx nmx st dec (Some (e, (b, i, c, p, mm, t))) = Ret (b, e).
Proof. intros H. cbn [finish_nmx]. rewrite H. reflexivity. Qed.
Lemma finish_nmx_check_on e b i c p mm t : g_xmlCheckIsValid st = true ->
  finish_nmx nmx st dec (Some (e, (b, i, c, p, mm, t))) =
  match nmx b [] with
  | Panic => Crash
  | Err e' => Ret ([], Some e')
  | Ok _ => if acceptb dec b then Ret (b, None) else Ret ([], Some EOther)
  end.
Proof. intros H. cbn [finish_nmx]. rewrite H. reflexivity. Qed.
Lemma finish_nmx_valid r b : g_xmlCheckIsValid st = true -> finish_nmx nmx st dec r = Ret (b, None) ->
  accepts dec b /\ exists mv, nmx b [] = Ok mv.
Proof.
  intros H E. destruct r as [[e [[[[[b' i] c] p] mm] t]]|]; [|discriminate E].
  rewrite finish_nmx_check_on in E by exact H.
  destruct (nmx b' []) as [mv|e'|] eqn:En; try discriminate E.
  destruct (acceptb dec b') eqn:Ea; [|discriminate E]. injection E as <-.
  split; [apply acceptb_accepts; exact Ea|exists mv; exact En].
Qed.
Lemma finish_nmx_invalid e b i c p mm t : g_xmlCheckIsValid st = true -> ~ accepts dec b -> nmx b [] <> Panic ->
  exists e', finish_nmx nmx st dec (Some (e, (b, i, c, p, mm, t))) = Ret ([], Some e').
Proof.
  intros H Hn Hp. rewrite finish_nmx_check_on by exact H. destruct (nmx b []) as [mv|e'|]; [|eexists; reflexivity|congruence].
  destruct (acceptb dec b) eqn:Ea; [|eexists; reflexivity].
  exfalso. apply Hn. apply acceptb_accepts. exact Ea.
Qed.
Lemma finish_nmx_swallow e b i c p mm t mv : g_xmlCheckIsValid st = true -> accepts dec b -> nmx b [] = Ok mv ->
  finish_nmx nmx st dec (Some (Some e, (b, i, c, p, mm, t))) = Ret (b, None).
Proof. intros H Ha En. rewrite finish_nmx_check_on by exact H. rewrite En. apply acceptb_accepts in Ha. rewrite Ha. reflexivity. Qed.
End Finish.

(* ---- the entry points.  [call] is the one encoder call of the entry point. *)
Definition xml_call (ext : enc_fn) (m : entries) (rt : list str) : option enc_out :=
  ext false [] (fst (root_sel m rt)) (snd (root_sel m rt)) [] 0%Z [] 0%Z 0%Z.
Definition xmlindent_call (ext : enc_fn) (m : entries) (prefix indent : str) (rt : list str) : option enc_out :=
  ext true [] (fst (root_sel_indent m rt)) (snd (root_sel_indent m rt)) indent 0%Z prefix 0%Z 0%Z.

(* C05, last sentence, on the translated code: with the check on, returned bytes with a nil error have a token stream that
   ends with io.EOF - whatever the encoder does *)
Theorem map_xml_valid : forall (ext : enc_fn) dec st m rt b, g_xmlCheckIsValid st = true ->
  fn_Map_Xml ext dec st m rt = Ret (b, None) -> accepts dec b.
Proof. intros ext dec st m rt b H E. rewrite map_xml_is_root_sel in E. exact (finish_valid st dec _ b H E). Qed.
Theorem map_xmlindent_valid : forall (ext : enc_fn) dec st m prefix indent rt b, g_xmlCheckIsValid st = true ->
  fn_Map_XmlIndent ext dec st m prefix indent rt = Ret (b, None) -> accepts dec b.
Proof. intros ext dec st m prefix indent rt b H E. rewrite map_xmlindent_is_root_sel in E. exact (finish_valid st dec _ b H E). Qed.
Theorem mapseq_xml_valid : forall (ext : enc_fn) dec st m rt b, g_xmlCheckIsValid st = true ->
  fn_MapSeq_Xml ext dec st m rt = Ret (b, None) -> accepts dec b.
Proof. intros ext dec st m rt b H E. rewrite mapseq_xml_is_root_sel in E. exact (finish_valid st dec _ b H E). Qed.
Theorem mapseq_xmlindent_valid : forall nmx (ext : enc_fn) dec st m prefix indent rt b, g_xmlCheckIsValid st = true ->
  fn_MapSeq_XmlIndent nmx ext dec st m prefix indent rt = Ret (b, None) -> accepts dec b /\ exists mv, nmx b [] = Ok mv.
Proof.
  intros nmx ext dec st m prefix indent rt b H E. rewrite mapseq_xmlindent_is_root_sel in E.
  exact (finish_nmx_valid st dec nmx _ b H E).
Qed.

(* the encoder's output does not tokenize: (nil, error), whatever error the encoder itself returned *)
Theorem map_xml_invalid_is_error : forall (ext : enc_fn) dec st m rt e b i c p mm t, g_xmlCheckIsValid st = true ->
  xml_call ext m rt = Some (e, (b, i, c, p, mm, t)) -> ~ accepts dec b ->
  fn_Map_Xml ext dec st m rt = Ret ([], Some EOther).
Proof. intros ext dec st m rt e b i c p mm t H Ec Hn. rewrite map_xml_is_root_sel. fold (xml_call ext m rt). rewrite Ec. apply finish_invalid; assumption. Qed.
Theorem map_xmlindent_invalid_is_error : forall (ext : enc_fn) dec st m prefix indent rt e b i c p mm t, g_xmlCheckIsValid st = true ->
  xmlindent_call ext m prefix indent rt = Some (e, (b, i, c, p, mm, t)) -> ~ accepts dec b ->
  fn_Map_XmlIndent ext dec st m prefix indent rt = Ret ([], Some EOther).
Proof.
  intros ext dec st m prefix indent rt e b i c p mm t H Ec Hn. rewrite map_xmlindent_is_root_sel.
  fold (xmlindent_call ext m prefix indent rt). rewrite Ec. apply finish_invalid; assumption.
Qed.
Theorem mapseq_xml_invalid_is_error : forall (ext : enc_fn) dec st m rt e b i c p mm t, g_xmlCheckIsValid st = true ->
  xml_call ext m rt = Some (e, (b, i, c, p, mm, t)) -> ~ accepts dec b ->
  fn_MapSeq_Xml ext dec st m rt = Ret ([], Some EOther).
Proof. exact map_xml_invalid_is_error. Qed.
Theorem mapseq_xmlindent_invalid_is_error : forall nmx (ext : enc_fn) dec st m prefix indent rt e b i c p mm t,
  g_xmlCheckIsValid st = true ->
  xmlindent_call ext m prefix indent rt = Some (e, (b, i, c, p, mm, t)) -> ~ accepts dec b -> nmx b [] <> Panic ->
  exists e', fn_MapSeq_XmlIndent nmx ext dec st m prefix indent rt = Ret ([], Some e').
Proof.
  intros nmx ext dec st m prefix indent rt e b i c p mm t H Ec Hn Hp. rewrite mapseq_xmlindent_is_root_sel.
  fold (xmlindent_call ext m prefix indent rt). rewrite Ec. apply finish_nmx_invalid; assumption.
Qed.

(* the exact behaviour with the check on: the verdict of the scan on the buffer REPLACES the encoder's error e (which does not
   occur on the right-hand side); with the check off: exactly (buffer, encoder's error); a panic of the encoder is a panic *)
Theorem entry_check_on : forall (ext : enc_fn) dec st m rt e b i c p mm t, g_xmlCheckIsValid st = true ->
  xml_call ext m rt = Some (e, (b, i, c, p, mm, t)) ->
  fn_Map_Xml ext dec st m rt = (if acceptb dec b then Ret (b, None) else Ret ([], Some EOther)) /\
  fn_MapSeq_Xml ext dec st m rt = (if acceptb dec b then Ret (b, None) else Ret ([], Some EOther)).
Proof.
  intros ext dec st m rt e b i c p mm t H Ec. rewrite mapseq_xml_is_root_sel, map_xml_is_root_sel.
  fold (xml_call ext m rt). rewrite Ec. split; apply finish_check_on; exact H.
Qed.
Theorem entry_indent_check_on : forall nmx (ext : enc_fn) dec st m prefix indent rt e b i c p mm t, g_xmlCheckIsValid st = true ->
  xmlindent_call ext m prefix indent rt = Some (e, (b, i, c, p, mm, t)) ->
  fn_Map_XmlIndent ext dec st m prefix indent rt = (if acceptb dec b then Ret (b, None) else Ret ([], Some EOther)) /\
  fn_MapSeq_XmlIndent nmx ext dec st m prefix indent rt =
    match nmx b [] with
    | Panic => Crash
    | Err e' => Ret ([], Some e')
    | Ok _ => if acceptb dec b then Ret (b, None) else Ret ([], Some EOther)
    end.
Proof.
  intros nmx ext dec st m prefix indent rt e b i c p mm t H Ec. rewrite mapseq_xmlindent_is_root_sel, map_xmlindent_is_root_sel.
  fold (xmlindent_call ext m prefix indent rt). rewrite Ec. split; [apply finish_check_on|apply finish_nmx_check_on]; exact H.
Qed.
Theorem entry_check_off : forall (ext : enc_fn) dec st m rt e b i c p mm t, g_xmlCheckIsValid st = false ->
  xml_call ext m rt = Some (e, (b, i, c, p, mm, t)) ->
  fn_Map_Xml ext dec st m rt = Ret (b, e) /\ fn_MapSeq_Xml ext dec st m rt = Ret (b, e).
Proof.
  intros ext dec st m rt e b i c p mm t H Ec. rewrite mapseq_xml_is_root_sel, map_xml_is_root_sel.
  fold (xml_call ext m rt). rewrite Ec. split; apply finish_check_off; exact H.
Qed.
Theorem entry_indent_check_off : forall nmx (ext : enc_fn) dec st m prefix indent rt e b i c p mm t, g_xmlCheckIsValid st = false ->
  xmlindent_call ext m prefix indent rt = Some (e, (b, i, c, p, mm, t)) ->
  fn_Map_XmlIndent ext dec st m prefix indent rt = Ret (b, e) /\
  fn_MapSeq_XmlIndent nmx ext dec st m prefix indent rt = Ret (b, e).
Proof.
  intros nmx ext dec st m prefix indent rt e b i c p mm t H Ec. rewrite mapseq_xmlindent_is_root_sel, map_xmlindent_is_root_sel.
  fold (xmlindent_call ext m prefix indent rt). rewrite Ec. split; [apply finish_check_off|apply finish_nmx_check_off]; exact H.
Qed.
Theorem entry_encoder_panic : forall nmx (ext : enc_fn) dec st m prefix indent rt,
  (xml_call ext m rt = None -> fn_Map_Xml ext dec st m rt = Crash /\ fn_MapSeq_Xml ext dec st m rt = Crash) /\
  (xmlindent_call ext m prefix indent rt = None ->
   fn_Map_XmlIndent ext dec st m prefix indent rt = Crash /\ fn_MapSeq_XmlIndent nmx ext dec st m prefix indent rt = Crash).
Proof.
  intros nmx ext dec st m prefix indent rt. split; intros Ec.
  - rewrite mapseq_xml_is_root_sel, map_xml_is_root_sel. fold (xml_call ext m rt). rewrite Ec. split; reflexivity.
  - rewrite mapseq_xmlindent_is_root_sel, map_xmlindent_is_root_sel. fold (xmlindent_call ext m prefix indent rt). rewrite Ec.
    split; reflexivity.
Qed.

(* consequence, stated on its own because the model checked_enc (Model/EscOpts.v) keeps an encoder error: when the encoder
   returns an error and the tokenizer accepts the bytes written up to that point, the entry point returns these bytes with a
   NIL error.  (encoding/xml rejects such bytes when they end inside a start tag, which is where the Map encoder stops on
   "invalid attribute value"; the statement is about every tokenizer.) *)
Theorem check_swallows_encoder_error : forall (ext : enc_fn) dec st m rt e b i c p mm t, g_xmlCheckIsValid st = true ->
  xml_call ext m rt = Some (Some e, (b, i, c, p, mm, t)) -> accepts dec b ->
  fn_Map_Xml ext dec st m rt = Ret (b, None) /\ fn_MapSeq_Xml ext dec st m rt = Ret (b, None).
Proof.
  intros ext dec st m rt e b i c p mm t H Ec Ha. rewrite mapseq_xml_is_root_sel, map_xml_is_root_sel.
  fold (xml_call ext m rt). rewrite Ec. split; apply finish_swallow; assumption.
Qed.
Theorem check_indent_swallows_encoder_error : forall nmx (ext : enc_fn) dec st m prefix indent rt e b i c p mm t mv,
  g_xmlCheckIsValid st = true ->
  xmlindent_call ext m prefix indent rt = Some (Some e, (b, i, c, p, mm, t)) -> accepts dec b -> nmx b [] = Ok mv ->
  fn_Map_XmlIndent ext dec st m prefix indent rt = Ret (b, None) /\
  fn_MapSeq_XmlIndent nmx ext dec st m prefix indent rt = Ret (b, None).
Proof.
  intros nmx ext dec st m prefix indent rt e b i c p mm t mv H Ec Ha En.
  rewrite mapseq_xmlindent_is_root_sel, map_xmlindent_is_root_sel.
  fold (xmlindent_call ext m prefix indent rt). rewrite Ec. split; [apply finish_swallow|apply (finish_nmx_swallow _ _ _ _ _ _ _ _ _ _ mv)]; assumption.
Qed.

(* the check and the models of Model/EscOpts.v: checked_bytes with accept := acceptb dec, for an encoder that SUCCEEDS.
   [entry_conv r x]: the entry point's result x is what the model result r says *)
Definition entry_conv (r : res str) (x : entry_res) : Prop :=
  match r with
  | Ok b => x = Ret (b, None)
  | Err _ => exists e, x = Ret ([], Some e)
  | Panic => x = Crash
  end.
Theorem finish_is_checked_bytes : forall o st dec b i c p mm t, xmlCheckIsValid o = g_xmlCheckIsValid st ->
  entry_conv (checked_bytes o (acceptb dec) (Ok b)) (finish st dec (Some (None, (b, i, c, p, mm, t)))).
Proof.
  intros o st dec b i c p mm t Hv. cbn [checked_bytes finish]. rewrite Hv. unfold scan.
  destruct (g_xmlCheckIsValid st); cbn [andb]; [|reflexivity].
  destruct (acceptb dec b); cbn [negb entry_conv]; [reflexivity|eexists; reflexivity].
Qed.
Lemma checked_bytes_enc o accept its :
  checked_bytes o accept (Ok (emit its)) = match checked_enc o accept (Ok its) with Ok i => Ok (emit i) | Err e => Err e | Panic => Panic end.
Proof. cbn [checked_bytes checked_enc]. destruct (xmlCheckIsValid o && negb (accept (emit its))); reflexivity. Qed.

(* non-vacuity: an encoder that writes "<a/>" / fails after "<a", a tokenizer that accepts exactly "<a/>" *)
Definition ex_dec (b : str) : xdecoder :=
  if str_eqb b (s "<a/>") then ([TStart {| xspace := []; xlocal := s "a" |} []; TEnd {| xspace := []; xlocal := s "a" |}], TermEOF)
  else ([], TermErr).
Definition ex_ext_ok : enc_fn := fun _ b k _ i c p mm t => Some (None, (b ++ s "<" ++ k ++ s "/>", i, c, p, mm, t)).
Definition ex_ext_err : enc_fn := fun _ b k _ i c p mm t => Some (Some EOther, (b ++ s "<" ++ k, i, c, p, mm, t)).
Definition ex_on : gstate := with_xmlCheckIsValid true gstate0.
Example entry_examples :
  g_xmlCheckIsValid ex_on = true /\ g_xmlCheckIsValid gstate0 = false /\
  fn_Map_Xml ex_ext_ok ex_dec ex_on [(s "a", VNil)] [] = Ret (s "<a/>", None) /\
  fn_Map_Xml ex_ext_ok ex_dec ex_on [(s "b", VNil)] [] = Ret ([], Some EOther) /\
  fn_Map_Xml ex_ext_ok ex_dec gstate0 [(s "b", VNil)] [] = Ret (s "<b/>", None) /\
  fn_Map_Xml ex_ext_err ex_dec ex_on [(s "a", VNil)] [] = Ret ([], Some EOther) /\
  fn_Map_Xml ex_ext_err ex_dec gstate0 [(s "a", VNil)] [] = Ret (s "<a", Some EOther) /\
  fn_Map_Xml ex_ext_err (fun _ => ([], TermEOF)) ex_on [(s "a", VNil)] [] = Ret (s "<a", None) /\
  fn_Map_Xml ex_ext_ok ex_dec ex_on [(s "a", VList [VNil])] [] = Ret ([], Some EOther) /\
  fn_Map_Xml ex_ext_ok ex_dec ex_on [(s "x", VNil)] [s "a"] = Ret (s "<a/>", None) /\
  fn_Map_Xml ex_ext_ok ex_dec ex_on [(s "a", VNil)] [s "r1"; s "r2"] = Ret ([], Some EOther) /\
  fn_Map_Xml ex_ext_ok ex_dec gstate0 [(s "a", VNil)] [s "r1"; s "r2"] = Ret (s "<doc/>", None) /\
  fn_MapSeq_XmlIndent (fun _ _ => Err ENoRoot) ex_ext_ok ex_dec ex_on [(s "a", VNil)] [] [] [] = Ret ([], Some ENoRoot) /\
  fn_MapSeq_XmlIndent (fun _ _ => Ok []) ex_ext_ok ex_dec ex_on [(s "a", VNil)] [] [] [] = Ret (s "<a/>", None) /\
  fn_Map_XmlIndent ex_ext_ok ex_dec ex_on [(s "a", VList [])] [] [] [] = Ret ([], Some EOther) /\
  fn_Map_XmlIndent ex_ext_ok ex_dec gstate0 [(s "a", VList [])] [] [] [] = Ret (s "<doc/>", None).
Proof. repeat split; vm_compute; reflexivity. Qed.

Print Assumptions map_xml_is_root_sel.
Print Assumptions mapseq_xml_is_root_sel.
Print Assumptions map_xmlindent_is_root_sel.
Print Assumptions mapseq_xmlindent_is_root_sel.
Print Assumptions root_sel_is_map_xml_items.
Print Assumptions root_sel_indent_is_map_xml_indent_items.
Print Assumptions root_sel_is_seq_xml_items.
Print Assumptions root_sel_indent_is_seq_xml_indent_items.
Print Assumptions root_sel_le1.
Print Assumptions root_sel_many_tags.
Print Assumptions root_sel_many_tags_not_none.
Print Assumptions map_xml_valid.
Print Assumptions map_xmlindent_valid.
Print Assumptions mapseq_xml_valid.
Print Assumptions mapseq_xmlindent_valid.
Print Assumptions map_xml_invalid_is_error.
Print Assumptions map_xmlindent_invalid_is_error.
Print Assumptions mapseq_xml_invalid_is_error.
Print Assumptions mapseq_xmlindent_invalid_is_error.
Print Assumptions entry_check_on.
Print Assumptions entry_indent_check_on.
Print Assumptions entry_check_off.
Print Assumptions entry_indent_check_off.
Print Assumptions entry_encoder_panic.
Print Assumptions check_swallows_encoder_error.
Print Assumptions check_indent_swallows_encoder_error.
Print Assumptions finish_is_checked_bytes.
