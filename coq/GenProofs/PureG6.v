(* getJson (json.go), as go2v translated it from /repo's CURRENT sources (Gen/Pure_gen.v: fn_getJson - the `for { }`
   loop around rdr.Read(bval), the (0, nil) retry, the end-of-input returns, the byte switch with its break/continue
   and the statements after it) IS the model's get_json (Model/Reader.v: the machine jstep / jeof driven over the
   reader schedule by jr_read_byte), on every reader schedule.  The theorems of Proofs/ReaderP*.v about the JSON
   readers (C13, C19, C20) are therefore statements about the translated loop. *)
From Coq Require Import Lia.
From Mxj Require Import Gen.GenSupport Gen.Setters_gen Gen.PureSupport Gen.Pure_gen Model.Reader.

(* what getJson returns, in the vocabulary of the translation *)
Definition gj_result (r : option (jscan * list rev)) : ctl unit ((str * option err) * list rev) :=
  match r with
  | Some (JOk b, S') => Ret ((b, None), S')
  | Some (JErr b e, S') => Ret ((b, Some e), S')
  | None => Crash
  end.

(* ------------------------------------------------------------------ byte comparisons *)

Lemma ascii_eqb_N (c d : ascii) : Ascii.eqb c d = (N_of_ascii c =? N_of_ascii d)%N.
Proof.
  destruct (Ascii.eqb_spec c d) as [->|Hn].
  - symmetry. apply N.eqb_refl.
  - symmetry. apply N.eqb_neq. intros H. apply Hn.
    rewrite <- (ascii_N_embedding c), <- (ascii_N_embedding d), H. reflexivity.
Qed.

Lemma eqb_const (c : ascii) (k : nat) : k < 256 ->
  Ascii.eqb c (ascii_of_nat k) = (cbyte c =? N.of_nat k)%N.
Proof.
  intros Hk. unfold cbyte. rewrite ascii_eqb_N. unfold ascii_of_nat.
  rewrite N_ascii_embedding; [reflexivity|]. lia.
Qed.

(* ------------------------------------------------------------------ the loop *)

Definition gj_state : Type := (str * list rev * Z * bool * bool * str * bool)%type.
Definition gj_tuple (bval : str) (S : list rev) (st : jstate) : gj_state :=
  (bval, S, parenCnt st, inJson st, inQuote st, jb st, escaped st).

(* the body of the translated loop and the continuation after it, taken from the translated function itself *)
Definition gj_body : gj_state -> ctl gj_state ((str * option err) * list rev) :=
  ltac:(let t := eval cbv beta zeta delta [fn_getJson] in (fn_getJson gstate0 []) in
        match t with context [for_loop _ ?b _] => exact b end).
Definition gj_after : gj_state -> ctl unit ((str * option err) * list rev) :=
  fun '(l_bval, p_rdr, l_parenCnt, l_inJson, l_inQuote, l_jb, l_escaped) => Ret ((l_jb, None), p_rdr).

Lemma fn_getJson_unfold st S :
  fn_getJson st S = bindc (for_loop (Datatypes.S (length S)) gj_body (gj_tuple [zero_byte] S jinit)) gj_after.
Proof. reflexivity. Qed.

Local Arguments ascii_of_nat : simpl never.
Local Arguments Ascii.eqb : simpl never.
Local Arguments Z.add : simpl never.
Local Arguments Z.sub : simpl never.
Local Arguments Z.eqb : simpl never.
Local Arguments Z.ltb : simpl never.
Local Arguments Z.gtb : simpl never.
Local Arguments N.eqb : simpl never.
Local Arguments cbyte : simpl never.

Lemma for_loop_S {S A} f (body : S -> ctl S A) s :
  for_loop (Datatypes.S f) body s =
  match body s with Next s' => for_loop f body s' | Brk s' => Next s' | r => r end.
Proof. reflexivity. Qed.

Ltac gj_consts :=
  change (N.of_nat 123) with 123%N in *; change (N.of_nat 125) with 125%N in *; change (N.of_nat 34) with 34%N in *;
  change (N.of_nat 10) with 10%N in *; change (N.of_nat 13) with 13%N in *; change (N.of_nat 9) with 9%N in *;
  change (N.of_nat 32) with 32%N in *; change (N.of_nat 92) with 92%N in *.

Ltac gj_fin :=
  repeat (cbn; match goal with
               | |- context [if ?b then _ else _] => destruct b eqn:?
               end); cbn; try reflexivity; try congruence.

Lemma loop_data f c0 rest c S' st :
  bindc (for_loop (Datatypes.S f) gj_body (gj_tuple (c0 :: rest) (Data c :: S') st)) gj_after =
  match jstep st c with
  | inl st' => bindc (for_loop f gj_body (gj_tuple (c :: rest) S' st')) gj_after
  | inr r => gj_result (Some (r, S'))
  end.
Proof.
  destruct st as [q ij cnt esc b]. rewrite for_loop_S.
  remember (for_loop f gj_body) as X eqn:HX.
  unfold gj_tuple, gj_body, jstep. cbn.
  change (1 =? 0)%Z with false. cbn.
  rewrite !eqb_const by lia. rewrite !Bool.orb_false_r. gj_consts.
  destruct (cbyte c =? 123)%N eqn:E1; [gj_fin|].
  destruct (cbyte c =? 125)%N eqn:E2; [gj_fin|].
  destruct (cbyte c =? 34)%N eqn:E3; [gj_fin|].
  destruct (cbyte c =? 10)%N eqn:E4; [gj_fin|].
  destruct (cbyte c =? 13)%N eqn:E5; [gj_fin|].
  destruct (cbyte c =? 9)%N eqn:E6; [gj_fin|].
  destruct (cbyte c =? 32)%N eqn:E7; gj_fin.
Qed.

Lemma loop_dataeof f c0 rest c S' st :
  bindc (for_loop (Datatypes.S f) gj_body (gj_tuple (c0 :: rest) (DataEOF c :: S') st)) gj_after =
  match jstep st c with
  | inl st' => bindc (for_loop f gj_body (gj_tuple (c :: rest) S' st')) gj_after
  | inr r => gj_result (Some (r, S'))
  end.
Proof.
  destruct st as [q ij cnt esc b]. rewrite for_loop_S.
  remember (for_loop f gj_body) as X eqn:HX.
  unfold gj_tuple, gj_body, jstep. cbn.
  change (1 =? 0)%Z with false. cbn.
  rewrite !eqb_const by lia. rewrite !Bool.orb_false_r. gj_consts.
  destruct (cbyte c =? 123)%N eqn:E1; [gj_fin|].
  destruct (cbyte c =? 125)%N eqn:E2; [gj_fin|].
  destruct (cbyte c =? 34)%N eqn:E3; [gj_fin|].
  destruct (cbyte c =? 10)%N eqn:E4; [gj_fin|].
  destruct (cbyte c =? 13)%N eqn:E5; [gj_fin|].
  destruct (cbyte c =? 9)%N eqn:E6; [gj_fin|].
  destruct (cbyte c =? 32)%N eqn:E7; gj_fin.
Qed.

(* a (0, nil) read: `continue` with nothing changed *)
Lemma loop_zero f c0 rest S' st :
  bindc (for_loop (Datatypes.S f) gj_body (gj_tuple (c0 :: rest) (Zero :: S') st)) gj_after =
  bindc (for_loop f gj_body (gj_tuple (c0 :: rest) S' st)) gj_after.
Proof.
  destruct st as [q ij cnt esc b]. rewrite for_loop_S.
  remember (for_loop f gj_body) as X eqn:HX.
  unfold gj_tuple, gj_body. cbn. change (0 =? 0)%Z with true. cbn. reflexivity.
Qed.

(* (0, io.EOF), also from the exhausted schedule *)
Lemma loop_eof f c0 rest S st :
  match S with [] => True | Eof :: _ => True | _ => False end ->
  bindc (for_loop (Datatypes.S f) gj_body (gj_tuple (c0 :: rest) S st)) gj_after =
  gj_result (Some (jeof st, tl S)).
Proof.
  intros HS. destruct st as [q ij cnt esc b]. rewrite for_loop_S.
  remember (for_loop f gj_body) as X eqn:HX.
  unfold gj_tuple, gj_body, jeof.
  destruct S as [|[ | | | ] S']; try contradiction; cbn; change (0 =? 0)%Z with true; cbn;
    rewrite Z.gtb_ltb; destruct ij; cbn; try reflexivity; destruct (0 <? cnt)%Z; reflexivity.
Qed.

Lemma drive_zero fuel st S' :
  drive jmachine jr_read_byte (Datatypes.S fuel) st (Zero :: S') = drive jmachine jr_read_byte (Datatypes.S fuel) st S'.
Proof. reflexivity. Qed.

Lemma get_json_loop : forall S st c0 rest f f',
  length S < f -> length S < f' ->
  bindc (for_loop f gj_body (gj_tuple (c0 :: rest) S st)) gj_after =
  gj_result (drive jmachine jr_read_byte f' st S).
Proof.
  induction S as [|e S' IH]; intros st c0 rest f f' Hf Hf'.
  - destruct f as [|f]; [cbn in Hf; lia|]. destruct f' as [|f']; [cbn in Hf'; lia|].
    rewrite loop_eof by exact I. reflexivity.
  - destruct f as [|f]; [cbn in Hf; lia|]. destruct f' as [|f']; [cbn in Hf'; lia|].
    cbn [length] in Hf, Hf'.
    destruct e as [c|c| |].
    + rewrite loop_data. cbn [drive jr_read_byte]. cbn [m_step jmachine].
      destruct (jstep st c) as [st'|r]; [apply IH; lia|reflexivity].
    + rewrite loop_dataeof. cbn [drive jr_read_byte]. cbn [m_step jmachine].
      destruct (jstep st c) as [st'|r]; [apply IH; lia|reflexivity].
    + rewrite loop_zero, drive_zero. apply IH; lia.
    + rewrite loop_eof by exact I. reflexivity.
Qed.

(* ------------------------------------------------------------------ the theorem *)

Theorem get_json_code_is_model st S : fn_getJson st S = gj_result (get_json S).
Proof.
  rewrite fn_getJson_unfold. unfold get_json. apply get_json_loop; lia.
Qed.

(* corollaries in the vocabulary of the model *)
Corollary get_json_code_never_panics st S : fn_getJson st S <> Crash -> get_json S <> None.
Proof. rewrite get_json_code_is_model. intros H E. rewrite E in H. apply H. reflexivity. Qed.
