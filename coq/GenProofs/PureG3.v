(* The recursive tree walkers go2v translated from /repo's CURRENT sources (Gen/Pure_gen.v: valuesForKeyPath and hasKey of
   keyvalues.go, getLeafNodes of leafnode.go; recursion on explicit fuel, out-parameters threaded as state) ARE the
   hand-written model functions vfkp, has_key_walk and get_leaf_nodes, for every fuel above the obvious bound
   (length of the key list / depth of the value).  hasSubKeys is an external call of the translated walkers; it is
   instantiated with the model's has_sub_keys, which GenProofs/PureG2.v proves equal to the translated hasSubKeys. *)
From Coq Require Import Lia.
From Mxj Require Import Gen.GenSupport Gen.Setters_gen Gen.PureSupport Model.KeyValues Spec.KeySearch.
From Mxj Require Import Proofs.StrLemmas.
From Mxj Require Import Gen.Pure_gen.

(* ------------------------------------------------------------------ loops that append to (ret, cnt) *)

Lemma loop_flat {T} (g : T -> list value) (body : (list value * Z) -> T -> ctl (list value * Z) (list value * Z)) :
  (forall r c x, body (r, c) x = Next (r ++ g x, (c + Z.of_nat (length (g x)))%Z)) ->
  forall l r c, range_loop body l (r, c) = Next (r ++ flat_map g l, (c + Z.of_nat (length (flat_map g l)))%Z).
Proof.
  intros Hb. induction l as [|x l IH]; intros r c.
  - cbn. rewrite app_nil_r, Z.add_0_r. reflexivity.
  - cbn [range_loop flat_map]. rewrite Hb, IH. rewrite <- app_assoc, app_length, Nat2Z.inj_add, Z.add_assoc. reflexivity.
Qed.

Lemma flat_map_enumerate {A B} (g : A -> list B) l : forall i,
  flat_map (fun iv : Z * A => g (snd iv)) (enumerate_from i l) = flat_map g l.
Proof. induction l as [|x l IH]; intros i; [reflexivity|]. cbn. rewrite IH. reflexivity. Qed.

Lemma filter_flat_map {A} (p : A -> bool) l : filter p l = flat_map (fun x => if p x then [x] else []) l.
Proof. induction l as [|x l IH]; [reflexivity|]. cbn. destruct (p x); cbn; rewrite IH; reflexivity. Qed.

Lemma has_sub_keys_nil v : has_sub_keys v [] = true.
Proof. reflexivity. Qed.

Definition vres (ret : list value) (cnt : Z) (vs : list value) : ctl unit (list value * Z) :=
  Ret (ret ++ vs, (cnt + Z.of_nat (length vs))%Z).

Theorem vfkp_code_is_model_gen : forall hsk, (forall v s, hsk v s = has_sub_keys v s) ->
  forall keys fuel st ret cnt m sk,
  length keys < fuel ->
  fn_valuesForKeyPath hsk fuel st ret cnt m keys sk = vres ret cnt (vfkp keys sk m).
Proof.
  intros hsk Hh.
  induction keys as [|key rest IH]; intros fuel st ret cnt m sk Hf;
    (destruct fuel as [|f]; [lia|]); cbn [fn_valuesForKeyPath]; cbv zeta.
  - (* end of path *)
    cbn [length Z.of_nat Z.eqb bindc vfkp]. unfold vfkp_leaf, vres.
    destruct m as [x|b| |z|z|z|fl|x|mv|l]; cbn [bindc];
      try (destruct sk as [|e sk']; cbn [negb bindc length]; [reflexivity|rewrite app_nil_r, Z.add_0_r; reflexivity]).
    + (* a map *)
      destruct sk as [|e sk']; cbn [negb bindc]; [reflexivity|]. rewrite Hh.
      destruct (has_sub_keys (VMap mv) (e :: sk')); cbn [bindc length]; [reflexivity|].
      rewrite app_nil_r, Z.add_0_r. reflexivity.
    + (* a list *)
      unfold enumerate.
      match goal with |- context [range_loop ?body _ _] =>
        rewrite (loop_flat (fun iv : Z * value => if has_sub_keys (snd iv) sk then [snd iv] else []) body) end.
      * cbn [bindc]. rewrite (flat_map_enumerate (fun v => if has_sub_keys v sk then [v] else [])), <- filter_flat_map. reflexivity.
      * intros r c [i v]. cbn [snd]. destruct sk as [|e sk']; cbn [negb].
        -- reflexivity.
        -- rewrite Hh. destruct (has_sub_keys v (e :: sk')); cbn [length]; [reflexivity|]. rewrite app_nil_r, Z.add_0_r. reflexivity.
  - (* a key *)
    cbn [length] in Hf.
    replace (Z.eqb (Z.of_nat (length (key :: rest))) 0) with false by (symmetry; apply Z.eqb_neq; cbn [length]; lia).
    cbn [bindc nth_error length Nat.ltb Nat.leb skipn existsb]. rewrite Bool.orb_false_r.
    change (s "*") with star. rewrite (str_eqb_sym key star).
    assert (IH' : forall r c v, fn_valuesForKeyPath hsk f st r c v rest sk = vres r c (vfkp rest sk v))
      by (intros; apply IH; lia).
    cbn [vfkp]. rewrite (str_eqb_sym star key).
    destruct (str_eqb key star).
    + destruct m as [x|b| |z|z|z|fl|x|mv|l]; unfold vres; try (rewrite app_nil_r, Z.add_0_r; reflexivity).
      * match goal with |- context [range_loop ?body _ _] =>
          rewrite (loop_flat (fun kv : str * value => vfkp rest sk (snd kv)) body) end; [reflexivity|].
        intros r c [k v]. rewrite IH'. reflexivity.
      * match goal with |- context [range_loop ?body _ _] =>
          rewrite (loop_flat (fun v => match v with
                                       | VMap mm => flat_map (fun kv : str * value => vfkp rest sk (snd kv)) mm
                                       | _ => vfkp rest sk v end) body) end; [reflexivity|].
        intros r c v. destruct v as [x|b| |z|z|z|fl|x|mm|l']; try (rewrite IH'; reflexivity).
        match goal with |- context [range_loop ?body _ _] =>
          rewrite (loop_flat (fun kv : str * value => vfkp rest sk (snd kv)) body) end; [reflexivity|].
        intros r' c' [k v]. rewrite IH'. reflexivity.
    + destruct m as [x|b| |z|z|z|fl|x|mv|l]; unfold vres; try (rewrite app_nil_r, Z.add_0_r; reflexivity).
      * destruct (lookup key mv) as [v|]; [rewrite IH'; reflexivity|]. rewrite app_nil_r, Z.add_0_r. reflexivity.
      * match goal with |- context [range_loop ?body _ _] =>
          rewrite (loop_flat (fun v => match v with
                                       | VMap mm => match lookup key mm with Some vv => vfkp rest sk vv | None => [] end
                                       | _ => [] end) body) end; [reflexivity|].
        intros r c v. destruct v as [x|b| |z|z|z|fl|x|mm|l']; try (rewrite app_nil_r, Z.add_0_r; reflexivity).
        destruct (lookup key mm) as [vv|]; [rewrite IH'; reflexivity|]. rewrite app_nil_r, Z.add_0_r. reflexivity.
Qed.

Theorem vfkp_code_is_model : forall keys fuel st ret cnt m sk,
  length keys < fuel ->
  fn_valuesForKeyPath has_sub_keys fuel st ret cnt m keys sk = vres ret cnt (vfkp keys sk m).
Proof. apply vfkp_code_is_model_gen. reflexivity. Qed.

(* ------------------------------------------------------------------ hasKey (the walker behind ValuesForKey) *)

Fixpoint vd (v : value) : nat :=
  match v with
  | VMap m => S (fold_right (fun kv n => Nat.max (vd (snd kv)) n) 0 m)
  | VList l => S (fold_right (fun x n => Nat.max (vd x) n) 0 l)
  | _ => 0
  end.

Lemma vd_entry kv m : In kv m -> vd (snd kv) < vd (VMap m).
Proof.
  cbn [vd]. induction m as [|e m IH]; intros H; [destruct H|]. cbn [fold_right].
  destruct H as [->|H]; [lia|]. specialize (IH H). lia.
Qed.
Lemma vd_member x l : In x l -> vd x < vd (VList l).
Proof.
  cbn [vd]. induction l as [|e l IH]; intros H; [destruct H|]. cbn [fold_right].
  destruct H as [->|H]; [lia|]. specialize (IH H). lia.
Qed.

(* loop_flat for a body that is only known on the members of the list *)
Lemma loop_flat_in {T} (g : T -> list value) (body : (list value * Z) -> T -> ctl (list value * Z) (list value * Z)) l :
  (forall r c x, In x l -> body (r, c) x = Next (r ++ g x, (c + Z.of_nat (length (g x)))%Z)) ->
  forall r c, range_loop body l (r, c) = Next (r ++ flat_map g l, (c + Z.of_nat (length (flat_map g l)))%Z).
Proof.
  induction l as [|x l IH]; intros Hb r c.
  - cbn. rewrite app_nil_r, Z.add_0_r. reflexivity.
  - cbn [range_loop flat_map]. rewrite Hb by (left; reflexivity).
    rewrite IH by (intros; apply Hb; right; assumption).
    rewrite <- app_assoc, app_length, Nat2Z.inj_add, Z.add_assoc. reflexivity.
Qed.

(* the "is this value a hit" block of hasKey, which the Go code has twice: solved by cases on the value *)
Lemma sk_len_zero (sk : entries) : Z.eqb (Z.of_nat (length sk)) 0 = match sk with [] => true | _ => false end.
Proof. destruct sk; [reflexivity|]. apply Z.eqb_neq. cbn [length]. lia. Qed.

Ltac hit_tac Hh v sk :=
  destruct v as [?x|?b| |?z|?z|?z|?fl|?x|?mv|?l]; cbn [key_hit bindc]; rewrite ?Hh;
  try (rewrite sk_len_zero; destruct sk; cbn [length]; [reflexivity|rewrite app_nil_r, Z.add_0_r; reflexivity]);
  [ match goal with |- context [has_sub_keys ?m sk] =>
      destruct (has_sub_keys m sk); cbn [length]; [reflexivity|rewrite app_nil_r, Z.add_0_r; reflexivity] end
  | match goal with |- context [range_loop ?body _ _] =>
      rewrite (loop_flat (fun av => if has_sub_keys av sk then [av] else []) body);
      [ cbn [bindc]; rewrite <- filter_flat_map; reflexivity
      | let r := fresh "r" in let c := fresh "c" in let av := fresh "av" in
        intros r c av; rewrite ?Hh; destruct (has_sub_keys av sk); cbn [length]; [reflexivity|rewrite app_nil_r, Z.add_0_r; reflexivity] ] end ].

Ltac hk_rest Hh Hwalk mv sk :=
  cbn [bindc]; change (s "*") with star;
  match goal with |- context [str_eqb ?key star] => destruct (str_eqb key star) end; cbn [bindc];
  [ match goal with |- bindc (bindc (range_loop ?body _ _) _) _ = _ =>
      rewrite (loop_flat (fun kv : str * value => key_hit (snd kv) sk) body) end;
    [ cbn [bindc]; rewrite Hwalk by (intros ? ? [? ?] _; reflexivity); cbn [bindc];
      rewrite <- !app_assoc, !app_length, !Nat2Z.inj_add, !Z.add_assoc; cbn [app length Z.of_nat]; rewrite ?Z.add_0_r; reflexivity
    | let r := fresh "r" in let c := fresh "c" in let k := fresh "k" in let v := fresh "v" in
      intros r c [k v]; cbn [snd]; hit_tac Hh v sk ]
  | rewrite Hwalk by (intros ? ? [? ?] _; reflexivity); cbn [bindc app];
    rewrite <- ?app_assoc, ?app_nil_r, ?app_length, ?Nat2Z.inj_add, ?Z.add_assoc; cbn [app length Z.of_nat]; rewrite ?Z.add_0_r; reflexivity ].

Theorem has_key_code_is_model_gen : forall hsk, (forall v s, hsk v s = has_sub_keys v s) ->
  forall iv fuel st key ret cnt sk,
  vd iv < fuel ->
  fn_hasKey hsk fuel st iv key ret cnt sk = vres ret cnt (has_key_walk iv key sk).
Proof.
  intros hsk Hh.
  induction iv as [x|b| |z|z|z|fl|x|mv IHm|l IHl] using value_ind2; intros fuel st key ret cnt sk Hf;
    (destruct fuel as [|f]; [lia|]); cbn [fn_hasKey]; cbv zeta; unfold vres;
    try (cbn [has_key_walk]; rewrite app_nil_r, Z.add_0_r; reflexivity).
  - (* a map *)
    cbn [has_key_walk].
    assert (Hwalk : forall r c (body : list value * Z -> str * value -> ctl (list value * Z) (list value * Z)),
       (forall r' c' kv, In kv mv -> body (r', c') kv = bindr (fn_hasKey hsk f st (snd kv) key r' c' sk) (fun '(p_ret, p_cnt) => Next (p_ret, p_cnt))) ->
       range_loop body mv (r, c) =
       Next (r ++ flat_map (fun kv : str * value => has_key_walk (snd kv) key sk) mv,
             (c + Z.of_nat (length (flat_map (fun kv : str * value => has_key_walk (snd kv) key sk) mv)))%Z)).
    { intros r c body Hb. apply loop_flat_in. intros r' c' kv Hin. rewrite Hb by exact Hin.
      rewrite Forall_forall in IHm. rewrite (IHm kv Hin) by (pose proof (vd_entry kv mv Hin); lia). reflexivity. }
    destruct (lookup key mv) as [v0|] eqn:Elk.
    + match goal with |- bindc ?X ?K = _ =>
        assert (HX : X = Next (ret ++ key_hit v0 sk, (cnt + Z.of_nat (length (key_hit v0 sk)))%Z)) by (hit_tac Hh v0 sk) end.
      rewrite HX; clear HX. hk_rest Hh Hwalk mv sk.
    + hk_rest Hh Hwalk mv sk.
  - (* a list *)
    cbn [has_key_walk].
    rewrite (loop_flat_in (fun v => has_key_walk v key sk)).
    2:{ intros r c v Hin. rewrite Forall_forall in IHl.
        rewrite (IHl v Hin) by (pose proof (vd_member v l Hin); lia). reflexivity. }
    reflexivity.
Qed.

Theorem has_key_code_is_model : forall iv fuel st key ret cnt sk,
  vd iv < fuel ->
  fn_hasKey has_sub_keys fuel st iv key ret cnt sk = vres ret cnt (has_key_walk iv key sk).
Proof. apply has_key_code_is_model_gen. reflexivity. Qed.

(* ------------------------------------------------------------------ getLeafNodes (the walker behind LeafNodes) *)
From Mxj Require Import Model.TreeOps.

Definition leaf_pair (n : t_LeafNode) : str * value := (LeafNode_Path n, LeafNode_Value n).

Lemma index_from_ge sub x : forall i, (0 <= i)%Z -> (index_from sub x i = -1 \/ i <= index_from sub x i)%Z.
Proof.
  induction x as [|a x IH]; intros i Hi; cbn [index_from].
  - destruct (prefixb sub []); [right; lia|left; reflexivity].
  - destruct (prefixb sub (a :: x)); [right; lia|].
    destruct (IH (i + 1)%Z ltac:(lia)) as [H|H]; [left; exact H|right; lia].
Qed.
Lemma go_index_zero k p : Z.eqb (go_index k p) 0 = prefixb p k.
Proof.
  unfold go_index. destruct k as [|a k]; cbn [index_from].
  - destruct (prefixb p []); reflexivity.
  - destruct (prefixb p (a :: k)); [reflexivity|].
    destruct (index_from_ge p k (0 + 1)%Z ltac:(lia)) as [H|H]; apply Z.eqb_neq; lia.
Qed.

Lemma loop_leaf {T} (g : T -> list (str * value)) (body : list t_LeafNode -> T -> ctl (list t_LeafNode) (list t_LeafNode)) l :
  (forall acc x, In x l -> exists ns, body acc x = Next (acc ++ ns) /\ map leaf_pair ns = g x) ->
  forall acc, exists ns, range_loop body l acc = Next (acc ++ ns) /\ map leaf_pair ns = flat_map g l.
Proof.
  induction l as [|x l IH]; intros Hb acc.
  - exists []. cbn. rewrite app_nil_r. split; reflexivity.
  - destruct (Hb acc x (or_introl eq_refl)) as (n1 & H1 & G1).
    destruct (IH (fun a y Hy => Hb a y (or_intror Hy)) (acc ++ n1)) as (n2 & H2 & G2).
    exists (n1 ++ n2). cbn [range_loop flat_map]. rewrite H1, H2, <- app_assoc, map_app, G1, G2. split; reflexivity.
Qed.

Lemma go_enumerate (f : nat -> value -> list (str * value)) l : forall i,
  (fix go (l : list value) (i : nat) : list (str * value) :=
     match l with [] => [] | v :: t => f i v ++ go t (S i) end) l i
  = flat_map (fun iv : Z * value => f (Z.to_nat (fst iv)) (snd iv)) (enumerate_from (Z.of_nat i) l).
Proof.
  induction l as [|v l IH]; intros i; [reflexivity|].
  cbn [enumerate_from flat_map fst snd]. rewrite Nat2Z.id. f_equal.
  rewrite IH. replace (Z.of_nat (S i)) with (Z.of_nat i + 1)%Z by lia. reflexivity.
Qed.

Lemma in_enumerate {A} (l : list A) : forall j i v, In (i, v) (enumerate_from j l) -> In v l.
Proof.
  induction l as [|w l IH]; intros j i v H; [destruct H|].
  cbn [enumerate_from] in H. destruct H as [H|H]; [injection H as _ <-; left; reflexivity|right; eapply IH; exact H].
Qed.

Theorem leaf_nodes_code_is_model : forall mv fuel st path node acc noattr,
  vd mv < fuel ->
  exists ns, fn_getLeafNodes fuel st path node mv acc noattr = Ret (acc ++ ns) /\
             map leaf_pair ns = get_leaf_nodes (g_attrPrefix st) (g_textK st) (g_useDotNotation st) path node mv noattr.
Proof.
  induction mv as [x|b| |z|z|z|fl|x|m IHm|l IHl] using value_ind2; intros fuel st path node acc noattr Hf;
    (destruct fuel as [|f]; [lia|]); cbn [fn_getLeafNodes get_leaf_nodes]; cbv zeta.
  all: (* the path computation *)
    assert (Hp : forall (K : str -> ctl unit (list t_LeafNode)),
      bindc (S := str)
        (if noattr
         then if negb (str_eqb node (g_textK st))
              then bindc (S := str) (if negb (str_eqb path []) then if go_has_prefix node (s "[") then Next path else Next (path ++ s ".") else Next path)
                     (fun p_path => Next (p_path ++ node))
              else Next path
         else bindc (S := str) (if negb (str_eqb path []) then if go_has_prefix node (s "[") then Next path else Next (path ++ s ".") else Next path)
                (fun p_path => Next (p_path ++ node))) K
      = K (leaf_path (g_textK st) path node noattr));
    [ intros K; unfold leaf_path, go_has_prefix; change (s "[") with [lbr]; change (s ".") with sdot;
      assert (Hne : negb (str_eqb path []) = match path with [] => false | _ => true end) by (destruct path; reflexivity);
      rewrite Hne; destruct noattr; cbn [negb orb];
      [ destruct (str_eqb node (g_textK st)); cbn [negb bindc]; [reflexivity|] | ];
      (destruct (match path with [] => false | _ => true end); cbn [andb bindc]; [destruct (prefixb [lbr] node); reflexivity|reflexivity])
    | ].
  all: rewrite Hp; clear Hp; set (p := leaf_path (g_textK st) path node noattr).
  all: try (eexists [_]; split; [reflexivity|reflexivity]).
  - (* a map *)
    match goal with |- context [range_loop ?body m acc] =>
      destruct (loop_leaf (fun kv : str * value =>
                  if skip_attr (g_attrPrefix st) noattr (fst kv) then []
                  else get_leaf_nodes (g_attrPrefix st) (g_textK st) (g_useDotNotation st) p (fst kv) (snd kv) noattr) body m) with (acc := acc) as (ns & H1 & G1) end.
    { intros a [k v] Hin. cbn [fst snd]. unfold skip_attr.
      rewrite Forall_forall in IHm.
      destruct (IHm (k, v) Hin f st p k a noattr ltac:(pose proof (vd_entry (k, v) m Hin); cbn [snd] in *; lia)) as (n1 & E1 & F1).
      cbn [snd] in E1, F1. rewrite E1. cbn [bindr].
      destruct noattr; cbn [andb].
      - assert (Hl : Z.gtb (Z.of_nat (length (g_attrPrefix st))) 0 = match g_attrPrefix st with [] => false | _ => true end)
          by (destruct (g_attrPrefix st); [reflexivity|apply Z.gtb_lt; cbn [length]; lia]).
        rewrite Hl. destruct (g_attrPrefix st) as [|a0 ap0] eqn:Eap; cbn [andb].
        + exists n1. split; [reflexivity|exact F1].
        + rewrite go_index_zero. destruct (prefixb (a0 :: ap0) k).
          * exists []. rewrite app_nil_r. split; reflexivity.
          * exists n1. split; [reflexivity|exact F1].
      - exists n1. split; [reflexivity|exact F1]. }
    rewrite H1. cbn [bindc]. exists ns. split; [reflexivity|exact G1].
  - (* a list *)
    rewrite (go_enumerate
               (fun i v => get_leaf_nodes (g_attrPrefix st) (g_textK st) (g_useDotNotation st) p (idx_node (g_useDotNotation st) i) v noattr) l 0).
    unfold enumerate. cbn [Z.of_nat].
    match goal with |- context [range_loop ?body (enumerate_from 0 l) acc] =>
      destruct (loop_leaf (fun iv : Z * value =>
                  get_leaf_nodes (g_attrPrefix st) (g_textK st) (g_useDotNotation st) p
                    (idx_node (g_useDotNotation st) (Z.to_nat (fst iv))) (snd iv) noattr) body (enumerate_from 0 l)) with (acc := acc) as (ns & H1 & G1) end.
    { intros a [i v] Hin. cbn [fst snd].
      assert (Hv : In v l) by (eapply in_enumerate; exact Hin).
      rewrite Forall_forall in IHl. unfold idx_node, go_itoa. change (s "[") with [lbr]. change (s "]") with [rbr].
      destruct (g_useDotNotation st) eqn:Edot.
      - destruct (IHl v Hv f st p (itoa (Z.to_nat i)) a noattr ltac:(pose proof (vd_member v l Hv); lia)) as (n1 & E1 & F1).
        rewrite Edot in F1. rewrite E1. cbn [bindr]. exists n1. split; [reflexivity|exact F1].
      - destruct (IHl v Hv f st p ([lbr] ++ itoa (Z.to_nat i) ++ [rbr]) a noattr ltac:(pose proof (vd_member v l Hv); lia)) as (n1 & E1 & F1).
        rewrite Edot in F1. rewrite <- app_assoc. rewrite E1. cbn [bindr]. exists n1. split; [reflexivity|exact F1]. }
    rewrite H1. cbn [bindc]. exists ns. split; [reflexivity|exact G1].
Qed.
