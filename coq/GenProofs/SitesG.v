(* C15 - the inventory of operations that can panic, regenerated from /repo by go2v (Gen/Sites_gen.v),
   against the hand-written table saying which model function represents each function's sites
   (as explicit Panic branches, or as branches the no-panic theorems prove unreachable).
   A new unchecked type assertion, index, slice bound, nil-map write or pointer dereference in the Go
   source changes a count and breaks [sites_covered]: the model may then no longer represent every way
   the function can panic, and the no-panic theorems have to be re-examined. *)
From Mxj Require Import Gen.GenSupport Gen.Sites_gen.
Local Open Scope string_scope.

Definition expected_sites : list (string * nat * string) := [
  ("AnyXml", 1, "Model/XmlEnc.v any_xml_items (tags[i] under the len(tags) tests written as ||)");
  ("AnyXmlIndent", 1, "Model/XmlEnc.v any_xml_items");
  ("Map.Attributes", 3, "NOT MODELLED (misc.go): dynamic checks only (C17 harness)");
  ("Map.Elements", 2, "NOT MODELLED (misc.go): dynamic checks only (C17 harness)");
  ("Map.LeafPaths", 1, "Model/TreeOps.v leaf_nodes projections (index ranges over a slice of the same length)");
  ("Map.LeafValues", 1, "Model/TreeOps.v leaf_nodes projections");
  ("Map.NewMap", 4, "Model/TreeOps.v new_map; Props C12_new_map_no_panic");
  ("Map.PathForKeyShortest", 2, "Model/X2jWrap.v path_for_key_shortest = Spec shortest (paths non-empty under the len test)");
  ("Map.PathsForKey", 1, "Model/TreeOps.v paths_for_key");
  ("Map.SetValueForPath", 2, "Model/TreeOps.v set_value_for_path; Props C11_set_no_panic");
  ("Map.UpdateValuesForPath", 7, "Model/TreeOps.v update_values_for_path / parse_newval; Props C10_update_no_panic");
  ("Map.ValuesForKey", 1, "Model/TreeOps.v values_for_key; Props C08_values_for_key_no_panic (cnt = length ret)");
  ("Map.oldValuesForPath", 3, "Model/KeyValues.v old_values_for_path; Props C07_no_panic");
  ("NewMapJsonReader", 2, "Model/Reader.v json_reader (getJson always returns a non-nil pointer since 9f7e6ef); Props C13");
  ("NewMapJsonReaderRaw", 4, "Model/Reader.v json_reader_raw; Props C13_json_reader_raw_no_panic");
  ("NewMapsFromJsonFileRaw", 1, "Model/Files.v read loop (mr allocated by new)");
  ("NewMapsFromXmlFileRaw", 1, "Model/Files.v read loop (mr allocated by new)");
  ("SetFieldSeparator", 1, "Gen/Setters_gen.v set_SetFieldSeparator (None = panic); GenProofs C18 setters_total");
  ("SetGlobalKeyMapPrefix", 8, "Gen/Setters_gen.v set_SetGlobalKeyMapPrefix (None = panic on an empty key); GenProofs C18 setters_total under Inv");
  ("addNewVal", 1, "Model/TreeOps.v add_new_val; Props C12_new_map_no_panic");
  ("attrList.Less", 4, "sort.Interface: called by sort.Sort with indexes in range (environment)");
  ("attrList.Swap", 4, "sort.Interface (environment)");
  ("byteReader.ReadByte", 1, "Model/Reader.v byte_reader (one-byte buffer)");
  ("elemList.Less", 6, "sort.Interface; keys are strings by construction in marshalMapToXmlIndent");
  ("elemList.Swap", 4, "sort.Interface (environment)");
  ("elemListSeq.Less", 2, "sort.Interface; comma-ok assertions since 3cc484a");
  ("elemListSeq.Swap", 4, "sort.Interface (environment)");
  ("escapeChars", 3, "Model/XmlDec.v escape_chars (constant table of pairs)");
  ("getJson", 3, "Model/Reader.v get_json (one-byte buffer bval)");
  ("getSubKeyMap", 11, "Model/KeyValues.v get_sub_key_map; Proofs/C07P.v get_sub_key_map_no_panic");
  ("hasSubKeys", 1, "Model/KeyValues.v has_sub_keys (skey[1:] after the prefix test; fix bf152eb)");
  ("lastKey", 1, "Model/TreeOps.v (strings.Split never returns an empty slice)");
  ("mapList.Less", 4, "sort.Interface (writeMap, NOT MODELLED)");
  ("mapList.Swap", 4, "sort.Interface (writeMap, NOT MODELLED)");
  ("mapToXmlSeqIndent", 6, "Model/SeqEnc.v senc (explicit Panic branches); Props C04 seq_decoded_never_panics");
  ("marshalMapToXmlIndent", 30, "Model/XmlEnc.v enc (attrlist / elemlist filled up to their allocated length)");
  ("parentPath", 1, "Model/TreeOps.v parent_path (strings.Split never returns an empty slice)");
  ("parsePath", 6, "Model/KeyValues.v parse_path / parse_seg; Proofs/C07P.v parse_path_no_panic");
  ("pretty.Outdent", 1, "indentation bookkeeping of the indented encoders: NOT MODELLED (whitespace only), dynamic checks (C02/C03/C16)");
  ("prevValueByPath", 2, "Model/TreeOps.v with_parent; Props C11_remove_no_panic / C11_rename_no_panic");
  ("teeReader.Read", 1, "io.TeeReader's Read (fix of the raw-reader charset defect): p[:n] with n <= len(p) by the io.Reader contract of the wrapped reader (environment); exercised by the C01 entry-point oracle");
  ("teeReader.ReadByte", 3, "Model/Reader.v tee_reader (one-byte buffer)");
  ("updateValuesForKeyPath", 8, "Model/TreeOps.v update_kp; Props C10_update_no_panic");
  ("valuesForArray", 15, "Model/KeyValues.v vfa (explicit Panic branches); Props C07_no_panic");
  ("valuesForKeyPath", 7, "Model/KeyValues.v vfkp; Props C07_no_panic");
  ("writeMap", 6, "NOT MODELLED (StringIndent): dynamic checks only (C17 harness)");
  ("xmlSeqToMapParser", 11, "Model/SeqDec.v sloop (nil-map writes are explicit Panic branches); Props C04 / C15");
  ("xmlToMapParser", 10, "Model/XmlDec.v elem_loop / top_loop (nil-map writes are explicit Panic branches); Props C15_decode_no_panic")
].

Fixpoint sites_match (g : list (string * list (string * string))) (e : list (string * nat * string)) : bool :=
  match g, e with
  | [], [] => true
  | (f, l) :: g', (f', n, _) :: e' => String.eqb f f' && Nat.eqb (length l) n && sites_match g' e'
  | _, _ => false
  end.

Theorem sites_covered : sites_match panic_sites expected_sites = true.
Proof. vm_compute. reflexivity. Qed.

Definition not_modelled (note : string) : bool :=
  match note with String "N" (String "O" (String "T" _)) => true | _ => false end.
(* the functions whose panic sites no model represents (dynamic checks only) *)
Definition unmodelled_functions : list string :=
  map (fun x => fst (fst x)) (filter (fun x => not_modelled (snd x)) expected_sites).
