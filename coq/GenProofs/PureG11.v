(* The single-byte adaptors of xml.go, byteReader.ReadByte and teeReader.ReadByte (pointer receivers), as go2v translated them from
   /repo's CURRENT sources (Gen/Pure_gen.v: the receiver's fields - the wrapped io.Reader, the io.Writer, the one-byte
   buffer - as threaded state; the counting loop `for i := 0; i < 100; i++` around r.Read(b); the Write of the byte)
   ARE the models br_read_byte / tr_read_byte of Model/Reader.v, on every reader schedule.  The XML reader theorems of
   C13 (every split of the stream, data returned together with io.EOF, (0, nil) reads) are about these loops. *)
From Coq Require Import Lia.
From Mxj Require Import Gen.GenSupport Gen.Setters_gen Gen.PureSupport Gen.Pure_gen Model.Reader.

Local Arguments Z.add : simpl never.
Local Arguments Z.ltb : simpl never.
Local Arguments Z.gtb : simpl never.
Local Arguments Z.of_nat : simpl never.

(* the result of ReadByte in the vocabulary of the translation *)
Definition rb_res (r : rbres) : res ascii :=
  match r with RBByte b => Ok b | RBErr RBEof => Err EEOF | RBErr RBNoProgress => Err EOther end.
Definition rb_pair (r : rbres) : ascii * option err :=
  match r with RBByte b => (b, None) | RBErr RBEof => (zero_byte, Some EEOF) | RBErr RBNoProgress => (zero_byte, Some EOther) end.

(* the content of the one-byte buffer afterwards: the last byte delivered, else unchanged *)
Fixpoint loop_buf (i : nat) (S : list rev) (c : ascii) : ascii :=
  match i with
  | O => c
  | Datatypes.S i' =>
      let '(n, err, b, S') := read_into S in
      if Nat.ltb 0 n then b else if err then c else loop_buf i' S' c
  end.

Lemma for_loop_S' {S A} f (body : S -> ctl S A) s :
  for_loop (Datatypes.S f) body s =
  match body s with Next s' => for_loop f body s' | Brk s' => Next s' | r => r end.
Proof. reflexivity. Qed.

Lemma ltb_100 k n : k + Datatypes.S n = 100 -> Z.ltb (Z.of_nat k) 100 = true.
Proof. intros H. apply Z.ltb_lt. lia. Qed.
Lemma ltb_100_end : Z.ltb (Z.of_nat 100) 100 = false.
Proof. reflexivity. Qed.

(* ------------------------------------------------------------------ byteReader *)

Definition br_body : (Z * str * list rev) -> ctl (Z * str * list rev) (res ascii * (list rev * str)) :=
  ltac:(let t := eval cbv beta zeta delta [fn_byteReader_ReadByte] in (fn_byteReader_ReadByte gstate0 [] []) in
        match t with context [for_loop _ ?b _] => exact b end).
Definition br_after : (Z * str * list rev) -> ctl unit (res ascii * (list rev * str)) :=
  fun '(l_i, p_b_b, p_b_r) => Ret (Err EOther, (p_b_r, p_b_b)).

Lemma br_unfold st S buf :
  fn_byteReader_ReadByte st S buf = bindc (for_loop 103 br_body (0%Z, buf, S)) br_after.
Proof. reflexivity. Qed.

Lemma br_loop_code : forall n k c rest S fuel, k + n = 100 -> n < fuel ->
  bindc (for_loop fuel br_body (Z.of_nat k, c :: rest, S)) br_after
  = Ret (rb_res (fst (br_loop n S)), (snd (br_loop n S), loop_buf n S c :: rest)).
Proof.
  induction n as [|n IH]; intros k c rest S fuel Hk Hf; (destruct fuel as [|fuel]; [lia|]); rewrite for_loop_S'.
  - replace k with 100 by lia. unfold br_body at 1. cbv beta iota. rewrite ltb_100_end. reflexivity.
  - unfold br_body at 1. cbv beta iota. rewrite (ltb_100 k n Hk).
    cbn [br_loop loop_buf]. unfold go_read.
    destruct S as [|[b|b| |] S']; cbn [read_into read1 Nat.ltb Nat.leb fst snd bindc negb nth_error];
      try (change (Z.gtb (Z.of_nat 1) 0) with true); try (change (Z.gtb (Z.of_nat 0) 0) with false);
      cbn [bindc negb nth_error]; try reflexivity.
    replace (Z.of_nat k + 1)%Z with (Z.of_nat (Datatypes.S k)) by lia.
    apply IH; lia.
Qed.

Theorem byte_reader_code_is_model : forall st S c rest,
  fn_byteReader_ReadByte st S (c :: rest)
  = Ret (rb_res (fst (br_read_byte S)), (snd (br_read_byte S), loop_buf 100 S c :: rest)).
Proof.
  intros st S c rest. rewrite br_unfold. unfold br_read_byte. apply (br_loop_code 100 0); lia.
Qed.

(* ------------------------------------------------------------------ teeReader *)

Definition tr_body : (Z * str * list rev * str) -> ctl (Z * str * list rev * str) ((ascii * option err) * (list rev * str * str)) :=
  ltac:(let t := eval cbv beta zeta delta [fn_teeReader_ReadByte] in (fn_teeReader_ReadByte gstate0 [] [] []) in
        match t with context [for_loop _ ?b _] => exact b end).
Definition tr_after : (Z * str * list rev * str) -> ctl unit ((ascii * option err) * (list rev * str * str)) :=
  fun '(l_i, p_t_b, p_t_r, p_t_w) => Ret ((ascii_of_nat 0, Some EOther), (p_t_r, p_t_w, p_t_b)).

Lemma tr_unfold st S w buf :
  fn_teeReader_ReadByte st S w buf = bindc (for_loop 103 tr_body (0%Z, buf, S, w)) tr_after.
Proof. reflexivity. Qed.

Lemma tr_loop_code : forall n k c S w fuel, k + n = 100 -> n < fuel ->
  bindc (for_loop fuel tr_body (Z.of_nat k, [c], S, w)) tr_after
  = let r := tr_loop n {| tr_w := w; tr_r := S |} in
    Ret (rb_pair (fst r), (tr_r (snd r), tr_w (snd r), [loop_buf n S c])).
Proof.
  induction n as [|n IH]; intros k c S w fuel Hk Hf; (destruct fuel as [|fuel]; [lia|]); rewrite for_loop_S'.
  - replace k with 100 by lia. unfold tr_body at 1. cbv beta iota. rewrite ltb_100_end. reflexivity.
  - unfold tr_body at 1. cbv beta iota. rewrite (ltb_100 k n Hk).
    cbn [tr_loop loop_buf tr_r tr_w]. unfold go_read.
    destruct S as [|[b|b| |] S']; cbn [read_into read1 Nat.ltb Nat.leb fst snd bindc negb nth_error length skipn firstn app];
      try (change (Z.gtb (Z.of_nat 1) 0) with true); try (change (Z.gtb (Z.of_nat 0) 0) with false);
      cbn [bindc negb nth_error length Nat.ltb Nat.leb skipn firstn app fst snd tr_r tr_w rb_pair]; try reflexivity.
    replace (Z.of_nat k + 1)%Z with (Z.of_nat (Datatypes.S k)) by lia.
    rewrite IH by lia. reflexivity.
Qed.

Theorem tee_reader_code_is_model : forall st t c,
  fn_teeReader_ReadByte st (tr_r t) (tr_w t) [c]
  = let r := tr_read_byte t in
    Ret (rb_pair (fst r), (tr_r (snd r), tr_w (snd r), [loop_buf 100 (tr_r t) c])).
Proof.
  intros st [w S] c. rewrite tr_unfold. unfold tr_read_byte. cbn [tr_r tr_w]. apply (tr_loop_code 100 0); lia.
Qed.
