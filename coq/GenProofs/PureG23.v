(* Map.SetValueForPath (set.go) as go2v translated it in write-back mode from /repo's CURRENT sources
   (Gen/Pure_gen.v: fn_SetValueForPath) IS the functional model set_value_for_path of Model/TreeOps.v, when the callee
   Map.ValueForPath is the lens the model prescribes: the FIRST located value of values_for_path_loc, together with the
   function that puts a new value at that position of the receiver (update_at).  The Go code stores in place into the
   map ValueForPath returned; the translation passes the stored-into map through the lens's put. *)
From Coq Require Import Lia.
From Mxj Require Import Gen.GenSupport Gen.Setters_gen Gen.PureSupport Model.KeyValues Model.TreeOps.
From Mxj Require Import Proofs.StrLemmas Proofs.KVTotal Proofs.C11P GenProofs.PureG2 GenProofs.PureG5.
From Mxj Require Import Gen.Pure_gen.

(* the entries of a Map value (a Map receiver after a write is a Map: update_at_map below) *)
Definition entries_of (v : value) : entries := match v with VMap m => m | _ => [] end.

(* Map.ValueForPath as a lens: the value found and the function that puts a new value in its place in the receiver;
   PathNotExistError when nothing is found; the error of ValuesForPath passed on *)
Definition vfp_lens (mv : entries) (path : str) : res (value * (value -> entries)) :=
  match values_for_path_loc (VMap mv) path with
  | Ok [] => Err EOther
  | Ok ((p, v) :: _) => Ok (v, fun x => entries_of (update_at p x (VMap mv)))
  | Err e => Err e
  | Panic => Panic
  end.

(* a Map written into a Map receiver at any position leaves a Map *)
Lemma update_at_map p c mv : exists m', update_at p (VMap c) (VMap mv) = VMap m'.
Proof.
  destruct p as [|[k|i] p]; cbn [update_at].
  - eexists; reflexivity.
  - destruct (lookup k mv); eexists; reflexivity.
  - eexists; reflexivity.
Qed.

Lemma firstn_removelast {A} (l : list A) : firstn (length l - 1) l = removelast l.
Proof.
  induction l as [|a l IH]; [reflexivity|].
  destruct l as [|b l]; [reflexivity|].
  replace (length (a :: b :: l) - 1) with (S (length (b :: l) - 1)) by (cbn [length]; lia).
  cbn [firstn]. rewrite IH. reflexivity.
Qed.

(* ------------------------------------------------------------------ 1. the translated code is the model *)
Theorem set_value_for_path_code_is_model : forall st mv value path,
  fn_SetValueForPath vfp_lens st mv value path
  = match set_value_for_path (VMap mv) value path with
    | Ok v => Ret (None, entries_of v)
    | Err e => Ret (Some e, mv)
    | Panic => Crash
    end.
Proof.
  intros st mv value path. unfold fn_SetValueForPath, set_value_for_path. cbv zeta.
  change (s ".") with [dot]. rewrite go_split_single.
  pose proof (split1_nonempty dot path) as Hne.
  set (l := split1 dot path) in *.
  assert (Hlen : 1 <= length l) by (destruct l; [exfalso; apply Hne; reflexivity|cbn [length]; lia]).
  replace (Z.ltb 0 0 || Z.ltb (Z.of_nat (length l) - 1) 0 || Z.ltb (Z.of_nat (length l)) (Z.of_nat (length l) - 1))
    with false
    by (symmetry; rewrite !Bool.orb_false_iff; repeat split; apply Z.ltb_ge; lia).
  replace (Z.to_nat (Z.of_nat (length l) - 1 - 0)) with (length l - 1) by lia.
  change (Z.to_nat 0) with 0. cbn [skipn]. rewrite firstn_removelast.
  rewrite (last_nth l []) by exact Hne.
  unfold go_join. change [dot] with sdot.
  unfold vfp_lens.
  destruct (values_for_path_loc (VMap mv) (join sdot (removelast l))) as [vs|e|]; cbn [bind].
  - destruct vs as [|[p v] vs]; [reflexivity|].
    destruct v; cbn [negb bindc entries_of]; try reflexivity.
  - reflexivity.
  - reflexivity.
Qed.

(* the result of the model on a Map receiver is a Map *)
Lemma set_value_for_path_map mv value path v :
  set_value_for_path (VMap mv) value path = Ok v -> exists m', v = VMap m'.
Proof.
  unfold set_value_for_path. cbv zeta.
  destruct (values_for_path_loc (VMap mv) (join sdot (removelast (split1 dot path)))) as [vs|e|]; cbn [bind];
    [|discriminate|discriminate].
  destruct vs as [|[p x] vs]; [discriminate|].
  destruct x; try discriminate; intros H; injection H as <-.
  - eexists; reflexivity.
  - apply update_at_map.
Qed.

(* the statement of the task, outcome by outcome: the Map after the call, or the error and the receiver unchanged;
   the translated SetValueForPath never panics *)
Theorem set_value_for_path_code_outcome : forall st mv value path,
  (exists m', set_value_for_path (VMap mv) value path = Ok (VMap m')
              /\ fn_SetValueForPath vfp_lens st mv value path = Ret (None, m'))
  \/ (exists e, set_value_for_path (VMap mv) value path = Err e
                /\ fn_SetValueForPath vfp_lens st mv value path = Ret (Some e, mv)).
Proof.
  intros st mv value path. rewrite set_value_for_path_code_is_model.
  destruct (set_value_for_path (VMap mv) value path) as [v|e|] eqn:E.
  - left. destruct (set_value_for_path_map _ _ _ _ E) as [m' ->]. exists m'. split; reflexivity.
  - right. exists e. split; reflexivity.
  - exfalso. exact (set_no_panic _ _ _ E).
Qed.

(* the same with the Map taken out of the model's result; the branches "Ok of a non-Map" and "Panic" never occur
   (set_value_for_path_map, set_no_panic) *)
Theorem set_value_for_path_code_is_model_map : forall st mv value path,
  fn_SetValueForPath vfp_lens st mv value path
  = match set_value_for_path (VMap mv) value path with
    | Ok (VMap m') => Ret (None, m')
    | Ok _ => Crash
    | Err e => Ret (Some e, mv)
    | Panic => Crash
    end.
Proof.
  intros st mv value path. rewrite set_value_for_path_code_is_model.
  destruct (set_value_for_path (VMap mv) value path) as [v|e|] eqn:E; try reflexivity.
  destruct (set_value_for_path_map _ _ _ _ E) as [m' ->]. reflexivity.
Qed.

Theorem set_value_for_path_code_no_crash : forall st mv value path,
  fn_SetValueForPath vfp_lens st mv value path <> Crash.
Proof.
  intros st mv value path.
  destruct (set_value_for_path_code_outcome st mv value path) as [[m' [_ ->]]|[e [_ ->]]]; discriminate.
Qed.

(* ------------------------------------------------------------------ 2. the lens is lawful on Go maps *)
(* every located value values_for_path_loc reports lives at the position reported with it, in a tree whose maps
   have distinct keys (true of every Go map) *)
Definition located (m0 : value) (pv : pos * value) : Prop := get_at (fst pv) m0 = Some (snd pv).

Lemma get_at_app p q : forall m0,
  get_at (p ++ q) m0 = match get_at p m0 with Some m => get_at q m | None => None end.
Proof.
  induction p as [|[k|i] p IH]; intros m0; cbn [app get_at]; [reflexivity| |].
  - destruct m0; try reflexivity. destruct (lookup k m); [apply IH|reflexivity].
  - destruct m0; try reflexivity. destruct (nth_error l i); [apply IH|reflexivity].
Qed.

Lemma wf_nth l : forall i v, wfb (VList l) = true -> nth_error l i = Some v -> wfb v = true.
Proof.
  induction l as [|x l IH]; intros i v H E; [destruct i; discriminate|].
  change (wfb x && wfb (VList l) = true) in H. apply andb_true_iff in H as [Hx Hl].
  destruct i as [|i]; cbn [nth_error] in E; [injection E as <-; exact Hx|exact (IH i v Hl E)].
Qed.

Lemma wf_get_at p : forall m v, wfb m = true -> get_at p m = Some v -> wfb v = true.
Proof.
  induction p as [|[k|i] p IH]; intros m v W E; cbn [get_at] in E.
  - injection E as <-. exact W.
  - destruct m; try discriminate. destruct (lookup k m) as [x|] eqn:L; [|discriminate].
    exact (IH x v (wf_lookup _ _ _ W L) E).
  - destruct m; try discriminate. destruct (nth_error l i) as [x|] eqn:L; [|discriminate].
    exact (IH x v (wf_nth _ _ _ W L) E).
Qed.

Lemma Forall_flat_map {A B} (P : B -> Prop) (f : A -> list B) l :
  (forall a, In a l -> Forall P (f a)) -> Forall P (flat_map f l).
Proof.
  induction l as [|a l IH]; intros H; cbn [flat_map]; [constructor|].
  apply Forall_app. split; [apply H; left; reflexivity|apply IH; intros b Hb; apply H; right; exact Hb].
Qed.

Lemma Forall_flat_mapi {A B} (P : B -> Prop) (f : nat -> A -> list B) l : forall i,
  (forall j a, nth_error l j = Some a -> Forall P (f (i + j) a)) -> Forall P (flat_mapi f l i).
Proof.
  induction l as [|a l IH]; intros i H; cbn [flat_mapi]; [constructor|].
  apply Forall_app. split.
  - specialize (H 0 a eq_refl). rewrite Nat.add_0_r in H. exact H.
  - apply IH. intros j b Hb. specialize (H (S j) b Hb). rewrite Nat.add_succ_r in H. exact H.
Qed.

Lemma lookup_in_nodup kv mm :
  nodup_keys (map fst mm) = true -> In kv mm -> lookup (fst kv) mm = Some (snd kv).
Proof.
  induction mm as [|[k' v'] t IH]; intros N I; [destruct I|].
  cbn [map fst nodup_keys] in N. apply andb_true_iff in N as [N1 N2].
  cbn [lookup]. destruct I as [<-|I].
  - cbn [fst snd]. rewrite str_eqb_refl. reflexivity.
  - destruct (str_eqb (fst kv) k') eqn:E; [|apply IH; assumption].
    exfalso. apply str_eqb_eq in E. subst k'.
    apply negb_true_iff in N1.
    assert (X : existsb (str_eqb (fst kv)) (map fst t) = true).
    { apply existsb_exists. exists (fst kv). split; [apply in_map; exact I|apply str_eqb_refl]. }
    congruence.
Qed.

Lemma vfkp_loc_sound m0 (W : wfb m0 = true) keys : forall m p,
  get_at p m0 = Some m -> Forall (located m0) (vfkp_loc keys m p).
Proof.
  induction keys as [|key rest IH]; intros m p G.
  - cbn [vfkp_loc]. destruct m; try (constructor; [exact G|constructor]).
    apply Forall_flat_mapi. intros j a Hj. constructor; [|constructor].
    unfold located. cbn [fst snd]. rewrite get_at_app, G. cbn [get_at Nat.add]. rewrite Hj. reflexivity.
  - pose proof (wf_get_at _ _ _ W G) as Wm.
    cbn [vfkp_loc]. destruct (str_eqb key star).
    + destruct m; try constructor.
      * apply Forall_flat_map. intros kv I. apply IH.
        rewrite get_at_app, G. cbn [get_at].
        rewrite (lookup_in_nodup _ _ (wfb_map_nodup _ Wm) I). reflexivity.
      * apply Forall_flat_mapi. intros j a Hj. cbn [Nat.add].
        pose proof (wf_nth _ _ _ Wm Hj) as Wa.
        destruct a; try (apply IH; rewrite get_at_app, G; cbn [get_at]; rewrite Hj; reflexivity).
        apply Forall_flat_map. intros kv I. apply IH.
        rewrite get_at_app, G. cbn [get_at]. rewrite Hj.
        rewrite (lookup_in_nodup _ _ (wfb_map_nodup _ Wa) I). reflexivity.
    + destruct m; try constructor.
      * destruct (lookup key m) as [v|] eqn:L; [|constructor].
        apply IH. rewrite get_at_app, G. cbn [get_at]. rewrite L. reflexivity.
      * apply Forall_flat_mapi. intros j a Hj. cbn [Nat.add].
        destruct a; try constructor.
        destruct (lookup key m) as [v|] eqn:L; [|constructor].
        apply IH. rewrite get_at_app, G. cbn [get_at]. rewrite Hj, L. reflexivity.
Qed.

Lemma nth_z_In {A} (l : list A) z x : nth_z l z = Some x -> In x l.
Proof. unfold nth_z. destruct (z <? Z.of_nat (length l))%Z; [apply nth_error_In|discriminate]. Qed.

Lemma vfa_loc_sound m0 (W : wfb m0 = true) keys : forall m p tmp vals,
  get_at p m0 = Some m -> Forall (located m0) vals -> Forall (located m0) (vfa_loc keys m p tmp vals).
Proof.
  induction keys as [|k rest IH]; intros m p tmp vals G V; cbn [vfa_loc]; [exact V|]. cbv zeta.
  pose proof (vfkp_loc_sound m0 W (path_keys (tmp_path tmp (pk_name k))) m p G) as O.
  fold (ovfp_loc m (tmp_path tmp (pk_name k)) p) in O.
  destruct (negb (pk_arr k) && match rest with [] => false | k2 :: _ => pk_arr k2 end).
  - apply Forall_flat_map. intros [q v] I.
    pose proof (proj1 (Forall_forall _ _) O _ I) as Q. unfold located in Q. cbn [fst snd] in *.
    destruct v; try constructor. apply IH; [exact Q|constructor].
  - destruct (pk_arr k || match rest with [] => true | _ :: _ => false end).
    + assert (X : Forall (located m0)
         match nth_z (ovfp_loc m (tmp_path tmp (pk_name k)) p) (pk_pos k) with
         | None => []
         | Some x => match rest with
                     | [] => [x]
                     | _ :: _ => match snd x with
                                 | VMap _ => vfa_loc rest (snd x) (fst x) None (ovfp_loc m (tmp_path tmp (pk_name k)) p)
                                 | _ => [] end
                     end
         end).
      { destruct (nth_z (ovfp_loc m (tmp_path tmp (pk_name k)) p) (pk_pos k)) as [[q v]|] eqn:N; [|constructor].
        pose proof (proj1 (Forall_forall _ _) O _ (nth_z_In _ _ _ N)) as Q. unfold located in Q. cbn [fst snd] in *.
        destruct rest as [|k2 rest']; [constructor; [exact Q|constructor]|].
        destruct v; try constructor. apply IH; [exact Q|exact O]. }
      destruct rest as [|k2 rest']; [destruct (pk_arr k); [exact X|exact O]|exact X].
    + apply IH; assumption.
Qed.

Theorem values_for_path_loc_sound m0 path vs :
  wfb m0 = true -> values_for_path_loc m0 path = Ok vs -> Forall (located m0) vs.
Proof.
  intros W. unfold values_for_path_loc.
  destruct (negb (mem_ascii lbr path)).
  - intros H; injection H as <-. apply vfkp_loc_sound; [exact W|reflexivity].
  - destruct (parse_path path) as [ks|e|]; cbn [bind]; try discriminate.
    intros H; injection H as <-. apply vfa_loc_sound; [exact W|reflexivity|constructor].
Qed.

(* writing back what is there changes nothing; what is written is what is there afterwards *)
Lemma set_same k v m : lookup k m = Some v -> set k v m = m.
Proof.
  induction m as [|[k' v'] m IH]; cbn [lookup set]; [discriminate|].
  destruct (str_eqb k k') eqn:E; intros H.
  - injection H as ->. apply str_eqb_eq in E. subst k'. reflexivity.
  - rewrite IH by exact H. reflexivity.
Qed.

Lemma set_nth_same {A} (l : list A) : forall i v, nth_error l i = Some v -> set_nth i v l = l.
Proof.
  induction l as [|x l IH]; intros [|i] v H; cbn [set_nth]; try reflexivity; cbn [nth_error] in H.
  - injection H as ->. reflexivity.
  - rewrite IH by exact H. reflexivity.
Qed.

Lemma nth_set_nth {A} (l : list A) : forall i x, nth_error l i <> None -> nth_error (set_nth i x l) i = Some x.
Proof.
  induction l as [|y l IH]; intros [|i] x H; cbn [set_nth nth_error] in *; try congruence.
  apply IH; exact H.
Qed.

Lemma update_at_same p : forall m v, get_at p m = Some v -> update_at p v m = m.
Proof.
  induction p as [|[k|i] p IH]; intros m v G; cbn [get_at update_at] in *.
  - congruence.
  - destruct m; try reflexivity. destruct (lookup k m) as [x|] eqn:L; [|reflexivity].
    rewrite (IH _ _ G), (set_same _ _ _ L). reflexivity.
  - destruct m; try reflexivity. destruct (nth_error l i) as [x|] eqn:L; [|reflexivity].
    rewrite (IH _ _ G), (set_nth_same _ _ _ L). reflexivity.
Qed.

Lemma get_at_update_at p x : forall m, get_at p m <> None -> get_at p (update_at p x m) = Some x.
Proof.
  induction p as [|[k|i] p IH]; intros m G; cbn [get_at update_at] in *.
  - reflexivity.
  - destruct m; try congruence. destruct (lookup k m) as [y|] eqn:L; [|congruence].
    cbn [get_at]. rewrite lookup_set_same. apply IH; exact G.
  - destruct m; try congruence. destruct (nth_error l i) as [y|] eqn:L; [|congruence].
    cbn [get_at]. rewrite nth_set_nth by congruence. apply IH; exact G.
Qed.

(* what the lens returns: a position of the receiver, the value there, and the write at that position *)
Theorem vfp_lens_spec : forall mv path v put,
  wfb (VMap mv) = true -> vfp_lens mv path = Ok (v, put) ->
  exists p, get_at p (VMap mv) = Some v /\ forall x, put x = entries_of (update_at p x (VMap mv)).
Proof.
  intros mv path v put W. unfold vfp_lens.
  destruct (values_for_path_loc (VMap mv) path) as [vs|e|] eqn:E; try discriminate.
  destruct vs as [|[p x] vs]; [discriminate|].
  intros H. injection H as <- <-. exists p. split; [|reflexivity].
  pose proof (values_for_path_loc_sound _ _ _ W E) as S. inversion S as [|? ? S1 _]. exact S1.
Qed.

(* get-put: putting back the value found gives the receiver *)
Theorem vfp_lens_get_put : forall mv path v put,
  wfb (VMap mv) = true -> vfp_lens mv path = Ok (v, put) -> put v = mv.
Proof.
  intros mv path v put W H. destruct (vfp_lens_spec _ _ _ _ W H) as [p [G P]].
  rewrite P, (update_at_same _ _ _ G). reflexivity.
Qed.

(* put-get, at the position: after put of a Map c, c is what lives where the value was found *)
Theorem vfp_lens_put_get : forall mv path v put,
  wfb (VMap mv) = true -> vfp_lens mv path = Ok (v, put) ->
  exists p, get_at p (VMap mv) = Some v /\ forall c, get_at p (VMap (put (VMap c))) = Some (VMap c).
Proof.
  intros mv path v put W H. destruct (vfp_lens_spec _ _ _ _ W H) as [p [G P]].
  exists p. split; [exact G|]. intros c. rewrite P.
  destruct (update_at_map p c mv) as [m' E]. 
  pose proof (get_at_update_at p (VMap c) (VMap mv)) as X. rewrite E in *. cbn [entries_of].
  apply X. congruence.
Qed.

(* put-put: a second put overwrites the first *)
Lemma update_at_twice p x y : forall m, update_at p y (update_at p x m) = update_at p y m.
Proof.
  induction p as [|[k|i] p IH]; intros m; cbn [update_at]; [reflexivity| |].
  - destruct m; try reflexivity. destruct (lookup k m) as [v|] eqn:L; cbn [update_at]; [|rewrite L; reflexivity].
    rewrite lookup_set_same, IH. f_equal.
    clear L. induction m as [|[k' v'] m IHm]; cbn [set].
    + rewrite str_eqb_refl. reflexivity.
    + destruct (str_eqb k k') eqn:E; cbn [set]; rewrite E; [reflexivity|rewrite IHm; reflexivity].
  - destruct m; try reflexivity. destruct (nth_error l i) as [v|] eqn:L; cbn [update_at]; [|rewrite L; reflexivity].
    rewrite nth_set_nth by congruence. rewrite IH. f_equal.
    clear L. revert i. induction l as [|z l IHl]; intros [|i]; cbn [set_nth]; try reflexivity.
    rewrite IHl. reflexivity.
Qed.

Theorem vfp_lens_put_put : forall mv path v put c d,
  vfp_lens mv path = Ok (v, put) ->
  exists p, (forall x, put x = entries_of (update_at p x (VMap mv))) /\
            entries_of (update_at p (VMap d) (VMap (put (VMap c)))) = put (VMap d).
Proof.
  intros mv path v put c d. unfold vfp_lens.
  destruct (values_for_path_loc (VMap mv) path) as [vs|e|] eqn:E; try discriminate.
  destruct vs as [|[p x] vs]; [discriminate|].
  intros H. injection H as <- <-. exists p. split; [reflexivity|].
  destruct (update_at_map p c mv) as [m' E']. rewrite E'. cbn [entries_of]. rewrite <- E', update_at_twice. reflexivity.
Qed.

(* the distinct-keys hypothesis is needed: in an association list with a repeated key (not a Go map) the value found
   under a wildcard may sit behind an earlier entry of the same key, and put writes to the earlier one *)
Example vfp_lens_get_put_needs_distinct_keys :
  exists mv path v put, wfb (VMap mv) = false /\ vfp_lens mv path = Ok (v, put) /\ put v <> mv.
Proof.
  exists [(s"a", VMap [(s"k", VList []); (s"k", VInt 1%Z)])], (s"a.*"), (VInt 1%Z).
  eexists. split; [reflexivity|]. split; [vm_compute; reflexivity|]. vm_compute. discriminate.
Qed.

(* ------------------------------------------------------------------ non-vacuity *)
Definition g23_map : entries :=
  [(s"a", VMap [(s"b", VMap [(s"c", VStr (s"x")); (s"d", VNil)]);
                (s"list", VList [VMap [(s"x", VInt 1%Z)]; VMap [(s"x", VInt 2%Z); (s"b", VMap [])]; VStr (s"q")])]);
   (s"top", VStr (s"t"))].

(* a.b.c: c rewritten in place inside a.b, everything else as before *)
Example g23_set_nested :
  wfb (VMap g23_map) = true /\
  fn_SetValueForPath vfp_lens gstate0 g23_map (VStr (s"NEW")) (s"a.b.c")
  = Ret (None,
      [(s"a", VMap [(s"b", VMap [(s"c", VStr (s"NEW")); (s"d", VNil)]);
                    (s"list", VList [VMap [(s"x", VInt 1%Z)]; VMap [(s"x", VInt 2%Z); (s"b", VMap [])]; VStr (s"q")])]);
       (s"top", VStr (s"t"))]).
Proof. split; vm_compute; reflexivity. Qed.

(* a list on the way: the map under b in the list's member [1] gets the new key *)
Example g23_set_through_list :
  fn_SetValueForPath vfp_lens gstate0 g23_map (VStr (s"NEW")) (s"a.list[1].b.z")
  = Ret (None,
      [(s"a", VMap [(s"b", VMap [(s"c", VStr (s"x")); (s"d", VNil)]);
                    (s"list", VList [VMap [(s"x", VInt 1%Z)];
                                     VMap [(s"x", VInt 2%Z); (s"b", VMap [(s"z", VStr (s"NEW"))])]; VStr (s"q")])]);
       (s"top", VStr (s"t"))]).
Proof. vm_compute. reflexivity. Qed.

(* one segment: the parent path is "", whose value is the receiver itself: a top-level store *)
Example g23_set_top :
  fn_SetValueForPath vfp_lens gstate0 [(s"top", VStr (s"t"))] (VStr (s"NEW")) (s"k")
  = Ret (None, [(s"top", VStr (s"t")); (s"k", VStr (s"NEW"))]).
Proof. vm_compute. reflexivity. Qed.

(* parent path finds nothing: PathNotExistError, receiver unchanged; parent not a map: error; parent nil: request
   ignored; malformed index: the error of parsePath *)
Example g23_set_errors :
  fn_SetValueForPath vfp_lens gstate0 g23_map (VStr (s"NEW")) (s"a.zz.c") = Ret (Some EOther, g23_map) /\
  fn_SetValueForPath vfp_lens gstate0 g23_map (VStr (s"NEW")) (s"top.k") = Ret (Some EOther, g23_map) /\
  fn_SetValueForPath vfp_lens gstate0 g23_map (VStr (s"NEW")) (s"a.b.d.e") = Ret (None, g23_map) /\
  (exists e, fn_SetValueForPath vfp_lens gstate0 g23_map (VStr (s"NEW")) (s"a.list[x].y") = Ret (Some e, g23_map)).
Proof. repeat split; try (vm_compute; reflexivity). eexists. vm_compute. reflexivity. Qed.

Example g23_lens_found :
  exists v put, vfp_lens g23_map (s"a.list[1].b") = Ok (v, put) /\ v = VMap [] /\ put v = g23_map.
Proof. eexists. eexists. split; [vm_compute; reflexivity|]. split; vm_compute; reflexivity. Qed.
