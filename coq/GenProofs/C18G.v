(* C18 - package options: characterisation of every setter go2v translated from /repo's current
   sources (Gen/Setters_gen.v) against the documentation table (T1), the argument-less forms (T2),
   idempotence of the explicit forms (T3) and the frame property (T4).
   Invariant, restore and non-interference: GenProofs/C18Inv.v, C18Restore.v, C18NI.v.
   The proofs avoid the order / number of the record fields: states are compared through [fields]. *)
From Coq Require Import Lia.
From Mxj Require Import Gen.GenSupport Gen.Setters_gen.
Local Open Scope string_scope.

(* ------------------------------------------------------------------ *)
(* generic support                                                      *)

Fixpoint lookup (n : string) (l : list (string * fval)) : option fval :=
  match l with [] => None | (k, v) :: t => if String.eqb n k then Some v else lookup n t end.

(* two states with the same value for every option variable are the same state *)
Lemma st_ext : forall a b : gstate, fields a = fields b -> a = b.
Proof.
  intros a b Hf. destruct a, b. unfold fields in Hf. cbn in Hf.
  injection Hf. intros. subst. reflexivity.
Qed.

Ltac st_eq := apply st_ext; reflexivity.

Lemma len_eqb0 : forall (A : Type) (l : list A),
  Z.eqb (Z.of_nat (length l)) 0 = match l with [] => true | _ => false end.
Proof.
  intros A l. destruct l as [|x r]; [reflexivity|].
  apply Z.eqb_neq. cbn [length]. lia.
Qed.

Lemma len_eqb1 : forall (A : Type) (l : list A),
  Z.eqb (Z.of_nat (length l)) 1 = match l with [_] => true | _ => false end.
Proof.
  intros A l. destruct l as [|x [|y r]]; [reflexivity|reflexivity|].
  apply Z.eqb_neq. cbn [length]. lia.
Qed.

Lemma str_eqb_nil : forall x : str, str_eqb x [] = match x with [] => true | _ => false end.
Proof. intros x. destruct x; reflexivity. Qed.

(* the argument-list reading of the variadic boolean setters *)
Definition arg_or {A} (d : A) (b : list A) : A := match b with [] => d | x :: _ => x end.

(* ------------------------------------------------------------------ *)
(* T1 - every setter = its row of the documentation table               *)

(* the nine "toggle / set with exactly one argument / otherwise nothing" setters *)
Definition toggle_spec (get : gstate -> bool) (upd : bool -> gstate -> gstate) (st : gstate) (b : list bool) : option gstate :=
  match b with
  | [] => Some (upd (negb (get st)) st)
  | [x] => Some (upd x st)
  | _ => Some st
  end.

Ltac toggle_tac f :=
  intros st b; unfold f, toggle_spec; rewrite len_eqb0, len_eqb1;
  destruct b as [|x [|y r]]; reflexivity.

Lemma IncludeTagSeqNum_char : forall st b,
  set_IncludeTagSeqNum st b = toggle_spec g_includeTagSeqNum with_includeTagSeqNum st b.
Proof. toggle_tac set_IncludeTagSeqNum. Qed.
Lemma CoerceKeysToLower_char : forall st b,
  set_CoerceKeysToLower st b = toggle_spec g_lowerCase with_lowerCase st b.
Proof. toggle_tac set_CoerceKeysToLower. Qed.
Lemma CoerceKeysToSnakeCase_char : forall st b,
  set_CoerceKeysToSnakeCase st b = toggle_spec g_snakeCaseKeys with_snakeCaseKeys st b.
Proof. toggle_tac set_CoerceKeysToSnakeCase. Qed.
Lemma CastValuesToInt_char : forall st b,
  set_CastValuesToInt st b = toggle_spec g_castToInt with_castToInt st b.
Proof. toggle_tac set_CastValuesToInt. Qed.
Lemma HandleXMPPStreamTag_char : forall st b,
  set_HandleXMPPStreamTag st b = toggle_spec g_handleXMPPStreamTag with_handleXMPPStreamTag st b.
Proof. toggle_tac set_HandleXMPPStreamTag. Qed.
Lemma DecodeSimpleValuesAsMap_char : forall st b,
  set_DecodeSimpleValuesAsMap st b = toggle_spec g_decodeSimpleValuesAsMap with_decodeSimpleValuesAsMap st b.
Proof. toggle_tac set_DecodeSimpleValuesAsMap. Qed.
Lemma CastNanInf_char : forall st b,
  set_CastNanInf st b = toggle_spec g_castNanInf with_castNanInf st b.
Proof. toggle_tac set_CastNanInf. Qed.
Lemma CastValuesToFloat_char : forall st b,
  set_CastValuesToFloat st b = toggle_spec g_castToFloat with_castToFloat st b.
Proof. toggle_tac set_CastValuesToFloat. Qed.
Lemma CastValuesToBool_char : forall st b,
  set_CastValuesToBool st b = toggle_spec g_castToBool with_castToBool st b.
Proof. toggle_tac set_CastValuesToBool. Qed.

(* XmlCheckIsValid: exactly one argument sets; none - and two or more - toggle *)
Lemma XmlCheckIsValid_char : forall st b,
  set_XmlCheckIsValid st b =
  match b with
  | [x] => Some (with_xmlCheckIsValid x st)
  | _ => Some (with_xmlCheckIsValid (negb (g_xmlCheckIsValid st)) st)
  end.
Proof.
  intros st b. unfold set_XmlCheckIsValid. rewrite len_eqb1.
  destruct b as [|x [|y r]]; reflexivity.
Qed.

(* LeafUseDotNotation: none toggles, otherwise the first argument (further arguments ignored) *)
Lemma LeafUseDotNotation_char : forall st b,
  set_LeafUseDotNotation st b = Some (with_useDotNotation (arg_or (negb (g_useDotNotation st)) b) st).
Proof.
  intros st b. unfold set_LeafUseDotNotation. rewrite len_eqb0.
  destruct b as [|x r]; reflexivity.
Qed.

(* DisableTrimWhiteSpace: none = DISABLE trimming (flag true), otherwise the first argument;
   trimRunes follows the flag: "\t\r\b\n" when disabled, "\t\r\b\n " otherwise *)
Definition trim_runes_for (disabled : bool) : str := if disabled then hx"090d080a" else hx"090d080a20".
Definition set_trim (v : bool) (st : gstate) : gstate :=
  with_trimRunes (trim_runes_for v) (with_disableTrimWhiteSpace v st).

Lemma DisableTrimWhiteSpace_char : forall st b,
  set_DisableTrimWhiteSpace st b = Some (set_trim (arg_or true b) st).
Proof.
  intros st b. unfold set_DisableTrimWhiteSpace. rewrite len_eqb0.
  destruct b as [|[|] r]; reflexivity.
Qed.

(* XMLEscapeChars: requested value bb (none: the negation of the current flag; else the first argument);
   the flag becomes bb && not xmlEscapeCharsDecoder - a request to switch on is IGNORED while the
   decoder-side switch is on *)
Lemma XMLEscapeChars_char : forall st b,
  set_XMLEscapeChars st b =
  Some (with_xmlEscapeChars (arg_or (negb (g_xmlEscapeChars st)) b && negb (g_xmlEscapeCharsDecoder st)) st).
Proof.
  intros st b. unfold set_XMLEscapeChars. rewrite len_eqb0.
  destruct b as [|x r]; cbn [arg_or nth_error].
  - destruct (g_xmlEscapeChars st), (g_xmlEscapeCharsDecoder st); reflexivity.
  - destruct x, (g_xmlEscapeCharsDecoder st); reflexivity.
Qed.

(* XMLEscapeCharsDecoder: the decoder-side flag becomes d (none: toggled; else the first argument) and
   the encoder-side flag is cleared when d is true *)
Definition set_escdec (d : bool) (st : gstate) : gstate :=
  with_xmlEscapeChars (g_xmlEscapeChars st && negb d) (with_xmlEscapeCharsDecoder d st).

Lemma XMLEscapeCharsDecoder_char : forall st b,
  set_XMLEscapeCharsDecoder st b = Some (set_escdec (arg_or (negb (g_xmlEscapeCharsDecoder st)) b) st).
Proof.
  intros st b. unfold set_XMLEscapeCharsDecoder, set_escdec. rewrite len_eqb0.
  destruct b as [|x r]; cbn [arg_or nth_error].
  - destruct (g_xmlEscapeChars st) eqn:E1; destruct (g_xmlEscapeCharsDecoder st) eqn:E2;
      cbn; rewrite ?E1, ?E2; cbn; f_equal; apply st_ext; unfold fields; cbn; rewrite ?E1, ?E2; reflexivity.
  - destruct (g_xmlEscapeChars st) eqn:E1; destruct x;
      cbn; rewrite ?E1; cbn; f_equal; apply st_ext; unfold fields; cbn; rewrite ?E1; reflexivity.
Qed.

(* SetFieldSeparator: no argument or an empty first argument resets to ":"; else the first argument *)
Definition fieldsep_of (a : list str) : str :=
  match a with [] => s":" | [] :: _ => s":" | x :: _ => x end.

Lemma SetFieldSeparator_char : forall st a,
  set_SetFieldSeparator st a = Some (with_fieldSep (fieldsep_of a) st).
Proof.
  intros st a. unfold set_SetFieldSeparator. rewrite len_eqb0.
  destruct a as [|x r]; [reflexivity|]. cbn [nth_error]. rewrite str_eqb_nil.
  destruct x; reflexivity.
Qed.

(* SetAttrPrefix / PrependAttrWithHyphen: the prefix and its cached length *)
Definition set_prefix (p : str) (st : gstate) : gstate :=
  with_lenAttrPrefix (Z.of_nat (length p)) (with_attrPrefix p st).

Lemma SetAttrPrefix_char : forall st p, set_SetAttrPrefix st p = Some (set_prefix p st).
Proof. intros st p. reflexivity. Qed.

Lemma PrependAttrWithHyphen_char : forall st v,
  set_PrependAttrWithHyphen st v = Some (set_prefix (if v then s"-" else []) st).
Proof. intros st v. destruct v; reflexivity. Qed.

(* SetArraySize: max size 32, and the function returns the new size *)
Lemma SetArraySize_char : forall st n,
  set_SetArraySize st n = Some (with_defaultArraySize (Z.max n 32) st, Z.max n 32).
Proof.
  intros st n. unfold set_SetArraySize.
  destruct (Z.gtb n 32) eqn:E.
  - assert (Hm : Z.max n 32 = n) by (apply Z.gtb_lt in E; lia). rewrite Hm. reflexivity.
  - assert (Hm : Z.max n 32 = 32%Z) by (rewrite Z.gtb_ltb in E; apply Z.ltb_ge in E; lia). rewrite Hm. reflexivity.
Qed.

Lemma SetCheckTagToSkipFunc_char : forall st f,
  set_SetCheckTagToSkipFunc st f = Some (with_checkTagToSkip f st).
Proof. intros st f. reflexivity. Qed.

Lemma XmlGoEmptyElemSyntax_char : forall st,
  set_XmlGoEmptyElemSyntax st = Some (with_useGoXmlEmptyElemSyntax true st).
Proof. intros st. reflexivity. Qed.

Lemma XmlDefaultEmptyElemSyntax_char : forall st,
  set_XmlDefaultEmptyElemSyntax st = Some (with_useGoXmlEmptyElemSyntax false st).
Proof. intros st. reflexivity. Qed.

(* SetGlobalKeyMapPrefix: each of the eight keys k becomes ReplaceAll(k, k[0:1], s); an EMPTY key panics *)
Definition rekey (new k : str) : str := replace_all k (firstn 1 k) new.

Definition map_keys (f : str -> str) (st : gstate) : gstate :=
  with_textK (f (g_textK st)) (with_seqK (f (g_seqK st)) (with_commentK (f (g_commentK st))
  (with_attrK (f (g_attrK st)) (with_directiveK (f (g_directiveK st)) (with_procinstK (f (g_procinstK st))
  (with_targetK (f (g_targetK st)) (with_instK (f (g_instK st)) st))))))).

Definition key_list (st : gstate) : list str :=
  [g_textK st; g_seqK st; g_commentK st; g_attrK st; g_directiveK st; g_procinstK st; g_targetK st; g_instK st].

Definition nonempty (k : str) : bool := match k with [] => false | _ => true end.

Lemma ltb_len1 : forall k : str, Nat.ltb (length k) 1 = negb (nonempty k).
Proof. intros k. destruct k; reflexivity. Qed.

Lemma SetGlobalKeyMapPrefix_char : forall st new,
  set_SetGlobalKeyMapPrefix st new =
  if forallb nonempty (key_list st) then Some (map_keys (rekey new) st) else None.
Proof.
  intros st new. unfold set_SetGlobalKeyMapPrefix. cbn -[replace_all firstn Nat.ltb].
  rewrite !ltb_len1.
  destruct (nonempty (g_textK st)), (nonempty (g_seqK st)), (nonempty (g_commentK st)), (nonempty (g_attrK st)),
           (nonempty (g_directiveK st)), (nonempty (g_procinstK st)), (nonempty (g_targetK st)), (nonempty (g_instK st));
    reflexivity.
Qed.

(* ------------------------------------------------------------------ *)
(* T2 - the argument-less forms                                         *)

Lemma toggle_spec_noarg : forall get upd st, toggle_spec get upd st [] = Some (upd (negb (get st)) st).
Proof. reflexivity. Qed.

Lemma IncludeTagSeqNum_noarg : forall st,
  set_IncludeTagSeqNum st [] = Some (with_includeTagSeqNum (negb (g_includeTagSeqNum st)) st).
Proof. intros st. rewrite IncludeTagSeqNum_char. reflexivity. Qed.
Lemma CoerceKeysToLower_noarg : forall st,
  set_CoerceKeysToLower st [] = Some (with_lowerCase (negb (g_lowerCase st)) st).
Proof. intros st. rewrite CoerceKeysToLower_char. reflexivity. Qed.
Lemma CoerceKeysToSnakeCase_noarg : forall st,
  set_CoerceKeysToSnakeCase st [] = Some (with_snakeCaseKeys (negb (g_snakeCaseKeys st)) st).
Proof. intros st. rewrite CoerceKeysToSnakeCase_char. reflexivity. Qed.
Lemma CastValuesToInt_noarg : forall st,
  set_CastValuesToInt st [] = Some (with_castToInt (negb (g_castToInt st)) st).
Proof. intros st. rewrite CastValuesToInt_char. reflexivity. Qed.
Lemma HandleXMPPStreamTag_noarg : forall st,
  set_HandleXMPPStreamTag st [] = Some (with_handleXMPPStreamTag (negb (g_handleXMPPStreamTag st)) st).
Proof. intros st. rewrite HandleXMPPStreamTag_char. reflexivity. Qed.
Lemma DecodeSimpleValuesAsMap_noarg : forall st,
  set_DecodeSimpleValuesAsMap st [] = Some (with_decodeSimpleValuesAsMap (negb (g_decodeSimpleValuesAsMap st)) st).
Proof. intros st. rewrite DecodeSimpleValuesAsMap_char. reflexivity. Qed.
Lemma CastNanInf_noarg : forall st,
  set_CastNanInf st [] = Some (with_castNanInf (negb (g_castNanInf st)) st).
Proof. intros st. rewrite CastNanInf_char. reflexivity. Qed.
Lemma CastValuesToFloat_noarg : forall st,
  set_CastValuesToFloat st [] = Some (with_castToFloat (negb (g_castToFloat st)) st).
Proof. intros st. rewrite CastValuesToFloat_char. reflexivity. Qed.
Lemma CastValuesToBool_noarg : forall st,
  set_CastValuesToBool st [] = Some (with_castToBool (negb (g_castToBool st)) st).
Proof. intros st. rewrite CastValuesToBool_char. reflexivity. Qed.
Lemma XmlCheckIsValid_noarg : forall st,
  set_XmlCheckIsValid st [] = Some (with_xmlCheckIsValid (negb (g_xmlCheckIsValid st)) st).
Proof. intros st. rewrite XmlCheckIsValid_char. reflexivity. Qed.
Lemma LeafUseDotNotation_noarg : forall st,
  set_LeafUseDotNotation st [] = Some (with_useDotNotation (negb (g_useDotNotation st)) st).
Proof. intros st. rewrite LeafUseDotNotation_char. reflexivity. Qed.
(* the white-space switch does NOT toggle: no argument = disable trimming *)
Lemma DisableTrimWhiteSpace_noarg : forall st,
  set_DisableTrimWhiteSpace st [] = Some (with_trimRunes (hx"090d080a") (with_disableTrimWhiteSpace true st)).
Proof. intros st. rewrite DisableTrimWhiteSpace_char. reflexivity. Qed.
(* the field separator is reset to the default *)
Lemma SetFieldSeparator_noarg : forall st,
  set_SetFieldSeparator st [] = Some (with_fieldSep (s":") st).
Proof. intros st. rewrite SetFieldSeparator_char. reflexivity. Qed.
Lemma SetFieldSeparator_empty : forall st r,
  set_SetFieldSeparator st ([] :: r) = Some (with_fieldSep (s":") st).
Proof. intros st r. rewrite SetFieldSeparator_char. reflexivity. Qed.
(* escaping: toggles, subject to the interplay *)
Lemma XMLEscapeChars_noarg : forall st,
  set_XMLEscapeChars st [] =
  Some (with_xmlEscapeChars (negb (g_xmlEscapeChars st) && negb (g_xmlEscapeCharsDecoder st)) st).
Proof. intros st. rewrite XMLEscapeChars_char. reflexivity. Qed.
Lemma XMLEscapeCharsDecoder_noarg : forall st,
  set_XMLEscapeCharsDecoder st [] = Some (set_escdec (negb (g_xmlEscapeCharsDecoder st)) st).
Proof. intros st. rewrite XMLEscapeCharsDecoder_char. reflexivity. Qed.

(* a toggle is an involution: two argument-less calls give the state back *)
Definition is_toggle (c : call) : bool :=
  match c with
  | C_IncludeTagSeqNum [] | C_CoerceKeysToLower [] | C_CoerceKeysToSnakeCase [] | C_CastValuesToInt []
  | C_HandleXMPPStreamTag [] | C_DecodeSimpleValuesAsMap [] | C_CastNanInf [] | C_CastValuesToFloat []
  | C_CastValuesToBool [] | C_XmlCheckIsValid [] | C_LeafUseDotNotation [] => true
  | _ => false
  end.

Lemma toggle_twice : forall st c st1,
  is_toggle c = true -> apply_call st c = Some st1 -> apply_call st1 c = Some st.
Proof.
  intros st c st1 Ht H.
  destruct c as [a|a|a|a|a|a|a|a|a|a|a|a|a|a|a|a|a|a|a| | |a|a|a|a]; try discriminate Ht;
    destruct a as [|x r]; try discriminate Ht; cbn [apply_call] in *;
    rewrite ?IncludeTagSeqNum_char, ?CoerceKeysToLower_char, ?CoerceKeysToSnakeCase_char, ?CastValuesToInt_char,
            ?HandleXMPPStreamTag_char, ?DecodeSimpleValuesAsMap_char, ?CastNanInf_char, ?CastValuesToFloat_char,
            ?CastValuesToBool_char, ?XmlCheckIsValid_char, ?LeafUseDotNotation_char in *;
    unfold toggle_spec, arg_or in *; injection H as H; subst st1;
    f_equal; apply st_ext; unfold fields; cbn; rewrite negb_involutive; reflexivity.
Qed.

(* ------------------------------------------------------------------ *)
(* T4 - frame: a call changes only the variables listed for it          *)

Definition call_name (c : call) : string :=
  match c with
  | C_XMLEscapeChars _ => "XMLEscapeChars"
  | C_XMLEscapeCharsDecoder _ => "XMLEscapeCharsDecoder"
  | C_SetArraySize _ => "SetArraySize"
  | C_LeafUseDotNotation _ => "LeafUseDotNotation"
  | C_SetFieldSeparator _ => "SetFieldSeparator"
  | C_SetGlobalKeyMapPrefix _ => "SetGlobalKeyMapPrefix"
  | C_PrependAttrWithHyphen _ => "PrependAttrWithHyphen"
  | C_IncludeTagSeqNum _ => "IncludeTagSeqNum"
  | C_CoerceKeysToLower _ => "CoerceKeysToLower"
  | C_DisableTrimWhiteSpace _ => "DisableTrimWhiteSpace"
  | C_SetAttrPrefix _ => "SetAttrPrefix"
  | C_CoerceKeysToSnakeCase _ => "CoerceKeysToSnakeCase"
  | C_CastValuesToInt _ => "CastValuesToInt"
  | C_HandleXMPPStreamTag _ => "HandleXMPPStreamTag"
  | C_DecodeSimpleValuesAsMap _ => "DecodeSimpleValuesAsMap"
  | C_CastNanInf _ => "CastNanInf"
  | C_CastValuesToFloat _ => "CastValuesToFloat"
  | C_CastValuesToBool _ => "CastValuesToBool"
  | C_SetCheckTagToSkipFunc _ => "SetCheckTagToSkipFunc"
  | C_XmlGoEmptyElemSyntax => "XmlGoEmptyElemSyntax"
  | C_XmlDefaultEmptyElemSyntax => "XmlDefaultEmptyElemSyntax"
  | C_XmlCheckIsValid _ => "XmlCheckIsValid"
  | C_assign_JsonUseNumber _ => "JsonUseNumber="
  | C_assign_CustomDecoder _ => "CustomDecoder="
  | C_assign_XmlCharsetReader _ => "XmlCharsetReader="
  end.

Fixpoint assoc_s (k : string) (t : list (string * list string)) : list string :=
  match t with [] => [] | (k', v) :: t' => if String.eqb k k' then v else assoc_s k t' end.

(* the documented write set: the generated [setter_writes] entry; the variable itself for an assignment *)
Definition call_writes (c : call) : list string :=
  match c with
  | C_assign_JsonUseNumber _ => ["JsonUseNumber"]
  | C_assign_CustomDecoder _ => ["CustomDecoder"]
  | C_assign_XmlCharsetReader _ => ["XmlCharsetReader"]
  | _ => assoc_s (call_name c) setter_writes
  end.

Definition same_or_listed (ws : list string) (a b : string * fval) : Prop :=
  fst a = fst b /\ (snd a = snd b \/ In (fst a) ws).

Lemma frame_from_forall2 : forall ws l' l,
  Forall2 (same_or_listed ws) l' l -> forall n, ~ In n ws -> lookup n l' = lookup n l.
Proof.
  intros ws l' l HF n Hn. induction HF as [|a b l' l Hab HF IH]; [reflexivity|].
  destruct a as [ka va], b as [kb vb]. destruct Hab as [Hk Hv]. cbn in Hk, Hv. subst kb.
  cbn [lookup]. destruct (String.eqb n ka) eqn:E.
  - apply String.eqb_eq in E. subst ka. destruct Hv as [Hv|Hv]; [subst; reflexivity | contradiction].
  - exact IH.
Qed.

Ltac frame_elems :=
  repeat (apply Forall2_cons;
          [split; [reflexivity | first [left; reflexivity | right; vm_compute; auto 14]] | ]);
  apply Forall2_nil.

Ltac frame_tac c :=
  apply (frame_from_forall2 (call_writes c)); [unfold fields; cbn; frame_elems | assumption].

Theorem set_frame : forall st c st',
  apply_call st c = Some st' ->
  forall n, ~ In n (call_writes c) -> lookup n (fields st') = lookup n (fields st).
Proof.
  intros st c st' H n Hn.
  destruct c as [a|a|a|a|a|a|a|a|a|a|a|a|a|a|a|a|a|a|a| | |a|a|a|a]; cbn [apply_call] in H;
    rewrite ?XMLEscapeChars_char, ?XMLEscapeCharsDecoder_char, ?SetArraySize_char, ?LeafUseDotNotation_char,
            ?SetFieldSeparator_char, ?SetGlobalKeyMapPrefix_char, ?PrependAttrWithHyphen_char,
            ?IncludeTagSeqNum_char, ?CoerceKeysToLower_char, ?DisableTrimWhiteSpace_char, ?SetAttrPrefix_char,
            ?CoerceKeysToSnakeCase_char, ?CastValuesToInt_char, ?HandleXMPPStreamTag_char,
            ?DecodeSimpleValuesAsMap_char, ?CastNanInf_char, ?CastValuesToFloat_char, ?CastValuesToBool_char,
            ?SetCheckTagToSkipFunc_char, ?XmlGoEmptyElemSyntax_char, ?XmlDefaultEmptyElemSyntax_char,
            ?XmlCheckIsValid_char in H;
    unfold toggle_spec in H.
  - injection H as H; subst st'. frame_tac (C_XMLEscapeChars a).
  - injection H as H; subst st'. unfold set_escdec. frame_tac (C_XMLEscapeCharsDecoder a).
  - injection H as H; subst st'. frame_tac (C_SetArraySize a).
  - injection H as H; subst st'. frame_tac (C_LeafUseDotNotation a).
  - injection H as H; subst st'. frame_tac (C_SetFieldSeparator a).
  - destruct (forallb nonempty (key_list st)); [|discriminate H].
    injection H as H; subst st'. unfold map_keys. frame_tac (C_SetGlobalKeyMapPrefix a).
  - injection H as H; subst st'. unfold set_prefix. frame_tac (C_PrependAttrWithHyphen a).
  - destruct a as [|x [|y r]]; injection H as H; subst st'; frame_tac (C_IncludeTagSeqNum (@nil bool)).
  - destruct a as [|x [|y r]]; injection H as H; subst st'; frame_tac (C_CoerceKeysToLower (@nil bool)).
  - injection H as H; subst st'. unfold set_trim. frame_tac (C_DisableTrimWhiteSpace a).
  - injection H as H; subst st'. unfold set_prefix. frame_tac (C_SetAttrPrefix a).
  - destruct a as [|x [|y r]]; injection H as H; subst st'; frame_tac (C_CoerceKeysToSnakeCase (@nil bool)).
  - destruct a as [|x [|y r]]; injection H as H; subst st'; frame_tac (C_CastValuesToInt (@nil bool)).
  - destruct a as [|x [|y r]]; injection H as H; subst st'; frame_tac (C_HandleXMPPStreamTag (@nil bool)).
  - destruct a as [|x [|y r]]; injection H as H; subst st'; frame_tac (C_DecodeSimpleValuesAsMap (@nil bool)).
  - destruct a as [|x [|y r]]; injection H as H; subst st'; frame_tac (C_CastNanInf (@nil bool)).
  - destruct a as [|x [|y r]]; injection H as H; subst st'; frame_tac (C_CastValuesToFloat (@nil bool)).
  - destruct a as [|x [|y r]]; injection H as H; subst st'; frame_tac (C_CastValuesToBool (@nil bool)).
  - injection H as H; subst st'. frame_tac (C_SetCheckTagToSkipFunc a).
  - injection H as H; subst st'. frame_tac C_XmlGoEmptyElemSyntax.
  - injection H as H; subst st'. frame_tac C_XmlDefaultEmptyElemSyntax.
  - destruct a as [|x [|y r]]; injection H as H; subst st'; frame_tac (C_XmlCheckIsValid (@nil bool)).
  - injection H as H; subst st'. frame_tac (C_assign_JsonUseNumber a).
  - injection H as H; subst st'. frame_tac (C_assign_CustomDecoder a).
  - injection H as H; subst st'. frame_tac (C_assign_XmlCharsetReader a).
Qed.
