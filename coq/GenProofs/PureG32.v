(* addNewVal and copyMapShallow (newmap.go), as go2v translated them from /repo's CURRENT source in cursor mode
   (Gen/Pure_gen.v: fn_addNewVal, fn_copyMapShallow; translator/cursor.go), ARE the model add_new_val of Model/TreeOps.v:
   the walk down the Map under construction with the cursor m and the function m_put that rebuilds the root from the map the
   cursor stands on (new map under a nil / missing entry, shallow copy of a map, the list case with its first map-or-nil
   member, [scalar, new map]), the stores through the cursor, the final store (value / appended / [old, value]).
   The loop bodies and the statements after the walk loop are taken out of the translated term by Ltac, so the proof follows
   the generated code.
     1. copyMapShallow: a fold of `set` over the entries; the map itself when its keys are distinct.
     2. addNewVal: for ANY callee cms, the code returns add_new_val_c cms (the model with cms applied to the maps walked
        into: add_new_val_code_general); that is the model add_new_val for a cms that returns its argument
        (add_new_val_code_is_model, all inputs) and for the TRANSLATED copyMapShallow on a Map whose maps have distinct
        keys (add_new_val_code_is_model_wf).
     3. addNewVal never crashes; Map.NewMap with the translated ValuesForPath and addNewVal is the model new_map (PureG30).
     4. the whole chain translated (copyMapShallow too): NewMap is new_map on a receiver with distinct keys in every map
        (values ValuesForPath returns are well-formed, addNewVal keeps the Map well-formed; the loop proof of PureG30
        redone with that invariant). *)
From Coq Require Import Lia.
From Mxj Require Import Gen.GenSupport Gen.Setters_gen Gen.PureSupport Gen.Pure_gen Model.KeyValues Model.TreeOps.
From Mxj Require Import Proofs.StrLemmas Proofs.C07P.
From Mxj Require Import GenProofs.PureG GenProofs.PureG2 GenProofs.PureG5 GenProofs.PureG7 GenProofs.PureG30.
From Mxj Require Proofs.C11P.

(* ------------------------------------------------------------------ map / list primitives *)

Lemma g32_lookup_set_same k x m : lookup k (set k x m) = Some x.
Proof.
  induction m as [|[k' v'] t IH]; cbn [set lookup]; [rewrite str_eqb_refl; reflexivity|].
  destruct (str_eqb k k') eqn:E; cbn [lookup]; rewrite E; [reflexivity|exact IH].
Qed.

Lemma g32_set_set k x y m : set k y (set k x m) = set k y m.
Proof.
  induction m as [|[k' v'] t IH]; cbn [set]; [rewrite str_eqb_refl; reflexivity|].
  destruct (str_eqb k k') eqn:E; cbn [set]; rewrite E; [reflexivity|rewrite IH; reflexivity].
Qed.

Lemma g32_lookup_In k v m : lookup k m = Some v -> In (k, v) m.
Proof.
  induction m as [|[k' v'] t IH]; cbn [lookup]; [discriminate|].
  destruct (str_eqb k k') eqn:E; intros H.
  - apply str_eqb_eq in E; subst. injection H as ->. left; reflexivity.
  - right; apply IH, H.
Qed.

Lemma g32_lset_lset {A} (l : list A) j x y : lset (lset l j x) j y = lset l j y.
Proof.
  revert j. induction l as [|h t IH]; intros [|j]; cbn [lset]; try reflexivity. rewrite IH. reflexivity.
Qed.

Lemma g32_lset_app_r {A} (a l : list A) j x : lset (a ++ l) (length a + j) x = a ++ lset l j x.
Proof.
  induction a as [|h a IH]; [reflexivity|]. cbn [app length Nat.add lset]. rewrite IH. reflexivity.
Qed.

Lemma g32_lset_snoc {A} (l : list A) y x : lset (l ++ [y]) (length l + 0) x = l ++ [x].
Proof. rewrite g32_lset_app_r. reflexivity. Qed.

(* ------------------------------------------------------------------ 1. copyMapShallow *)

(* what the loop computes: the entries stored one by one into an empty map *)
Definition copy_entries (m : entries) : entries :=
  fold_left (fun (c : entries) (kv : str * value) => set (fst kv) (snd kv) c) m [].

Lemma copy_loop (m : entries) : forall c : entries,
  range_loop (fun (st_ : entries) (el_ : str * value) =>
                let l_c := st_ in let '(l_k, l_v) := el_ in
                (let l_c := set l_k l_v l_c in Next l_c : ctl entries entries)) m c
  = Next (fold_left (fun (c : entries) (kv : str * value) => set (fst kv) (snd kv) c) m c).
Proof.
  induction m as [|[k v] m IH]; intros c; [reflexivity|].
  cbn [range_loop fold_left fst snd]. apply IH.
Qed.

Theorem copy_map_shallow_code : forall st m, fn_copyMapShallow st m = Ret (copy_entries m).
Proof.
  intros st m. unfold fn_copyMapShallow, copy_entries. cbv zeta. rewrite copy_loop. reflexivity.
Qed.
Print Assumptions copy_map_shallow_code.

Lemma g32_set_absent k v (m : entries) : existsb (str_eqb k) (map fst m) = false -> set k v m = m ++ [(k, v)].
Proof.
  induction m as [|[k' v'] t IH]; cbn [map fst existsb set app]; [reflexivity|].
  intros H. apply Bool.orb_false_iff in H as [H1 H2]. rewrite H1, IH by exact H2. reflexivity.
Qed.

Lemma g32_existsb_app k (a b : list str) : existsb (str_eqb k) (a ++ b) = existsb (str_eqb k) a || existsb (str_eqb k) b.
Proof. apply existsb_app. Qed.

Lemma copy_fold_nodup (m : entries) : forall c : entries,
  nodup_keys (map fst m) = true ->
  (forall k, In k (map fst m) -> existsb (str_eqb k) (map fst c) = false) ->
  fold_left (fun (c : entries) (kv : str * value) => set (fst kv) (snd kv) c) m c = c ++ m.
Proof.
  induction m as [|[k v] m IH]; intros c Hnd Hdis; [rewrite app_nil_r; reflexivity|].
  cbn [map fst nodup_keys] in Hnd. apply andb_true_iff in Hnd as [Hk Hnd].
  apply Bool.negb_true_iff in Hk.
  cbn [fold_left fst snd].
  rewrite g32_set_absent by (apply Hdis; left; reflexivity).
  rewrite IH; [rewrite <- app_assoc; reflexivity|exact Hnd|].
  intros k' Hin. rewrite map_app, g32_existsb_app. cbn [map fst existsb].
  rewrite (Hdis k') by (right; exact Hin). cbn [orb]. rewrite Bool.orb_false_r.
  destruct (str_eqb k' k) eqn:E; [|reflexivity].
  apply str_eqb_eq in E. subst k'. exfalso.
  assert (Hx : existsb (str_eqb k) (map fst m) = true).
  { apply existsb_exists. exists k. split; [exact Hin|apply str_eqb_refl]. }
  congruence.
Qed.

(* distinct keys (what every Go map has): the copy is the map itself *)
Theorem copy_entries_nodup : forall m, nodup_keys (map fst m) = true -> copy_entries m = m.
Proof.
  intros m H. unfold copy_entries. rewrite copy_fold_nodup; [reflexivity|exact H|reflexivity].
Qed.

(* in general (association lists that are not Go maps): every key once, at its first position, with its last value *)
Example copy_entries_dup :
  copy_entries [(s "a", VInt 1); (s "b", VInt 2); (s "a", VInt 3)] = [(s "a", VInt 3); (s "b", VInt 2)].
Proof. vm_compute. reflexivity. Qed.

(* the translated callee as a function *)
Definition run_copyMapShallow (st : gstate) (m : entries) : entries :=
  match fn_copyMapShallow st m with Ret r => r | _ => m end.

Lemma run_copyMapShallow_eq st m : run_copyMapShallow st m = copy_entries m.
Proof. unfold run_copyMapShallow. rewrite copy_map_shallow_code. reflexivity. Qed.

Theorem copy_map_shallow_code_id : forall st m,
  nodup_keys (map fst m) = true -> fn_copyMapShallow st m = Ret m.
Proof. intros st m H. rewrite copy_map_shallow_code, copy_entries_nodup by exact H. reflexivity. Qed.
Print Assumptions copy_map_shallow_code_id.

(* ------------------------------------------------------------------ 2. addNewVal: the pieces of the translated term *)

Definition anv_state : Type := (Z * entries * (entries -> entries) * entries * str)%type.
Definition anv_scan_state : Type := (list value * entries * bool * nat * bool)%type.

(* the body of the walk loop *)
Definition anv_body (cms : entries -> entries) (path : list str) : anv_state -> ctl anv_state entries :=
  ltac:(let t := eval cbv beta zeta delta [fn_addNewVal] in (fn_addNewVal cms gstate0 [] path []) in
        match t with context [for_loop _ ?b _] => exact b end).

(* the body of the loop over the members of a list met on the walk *)
Definition anv_scan_body (cms : entries -> entries) : anv_scan_state -> value -> ctl anv_scan_state entries :=
  ltac:(let t := eval cbv beta zeta delta [fn_addNewVal] in (fn_addNewVal cms gstate0 [] [] []) in
        match t with context [range_loop ?b _ _] => exact b end).

(* the statements after the walk loop (the final store) *)
Definition anv_after (nv : value) : anv_state -> ctl unit entries :=
  ltac:(let t := eval cbv beta zeta delta [fn_addNewVal] in (fn_addNewVal (fun m => m) gstate0 [] [] []) in
        match t with bindc _ ?k =>
          let t2 := eval cbv beta in (k nv) in
          match t2 with bindc _ ?k2 => exact k2 end end).

(* the packing of the value list *)
Definition anv_pack (val : list value) : ctl value entries :=
  ltac:(let t := eval cbv beta zeta delta [fn_addNewVal] in (fn_addNewVal (fun m => m) gstate0 [] [] val) in
        match t with bindc ?x _ => exact x end).

Lemma fn_addNewVal_unfold cms st n path val :
  fn_addNewVal cms st n path val =
  bindc (anv_pack val) (fun nv =>
    bindc (for_loop (S (S (Z.to_nat (Z.of_nat (length path) - 0 + 1)))) (anv_body cms path)
                    (0%Z, n, (fun x_ : entries => x_), n, ([] : str)))
          (anv_after nv)).
Proof. reflexivity. Qed.

Lemma g32_for_loop_S {S A} f (body : S -> ctl S A) s :
  for_loop (Datatypes.S f) body s =
  match body s with Next s' => for_loop f body s' | Brk s' => Next s' | r => r end.
Proof. reflexivity. Qed.

Lemma anv_pack_eq val : anv_pack val = Next (pack_vals val).
Proof.
  destruct val as [|x [|y t]]; [reflexivity|reflexivity|].
  unfold anv_pack, pack_vals.
  replace (Z.eqb (Z.of_nat (length (x :: y :: t))) 1) with false; [reflexivity|].
  symmetry. apply Z.eqb_neq. cbn [length]. lia.
Qed.

(* the final store is add_final *)
Lemma anv_after_eq nv i m put pn k : anv_after nv (i, m, put, pn, k) = Ret (put (add_final k nv m)).
Proof.
  unfold anv_after, add_final.
  destruct (lookup k m) as [v|]; [destruct v|]; reflexivity.
Qed.

(* ------------------------------------------------------------------ one step of the walk, as (map to walk to, how to put it back) *)

(* the first map-or-nil member of a list: its index and the map the walk goes to (the copy of the map; a new map for nil) *)
Fixpoint lfm_scan (cms : entries -> entries) (l : list value) : option (nat * entries) :=
  match l with
  | [] => None
  | VNil :: _ => Some (O, [])
  | VMap mm :: _ => Some (O, cms mm)
  | _ :: t => match lfm_scan cms t with Some (j, mm) => Some (S j, mm) | None => None end
  end.

Definition anv_step (cms : entries -> entries) (k : str) (m : entries) : entries * (entries -> entries) :=
  match lookup k m with
  | None | Some VNil => ([], fun x => set k (VMap x) m)
  | Some (VMap mm) => (cms mm, fun x => set k (VMap x) m)
  | Some (VList l) =>
      match lfm_scan cms l with
      | Some (j, mm) => (mm, fun x => set k (VList (lset l j (VMap x))) m)
      | None => ([], fun x => set k (VList (l ++ [VMap x])) m)
      end
  | Some v => ([], fun x => set k (VList [v; VMap x]) m)
  end.

(* what the code computes for ANY copyMapShallow: the model with the copy function applied to the maps walked into *)
Fixpoint add_new_val_c (cms : entries -> entries) (path : list str) (newVal : value) (m : entries) : entries :=
  match path with
  | [] => add_final [] newVal m
  | k :: rest =>
      match rest with
      | [] => add_final k newVal m
      | _ => snd (anv_step cms k m) (add_new_val_c cms rest newVal (fst (anv_step cms k m)))
      end
  end.

Definition cms_id (m : entries) : entries := m.

Lemma list_first_map_scan f l :
  list_first_map f l = match lfm_scan cms_id l with
                       | Some (j, mm) => (lset l j (VMap (f mm)), true)
                       | None => (l, false)
                       end.
Proof.
  induction l as [|v t IH]; [reflexivity|].
  destruct v; cbn [list_first_map lfm_scan]; try reflexivity;
    rewrite IH; destruct (lfm_scan cms_id t) as [[j mm]|]; reflexivity.
Qed.

Lemma add_new_val_step k k2 rest nv m :
  add_new_val (k :: k2 :: rest) nv m
  = snd (anv_step cms_id k m) (add_new_val (k2 :: rest) nv (fst (anv_step cms_id k m))).
Proof.
  change (add_new_val (k :: k2 :: rest) nv m) with
    (let down := add_new_val (k2 :: rest) nv in
     match lookup k m with
     | None | Some VNil => set k (VMap (down [])) m
     | Some (VMap mm) => set k (VMap (down mm)) m
     | Some (VList l) =>
         let '(l', found) := list_first_map down l in
         set k (VList (if found then l' else l' ++ [VMap (down [])])) m
     | Some v => set k (VList [v; VMap (down [])]) m
     end).
  cbv zeta. unfold anv_step.
  destruct (lookup k m) as [v|]; [destruct v as [x0|b0| |z0|z0|z0|f0|x0|mm0|l0]|]; try reflexivity.
  rewrite list_first_map_scan. destruct (lfm_scan cms_id l0) as [[j mm]|]; reflexivity.
Qed.

(* the model is the general function at the identity copy *)
Lemma add_new_val_c_id : forall path nv m, add_new_val_c cms_id path nv m = add_new_val path nv m.
Proof.
  induction path as [|k rest IH]; intros nv m; [reflexivity|].
  destruct rest as [|k2 rest']; [reflexivity|].
  rewrite add_new_val_step, <- IH. reflexivity.
Qed.

(* ------------------------------------------------------------------ the walk, for any copyMapShallow *)

Section Walk.
Variable cms : entries -> entries.

(* the loop over the members of a list *)
Lemma anv_scan_found l : forall a nm made idx,
  range_loop (anv_scan_body cms) l (a, nm, made, idx, true) = Next (a ++ l, nm, made, idx, true).
Proof.
  induction l as [|v t IH]; intros a nm made idx; [rewrite app_nil_r; reflexivity|].
  cbn [range_loop]. unfold anv_scan_body at 1.
  destruct v; cbv iota beta; rewrite IH, <- app_assoc; reflexivity.
Qed.

Lemma anv_scan_loop l : forall a nm made idx,
  range_loop (anv_scan_body cms) l (a, nm, made, idx, false) =
  match lfm_scan cms l with
  | Some (j, mm) => Next (a ++ lset l j (VMap mm), mm, true, length a + j, true)
  | None => Next (a ++ l, nm, made, idx, false)
  end.
Proof.
  induction l as [|v t IH]; intros a nm made idx; [rewrite app_nil_r; reflexivity|].
  cbn [range_loop]. unfold anv_scan_body at 1.
  destruct v as [x0|b0| |z0|z0|z0|f0|x0|mm0|l0]; cbv iota beta; cbn [lfm_scan];
    try (rewrite IH; destruct (lfm_scan cms t) as [[j mm]|]; rewrite <- app_assoc; cbn [app lset];
         [rewrite app_length; cbn [length]; replace (length a + 1 + j) with (length a + S j) by lia|]; reflexivity).
  - rewrite anv_scan_found, <- app_assoc. reflexivity.
  - rewrite anv_scan_found, <- app_assoc. reflexivity.
Qed.

(* one iteration that walks down: the cursor moves to the map of the step; the new rebuilding function puts a map back
   where the step found / made it, then applies the old one *)
Lemma anv_body_step path i k m put pn k0 :
  nth_error path i = Some k -> S i < length path ->
  exists put' pn',
    anv_body cms path (Z.of_nat i, m, put, pn, k0) = Next (Z.of_nat (S i), fst (anv_step cms k m), put', pn', k)
    /\ forall x, put' x = put (snd (anv_step cms k m) x).
Proof.
  intros Hn Hi.
  assert (H1 : Z.ltb (Z.of_nat i) (Z.of_nat (length path)) = true) by (apply Z.ltb_lt; lia).
  assert (H2 : Z.ltb (Z.of_nat i) 0 = false) by (apply Z.ltb_ge; lia).
  assert (H3 : Z.eqb (Z.of_nat i) (Z.of_nat (length path) - 1) = false) by (apply Z.eqb_neq; lia).
  assert (H4 : (Z.of_nat i + 1)%Z = Z.of_nat (S i)) by lia.
  unfold anv_body. rewrite H1, H2, Nat2Z.id, Hn, H3, H4.
  unfold anv_step.
  destruct (lookup k m) as [v|] eqn:El; [destruct v as [x0|b0| |z0|z0|z0|f0|x0|mm0|l0]|]; cbv iota beta; cbn [negb fst snd];
    try (eexists; eexists; split; [reflexivity|];
         intros x; cbv beta; cbn [app length Nat.add lset]; rewrite g32_set_set; reflexivity).
  - (* nil *)
    rewrite g32_lookup_set_same. eexists; eexists; split; [reflexivity|].
    intros x; cbv beta. rewrite g32_set_set. reflexivity.
  - (* a list *)
    change (range_loop _ l0 ([], [], false, 0, false)) with (range_loop (anv_scan_body cms) l0 ([], [], false, 0, false)).
    rewrite anv_scan_loop.
    destruct (lfm_scan cms l0) as [[j mm]|]; cbn [bindc app length Nat.add negb fst snd].
    + eexists; eexists; split; [reflexivity|]. intros x; cbv beta.
      rewrite g32_set_set, g32_lset_lset. reflexivity.
    + eexists; eexists; split; [reflexivity|]. intros x; cbv beta.
      rewrite g32_set_set, g32_lset_snoc. reflexivity.
  - (* missing *)
    rewrite g32_lookup_set_same. eexists; eexists; split; [reflexivity|].
    intros x; cbv beta. rewrite g32_set_set. reflexivity.
Qed.

(* the iteration at the last segment: break with k set *)
Lemma anv_body_last path i k m put pn k0 :
  nth_error path i = Some k -> S i = length path ->
  anv_body cms path (Z.of_nat i, m, put, pn, k0) = Brk (Z.of_nat i, m, put, pn, k).
Proof.
  intros Hn Hi.
  assert (H1 : Z.ltb (Z.of_nat i) (Z.of_nat (length path)) = true) by (apply Z.ltb_lt; lia).
  assert (H2 : Z.ltb (Z.of_nat i) 0 = false) by (apply Z.ltb_ge; lia).
  assert (H3 : Z.eqb (Z.of_nat i) (Z.of_nat (length path) - 1) = true) by (apply Z.eqb_eq; lia).
  unfold anv_body. rewrite H1, H2, Nat2Z.id, Hn, H3. reflexivity.
Qed.

(* the loop invariant: from the cursor m with the rebuilding function put and the segments `rest` to go (after `pre`), the
   loop and the final store return put (add_new_val_c rest newVal m); fuel: one iteration per segment left suffices *)
Lemma anv_loop nv : forall rest pre m put pn k0 fuel,
  rest <> [] -> length rest <= fuel ->
  bindc (for_loop fuel (anv_body cms (pre ++ rest)) (Z.of_nat (length pre), m, put, pn, k0)) (anv_after nv)
  = Ret (put (add_new_val_c cms rest nv m)).
Proof.
  induction rest as [|k rest IH]; intros pre m put pn k0 fuel Hne Hf; [congruence|].
  destruct fuel as [|f]; [cbn [length] in Hf; lia|].
  assert (Hn : nth_error (pre ++ k :: rest) (length pre) = Some k).
  { rewrite nth_error_app2 by lia. rewrite Nat.sub_diag. reflexivity. }
  rewrite g32_for_loop_S.
  destruct rest as [|k2 rest'].
  - rewrite (anv_body_last _ _ k) by (try exact Hn; rewrite app_length; cbn [length]; lia).
    cbn [bindc]. rewrite anv_after_eq. reflexivity.
  - destruct (anv_body_step (pre ++ k :: k2 :: rest') (length pre) k m put pn k0 Hn) as (put' & pn' & Hb & Hput).
    { rewrite app_length. cbn [length]. lia. }
    rewrite Hb.
    replace (pre ++ k :: k2 :: rest') with ((pre ++ [k]) ++ k2 :: rest') by (rewrite <- app_assoc; reflexivity).
    replace (S (length pre)) with (length (pre ++ [k])) by (rewrite app_length; cbn [length]; lia).
    rewrite IH; [|discriminate|cbn [length] in *; lia].
    rewrite Hput. reflexivity.
Qed.

(* 2a. for ANY callee copyMapShallow, all n, path (empty, with empty segments), val *)
Theorem add_new_val_code_general : forall st n path val,
  fn_addNewVal cms st n path val = Ret (add_new_val_c cms path (pack_vals val) n).
Proof.
  intros st n path val. rewrite fn_addNewVal_unfold, anv_pack_eq. cbn [bindc].
  destruct path as [|k path].
  - (* the empty path: no iteration, k stays "" *)
    cbn [length Z.of_nat]. rewrite g32_for_loop_S. unfold anv_body at 1. cbn [length Z.of_nat Z.ltb Z.compare bindc].
    rewrite anv_after_eq. reflexivity.
  - apply (anv_loop (pack_vals val) (k :: path) [] n (fun x_ => x_) n []); [discriminate|].
    cbn [length]. lia.
Qed.

(* the copy of every map the walk can meet is the map: the general function is the model *)
Variable P : entries -> Prop.
Hypothesis P_nil : P [].
Hypothesis P_map : forall k m mm, P m -> lookup k m = Some (VMap mm) -> P mm.
Hypothesis P_list : forall k m l mm, P m -> lookup k m = Some (VList l) -> In (VMap mm) l -> P mm.
Hypothesis Hcms : forall m, P m -> cms m = m.

Lemma lfm_scan_P l : (forall mm, In (VMap mm) l -> P mm) -> lfm_scan cms l = lfm_scan cms_id l.
Proof.
  induction l as [|v t IH]; intros H; [reflexivity|].
  assert (H' : forall mm, In (VMap mm) t -> P mm) by (intros mm Hin; apply H; right; exact Hin).
  destruct v as [x0|b0| |z0|z0|z0|f0|x0|mm0|l0]; cbn [lfm_scan]; try (rewrite (IH H'); reflexivity); [reflexivity|].
  rewrite Hcms by (apply H; left; reflexivity). reflexivity.
Qed.

Lemma lfm_scan_in l j mm : lfm_scan cms_id l = Some (j, mm) -> mm = [] \/ In (VMap mm) l.
Proof.
  revert j. induction l as [|v t IH]; intros j H; [discriminate|].
  destruct v; cbn [lfm_scan] in H;
    try (destruct (lfm_scan cms_id t) as [[j' mm']|] eqn:E; [|discriminate]; injection H as _ <-;
         destruct (IH _ eq_refl) as [->|Hin]; [left; reflexivity|right; right; exact Hin]).
  - injection H as _ <-. left; reflexivity.
  - injection H as _ <-. right; left; reflexivity.
Qed.

Lemma anv_step_P k m : P m -> anv_step cms k m = anv_step cms_id k m /\ P (fst (anv_step cms_id k m)).
Proof.
  intros HP. unfold anv_step.
  destruct (lookup k m) as [v|] eqn:El; [destruct v as [x0|b0| |z0|z0|z0|f0|x0|mm0|l0]|]; cbn [fst];
    try (split; [reflexivity|exact P_nil]).
  - assert (Hm : P mm0) by (eapply P_map; eassumption). rewrite (Hcms _ Hm). split; [reflexivity|exact Hm].
  - rewrite lfm_scan_P by (intros mm Hin; eapply P_list; eassumption). split; [reflexivity|].
    destruct (lfm_scan cms_id l0) as [[j mm]|] eqn:Es; cbn [fst]; [|exact P_nil].
    destruct (lfm_scan_in _ _ _ Es) as [->|Hin]; [exact P_nil|]. eapply P_list; eassumption.
Qed.

Lemma add_new_val_c_P : forall path nv m, P m -> add_new_val_c cms path nv m = add_new_val path nv m.
Proof.
  induction path as [|k rest IH]; intros nv m HP; [reflexivity|].
  destruct rest as [|k2 rest']; [reflexivity|].
  destruct (anv_step_P k m HP) as [He HP'].
  rewrite add_new_val_step, <- (IH nv _ HP').
  change (add_new_val_c cms (k :: k2 :: rest') nv m)
    with (snd (anv_step cms k m) (add_new_val_c cms (k2 :: rest') nv (fst (anv_step cms k m)))).
  rewrite He. reflexivity.
Qed.

Theorem add_new_val_code_is_model_P : forall st n path val,
  P n -> fn_addNewVal cms st n path val = Ret (add_new_val path (pack_vals val) n).
Proof.
  intros st n path val HP. rewrite add_new_val_code_general, add_new_val_c_P by exact HP. reflexivity.
Qed.

End Walk.
Print Assumptions add_new_val_code_general.

(* ------------------------------------------------------------------ 2. the theorems *)

(* 2b. for a copyMapShallow that returns a map with the entries of its argument: ALL n, path (empty, with empty segments), val *)
Theorem add_new_val_code_is_model : forall (cms : entries -> entries), (forall m, cms m = m) ->
  forall st n path val,
    fn_addNewVal cms st n path val = Ret (add_new_val path (match val with [x] => x | _ => VList val end) n).
Proof.
  intros cms Hc st n path val.
  apply (add_new_val_code_is_model_P cms (fun _ => True)); auto.
Qed.
Print Assumptions add_new_val_code_is_model.

(* well-formedness (distinct keys in every map) of the maps below a well-formed map *)
Lemma g32_wfb_map m : wfb (VMap m) = nodup_keys (map fst m) && forallb (fun kv => wfb (snd kv)) m.
Proof.
  cbn [wfb]. f_equal. induction m as [|[k x] m IH]; [reflexivity|].
  cbn [forallb snd]. rewrite <- IH. reflexivity.
Qed.

Lemma g32_wfb_list l : wfb (VList l) = forallb wfb l.
Proof.
  cbn [wfb]. induction l as [|x l IH]; [reflexivity|]. cbn [forallb]. rewrite <- IH. reflexivity.
Qed.

Lemma g32_wfb_lookup k v m : wfb (VMap m) = true -> lookup k m = Some v -> wfb v = true.
Proof.
  rewrite g32_wfb_map. intros H Hl. apply andb_true_iff in H as [_ H].
  rewrite forallb_forall in H. apply (H (k, v)). apply g32_lookup_In. exact Hl.
Qed.

(* 2c. with the TRANSLATED copyMapShallow as the callee, on a Map whose maps have distinct keys (every Go map does) *)
Theorem add_new_val_code_is_model_wf : forall st n path val,
  wfb (VMap n) = true ->
  fn_addNewVal (run_copyMapShallow st) st n path val
  = Ret (add_new_val path (match val with [x] => x | _ => VList val end) n).
Proof.
  intros st n path val Hw.
  apply (add_new_val_code_is_model_P (run_copyMapShallow st) (fun m => wfb (VMap m) = true)).
  - reflexivity.
  - intros k m mm Hm Hl. exact (g32_wfb_lookup _ _ _ Hm Hl).
  - intros k m l mm Hm Hl Hin. pose proof (g32_wfb_lookup _ _ _ Hm Hl) as Hwl.
    rewrite g32_wfb_list, forallb_forall in Hwl. apply Hwl. exact Hin.
  - intros m Hm. rewrite run_copyMapShallow_eq. apply copy_entries_nodup.
    rewrite g32_wfb_map in Hm. apply andb_true_iff in Hm as [Hm _]. exact Hm.
  - exact Hw.
Qed.
Print Assumptions add_new_val_code_is_model_wf.

(* ------------------------------------------------------------------ 3. corollaries *)

(* addNewVal never panics and the walk loop never runs out of fuel - whatever the callee returns *)
Corollary add_new_val_code_no_crash : forall cms st n path val, fn_addNewVal cms st n path val <> Crash.
Proof. intros cms st n path val. rewrite add_new_val_code_general. discriminate. Qed.
Print Assumptions add_new_val_code_no_crash.

(* the translated addNewVal as a function: the new value of *n *)
Definition run_addNewVal_code (cms : entries -> entries) (st : gstate) (n : entries) (path : list str) (val : list value) : entries :=
  match fn_addNewVal cms st n path val with Ret r => r | _ => n end.

Lemma run_addNewVal_code_eq cms st : (forall m, cms m = m) ->
  forall n path val, run_addNewVal_code cms st n path val = run_addNewVal n path val.
Proof.
  intros Hc n path val. unfold run_addNewVal_code, run_addNewVal.
  rewrite add_new_val_code_is_model by exact Hc. reflexivity.
Qed.

(* Map.NewMap with the TRANSLATED ValuesForPath and the TRANSLATED addNewVal as callees is the model new_map *)
Theorem new_map_code_is_model_anv : forall pf st mv keypairs (cms : entries -> entries),
  (forall m, cms m = m) ->
  g_fieldSep st <> [] ->
  fn_NewMap (run_ValuesForPath pf st) (run_addNewVal_code cms st) st mv keypairs
  = new_map_ctl (new_map pf (g_fieldSep st) (VMap mv) keypairs).
Proof.
  intros pf st mv keypairs cms Hc H. apply new_map_code_is_model_gen.
  - intros m p. apply run_ValuesForPath_eq. exact H.
  - intros n path oldVal. apply run_addNewVal_code_eq. exact Hc.
Qed.
Print Assumptions new_map_code_is_model_anv.

Corollary new_map_code_no_crash_anv : forall pf st mv keypairs (cms : entries -> entries),
  (forall m, cms m = m) ->
  g_fieldSep st <> [] ->
  fn_NewMap (run_ValuesForPath pf st) (run_addNewVal_code cms st) st mv keypairs <> Crash.
Proof.
  intros pf st mv keypairs cms Hc H. apply (new_map_code_no_crash_gen pf (g_fieldSep st)).
  - intros m p. apply run_ValuesForPath_eq. exact H.
  - intros n path oldVal. apply run_addNewVal_code_eq. exact Hc.
Qed.
Print Assumptions new_map_code_no_crash_anv.

(* ------------------------------------------------------------------ 4. the whole chain translated: well-formedness along NewMap *)

Definition wfv (v : value) : Prop := wfb v = true.

Lemma g32_Forall_filter {A} (P : A -> Prop) f (l : list A) : Forall P l -> Forall P (filter f l).
Proof.
  intros H. apply Forall_forall. intros x Hin. apply filter_In in Hin as [Hin _].
  rewrite Forall_forall in H. apply H. exact Hin.
Qed.

Lemma wf_members l : wfb (VList l) = true -> Forall wfv l.
Proof. rewrite g32_wfb_list, forallb_forall. intros H. apply Forall_forall. exact H. Qed.

Lemma wf_of_members l : Forall wfv l -> wfb (VList l) = true.
Proof. rewrite g32_wfb_list, forallb_forall. intros H. rewrite Forall_forall in H. exact H. Qed.

Lemma wf_entries m : wfb (VMap m) = true -> Forall (fun kv : str * value => wfv (snd kv)) m.
Proof.
  rewrite g32_wfb_map. intros H. apply andb_true_iff in H as [_ H].
  rewrite forallb_forall in H. apply Forall_forall. exact H.
Qed.

(* the values ValuesForPath returns are subtrees of the Map: well-formed when the Map is *)
Lemma vfkp_leaf_wf m sk : wfv m -> Forall wfv (vfkp_leaf m sk).
Proof.
  intros Hw. unfold vfkp_leaf.
  destruct m as [x0|b0| |z0|z0|z0|f0|x0|mm0|l0];
    try (destruct sk; [constructor; [exact Hw|constructor]|constructor]).
  - destruct (has_sub_keys (VMap mm0) sk); [constructor; [exact Hw|constructor]|constructor].
  - apply g32_Forall_filter, wf_members, Hw.
Qed.

Lemma vfkp_wf : forall keys sk m, wfv m -> Forall wfv (vfkp keys sk m).
Proof.
  induction keys as [|key rest IH]; intros sk m Hw; [apply vfkp_leaf_wf, Hw|].
  cbn [vfkp].
  assert (Hmap : forall mm, wfv (VMap mm) -> Forall wfv (flat_map (fun kv : str * value => vfkp rest sk (snd kv)) mm)).
  { intros mm Hm. apply Forall_flat_map. eapply Forall_impl; [|apply wf_entries, Hm].
    intros kv Hkv. apply IH, Hkv. }
  assert (Hlk : forall mm, wfv (VMap mm) ->
            Forall wfv (match lookup key mm with Some v => vfkp rest sk v | None => [] end)).
  { intros mm Hm. destruct (lookup key mm) as [v|] eqn:El; [|constructor].
    apply IH. exact (g32_wfb_lookup _ _ _ Hm El). }
  destruct (str_eqb key star).
  - destruct m as [x0|b0| |z0|z0|z0|f0|x0|mm0|l0]; try constructor.
    + apply Hmap, Hw.
    + apply Forall_flat_map. eapply Forall_impl; [|apply wf_members, Hw].
      intros v Hv. destruct v as [x1|b1| |z1|z1|z1|f1|x1|mm1|l1]; try (apply IH, Hv). apply Hmap, Hv.
  - destruct m as [x0|b0| |z0|z0|z0|f0|x0|mm0|l0]; try constructor.
    + apply Hlk, Hw.
    + apply Forall_flat_map. eapply Forall_impl; [|apply wf_members, Hw].
      intros v Hv. destruct v as [x1|b1| |z1|z1|z1|f1|x1|mm1|l1]; try constructor. apply Hlk, Hv.
Qed.

Lemma nth_z_In {A} (l : list A) z x : nth_z l z = Some x -> In x l.
Proof.
  unfold nth_z. destruct (Z.ltb z (Z.of_nat (length l))); [|discriminate]. apply nth_error_In.
Qed.

Lemma vfa_wf : forall keys m tmp vals, wfv m -> Forall wfv vals -> Forall wfv (vfa keys m tmp vals).
Proof.
  induction keys as [|k rest IH]; intros m tmp vals Hw Hv; [exact Hv|].
  cbn [vfa]. cbv zeta.
  assert (Ho : forall p, Forall wfv (ovfp m p)) by (intros p; apply vfkp_wf, Hw).
  destruct (negb (pk_arr k) && match rest with k2 :: _ => pk_arr k2 | [] => false end).
  - apply Forall_flat_map. eapply Forall_impl; [|apply Ho].
    intros v Hvv. destruct v as [x1|b1| |z1|z1|z1|f1|x1|mm1|l1]; try constructor.
    apply IH; [exact Hvv|constructor].
  - destruct (pk_arr k || match rest with [] => true | _ => false end); [|apply IH; assumption].
    assert (Hn : Forall wfv
              match nth_z (ovfp m (tmp_path tmp (pk_name k))) (pk_pos k) with
              | None => []
              | Some x => match rest with
                          | [] => [x]
                          | _ => match x with VMap _ => vfa rest x None (ovfp m (tmp_path tmp (pk_name k))) | _ => [] end
                          end
              end).
    { destruct (nth_z (ovfp m (tmp_path tmp (pk_name k))) (pk_pos k)) as [x|] eqn:En; [|constructor].
      assert (Hx : wfv x).
      { apply nth_z_In in En. pose proof (Ho (tmp_path tmp (pk_name k))) as H. rewrite Forall_forall in H. apply H, En. }
      destruct rest as [|k2 rest']; [constructor; [exact Hx|constructor]|].
      destruct x as [x1|b1| |z1|z1|z1|f1|x1|mm1|l1]; try constructor.
      apply IH; [exact Hx|apply Ho]. }
    destruct rest as [|k2 rest']; [destruct (pk_arr k); [exact Hn|apply Ho]|exact Hn].
Qed.

Lemma values_for_path_wf pf sep m path sk vs :
  wfv m -> values_for_path pf sep m path sk = Ok vs -> Forall wfv vs.
Proof.
  intros Hw. unfold values_for_path, old_values_for_path.
  destruct (negb (mem_ascii lbr path)).
  - destruct (get_sub_key_map pf sep sk) as [skm|e|]; cbn [bind]; [|discriminate|discriminate].
    intros H. injection H as <-. apply vfkp_wf, Hw.
  - destruct (get_sub_key_map pf sep sk) as [skm|e|]; cbn [bind]; [|discriminate|discriminate].
    destruct (parse_path path) as [ks|e|]; cbn [bind]; [|discriminate|discriminate].
    intros H. injection H as <-. apply g32_Forall_filter. unfold values_for_array.
    apply vfa_wf; [exact Hw|constructor].
Qed.

(* addNewVal keeps the Map well-formed *)
Lemma wf_set k v m : wfv (VMap m) -> wfv v -> wfv (VMap (set k v m)).
Proof. exact (C11P.wf_set k v m). Qed.

Lemma g32_Forall_lset {A} (P : A -> Prop) (l : list A) j x : Forall P l -> P x -> Forall P (lset l j x).
Proof.
  intros H Hx. revert j. induction H as [|h t Hh Ht IH]; intros [|j]; cbn [lset]; constructor; auto.
Qed.

Lemma wf_nil_map : wfv (VMap []).
Proof. reflexivity. Qed.

Lemma anv_step_wf k m : wfv (VMap m) ->
  wfv (VMap (fst (anv_step cms_id k m))) /\
  forall x, wfv (VMap x) -> wfv (VMap (snd (anv_step cms_id k m) x)).
Proof.
  intros Hm. split.
  - refine (proj2 (anv_step_P cms_id (fun m => wfv (VMap m)) wf_nil_map _ _ _ k m Hm)).
    + intros k' m' mm Hm' Hl. exact (g32_wfb_lookup _ _ _ Hm' Hl).
    + intros k' m' l mm Hm' Hl Hin. pose proof (wf_members _ (g32_wfb_lookup _ _ _ Hm' Hl)) as H.
      rewrite Forall_forall in H. apply H, Hin.
    + reflexivity.
  - intros x Hx. unfold anv_step.
    destruct (lookup k m) as [v|] eqn:El; [destruct v as [x0|b0| |z0|z0|z0|f0|x0|mm0|l0]|]; cbn [snd];
      try (apply wf_set; [exact Hm|];
           first [exact Hx
                 |apply wf_of_members; constructor; [exact (g32_wfb_lookup _ _ _ Hm El)|constructor; [exact Hx|constructor]]]).
    pose proof (wf_members _ (g32_wfb_lookup _ _ _ Hm El)) as Hl.
    destruct (lfm_scan cms_id l0) as [[j mm]|]; cbn [snd]; apply wf_set; try exact Hm; apply wf_of_members.
    + apply g32_Forall_lset; assumption.
    + apply Forall_app. split; [exact Hl|constructor; [exact Hx|constructor]].
Qed.

Lemma add_final_wf k nv m : wfv (VMap m) -> wfv nv -> wfv (VMap (add_final k nv m)).
Proof.
  intros Hm Hn. unfold add_final.
  destruct (lookup k m) as [v|] eqn:El; [destruct v as [x0|b0| |z0|z0|z0|f0|x0|mm0|l0]|];
    try (apply wf_set; [exact Hm|];
         first [exact Hn
               |apply wf_of_members; constructor; [exact (g32_wfb_lookup _ _ _ Hm El)|constructor; [exact Hn|constructor]]]).
  apply wf_set; [exact Hm|]. apply wf_of_members, Forall_app. split.
  - apply wf_members. exact (g32_wfb_lookup _ _ _ Hm El).
  - constructor; [exact Hn|constructor].
Qed.

Lemma add_new_val_wf : forall path nv m, wfv (VMap m) -> wfv nv -> wfv (VMap (add_new_val path nv m)).
Proof.
  induction path as [|k rest IH]; intros nv m Hm Hn; [apply add_final_wf; assumption|].
  destruct rest as [|k2 rest']; [apply add_final_wf; assumption|].
  rewrite add_new_val_step. destruct (anv_step_wf k m Hm) as [H1 H2].
  apply H2, IH; assumption.
Qed.

Lemma pack_vals_wf vs : Forall wfv vs -> wfv (pack_vals vs).
Proof.
  intros H. destruct vs as [|x [|y t]]; cbn [pack_vals]; [reflexivity| |apply wf_of_members, H].
  inversion H; assumption.
Qed.

(* ------------------------------------------------------------------ Map.NewMap again, with a callee addNewVal that is the
   model on well-formed Maps and well-formed values only *)

Section NewMapWf.
Variable pf : str -> option flt.
Variable sep : str.
Variable vfp : entries -> str -> list str -> res (list value).
Variable anv : entries -> list str -> list value -> entries.
Hypothesis Hvfp : forall m p, vfp m p [] = values_for_path pf sep (VMap m) p [].
Hypothesis Hanv : forall n path oldVal, wfv (VMap n) -> Forall wfv oldVal ->
  anv n path oldVal = add_new_val path (pack_vals oldVal) n.

Lemma pair_tail_wf mv n o nw n' :
  wfv mv -> wfv (VMap n) -> pair_tail pf sep mv n o nw = Ok n' -> wfv (VMap n').
Proof.
  intros Hmv Hn. unfold pair_tail.
  destruct (mem_ascii "*"%char nw); [discriminate|]. destruct (mem_ascii lbr nw); [discriminate|].
  destruct o as [|o0 o']; [discriminate|]. destruct nw as [|w0 w']; [discriminate|].
  destruct (values_for_path pf sep mv (o0 :: o') []) as [vs|e|] eqn:Ev; cbn [bind]; [|discriminate|discriminate].
  pose proof (values_for_path_wf _ _ _ _ _ _ Hmv Ev) as Hvs.
  destruct vs as [|x vs]; intros H; injection H as <-; [exact Hn|].
  apply add_new_val_wf; [exact Hn|exact (pack_vals_wf (x :: vs) Hvs)].
Qed.

Lemma new_map_pair_wf mv n v n' :
  wfv mv -> wfv (VMap n) -> new_map_pair pf sep mv n v = Ok n' -> wfv (VMap n').
Proof.
  intros Hmv Hn. rewrite new_map_pair_split.
  destruct v as [|a v]; [intros H; injection H as <-; exact Hn|].
  destruct (split1 colon (a :: v)) as [|o [|nw [|x t]]]; try (apply pair_tail_wf; assumption). discriminate.
Qed.

Lemma new_map_loop_wf mv (body : NMState -> str -> ctl NMState NMRes) :
  wfv mv ->
  (forall a b c n v, wfv (VMap n) -> step_ok n (body (a, b, c, n) v) (new_map_pair pf sep mv n v)) ->
  forall pairs a b c n, wfv (VMap n) ->
    bindc (S := NMState) (S' := unit) (range_loop body pairs (a, b, c, n))
          (fun '(_, _, _, l_n) => Ret (l_n, None))
    = new_map_ctl (new_map_pairs pf sep mv n pairs).
Proof.
  intros Hmv Hb. induction pairs as [|v pairs IH]; intros a b c n Hn; [reflexivity|].
  cbn [range_loop new_map_pairs]. specialize (Hb a b c n v Hn). unfold step_ok in Hb.
  pose proof (new_map_pair_wf mv n v) as Hw.
  destruct (new_map_pair pf sep mv n v) as [n'|e|].
  - destruct Hb as (a' & b' & c' & Hb). rewrite Hb. apply IH. apply Hw; [exact Hmv|exact Hn|reflexivity].
  - rewrite Hb. reflexivity.
  - rewrite Hb. reflexivity.
Qed.

Theorem new_map_code_is_model_wf_sec : forall st mv keypairs,
  wfv (VMap mv) ->
  fn_NewMap vfp anv st mv keypairs = new_map_ctl (new_map pf sep (VMap mv) keypairs).
Proof.
  intros st mv keypairs Hmv. unfold fn_NewMap, new_map. cbv zeta.
  destruct keypairs as [|kp0 kps]; [reflexivity|].
  rewrite len0_cons. cbn [bindc].
  match goal with |- context [range_loop ?f _ _] => rewrite (new_map_loop_wf (VMap mv) f Hmv) end;
    [reflexivity| |reflexivity].
  clear kp0 kps. intros a b c n v Hn. cbv zeta.
  rewrite new_map_pair_split.
  destruct v as [|c0 v0]; [cbn; exists a, b, c; reflexivity|].
  rewrite len0_cons.
  remember (c0 :: v0) as v eqn:Ev. clear Ev c0 v0.
  change (s ":") with [colon]. rewrite go_split_single.
  pose proof (split1_nonempty colon v) as Hne.
  assert (Htail : forall o nw,
    step_ok n
      (let l_i : Z := go_index nw (s "*") in
       bindc (S := unit) (if Z.gtb l_i (-1) then Ret (n, Some EOther) else Next tt)
       (fun _ => let l_i_1 : Z := go_index nw (s "[") in
       bindc (S := unit) (if Z.gtb l_i_1 (-1) then Ret (n, Some EOther) else Next tt)
       (fun _ => bindc (S := unit) (if str_eqb o [] then Ret (n, Some EOther)
                                    else if str_eqb nw [] then Ret (n, Some EOther) else Next tt)
       (fun _ => match vfp mv o ([] : list str) with
                 | Panic => Crash
                 | rr5 => let '(l_oldVal, l_err) := match rr5 with
                                                    | Ok v => (v, None)
                                                    | Err e => (([] : list value), Some e)
                                                    | Panic => (([] : list value), None) end in
                   bindc (S := unit) (if negb (match l_err with None => true | Some _ => false end)
                                      then Ret (n, l_err) else Next tt)
                   (fun _ => if Z.eqb (Z.of_nat (length l_oldVal)) 0 then Next (o, nw, c, n)
                             else let l_path := go_split nw (s ".") in
                               bindc (S := list str)
                                 (match nth_error l_path (length l_path - 1) with
                                  | None => Crash
                                  | Some idx6 => if str_eqb idx6 []
                                                 then (if Nat.ltb (length l_path) 1 then Crash
                                                       else let l_path := removelast l_path in Next l_path)
                                                 else Next l_path end)
                                 (fun l_path => let l_n := anv n l_path l_oldVal in Next (o, nw, l_path, l_n)))
                 end))) : ctl NMState NMRes)
      (pair_tail pf sep (VMap mv) n o nw)).
  { intros o nw. cbv zeta. unfold pair_tail.
    change (s "*") with ["*"%char]. change (s "[") with [lbr]. rewrite !go_index_gt.
    destruct (mem_ascii "*"%char nw); [reflexivity|]. cbn [bindc].
    destruct (mem_ascii lbr nw); [reflexivity|]. cbn [bindc].
    destruct o as [|o0 o']; [reflexivity|].
    destruct nw as [|w0 w']; [reflexivity|].
    cbn [str_eqb bindc]. rewrite Hvfp.
    remember (o0 :: o') as o eqn:Eo. remember (w0 :: w') as nw eqn:Enw.
    destruct (values_for_path pf sep (VMap mv) o []) as [vs|e|] eqn:Evs; cbn [bind step_ok negb bindc]; [|reflexivity|reflexivity].
    pose proof (values_for_path_wf _ _ _ _ _ _ Hmv Evs) as Hvs.
    destruct vs as [|x vs]; [exists o, nw, c; reflexivity|].
    rewrite len0_cons. change (s ".") with [dot]. rewrite go_split_single.
    pose proof (split1_nonempty dot nw) as Hp.
    rewrite (nth_error_last (A:=str) _ [dot]) by exact Hp.
    destruct (last (split1 dot nw) [dot]) as [|l0 l'].
    - cbn [str_eqb]. rewrite ltb_len1 by exact Hp. cbn [bindc]. rewrite Hanv by assumption.
      exists o, nw, (removelast (split1 dot nw)). reflexivity.
    - cbn [str_eqb bindc]. rewrite Hanv by assumption. exists o, nw, (split1 dot nw). reflexivity. }
  destruct (split1 colon v) as [|o [|nw [|x t]]]; [congruence| | |].
  - cbn [length Z.of_nat Pos.of_succ_nat Z.gtb Z.compare Pos.compare Pos.compare_cont Z.eqb Pos.eqb bindc nth_error].
    apply Htail.
  - cbn [length Z.of_nat Pos.of_succ_nat Pos.succ Z.gtb Z.compare Pos.compare Pos.compare_cont Z.eqb Pos.eqb bindc nth_error].
    apply Htail.
  - rewrite len_gt2. reflexivity.
Qed.

End NewMapWf.

(* 4. Map.NewMap with EVERY callee translated - ValuesForPath, addNewVal and, below it, copyMapShallow - is the model
   new_map, on a receiver whose maps have distinct keys (every Go map does) *)
Definition run_addNewVal_full (st : gstate) : entries -> list str -> list value -> entries :=
  run_addNewVal_code (run_copyMapShallow st) st.

Theorem new_map_code_is_model_full : forall pf st mv keypairs,
  g_fieldSep st <> [] ->
  wfb (VMap mv) = true ->
  fn_NewMap (run_ValuesForPath pf st) (run_addNewVal_full st) st mv keypairs
  = new_map_ctl (new_map pf (g_fieldSep st) (VMap mv) keypairs).
Proof.
  intros pf st mv keypairs H Hw. apply new_map_code_is_model_wf_sec; [| |exact Hw].
  - intros m p. apply run_ValuesForPath_eq. exact H.
  - intros n path oldVal Hn Hv. unfold run_addNewVal_full, run_addNewVal_code.
    rewrite add_new_val_code_is_model_wf by exact Hn. reflexivity.
Qed.
Print Assumptions new_map_code_is_model_full.

Corollary new_map_code_no_crash_full : forall pf st mv keypairs,
  g_fieldSep st <> [] ->
  wfb (VMap mv) = true ->
  fn_NewMap (run_ValuesForPath pf st) (run_addNewVal_full st) st mv keypairs <> Crash.
Proof.
  intros pf st mv keypairs H Hw. rewrite new_map_code_is_model_full by assumption.
  pose proof (new_map_no_panic pf (g_fieldSep st) (VMap mv) keypairs) as Hn.
  destruct (new_map pf (g_fieldSep st) (VMap mv) keypairs) as [n [u|e|]]; cbn [new_map_ctl snd] in *;
    [discriminate|discriminate|congruence].
Qed.
Print Assumptions new_map_code_no_crash_full.

(* the result stays well-formed *)
Theorem new_map_wf : forall pf sep mv pairs,
  wfb mv = true -> wfb (VMap (fst (new_map pf sep mv pairs))) = true.
Proof.
  intros pf sep mv pairs Hmv. unfold new_map.
  assert (H : forall n, wfv (VMap n) -> wfv (VMap (fst (new_map_pairs pf sep mv n pairs)))).
  { induction pairs as [|v pairs IH]; intros n Hn; [exact Hn|]. cbn [new_map_pairs].
    pose proof (new_map_pair_wf pf sep mv n v) as Hw.
    destruct (new_map_pair pf sep mv n v) as [n'|e|]; [|exact Hn|exact Hn].
    apply IH. apply Hw; [exact Hmv|exact Hn|reflexivity]. }
  apply H. reflexivity.
Qed.
Print Assumptions new_map_wf.

(* ------------------------------------------------------------------ non-vacuity: the translated code run on concrete inputs *)

Definition g32_n : entries :=
  [(s "a", VList [VInt 1; VMap [(s "b", VInt 2)]; VMap [(s "b", VInt 3)]]); (s "z", VMap [(s "y", VNil)])].

Example add_new_val_code_run :
  fn_addNewVal (run_copyMapShallow gstate0) gstate0 g32_n [s "a"; s "b"; s "c"] [VInt 7]
  = Ret [(s "a", VList [VInt 1; VMap [(s "b", VList [VInt 2; VMap [(s "c", VInt 7)]])]; VMap [(s "b", VInt 3)]]);
         (s "z", VMap [(s "y", VNil)])].
Proof. vm_compute. reflexivity. Qed.

Example g32_n_wf : wfb (VMap g32_n) = true.
Proof. vm_compute. reflexivity. Qed.

Example g30_mv_wf : wfb (VMap g30_mv) = true.
Proof. vm_compute. reflexivity. Qed.

Example new_map_code_full_run :
  fn_NewMap (run_ValuesForPath (fun _ => None) gstate0) (run_addNewVal_full gstate0) gstate0 g30_mv
            [s "a.b:x"; s ""; s "a.c:x"; s "d:x.y."; s "zz:q"]
  = Ret ([(s "x", VList [VStr (s "1"); VList [VStr (s "x"); VStr (s "y")]; VMap [(s "y", VStr (s "2"))]])], None).
Proof. vm_compute. reflexivity. Qed.

(* the distinct-keys hypothesis of 2c is needed: on an association list that is not a Go map (a key twice) the translated
   copyMapShallow merges the two entries, the model (which copies nothing) keeps both *)
Example add_new_val_code_wf_needed :
  let n := [(s "a", VMap [(s "b", VInt 1); (s "b", VInt 2)])] in
  fn_addNewVal (run_copyMapShallow gstate0) gstate0 n [s "a"; s "c"] [VInt 7]
    = Ret [(s "a", VMap [(s "b", VInt 2); (s "c", VInt 7)])]
  /\ add_new_val [s "a"; s "c"] (VInt 7) n = [(s "a", VMap [(s "b", VInt 1); (s "b", VInt 2); (s "c", VInt 7)])]
  /\ wfb (VMap n) = false.
Proof. vm_compute. repeat split. Qed.
